"""C13 - memory safety, work bound (integer facts) (contract-expressible part, see DESIGN.md section 3)."""
from props import skelgroups as SG

PROP = "C13"
FAMILIES = ["herm", "gen"]


def build(tier):
    report = {}
    groups = SG.select(PROP, FAMILIES, report)
    from props import kernels
    krep = {}
    groups += kernels.hessqr_shape_groups(krep) + kernels.hessqr_groups(tier, krep) + kernels.dsqr_groups(tier, krep) + kernels.bkldlt_groups(tier, krep) + kernels.tridiagqr_groups(krep) + kernels.eigen_groups(tier, krep)
    # index safety / termination of the dense eigen-decompositions the solvers call on H (groups shared with C09)
    from props import C09
    have = set(g.name for g in groups)
    groups += [g for g in C09.build(tier)[0] if g.name.split(".")[0] in ("tridiag", "schur", "hesseigen") and g.name not in have]
    report["kernels"] = krep
    meta = {"level": "proof", "trusted_base": SG.TRUSTED, "assumptions": SG.ASSUMPTIONS, "extraction": report,
            "not_covered": ['NaN-freedom of the Eigen-expression arithmetic as a whole', 'raw-pointer dense kernels beyond the bounded sizes listed (C08/C09/C10 groups)', 'formation of out-of-range pointers that are neither dereferenced nor compared (CBMC generates no obligation for it)'],
            "explanation": "CBMC bounds/pointer checks on arrays allocated with exactly the Eigen size are Eigen's index assertions"}
    return groups, meta


def replay(g, o, assigns, path):
    """Skeleton counterexamples are paths, not inputs: the replay searches the structured family of real inputs/histories of
    replay_src/solver_replay.cpp (mode 'safety') on the REAL solvers."""
    from vlib import replay as RP
    r = RP.run_native(PROP, RP.src("solver_replay.cpp"), args=["safety"], timeout=900)
    if not r.get("reproduced"):
        r2 = RP.run_native(PROP, RP.src("C13_restart_oob_replay.cpp"), timeout=900, name="replay2")
        if r2.get("reproduced"):
            return r2
        r3 = RP.run_native(PROP, RP.src("solver_replay.cpp"), args=["counts"], timeout=900, name="replay3")
        if r3.get("reproduced"):
            return r3
    return r


MANIFEST = {
    "category": "proof",
    "text": "Unbounded proof for the integer/pointer facts: every index expression in the extracted skeletons (Ritz arrays, matrix coefficients, column/block selectors) is inside the Eigen shape established by init(); the operator is always handed valid, distinct, length-n buffers; restart size in [nev, ncv-1]; operator applications are paid by an additive budget: <= 2 per added basis column, one factorization call per restart plus the first, <= maxit restarts (the closed form 2+2*ncv*(maxit+1) is that sum bounded term-wise). The statement's own work bound is a postcondition of compute(): applications <= a ghost sum adding 2*ncv once per factorization call (= 2*ncv*(restarts+1)), restarts <= maxit, init() exactly 2. Shares the dense-kernel groups of C08 / C09 / C10: unbounded index safety of the QR helpers, the Schur / tridiagonal eigen-solvers, the Householder kernels (incl. SIMD peeling) and BKLDLT on cursor models of their raw-pointer walks; the real flattened address arithmetic of those kernels is bounded at concrete n. Third session: division-site obligation in Lanczos / Arnoldi factorize_from - the new basis vector f/||f|| is formed with a strictly positive norm unless every restart attempt failed the orthogonality test.",
    "note": 'floating-point values of Eigen expressions are havocked (lossy extraction, every abstracted statement listed in the evidence); callee contracts are generated stubs sharing clause texts with the enforcing harness; std::sort/Eigen/operator contracts assumed; Skolem instantiation meta-rule',
    "technique": "CBMC dfcc frame contracts + loop contracts + harness-asserted postconditions on mechanically extracted C (cadical)",
}
