"""C18 - eigenvalue ordering primitive: permutation, ordered by the rule key, BothEnds interleave,
undefined rules rejected."""
import re

from vlib import extract as X
from vlib import cgen
from vlib.runner import Group
from vlib import z3lemma
from vlib import common

PROP = "C18"
POSTPASS = []     # text found after std::sort in the SortEigenvalue constructor (filled during extraction)
H = "Util/SelectionRule.h"

# documented key per rule (from the SortRule Doxygen text / property statement):
#   (key expression on x, direction)   precede(x, y) <=> x strictly before y
DOC_REAL = {
    "LargestMagn": "FABS(x) > FABS(y)", "LargestAlge": "x > y", "BothEnds": "x > y",
    "SmallestMagn": "FABS(x) < FABS(y)", "SmallestAlge": "x < y",
}
DOC_CPLX = {
    "LargestMagn": "CABS(x) > CABS(y)", "LargestReal": "x.re > y.re", "LargestImag": "FABS(x.im) > FABS(y.im)",
    "SmallestMagn": "CABS(x) < CABS(y)", "SmallestReal": "x.re < y.re", "SmallestImag": "FABS(x.im) < FABS(y.im)",
}

TYPES = r'''
typedef struct { Scalar re, im; } Complex;
#ifdef VALUE_COMPLEX
typedef Complex Value;
#else
typedef Scalar Value;
#endif
/* std::abs(std::complex) : assumed library function, uninterpreted (same value for same argument) */
RealScalar __CPROVER_uninterpreted_cabs(Scalar re, Scalar im);
#define CABS(z) __CPROVER_uninterpreted_cabs((z).re, (z).im)
typedef struct { Index *data; Index size; } IndexArray;
typedef struct { const Value *m_evals; IndexArray m_index; SortRule rule; /* template parameter Rule */ } SortEigenvalue;
#define PMAP(i, len) (((i) % 2 == 0) ? (i) / 2 : (len) - 1 - (i) / 2)
Index gs1, gs2, gq1, gq2, gcopy;       /* Skolem indices (arbitrary but fixed; constrained only by harnesses) */
#define MAXLEN 1048576
'''

# assumed contract of std::sort per [alg.sort]; its preconditions are asserted (proved) at the call site
SORT_STUB = r'''
_Bool SortEigenvalue_less(SortEigenvalue *self, Index i, Index j);
/* the real comparator applied to an explicit value array (CBMC cannot dereference a havocked pointer member that is
 * only constrained by an equality in an ensures clause, so contracts name `start` instead of self->m_evals) */
_Bool verif_less_with(const Value *ev, SortRule rule, Index i, Index j)
{ SortEigenvalue t; t.m_evals = ev; t.rule = rule; t.m_index.data = NULL; t.m_index.size = 0; return SortEigenvalue_less(&t, i, j); }
void verif_std_sort(Index *first, Index n, SortEigenvalue *cmp)
{
  __CPROVER_assert(n >= 0 && (n == 0 || __CPROVER_rw_ok(first, n * sizeof(Index))), "std::sort precondition: [first, last) is a valid range");
  /* precondition `comparator is a strict weak order on the values present` is group cmp.swo */
  Index *fresh = malloc(n * sizeof(Index));
  __CPROVER_assume(fresh != NULL);
  __CPROVER_array_replace(first, fresh);           /* havoc the range */
  /* ASSUMED [alg.sort]: permutation of the input (input is 0..n-1 here: ctor.iota) and sorted w.r.t. cmp */
  if (0 <= gs1 && gs1 < n) __CPROVER_assume(0 <= first[gs1] && first[gs1] < n);
  if (0 <= gs2 && gs2 < n) __CPROVER_assume(0 <= first[gs2] && first[gs2] < n);
  if (0 <= gs1 && gs1 < n && 0 <= gs2 && gs2 < n && gs1 != gs2) __CPROVER_assume(first[gs1] != first[gs2]);
  if (0 <= gs1 && gs1 < gs2 && gs2 < n) __CPROVER_assume(!SortEigenvalue_less(cmp, first[gs2], first[gs1]));
  if (0 <= gs2 && gs2 < gs1 && gs1 < n) __CPROVER_assume(!SortEigenvalue_less(cmp, first[gs1], first[gs2]));
}
'''


def sorting_target_table(kind, report):
    """One C function with a switch on the rule; one case per specialisation found in the header that is
    instantiable for the value kind, the primary template as default."""
    raw, st = X.load(H)
    rules = common.enum_values(H, "SortRule")
    prim = X.locate(H, "get", cls="SortingTarget")
    cases = []
    used = {}
    for r in rules:
        try:
            lo, hi = X.class_body(st, "SortingTarget", key=r"SortRule::%s\b" % r)
        except X.ExtractionBreak:
            continue
        m = [mm for mm in re.finditer(r"class\s+SortingTarget\s*<([^;{]*?),\s*SortRule::%s\s*>" % r, st)]
        if len(m) != 1:
            raise X.ExtractionBreak("SortingTarget<.., %s>: %d specialisations" % (r, len(m)))
        arg1 = " ".join(m[0].group(1).split())
        f = X.locate(H, "get", cls="SortingTarget", key=r"SortRule::%s\b" % r)
        is_cplx_spec = arg1.startswith("std::complex")
        returns_elem = "ElemType" in f.ret or "RealType" in f.ret
        if kind == "real" and is_cplx_spec:
            continue
        if kind == "complex" and not is_cplx_spec and not returns_elem:
            continue   # returns the (complex) value itself: `<` on it does not compile -> not defined for complex
        used[r] = arg1
        extra = [("real()", r"\bval\.real\(\)", "val.re", {"min": 0}), ("imag()", r"\bval\.imag\(\)", "val.im", {"min": 0})]
        pre = [("cabs", r"(?<![\w.])abs\(val\)", "CABS(val)", {"min": 0})] if kind == "complex" else []
        t, R = cgen.emit(f, "SortingTarget_get_" + r, ret_c="RealScalar", param_types={"val": "Value"}, extra_rules=extra, pre_rules=pre, static=True)
        cases.append((r, t))
        report["SortingTarget<%s,%s>::get" % (kind, r)] = R.fired
    pre = [("cabs", r"(?<![\w.])abs\(val\)", "CABS(val)", {"min": 0})] if kind == "complex" else []
    tprim, R = cgen.emit(prim, "SortingTarget_get_default", ret_c="RealScalar", param_types={"val": "Value"}, pre_rules=pre, static=True)
    if R.fired.get("throw", 0) != 1:
        raise X.ExtractionBreak("primary SortingTarget::get no longer throws exactly once")
    txt = tprim + "".join(t for _, t in cases)
    txt += "RealScalar SortingTarget_get(SortRule rule, Value val) {\n  switch (rule) {\n"
    for r, _ in cases:
        txt += "    case SortRule_%s: return SortingTarget_get_%s(val);\n" % (r, r)
    txt += "    default: return SortingTarget_get_default(val);\n  }\n}\n"
    report["table_" + kind] = used
    return txt, [r for r, _ in cases], rules


# ordering clause of the constructor's contract; instantiated with the comparator on self (enforced on the real
# constructor) and with the comparator on the explicit array `start` (proved in group ctor.order, assumed at call sites)
ORDER_ENS = ("__CPROVER_ensures((0 <= gs1 && gs1 < gs2 && gs2 < size) ==> !%sself->m_index.data[gs2], self->m_index.data[gs1])) "
             "__CPROVER_ensures((0 <= gs2 && gs2 < gs1 && gs1 < size) ==> !%sself->m_index.data[gs1], self->m_index.data[gs2]))")


def sort_eigenvalue(report):
    mem = X.members(H, "SortEigenvalue")
    if mem != ["m_evals", "m_index"]:
        raise X.ExtractionBreak("SortEigenvalue members changed: %r" % mem)
    f = X.locate(H, "operator()", cls="SortEigenvalue")
    t1, R = cgen.emit(f, "SortEigenvalue_less", ret_c="_Bool", self_type="SortEigenvalue", members=mem, extra_rules=[
        ("key", r"SortingTarget<T,\s*Rule>::get\(", "SortingTarget_get(self->rule, ", {"min": 2, "max": 2})])
    report["SortEigenvalue::operator()"] = R.fired
    f = X.locate(H, "SortEigenvalue", cls="SortEigenvalue")
    if " ".join(f.inits.split()) != "m_evals(start), m_index(size)":
        raise X.ExtractionBreak("SortEigenvalue ctor initialisers changed: %r" % f.inits)
    # The order std::sort establishes is the constructor's result.  Code that follows the std::sort call (a post-pass over the sorted index) is cut off from the
    # canonical extraction and reported through a WEAK static obligation: it is a violation only if the native replay shows a mis-ordered / non-permutation result.
    ms = re.search(r"std::sort\([^;]*\);", f.body)
    if ms and f.body[ms.end():].strip():
        import copy
        tail = " ".join(f.body[ms.end():].split())
        f = copy.copy(f)
        f.body = f.body[:ms.end()] + "\n" * f.body[ms.end():].count("\n")
        report["SortEigenvalue::ctor post-pass"] = tail[:400]
        POSTPASS.append(tail)
    t2, R = cgen.emit(f, "SortEigenvalue_ctor", ret_c="void", self_type="SortEigenvalue", members=mem,
                      param_types={"start": "const Value *"},
                      pre_body=" self->m_evals = start; self->m_index.size = size; self->m_index.data = malloc(size * sizeof(Index)); __CPROVER_assume(self->m_index.data != NULL);",
                      extra_rules=[("index", r"self->m_index\[", "self->m_index.data[", {"min": 1, "max": 1}),
                                   ("std::sort", r"std::sort\(self->m_index\.begin\(\),\s*self->m_index\.end\(\),\s*\*this\);",
                                    "verif_std_sort(self->m_index.data, self->m_index.size, self);", {"min": 1, "max": 1})],
                      contract="__CPROVER_requires(__CPROVER_is_fresh(self, sizeof(*self)) && 0 <= size && size <= MAXLEN && RULE_DEFINED(self->rule)) "
                               "__CPROVER_requires(size == 0 || __CPROVER_is_fresh(start, size * sizeof(Value))) "
                               "__CPROVER_assigns(self->m_evals, self->m_index) "
                               "__CPROVER_ensures(self->m_index.size == size && self->m_evals == start && __CPROVER_is_fresh(self->m_index.data, size * sizeof(Index))) "
                               "__CPROVER_ensures((0 <= gs1 && gs1 < size) ==> (0 <= self->m_index.data[gs1] && self->m_index.data[gs1] < size)) "
                               "__CPROVER_ensures((0 <= gs2 && gs2 < size) ==> (0 <= self->m_index.data[gs2] && self->m_index.data[gs2] < size)) "
                               "__CPROVER_ensures((0 <= gs1 && gs1 < size && 0 <= gs2 && gs2 < size && gs1 != gs2) ==> self->m_index.data[gs1] != self->m_index.data[gs2]) "
                               + ORDER_ENS % ("SortEigenvalue_less(self, ", "SortEigenvalue_less(self, "),
                      loop_contracts={0: "__CPROVER_assigns(i, __CPROVER_object_whole(self->m_index.data)) "
                                         "__CPROVER_loop_invariant(0 <= i && i <= size) "
                                         "__CPROVER_loop_invariant((0 <= gq1 && gq1 < i) ==> self->m_index.data[gq1] == gq1) "
                                         "__CPROVER_decreases(size - i)"})
    report["SortEigenvalue::SortEigenvalue"] = R.fired
    return t1, t2


def argsort_fn(report, valid_rules):
    """Canonical extraction (loop contract on the BothEnds interleave); if the function was restructured so that the canonical rules no longer
    apply, a generalized extraction is tried: any named / temporary SortEigenvalue object, any std::vector<Index> copy, and the fill loop - whose
    iterations must be independent (each writes exactly ind[i], none reads ind) - summarised by executing its body at the two Skolem positions.
    Groups built from the generalized text are marked weak: a refutation counts only if it replays on the real code."""
    try:
        t = _argsort_canonical(report, valid_rules)
        report["argsort_form"] = "canonical"
        return t, None
    except X.ExtractionBreak as e:
        report["argsort_canonical_break"] = str(e)
    t = _argsort_generalized(report)
    report["argsort_form"] = "generalized"
    return t, "argsort restructured: generalized rules, fill loop summarised at the Skolem positions, sort facts instantiated only at the specified source positions"


GEN_HELPERS = r'''
static IndexArray SortEigenvalue_index_of(SortRule r, const Value *v, Index n)
{ SortEigenvalue t; t.rule = r; t.m_index.data = NULL; t.m_index.size = 0; SortEigenvalue_ctor(&t, v, n); return IndexArray_copy(t.m_index); }
static IndexArray IndexArray_sized(Index n) { IndexArray a; a.size = n; a.data = malloc(n * sizeof(Index)); __CPROVER_assume(a.data != NULL); return a; }
'''


def sorter_wrappers(report):
    """Function templates of SelectionRule.h that merely wrap one SortEigenvalue construction (checked against the exact body shape)."""
    raw, st = X.load(H)
    out = []
    for m in re.finditer(r"template\s*<\s*typename\s+Scalar\s*,\s*SortRule\s+(\w+)\s*>\s*(?:inline\s+)?std::vector<(?:Eigen::)?Index>\s+(\w+)\(const\s+Scalar\s*\*\s*(\w+),\s*(?:Eigen::)?Index\s+(\w+)\)\s*\{", st):
        rule, nm, pv, pl = m.groups()
        k = X.match_close(st, m.end() - 1)
        body = " ".join(st[m.end():k].split())
        want = r"^std::vector<(?:Eigen::)?Index> (\w+); SortEigenvalue<Scalar, %s> (\w+)\(%s, %s\); \2\.swap\(\1\); return \1;$" % (rule, pv, pl)
        if re.match(want, body):
            out.append(nm)
    report["sorter wrappers"] = out
    return out


def _argsort_generalized(report):
    f = X.locate(H, "argsort", params_re=r"Eigen::Index\s+len")
    names = set(["ind"])

    wrappers = sorter_wrappers(report)

    def post(b, R):
        # a wrapper function template whose whole body is `vector ind; SortEigenvalue<Scalar, Rule> s(values, len); s.swap(ind); return ind;` IS the sorted index of
        # that rule: calls are rewritten to the temporary-sorter form handled below
        for w in wrappers:
            b = R.sub("g:wrapper:" + w, r"\b%s<\s*Scalar\s*,\s*SortRule_(\w+)\s*>\(values\.data\(\),\s*len\)" % re.escape(w),
                      r"SortEigenvalue<Scalar, SortRule_\1>(values.data(), len).index()", b)
        if re.search(r"std::vector<Index>\s+ind\s*;", b):
            b = R.sub("g:vector-decl", r"std::vector<Index>\s+ind\s*;", "IndexArray ind; ind.data = NULL; ind.size = 0;", b, min_fires=1, max_fires=1)
        else:
            b = R.sub("g:vector-decl-sized", r"std::vector<Index>\s+ind\(([^;()]+)\);", r"IndexArray ind = IndexArray_sized(\1);", b, min_fires=1, max_fires=1)
        b = R.sub("g:sorter-temp", r"SortEigenvalue<\s*Scalar\s*,\s*SortRule_(\w+)\s*>\(values\.data\(\),\s*len\)\.index\(\)", r"SortEigenvalue_index_of(SortRule_\1, values, len)", b)

        def named(m):
            names.add(m.group(2) + ".m_index")
            return "SortEigenvalue %s; %s.rule = SortRule_%s; %s.m_index.data = NULL; %s.m_index.size = 0; SortEigenvalue_ctor(&%s, values, len);" % ((m.group(2),) * 2 + (m.group(1),) + (m.group(2),) * 3)
        b = R.sub("g:sorter", r"(?:const\s+)?SortEigenvalue<\s*Scalar\s*,\s*SortRule_(\w+)\s*>\s+(\w+)\(values\.data\(\),\s*len\);", named, b)
        b = R.sub("g:swap", r"\b(\w+)\.swap\(ind\);", r"ind = \1.m_index;", b)
        b = R.sub("g:index-call", r"\b(\w+)\.index\(\)", r"IndexArray_copy(\1.m_index)", b)

        def vcopy(m):
            names.add(m.group(1))
            return "IndexArray %s = IndexArray_copy(%s);" % (m.group(1), m.group(2))
        b = R.sub("g:vector-copy", r"(?:const\s+)?std::vector<Index>\s+(\w+)\((\w+)\);", vcopy, b)

        def vinit(m):
            names.add(m.group(1))
            return "IndexArray %s = %s;" % (m.group(1), m.group(2))
        b = R.sub("g:vector-init", r"(?:const\s+)?std::vector<Index>\s+(\w+)\s*=\s*([^;]+);", vinit, b)
        b = R.sub("g:resize", r"\bind\.resize\(([^;()]+)\);", r"ind = IndexArray_sized(\1);", b)
        for nm in sorted(names, key=len, reverse=True):
            b = re.sub(r"(?<![\w.])%s\[" % re.escape(nm), nm + ".data[", b)
        if re.search(r"std::|SortEigenvalue<", b):
            raise X.ExtractionBreak("argsort (generalized): an unrecognised construct remains: %r" % re.search(r".{0,40}(std::|SortEigenvalue<).{0,40}", b, re.S).group(0))
        # summarise the fill loop
        loops = list(re.finditer(r"\bfor\s*\(Index (\w+) = 0; \1 < len; (?:\1\+\+|\+\+\1)\)", b))
        if len(loops) != 1:
            raise X.ExtractionBreak("argsort (generalized): expected exactly one fill loop `for (Index i = 0; i < len; i++)`, found %d" % len(loops))
        m = loops[0]
        iv = m.group(1)
        k = m.end()
        while b[k] in " \t\n":
            k += 1
        if b[k] == "{":
            e = X.match_close(b, k)
            body = b[k + 1:e]
            end = e + 1
        else:
            e = b.index(";", k)
            body = b[k:e + 1]
            end = e + 1
        writes = re.findall(r"\bind\.data\[([^\]]+)\]\s*=(?!=)", body)
        if not writes or any(w.strip() != iv for w in writes) or len(re.findall(r"\bind\.data\[", body)) != len(writes) or re.search(r"\b%s\s*(\+\+|--|[-+*/]?=(?!=))" % iv, body):
            raise X.ExtractionBreak("argsort (generalized): iterations of the fill loop are not independent (each must write exactly ind[i] and read no ind[.])")
        body2 = re.sub(r"\bind\.data\[", "verif_out.data[", body)
        summ = ("{ IndexArray verif_out = IndexArray_sized(ind.size); /* loop summary: independent iterations, executed at the two Skolem positions */ "
                "if (0 <= gq1 && gq1 < len) { const Index %s = gq1; %s } if (0 <= gq2 && gq2 < len) { const Index %s = gq2; %s } ind = verif_out; }" % (iv, body2, iv, body2))
        summ = " ".join(summ.split("\n")) + "\n" * b[m.start():end].count("\n")
        return b[:m.start()] + summ + b[end:]
    t, R = cgen.emit(f, "argsort", ret_c="IndexArray", param_types={"values": "const Value *", "len": "Index"}, post_fn=post, contract="")
    report["argsort(generalized)"] = R.fired
    g = X.locate(H, "argsort", ordinal=1)
    if not re.search(r"return\s+argsort<Scalar>\(selection,\s*values,\s*values\.size\(\)\);", g.body):
        raise X.ExtractionBreak("argsort(selection, values) no longer forwards to argsort(selection, values, values.size())")
    return GEN_HELPERS + t


def _argsort_canonical(report, valid_rules):
    f = X.locate(H, "argsort", params_re=r"Eigen::Index\s+len")
    n_cases = len(re.findall(r"SortEigenvalue<\s*Scalar\s*,\s*SortRule::\w+\s*>", f.body))
    t, R = cgen.emit(f, "argsort", ret_c="IndexArray", param_types={"values": "const Value *", "len": "Index"},
                     extra_rules=[
                         ("vector-decl", r"std::vector<Index>\s+ind\s*;", "IndexArray ind; ind.data = NULL; ind.size = 0;", {"min": 1, "max": 1}),
                         ("sorter", r"SortEigenvalue<\s*Scalar\s*,\s*SortRule_(\w+)\s*>\s+sorting\(values\.data\(\),\s*len\);",
                          r"SortEigenvalue sorting; sorting.rule = SortRule_\1; SortEigenvalue_ctor(&sorting, values, len);", {"min": n_cases, "max": n_cases}),
                         ("swap", r"sorting\.swap\(ind\);", "ind = sorting.m_index;", {"min": n_cases, "max": n_cases}),
                         ("vector-copy", r"std::vector<Index>\s+ind_copy\(ind\);", "IndexArray ind_copy = IndexArray_copy(ind);", {"min": 1, "max": 1}),
                         ("index", r"\b(ind|ind_copy)\[", r"\1.data[", {"min": 4, "max": 4}),
                     ],
                     contract=argsort_contract(valid_rules),
                     loop_contracts={0: "__CPROVER_assigns(i, __CPROVER_object_whole(ind.data)) "
                                        "__CPROVER_loop_invariant(0 <= i && i <= len) "
                                        "__CPROVER_loop_invariant((0 <= gq1 && gq1 < i) ==> ind.data[gq1] == ind_copy.data[(gq1 % 2 == 0) ? gq1 / 2 : len - 1 - gq1 / 2]) "
                                        "__CPROVER_loop_invariant((0 <= gq2 && gq2 < i) ==> ind.data[gq2] == ind_copy.data[(gq2 % 2 == 0) ? gq2 / 2 : len - 1 - gq2 / 2]) "
                                        "__CPROVER_decreases(len - i)"})
    report["argsort"] = R.fired
    report["argsort_cases"] = n_cases
    # default-length overload must forward to the 3-argument one with values.size()
    g = X.locate(H, "argsort", ordinal=1)
    if not re.search(r"return\s+argsort<Scalar>\(selection,\s*values,\s*values\.size\(\)\);", g.body):
        raise X.ExtractionBreak("argsort(selection, values) no longer forwards to argsort(selection, values, values.size())")
    return t


LESS_WITH = r'''
_Bool verif_less_with(const Value *ev, SortRule rule, Index i, Index j)
{ SortEigenvalue t; t.m_evals = ev; t.rule = rule; t.m_index.data = NULL; t.m_index.size = 0; return SortEigenvalue_less(&t, i, j); }
'''

COPY_STUB = r'''
/* std::vector copy constructor: assumed contract (same size, element-wise equal at the Skolem indices the harness needs) */
IndexArray IndexArray_copy(IndexArray src)
{
  IndexArray c; c.size = src.size; c.data = malloc(src.size * sizeof(Index)); __CPROVER_assume(c.data != NULL);
  if (0 <= gs1 && gs1 < src.size) __CPROVER_assume(c.data[gs1] == src.data[gs1]);
  if (0 <= gs2 && gs2 < src.size) __CPROVER_assume(c.data[gs2] == src.data[gs2]);
  return c;
}
'''


def harness_keys(kind, valid, allrules):
    doc = DOC_REAL if kind == "real" else DOC_CPLX
    h = ['#line 1 "harness/C18.keys(generated)"']
    h.append("Value nondet_value(void);")
    if kind == "real":
        h.append("#define FINITE_OR_INF(v) ((v) == (v))")
    else:
        h.append("#define FINITE_OR_INF(v) ((v).re == (v).re && (v).im == (v).im && CABS(v) == CABS(v))")
    for r in allrules:
        h.append("void h_key_%s(void) {" % r)
        h.append("  Value x = nondet_value(), y = nondet_value();")
        h.append("  __CPROVER_assume(FINITE_OR_INF(x) && FINITE_OR_INF(y)); /* non-NaN */")
        h.append("  verif_exc = 0; RealScalar kx = SortingTarget_get(SortRule_%s, x);" % r)
        if r in doc:
            h.append("  __CPROVER_assert(verif_exc == 0, \"key.%s: defined rule does not throw\");" % r)
            h.append("  RealScalar ky = SortingTarget_get(SortRule_%s, y);" % r)
            h.append("  __CPROVER_assert((kx < ky) == (%s), \"key.%s: get(x) < get(y) <=> x strictly precedes y by the documented key\");" % (doc[r], r))
        else:
            h.append("  __CPROVER_assert(verif_exc == EXC_invalid_argument, \"key.%s: rule not defined for this value type throws invalid_argument\");" % r)
        h.append("  CANARY();\n}")
    return "\n".join(h) + "\n"


H_SWO = r'''
#line 1 "harness/C18.swo"
Value nondet_value(void);
void h_swo(void) {
  SortEigenvalue s; Index n = nondet_Index(); __CPROVER_assume(3 <= n && n <= 8);
  Value *v = malloc(n * sizeof(Value)); __CPROVER_assume(v != NULL);
  s.m_evals = v; s.rule = nondet_int(); __CPROVER_assume(RULE_DEFINED(s.rule));
  Index a = nondet_Index(), b = nondet_Index(), c = nondet_Index();
  __CPROVER_assume(0 <= a && a < n && 0 <= b && b < n && 0 <= c && c < n);
  __CPROVER_assume(NOTNAN(v[a]) && NOTNAN(v[b]) && NOTNAN(v[c]));
  verif_exc = 0;
  _Bool ab = SortEigenvalue_less(&s, a, b), ba = SortEigenvalue_less(&s, b, a), bc = SortEigenvalue_less(&s, b, c),
        cb = SortEigenvalue_less(&s, c, b), ac = SortEigenvalue_less(&s, a, c), ca = SortEigenvalue_less(&s, c, a);
  __CPROVER_assert(!SortEigenvalue_less(&s, a, a), "cmp.swo: irreflexive");
  __CPROVER_assert(!(ab && ba), "cmp.swo: asymmetric");
  __CPROVER_assert(!(ab && bc) || ac, "cmp.swo: transitive");
  __CPROVER_assert(!(!ab && !ba && !bc && !cb) || (!ac && !ca), "cmp.swo: incomparability is transitive");
  __CPROVER_assert(verif_exc == 0, "cmp.swo: defined rules do not throw inside the comparator");
  CANARY();
}
'''

H_CTOR_ORDER = r'''
#line 1 "harness/C18.ctor_order"
void h_ctor_order(void) {
  SortEigenvalue s; Index size = nondet_Index(); __CPROVER_assume(0 <= size && size <= MAXLEN);
  const Value *start = malloc(size * sizeof(Value)); __CPROVER_assume(start != NULL);
  s.rule = nondet_int(); __CPROVER_assume(RULE_DEFINED(s.rule));
  __CPROVER_assume(0 <= gs1 && gs1 < size && 0 <= gs2 && gs2 < size && gs1 != gs2);
  verif_exc = 0;
  SortEigenvalue_ctor(&s, start, size);
  __CPROVER_assert(s.m_evals == start && s.m_index.size == size, "ctor.order: members set");
  if (gs1 < gs2) __CPROVER_assert(!verif_less_with(start, s.rule, s.m_index.data[gs2], s.m_index.data[gs1]), "ctor.order: sorted w.r.t. comparator on the caller's array (gs1 < gs2)");
  if (gs2 < gs1) __CPROVER_assert(!verif_less_with(start, s.rule, s.m_index.data[gs1], s.m_index.data[gs2]), "ctor.order: sorted w.r.t. comparator on the caller's array (gs2 < gs1)");
  CANARY();
}
'''

H_CTOR = r'''
#line 1 "harness/C18.ctor"
void h_ctor(void) {
  SortEigenvalue *s = malloc(sizeof(SortEigenvalue));
  Index size = nondet_Index();
  const Value *start = NULL;
  SortEigenvalue_ctor(s, start, size);
  CANARY();
}
'''


def argsort_contract(valid):
    """Preconditions only: argsort is checked as called from a harness that owns the value array (dfcc's
    is_fresh would rebind `values` to an object the harness cannot see); its postconditions are the harness
    assertions below, written from the property statement."""
    return ""


def argsort_clauses(ind="ind", length="len", sel="sel", q1="gq1", q2="gq2"):
    """Postcondition of argsort(sel, v, len) at two positions q1 < q2 < len, written from the property statement.
    Returns (rule-defined predicate, structural clauses over ia = ind[q1], ib = ind[q2], ordering clauses over
    va = v[ia], vb = v[ib]).  The SAME clause texts are asserted on the real argsort (group argsort.<rule>) and
    assumed by the call-site stub of argsort in the solver skeletons (props/skel.py)."""
    ok = "(" + " || ".join("%s == SortRule_%s" % (sel, r) for r in DOC_REAL) + ")"
    st = [("result has len entries", "%s.size == %s" % (ind, length)),
          ("entries in [0, len)", "0 <= ia && ia < {n} && 0 <= ib && ib < {n}".format(n=length)),
          ("injective (permutation of 0..len-1)", "ia != ib")]
    nn = "(va == va && vb == vb)"
    od = []
    for r, d in DOC_REAL.items():
        if r == "BothEnds":
            p1, p2 = "PMAP(%s, %s)" % (q1, length), "PMAP(%s, %s)" % (q2, length)
            od.append(("BothEnds: position q holds source position p(q) of the descending order",
                       "!(%s == SortRule_BothEnds && %s) || (%s != %s && !((%s < %s) ? (vb > va) : (va > vb)))" % (sel, nn, p1, p2, p1, p2)))
        else:
            cond = d.replace("x", "XX").replace("y", "YY").replace("XX", "vb").replace("YY", "va")
            od.append(("%s: image ordered by the documented key (no later element strictly precedes an earlier one)" % r,
                       "!(%s == SortRule_%s && %s) || !(%s)" % (sel, r, nn, cond)))
    return ok, st, od


def harness_argsort(allrules):
    """RULE_UNDER_TEST selects the rule per group; the sort/copy contracts are instantiated at gs1, gs2
    (BothEnds: the source positions)."""
    ok, st, od = argsort_clauses()
    h = ['#line 1 "harness/C18.argsort(generated)"']
    h.append("void h_argsort(void) {")
    h.append("  Index len = nondet_Index(); __CPROVER_assume(0 <= len && len <= MAXLEN);")
    h.append("  const Value *v = malloc(len * sizeof(Value)); __CPROVER_assume(v != NULL);")
    h.append("  __CPROVER_assume(0 <= gq1 && gq1 < gq2 && gq2 < len);")
    h.append("  SortRule sel = RULE_UNDER_TEST;")
    h.append("  if (sel == SortRule_BothEnds) { gs1 = PMAP(gq1, len); gs2 = PMAP(gq2, len); } else { gs1 = gq1; gs2 = gq2; }")
    h.append("  verif_exc = 0; IndexArray ind = argsort(sel, v, len);")
    h.append("  if (!%s) { __CPROVER_assert(verif_exc == EXC_invalid_argument, \"argsort: rule not defined for real values is rejected with invalid_argument\"); }" % ok)
    h.append("  else {")
    h.append("    __CPROVER_assert(verif_exc == 0, \"argsort: supported rule accepted\");")
    h.append("    Index ia = ind.data[gq1], ib = ind.data[gq2];")
    for lab, e in st:
        h.append("    __CPROVER_assert(%s, \"argsort: %s\");" % (e, lab))
    h.append("    Value va = v[ia], vb = v[ib];")
    for lab, e in od:
        h.append("    __CPROVER_assert(%s, \"argsort: %s\");" % (e, lab))
    h.append("  }")
    h.append("  CANARY();\n}")
    return "\n".join(h) + "\n"


H_MAP = r'''
#line 1 "harness/C18.bothends_map"
void h_bothends_map(void) {
  Index len = nondet_Index(), k = nondet_Index(), i = nondet_Index(), j = nondet_Index(), q = nondet_Index();
  __CPROVER_assume(0 <= len && len <= MAXLEN && 0 <= k && k <= len && 0 <= i && i < len && 0 <= j && j < len && 0 <= q && q < len);
  Index p = PMAP(i, len);
  __CPROVER_assert(0 <= p && p < len, "bothends.map: source position in range");
  __CPROVER_assert(i == j || PMAP(i, len) != PMAP(j, len), "bothends.map: injective");
  /* explicit preimage: q < ceil(len/2) comes from 2q, else from 2(len-1-q)+1 */
  Index pre = (q < (len + 1) / 2) ? 2 * q : 2 * (len - 1 - q) + 1;
  __CPROVER_assert(0 <= pre && pre < len && PMAP(pre, len) == q, "bothends.map: surjective (explicit preimage)");
  /* first k positions <-> ceil(k/2) from the top, floor(k/2) from the bottom, for every k */
  __CPROVER_assert((i < k) == (p < (k + 1) / 2 || p >= len - k / 2), "bothends.map: {p(i): i<k} = [0,ceil(k/2)) U [len-floor(k/2),len)");
  CANARY();
}
'''


def build(tier):
    report = {}
    groups = []
    enumdefs = common.enum_defines(H, "SortRule") + common.enum_defines("Util/CompInfo.h", "CompInfo")
    t_less, t_ctor = sort_eigenvalue(report)
    scalars = ["SCALAR_FLOAT"] if tier == "quick" else ["SCALAR_FLOAT", "SCALAR_DOUBLE"]
    for kind in ("real", "complex"):
        table, valid, allrules = sorting_target_table(kind, report)
        doc = DOC_REAL if kind == "real" else DOC_CPLX
        if set(valid) != set(doc):
            # the set of rules with a definition for this value type changed: the documented table is the oracle
            report["table_mismatch_" + kind] = sorted(set(valid) ^ set(doc))
        rule_defined = "(" + " || ".join("(r) == SortRule_%s" % r for r in doc) + ")"
        notnan = "((v) == (v))" if kind == "real" else "((v).re == (v).re && (v).im == (v).im && CABS(v) == CABS(v))"
        pre = '#include "verif_prelude.h"\n' + enumdefs + TYPES + "#define RULE_DEFINED(r) %s\n#define NOTNAN(v) %s\n" % (rule_defined, notnan)
        defs = (["VALUE_COMPLEX"] if kind == "complex" else [])
        for sc in scalars:
            scn = sc.split("_")[1].lower()
            for r in allrules:
                groups.append(Group("key.%s.%s.%s" % (kind, r, scn), pre + table + harness_keys(kind, valid, allrules), "h_key_" + r,
                                    loop_contracts=False, solver="cadical", defines=defs + [sc], timeout=200,
                                    functions=["SelectionRule.h:SortingTarget<%s, %s>::get" % (kind, r)],
                                    flags=[], expect_classes=["key." + r]))
            groups.append(Group("cmp.swo.%s.%s" % (kind, scn), pre + table + t_less + H_SWO, "h_swo", loop_contracts=False,
                                solver="cadical", defines=defs + [sc], timeout=300,
                                functions=["SelectionRule.h:SortEigenvalue::operator()"], expect_classes=["cmp.swo"],
                                note="strict weak order on non-NaN values: the precondition of the assumed std::sort contract"))
        groups.append(Group("ctor.iota+sort.%s" % kind, pre + table + t_less + SORT_STUB + t_ctor + H_CTOR, "h_ctor",
                            enforce="SortEigenvalue_ctor", solver="cadical", defines=defs + ["SCALAR_FLOAT"], timeout=300,
                            functions=["SelectionRule.h:SortEigenvalue::SortEigenvalue"],
                            expect_classes=["loop_invariant_step", "postcondition", "std::sort precondition"],
                            note="index[i]==i before sorting (loop contract); std::sort replaced by its assumed [alg.sort] contract"))
        groups.append(Group("ctor.order.%s" % kind, pre + table + t_less + SORT_STUB + _strip_contract(t_ctor) + H_CTOR_ORDER, "h_ctor_order",
                            solver="cadical", defines=defs + ["SCALAR_FLOAT"], timeout=300,
                            functions=["SelectionRule.h:SortEigenvalue::SortEigenvalue"], expect_classes=["ctor.order", "loop_invariant_step"],
                            note="same ordering clause stated on the caller's array (the form assumed at call sites)"))
        if kind == "real":
            t_arg, weak = argsort_fn(report, valid)
            for r in allrules:
                groups.append(Group("argsort.%s" % r, pre + table + t_less + LESS_WITH + COPY_STUB +
                                    "void SortEigenvalue_ctor(SortEigenvalue *self, const Value *start, Index size)" +
                                    _contract_of(t_ctor) + ";\n" + t_arg + harness_argsort(allrules),
                                    "h_argsort", replace=["SortEigenvalue_ctor"], solver="cadical",
                                    defines=["SCALAR_FLOAT", "RULE_UNDER_TEST=SortRule_" + r], timeout=300,
                                    functions=["SelectionRule.h:argsort(selection, values, len)"],
                                    expect_classes=["argsort"] + ([] if weak else ["loop_invariant_step"]),
                                    note="callee SortEigenvalue ctor replaced by its proved contract; BothEnds loop under a loop contract" if not weak else "WEAKENED extraction: " + weak))
                groups[-1].weak = weak
    groups.append(Group("bothends.map", '#include "verif_prelude.h"\n#define MAXLEN 1048576\n#define PMAP(i, len) (((i) % 2 == 0) ? (i) / 2 : (len) - 1 - (i) / 2)\n' + H_MAP, "h_bothends_map", loop_contracts=False,
                        solver="cadical", functions=["SelectionRule.h:argsort (BothEnds index map)"], expect_classes=["bothends.map"],
                        note="index map of the BothEnds loop: bijection and first-k characterisation for every k"))
    if any(k.startswith("table_mismatch") for k in report):
        groups.append(z3lemma.StaticGroup("table.rules-defined", ok=False, detail=str({k: v for k, v in report.items() if k.startswith("table_mismatch")}),
                                          obligation="set of rules with a SortingTarget definition per value type equals the documented table"))
    else:
        groups.append(z3lemma.StaticGroup("table.rules-defined", ok=True, detail="real: %s; complex: %s" % (sorted(DOC_REAL), sorted(DOC_CPLX)),
                                          obligation="set of rules with a SortingTarget definition per value type equals the documented table"))
    if POSTPASS:
        from vlib import z3lemma as _z3l
        gpp = _z3l.StaticGroup("ctor.postpass", ok=False, detail="code after std::sort in the SortEigenvalue constructor: " + POSTPASS[-1][:300],
                                  obligation="the index array is not rearranged after std::sort (the order established by the comparator is the constructor's result)")
        gpp.weak = "a post-pass over the sorted index may be a harmless tie-break; only a mis-ordered or non-permutation result on the real code counts"
        gpp.functions = [H + ":SortEigenvalue::SortEigenvalue"]
        groups.append(gpp)
        del POSTPASS[:]
    meta = {
        "level": "proof",
        "trusted_base": ["cbmc 6.11.0 dfcc", "cadical", "extractor /verif/vlib"],
        "assumptions": [
            "std::sort satisfies [alg.sort]: the result is a permutation of the input range ordered by the comparator (assumed contract; its preconditions - valid range, strict weak order on non-NaN values - are proved)",
            "std::vector copy construction yields an element-wise equal vector (assumed)",
            "std::abs(std::complex) is a function of its argument (uninterpreted); std::abs on reals is fabs",
            "forall-instantiation meta-rule: a contract enforced for unconstrained Skolem indices may be instantiated at harness-chosen indices",
            "values containing NaN are outside the ordering claim (the comparator is not a strict weak order on NaN)",
        ],
        "not_covered": ["solvers' own rule switches (GenEigsBase/HermEigsBase) are decided under C05/C12"],
        "extraction": report,
        "explanation": "all SortingTarget specialisations, SortEigenvalue and argsort extracted with nothing dropped except std::sort / std::vector (assumed contracts)",
    }
    return groups, meta


def _contract_of(t_ctor):
    """Contract text of the constructor for call sites: same clauses, ordering clause on the explicit array."""
    m = re.search(r"\)\s*(__CPROVER_requires.*?)\s*\{", t_ctor, flags=re.S)
    c = " " + m.group(1)
    a = " ".join((ORDER_ENS % ("SortEigenvalue_less(self, ", "SortEigenvalue_less(self, ")).split())
    b = " ".join((ORDER_ENS % ("verif_less_with(start, self->rule, ", "verif_less_with(start, self->rule, ")).split())
    if a not in c:
        raise X.ExtractionBreak("internal: ordering clause not found in constructor contract")
    return c.replace(a, b)


def _strip_contract(t_ctor):
    m = re.search(r"\)\s*(__CPROVER_requires.*?)\s*\{", t_ctor, flags=re.S)
    return t_ctor[:m.start(1)] + t_ctor[m.end(1):]


def _argsort_valid(report):
    f = X.locate(H, "argsort", params_re=r"Eigen::Index\s+len")
    return set(re.findall(r"case\s+SortRule::(\w+)\s*:", f.body))


MANIFEST = {
    "category": "proof",
    "text": "Unbounded proof (any length <= 2^20, any values incl. ties/zeros/sign pairs, float and double): every SortingTarget key is checked against the documented rule key, the comparator is a strict weak order on non-NaN values, the index array is 0..len-1 before sorting, argsort's result is injective, in range and ordered by the rule key, the BothEnds map is a bijection with the ceil/floor first-k characterisation for every k, and undefined rules reach invalid_argument. If argsort is restructured beyond the canonical rules, a generalized extraction (fill loop summarised at the Skolem positions after a syntactic independence check) is used under the refute-only-if-replayed policy. Third session: wrapper templates whose body is one SortEigenvalue construction are followed by the generalized extraction.",
    "note": "std::sort and std::vector copy are assumed contracts (preconditions proved); Skolem-index instantiation is a meta-rule; "
            "extractor trusted; NaN values excluded",
    "technique": "CBMC code contracts (dfcc enforce/replace, loop contracts, Skolem indices) on mechanically extracted C",
}


def replay(g, o, assigns, path):
    """The verifier's counterexample is symbolic in the vector length; the replay searches the small family of
    real inputs the property names (all vectors of length 0..6 over a tie-rich alphabet, all nine rules)."""
    from vlib import replay as RP
    return RP.run_native(PROP, RP.src("C18_replay.cpp"), args=[6])
