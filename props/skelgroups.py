"""Assembles the contract groups of the solver skeletons; each group carries the set of properties it serves."""
from vlib.runner import Group
from vlib import extract as X
from props import skel

ARB_STATE = None


def arb_state():
    """Harness state in which every buffer has an arbitrary size (init() must work from ANY state)."""
    s = skel.ALLOC_STATE
    for a, b in (("S->m_ritz_val = RITZ_NEW(S->m_ncv); S->m_ritz_est = RITZ_NEW(S->m_ncv); S->m_ritz_conv = BVEC_NEW(S->m_nev);",
                  "S->m_ritz_val = RITZ_NEW(ND_SIZE()); S->m_ritz_est = RITZ_NEW(ND_SIZE()); S->m_ritz_conv = BVEC_NEW(ND_SIZE());"),
                 ("S->m_ritz_vec = MAT_NEW(S->m_ncv, S->m_nev);", "S->m_ritz_vec = MAT_NEW(ND_SIZE(), ND_SIZE());"),
                 ("S->m_fac.m_fac_V = MAT_NEW(S->m_n, S->m_ncv); S->m_fac.m_fac_H = MAT_NEW(S->m_ncv, S->m_ncv);",
                  "S->m_fac.m_fac_V = MAT_NEW(ND_SIZE(), ND_SIZE()); S->m_fac.m_fac_H = MAT_NEW(ND_SIZE(), ND_SIZE());"),
                 ("S->m_fac.m_fac_f = VEC_NEW(S->m_n);", "S->m_fac.m_fac_f = VEC_NEW(ND_SIZE());"),
                 ("S->tag_val = IVEC_NEW(S->m_ncv); S->tag_est = IVEC_NEW(S->m_ncv); S->tag_conv = IVEC_NEW(S->m_nev);",
                  "S->tag_val = IVEC_NEW(ND_SIZE()); S->tag_est = IVEC_NEW(ND_SIZE()); S->tag_conv = IVEC_NEW(ND_SIZE());"),
                 ("__CPROVER_assume(0 <= S->cnt_conv && S->cnt_conv <= S->m_nev);", "")):
        if a not in s:
            raise RuntimeError("arb_state: template drifted")
        s = s.replace(a, b)
    return s


_memo = {}


def build(family, report):
    """family: 'herm' | 'gen'.  Returns list of (Group, set(property ids))."""
    if family in _memo:
        report.update(_memo[family][1])
        return _memo[family][0]
    rep = {}
    gen = family == "gen"
    fam = "Gen" if gen else "Herm"
    hdr = "GenEigsBase.h" if gen else "HermEigsBase.h"
    skel.check_members(rep)
    defs = []
    out = []
    base = skel.prelude(gen) + skel.FAC_MACROS + skel.DIV_SITE_DEF + skel.QR_STUBS + skel.QR_STUBS2 + skel.ACCESSOR_TYPES + skel.COUNT_AXIOMS
    helpers = skel.f_gen_helpers(rep) if gen else ""

    def G(name, text, entry, enforce, fns, tags, timeout=600, note="", expect=()):
        g = Group("%s.%s" % (fam, name), text, entry, enforce=enforce, solver="cadical", defines=["SCALAR_FLOAT"], timeout=timeout,
                  functions=fns, note=note, expect_classes=list(expect) or ["assigns"])
        out.append((g, set(("C02" if (gen and t == "C01") else t) for t in tags)))

    # ---- factorization (shared by both families; emitted once under the 'herm' family, Arnoldi variant under 'gen')
    t_eb, s_eb = skel.f_expand_basis(rep)
    which = "Arnoldi" if gen else "Lanczos"
    t_ff, s_ff = skel.f_factorize_from(which, rep)
    t_fi, s_fi = skel.f_fac_init(rep)
    t_cv, s_cv = skel.f_compress_V(rep)
    chs = skel.f_compress_H(rep)
    if not gen:
        G("expand_basis", base + t_eb + s_eb.harness("h", skel.ALLOC_FAC + "  Mat V = MAT_NEW(ND_SIZE(), ND_SIZE()); Index seed = nondet_Index(); Scalar *f = VEC_NEW(ND_SIZE()); Scalar fn_ = nondet_Scalar(); Scalar *fnorm = &fn_;", "F, V, seed, f, fnorm, op_counter"),
          "h", "expand_basis", ["Arnoldi.h:expand_basis"], ["C01", "C05", "C07", "C13", "C14"], expect=["loop_invariant_step", "operator argument"])
        G("fac_init", base + t_fi + s_fi.harness("h", skel.ALLOC_FAC + "  Scalar *v0 = VEC_NEW(ND_SIZE());", "F, v0, op_counter"),
          "h", "fac_init", ["Arnoldi.h:init"], ["C05", "C06", "C07", "C12", "C13", "C14"], expect=["operator argument"])
        G("compress_V", base + t_cv + s_cv.harness("h", skel.ALLOC_FAC + "  Mat Q = MAT_NEW(ND_SIZE(), ND_SIZE());", "F, Q"),
          "h", "compress_V", ["Arnoldi.h:compress_V"], ["C07", "C13"], expect=["loop_invariant_step", "Eigen index assertion"])
        for t, s in chs:
            G(s.cname, base + t + s.harness("h", skel.ALLOC_FAC + "  QRDecomp dq; dq.n = nondet_Index(); dq.computed = nondet_bool(); const QRDecomp *decomp = &dq;", "F, decomp"),
              "h", s.cname, [s.real], ["C07", "C13"])
    G("factorize_from", base + s_eb.stub() + t_ff + s_ff.harness("h", skel.ALLOC_FAC + "  Index from_k = nondet_Index(), to_m = nondet_Index();", "F, from_k, to_m, op_counter"),
      "h", "factorize_from", ["%s.h:factorize_from" % which], ["C01", "C05", "C07", "C13", "C14"], timeout=900,
      expect=["loop_invariant_step", "operator argument", "Eigen index assertion"], note="callee expand_basis replaced by its contract")

    # ---- solver functions
    t_na, s_na = skel.f_nev_adjusted(gen, rep)
    t_nc, s_nc = skel.f_num_converged(gen, rep, defs)
    if gen:
        t_rr, s_rr = skel.f_retrieve_ritzpair_gen(rep)
        t_sr, s_sr = skel.f_sort_ritzpair_gen(rep)
        t_rs, s_rs = skel.f_restart_gen(rep, s_rr.post)
    else:
        t_rr, s_rr = skel.f_retrieve_ritzpair_herm(rep)
        t_sr, s_sr = skel.f_sort_ritzpair_herm(rep)
        t_rs, s_rs = skel.f_restart_herm(rep, s_rr.post)
    t_cp, s_cp = skel.f_compute(gen, rep, s_sr.post)
    t_in, s_in = skel.f_init(gen, rep)
    t_ct, s_ct = skel.f_ctor(gen, rep)
    t_ev, s_ev = skel.f_eigenvalues(gen, rep)
    t_ex, s_ex = skel.f_eigenvectors(gen, rep)
    ordf = t_rr[:t_rr.index("#line")]
    ordf2 = t_sr[:t_sr.index("#line")]
    if gen:
        sbase = base + skel.eps23_doc() + "".join(defs) + helpers + skel.NANEQ_DEF + skel.GEN_DEFS + skel.QR_STUBS_GEN + skel.stub_sort_complex() + skel.DECOMP_STUBS
    else:
        sbase = base + skel.eps23_doc() + "".join(defs) + helpers + skel.stub_argsort() + skel.DECOMP_STUBS
    A = skel.ALLOC_STATE
    G("nev_adjusted", sbase + t_na + s_na.harness("h", A + "  Index nconv = nondet_Index();", "S, nconv"), "h", "nev_adjusted",
      [hdr + ":nev_adjusted"], ["C04", "C07", "C13"], expect=["loop_invariant_step"])
    G("num_converged", sbase + t_nc + s_nc.harness("h", A + "  Scalar tol = nondet_Scalar();", "S, tol"), "h", "num_converged",
      [hdr + ":num_converged"], ["C01", "C05", "C13"])
    G("retrieve_ritzpair", sbase + t_rr + s_rr.harness("h", A + "  SortRule selection = nondet_int();", "S, selection"), "h", "retrieve_ritzpair",
      [hdr + ":retrieve_ritzpair"], ["C01", "C04", "C05", "C12", "C13", "C14"], expect=["loop_invariant_step", "Eigen index assertion"],
      note="argsort and the dense eigen-decomposition replaced by their contracts")
    G("sort_ritzpair", sbase + t_sr + s_sr.harness("h", A + "  SortRule sort_rule = nondet_int();", "S, sort_rule"), "h", "sort_ritzpair",
      [hdr + ":sort_ritzpair"], ["C01", "C05", "C12", "C13", "C18"], expect=["loop_invariant_step"])
    if gen:
        stubs_r = skel.compress_H_spec(2, "compress_H_ds").stub() + skel.compress_H_spec(1, "compress_H_hb").stub() + s_cv.stub() + s_ff.stub() + s_rr.stub()
    else:
        stubs_r = skel.compress_H_spec(1, "compress_H_tridiag").stub() + s_cv.stub() + s_ff.stub() + s_rr.stub()
    G("restart", sbase + ordf + stubs_r + t_rs + s_rs.harness("h", A + "  Index k = nondet_Index(); SortRule selection = nondet_int();", "S, k, selection"),
      "h", "restart", [hdr + ":restart"], ["C04", "C05", "C07", "C13", "C14"], expect=["loop_invariant_step"],
      note="callees compress_H, compress_V, factorize_from, retrieve_ritzpair replaced by their contracts")
    # sort_ritzpair is VIRTUAL: compute() is verified against the join of the contracts of the base version (values untouched) and of the shift-mode overrides
    # (values back-transformed exactly once, then the base version) - the overrides are proved against exactly that in shift.sort_ritzpair / cshift.sort_ritzpair
    import copy
    s_sv = copy.deepcopy(s_sr)
    s_sv.frame = list(s_sv.frame) + ["S->g_backtransformed"]
    s_sv.olds = list(s_sv.olds) + [("Index", "old_btv", "S->g_backtransformed")]
    s_sv.post = list(s_sv.post) + [("virtual call: the dynamic type may be a shift-mode solver, whose override back-transforms the Ritz values once",
                                    "S->g_backtransformed == old_btv || S->g_backtransformed == old_btv + 1")]
    s_sv.exc_post = list(s_sv.exc_post) + [("counter bounded", "S->g_backtransformed == old_btv || S->g_backtransformed == old_btv + 1")]
    stubs_c = s_ff.stub() + s_rr.stub() + s_nc.stub() + s_na.stub() + s_rs.stub() + s_sv.stub()
    G("compute", sbase + ordf + ordf2 + stubs_c + t_cp + s_cp.harness("h", A + "  SortRule selection = nondet_int(), sorting = nondet_int(); Index maxit = nondet_Index(); Scalar tol = nondet_Scalar();",
                                                                    "S, selection, maxit, tol, sorting"),
      "h", "compute", [hdr + ":compute"], ["C01", "C04", "C05", "C06", "C07", "C13", "C14"], timeout=900, expect=["loop_invariant_step"],
      note="all six callees replaced by their contracts; loop keeps its break")
    G("init", sbase + s_fi.stub() + t_in + s_in.harness("h", arb_state() + "  const Scalar *init_resid = VEC_NEW(ND_SIZE());", "S, init_resid"),
      "h", "init_ptr", [hdr + ":init(const Scalar*)", hdr + ":init()"], ["C05", "C06", "C12", "C13", "C14"],
      note="from an ARBITRARY object state (any buffer sizes, counters, flags)")
    G("ctor", sbase + t_ct + s_ct.harness("h", "  Op opv; Op *op = &opv; op->n = nondet_Index(); Solver St; Solver *S = &St; Index nev = nondet_Index(), ncv = nondet_Index();", "S, op, nev, ncv"),
      "h", "solver_ctor", [hdr + ":constructor(OpType&)"], ["C05", "C12"])
    if not gen:
        t_c2, s_c2 = skel.f_ctor(gen, rep, ordinal=1)
        s_c2.cname = "solver_ctor1"
        G("ctor.rvalue", sbase + t_c2.replace("solver_ctor(", "solver_ctor1(") + s_c2.harness("h", "  Op opv; Op *op = &opv; op->n = nondet_Index(); Solver St; Solver *S = &St; Index nev = nondet_Index(), ncv = nondet_Index();", "S, op, nev, ncv"),
          "h", "solver_ctor1", [hdr + ":constructor(OpType&&)"], ["C12"])
    G("eigenvalues", sbase + t_ev + s_ev.harness("h", arb_state() + "  g_prefix = IVEC_NEW(ND_SIZE());", "S"), "h", "eigenvalues",
      [hdr + ":eigenvalues"], ["C01", "C05", "C13"], expect=["loop_invariant_step"])
    G("eigenvectors", sbase + t_ex + s_ex.harness("h", arb_state() + "  g_prefix = IVEC_NEW(ND_SIZE()); Index nvec = nondet_Index();", "S, nvec"), "h", "eigenvectors",
      [hdr + ":eigenvectors(nvec)", hdr + ":eigenvectors()"], ["C01", "C05", "C13"], expect=["product dimensions agree", "eigenvectors:"])
    # ---- shift-and-invert overrides of sort_ritzpair
    t_sh, s_sh, ops = skel.f_shift_sort(gen, rep)
    skel.f_shift_ctor(rep)
    bt = skel.BT_DEFS + "Index g_ia_unused;\n"
    G("shift.sort_ritzpair", sbase + skel.BT_DEFS + ordf2 + s_sr.stub() + t_sh + s_sh.harness("h", A + "  SortRule sort_rule = nondet_int();", "S, sort_rule"),
      "h", "shift_sort_ritzpair", [("GenEigsRealShiftSolver.h" if gen else "SymEigsShiftSolver.h") + ":sort_ritzpair"], ["C01", "C04", "C05", "C13"],
      expect=["loop_invariant_step"], note="base-class sort_ritzpair replaced by its contract; back-transformation rendered coefficient-wise")
    if gen:
        t_cs, s_cs = skel.f_cshift_sort(rep)
        G("cshift.sort_ritzpair", sbase + skel.CSHIFT_DEFS + ordf2 + s_sr.stub() + t_cs + s_cs.harness("h", A + "  SortRule sort_rule = nondet_int();", "S, sort_rule"),
          "h", "cshift_sort_ritzpair", ["GenEigsComplexShiftSolver.h:sort_ritzpair"], ["C01", "C05", "C06", "C13", "C14"],
          expect=["loop_invariant_step", "operator argument"], note="operator shift ghost; probe solves uncounted; base-class sort replaced by its contract")
    _memo[family] = (out, rep)
    report.update(rep)
    return out


def select(prop, families, report):
    groups = []
    for fam in families:
        for g, tags in build(fam, report):
            if prop in tags:
                groups.append(g)
    return groups


ASSUMPTIONS = [
    "lossy extraction: floating-point values of Eigen matrices/vectors and of scalars computed from them are nondeterministic (DESIGN 2.2-3); every abstracted statement is listed under coverage.extraction.abstracted_statements",
    "Eigen operations do what their documentation says (shapes, aliasing), norm() >= 0 and not NaN, count() is the number of set flags (definitional axioms instantiated at use sites)",
    "the user's operator writes only y_out[0..n), may throw at any application, and is otherwise opaque",
    "std::sort permutes its range (assumed [alg.sort]); argsort's contract is the one proved in C18",
    "the dense eigen-decomposition classes return ncv eigenvalues and an ncv x ncv eigenvector matrix or throw (their own contracts are C09)",
    "forall-instantiation meta-rule: a postcondition proved for unconstrained Skolem indices is assumed at use-site indices (INSTANTIATE_* macros, counted)",
    "a vector/matrix member swapped with an equally-sized local is modelled at call sites as an in-place havoc (no caller holds an alias)",
    "caps on machine integers only: n, ncv <= 2^20, maxit <= 10^5, ghost counters <= 10^15",
]
TRUSTED = ["cbmc 6.11.0 (goto-cc, goto-instrument --dfcc)", "cadical", "extractor /verif/vlib (rules fire-counted; abstraction lexical)",
           "contract stubs are generated from the same clause texts that the enforcing harness asserts (vlib/spec.py)"]
