"""C05 - result accessors, counts, ordering, status and counters are mutually consistent."""
from props import skelgroups as SG

PROP = "C05"


def build(tier):
    report = {}
    groups = SG.select(PROP, ["herm", "gen"], report)
    meta = {"level": "proof", "trusted_base": SG.TRUSTED, "assumptions": SG.ASSUMPTIONS, "extraction": report,
            "not_covered": ["numerical content of the returned values (C01/C02)"],
            "explanation": "class invariant assumed on entry of each public method from an otherwise arbitrary state and proved on exit (induction over call histories)"}
    return groups, meta


def replay(g, o, assigns, path):
    from vlib import replay as RP
    return RP.run_native(PROP, RP.src("C05_count_replay.cpp"))


MANIFEST = {
    "category": "proof",
    "text": "Unbounded proof (all n, nev, ncv <= 2^20, all maxit, all call histories by class-invariant induction) on the mechanically extracted "
            "solver skeleton: compute()'s return value equals the number of set flags = eigenvalues().size() = eigenvectors().cols() <= nev; "
            "info() Successful <=> count == nev; value/vector/flag are permuted together and the accessors read the j-th flagged position for both; "
            "final order follows argsort(sorting); num_operations() equals the ghost count of real operator applications; restarts <= maxit; "
            "constructor leaves NotComputed and empty accessors.",
    "note": "floating-point values of Eigen expressions are havocked (lossy extraction, every abstracted statement listed); callee contracts are "
            "generated stubs sharing clause texts with the enforcing harness; std::sort/Eigen/operator contracts assumed; Skolem instantiation meta-rule",
    "technique": "CBMC dfcc frame contracts + loop contracts + harness-asserted postconditions on mechanically extracted C (cadical)",
}
