"""C05 - result accessors, counts, ordering, status and counters are mutually consistent."""
from props import skelgroups as SG

PROP = "C05"


def build(tier):
    report = {}
    groups = SG.select(PROP, ["herm", "gen"], report)
    meta = {"level": "proof", "trusted_base": SG.TRUSTED, "assumptions": SG.ASSUMPTIONS, "extraction": report,
            "not_covered": ["numerical content of the returned values (C01/C02)"],
            "explanation": "class invariant assumed on entry of each public method from an otherwise arbitrary state and proved on exit (induction over call histories)"}
    return groups, meta




def replay(g, o, assigns, path):
    """Skeleton counterexamples are paths, not inputs: the replay searches the structured family of real inputs/histories of
    replay_src/solver_replay.cpp (mode 'counts') on the REAL solvers."""
    from vlib import replay as RP
    r = RP.run_native(PROP, RP.src("solver_replay.cpp"), args=["counts"], timeout=900)
    if not r.get("reproduced"):
        r2 = RP.run_native(PROP, RP.src("solver_replay.cpp"), args=["history"], timeout=900, name="replay2")
        if r2.get("reproduced"):
            return r2
    return r


MANIFEST = {
    "category": "proof",
    "text": "Unbounded proof (all n, nev, ncv <= 2^20, all maxit, all call histories by class-invariant induction) on the mechanically extracted "
            "solver skeleton: compute()'s return value equals the number of set flags = eigenvalues().size() = eigenvectors().cols() <= nev; "
            "info() Successful <=> count == nev; value/vector/flag are permuted together and the accessors read the j-th flagged position for both; "
            "final order follows argsort(sorting); num_operations() equals the ghost count of real operator applications; restarts <= maxit; "
            "constructor leaves NotComputed and empty accessors.",
    "note": "floating-point values of Eigen expressions are havocked (lossy extraction, every abstracted statement listed); callee contracts are "
            "generated stubs sharing clause texts with the enforcing harness; std::sort/Eigen/operator contracts assumed; Skolem instantiation meta-rule",
    "technique": "CBMC dfcc frame contracts + loop contracts + harness-asserted postconditions on mechanically extracted C (cadical)",
}
