"""C17 - LOBPCG solver (contrib/LOBPCGSolver.h): the contract-expressible (structural) part.

Every statement of the class is an Eigen (sparse) expression.  Floating-point VALUES are dropped; what is kept - mechanically, from the real text on every run - is
what Eigen itself asserts about each statement (inner dimensions of products, equal shapes of sums, block / column / coefficient selectors inside the object,
block-assignment shapes), all int / bool / status state, the control flow and every call.  Matrices are data-less triples (rows, cols, value-version stamp).
A generic recursive-descent SHAPE EVALUATOR (generalisation of the one in C15) turns each Eigen statement into its assertions + the shape of the defined object; a
statement it cannot translate is an ExtractionBreak (UNDECIDED), never a silent skip.

NOT decided here (numerical): the eigenvalues are the k smallest, X'BX = I, residuals() == A X - B X diag(lambda), the norm bound itself.
"""
import copy
import os
import re

from vlib import extract as X
from vlib import cgen, common
from vlib.runner import Group
from vlib.spec import FSpec

PROP = "C17"
HDR = "contrib/LOBPCGSolver.h"
CLS = "LOBPCGSolver"

MAT_TYPES = ("SparseComplexMatrix", "SparseMatrix", "ComplexMatrix", "ComplexVector", "Matrix", "Vector")
VEC_TYPES = ("ComplexVector", "Vector")
TYPES_RX = "(?:%s)" % "|".join(MAT_TYPES)


def Q(msg):
    return "@Q@" + msg + "@Q@"


def _p(e):
    e = str(e).strip()
    return e if re.match(r"^[A-Za-z_0-9.]+$", e) else "(" + e + ")"


# =========================================================================== shape evaluator (generic)

class SV:
    """Value of an Eigen (sub)expression: kind 'mat' (rows, cols as C expressions), 'scalar', 'svd' (a decomposition temporary)."""

    def __init__(self, kind="mat", rows=None, cols=None, named=None, vec=False):
        self.kind, self.rows, self.cols, self.named, self.vec = kind, rows, cols, named, vec


class Env:
    def __init__(self):
        self.shapes = {}     # name -> 'mat' | 'vec'   (dotted names allowed, e.g. epair.second)
        self.scalars = set()
        self.fscalars = set()   # floating-point scalars (values dropped)
        self.decomps = {}    # name -> 'ldlt' | 'eigsolver' | 'geigs'
        self.funcs = {}      # member functions: name -> FInfo
        self.tmp = [0]

    def clone(self):
        e = Env()
        e.shapes, e.scalars, e.decomps, e.funcs, e.tmp = dict(self.shapes), set(self.scalars), dict(self.decomps), self.funcs, self.tmp
        e.fscalars = set(self.fscalars)
        return e


class Ctx:
    """Collects, for ONE statement, the assertions / temporaries to emit before it and the named operands it reads."""

    def __init__(self, env):
        self.env, self.pre, self.reads = env, [], []

    def check(self, cond, msg):
        s = "EIG_ASSERT(%s, %s);" % (cond, Q(msg))
        if s not in self.pre:
            self.pre.append(s)


NUM_RX = re.compile(r"(?:\d+\.?\d*(?:[eE][-+]?\d+)?|\.\d+(?:[eE][-+]?\d+)?)[fFlL]?")
ID_RX = re.compile(r"[A-Za-z_]\w*(?:::[A-Za-z_]\w*)*")
CONVERSIONS = set(MAT_TYPES)
SCALAR_CTORS = {"Complex", "Scalar", "int", "double", "float", "Index"}
IDENT_SELECTORS = {"real", "sparseView", "cwiseSqrt", "cast", "eval", "conjugate"}
CORNERS = {"topLeftCorner": ("0", "0"), "topRightCorner": ("0", "C"), "bottomLeftCorner": ("R", "0"), "bottomRightCorner": ("R", "C")}
MSG_PROD = "Eigen: product dimensions agree"
MSG_SUM = "Eigen: sum/difference needs equal shapes"
MSG_BLOCK = "Eigen block assertion: block(r0, c0, nr, nc) within the matrix"
MSG_COL = "Eigen index assertion: column index in range"
MSG_COEFF = "Eigen index assertion: coefficient (row, col) in range"
MSG_VCOEFF = "Eigen index assertion: vector coefficient in range"
MSG_ASSIGN_BLOCK = "Eigen: assignment to a block / column needs equal shapes"
MSG_VECASSIGN = "Eigen: a vector is assigned a single-column expression"
MSG_DIMS = "Eigen: matrix dims >= 0"
MSG_SQUARE = "Eigen: the decomposition needs a square matrix"
MSG_SOLVE = "Eigen: solve() needs a right-hand side with as many rows as the decomposed matrix"


class Parser:
    """expr := term (('+'|'-') term)* ; term := unary (('*'|'/') unary)* ; unary := ['-'] postfix ;
    postfix := primary ( '.' [template] NAME ['<..>'] '(' args ')' | '(' args ')' )* ;
    primary := '(' expr ')' | number | Matrix '(' expr ')' | Matrix::Identity '(' a ',' b ')' | Complex '(' .. ')' | f '(' args ')' | NAME"""

    def __init__(self, text, cx):
        self.s, self.i, self.cx, self.env = text, 0, cx, cx.env

    def err(self, what):
        raise X.ExtractionBreak("shape rules: %s in %r" % (what, " ".join(self.s.split())[:200]))

    def peek(self):
        while self.i < len(self.s) and self.s[self.i].isspace():
            self.i += 1
        return self.s[self.i] if self.i < len(self.s) else ""

    def parse(self):
        v = self.expr()
        if self.peek():
            self.err("trailing text %r" % self.s[self.i:][:40])
        return v

    def expr(self):
        v = self.term()
        while self.peek() in ("+", "-"):
            self.i += 1
            r = self.term()
            if v.kind == "scalar" and r.kind == "scalar":
                continue
            if v.kind != "mat" or r.kind != "mat":
                self.err("sum of a matrix and a scalar")
            if (str(v.rows), str(v.cols)) != (str(r.rows), str(r.cols)):
                self.cx.check("%s == %s && %s == %s" % (_p(v.rows), _p(r.rows), _p(v.cols), _p(r.cols)), MSG_SUM)
            v = SV("mat", v.rows, v.cols, vec=v.vec and r.vec)
        return v

    def term(self):
        v = self.unary()
        while self.peek() in ("*", "/"):
            op = self.s[self.i]
            self.i += 1
            r = self.unary()
            if op == "/":
                if r.kind != "scalar":
                    self.err("division by a matrix")
                continue
            if v.kind == "scalar":
                v = r
            elif r.kind == "scalar":
                pass
            else:
                if v.kind != "mat" or r.kind != "mat":
                    self.err("product with a decomposition object")
                if str(v.cols) != str(r.rows):
                    self.cx.check("%s == %s" % (_p(v.cols), _p(r.rows)), MSG_PROD)
                v = SV("mat", v.rows, r.cols, vec=r.vec)
        return v

    def unary(self):
        if self.peek() == "-":
            self.i += 1
            return self.unary()
        return self.postfix()

    def args(self):
        pc = X.match_close(self.s, self.i)
        raw = self.s[self.i + 1:pc]
        self.i = pc + 1
        return [a.strip() for a in X.split_top(raw)] if raw.strip() else []

    def ident(self):
        self.peek()
        m = ID_RX.match(self.s, self.i)
        if not m:
            self.err("identifier expected at %r" % self.s[self.i:][:30])
        self.i = m.end()
        return m.group(0)

    def sub(self, text):
        return Parser(text, self.cx).parse()

    def postfix(self):
        v = self.primary()
        while True:
            c = self.peek()
            if c == ".":
                self.i += 1
                name = self.ident()
                if name == "template":
                    name = self.ident()
                if self.peek() == "<":
                    self.i = X.match_close(self.s, self.i) + 1
                if self.peek() != "(":
                    self.err("member %r without call" % name)
                v = self.selector(v, name, self.args())
            elif c == "(" and v.kind == "mat" and v.named:
                v = self.coeff(v, self.args())
            else:
                return v

    def coeff(self, v, a):
        if len(a) == 1:
            if not v.vec:
                self.err("single-index coefficient access on a matrix")
            self.cx.check("0 <= %s && %s < %s" % (_p(a[0]), _p(a[0]), _p(v.rows)), MSG_VCOEFF)
        elif len(a) == 2:
            self.cx.check("0 <= %s && %s < %s && 0 <= %s && %s < %s" % (_p(a[0]), _p(a[0]), _p(v.rows), _p(a[1]), _p(a[1]), _p(v.cols)), MSG_COEFF)
        else:
            self.err("coefficient access with %d indices" % len(a))
        return SV("scalar")

    def block(self, v, r0, c0, nr, nc):
        self.cx.check("0 <= %s && 0 <= %s && 0 <= %s && 0 <= %s && %s + %s <= %s && %s + %s <= %s" %
                      (_p(r0), _p(c0), _p(nr), _p(nc), _p(r0), _p(nr), _p(v.rows), _p(c0), _p(nc), _p(v.cols)), MSG_BLOCK)
        return SV("mat", nr, nc)

    def selector(self, v, name, a):
        if v.kind == "decomp":
            return self.decomp_selector(v, name, a)
        if v.kind == "svd":
            if name != "solve" or len(a) != 1:
                self.err("only solve(rhs) is understood on a bdcSvd() temporary")
            r = self.sub(a[0])
            if r.kind != "mat":
                self.err("solve() of a non-matrix")
            self.cx.check("%s == %s" % (_p(v.rows), _p(r.rows)), MSG_SOLVE)
            return SV("mat", v.cols, r.cols, vec=r.vec)
        if v.kind != "mat":
            self.err("selector .%s() on a scalar" % name)
        if name == "transpose" and not a:
            return SV("mat", v.cols, v.rows)
        if name in IDENT_SELECTORS and not a:
            return SV("mat", v.rows, v.cols, vec=v.vec)
        if name == "asDiagonal" and not a:
            if not v.vec:
                self.cx.check("%s == 1" % _p(v.cols), "Eigen: asDiagonal() of a vector")
            return SV("mat", v.rows, v.rows)
        if name == "col" and len(a) == 1:
            self.cx.check("0 <= %s && %s < %s" % (_p(a[0]), _p(a[0]), _p(v.cols)), MSG_COL)
            return SV("mat", v.rows, "1", vec=True)
        if name == "block" and len(a) == 4:
            return self.block(v, *a)
        if name in CORNERS and len(a) == 2:
            rr, cc = CORNERS[name]
            r0 = "0" if rr == "0" else "%s - %s" % (_p(v.rows), _p(a[0]))
            c0 = "0" if cc == "0" else "%s - %s" % (_p(v.cols), _p(a[1]))
            return self.block(v, r0, c0, a[0], a[1])
        if name == "coeff" and len(a) in (1, 2):
            return self.coeff(v, a)
        if name == "bdcSvd":
            return SV("svd", v.rows, v.cols)       # ASSUMED library contract: Eigen::BDCSVD of an r x c matrix
        if name in ("rows", "cols", "size") and not a:
            return SV("scalar")
        self.err("selector .%s(%d args) not understood" % (name, len(a)))

    def decomp_selector(self, v, name, a):
        k, nm = v.named
        if k in ("ldlt", "eigsolver"):
            n = "%s.rows" % nm
            if k == "ldlt" and name == "matrixU" and not a:
                return SV("mat", n, n)
            if k == "ldlt" and name == "vectorD" and not a:
                return SV("mat", n, "1", vec=True)
            if k == "eigsolver" and name == "eigenvalues" and not a:
                return SV("mat", n, "1", vec=True)
            if k == "eigsolver" and name == "eigenvectors" and not a:
                return SV("mat", n, n)
        if k == "geigs":
            if name == "eigenvalues" and not a:
                return SV("mat", "%s.nconv" % nm, "1", vec=True)
            if name == "eigenvectors" and not a:
                return SV("mat", "%s.n" % nm, "%s.nconv" % nm)
        self.err("selector .%s() on the %s object %s" % (name, k, nm))

    def primary(self):
        c = self.peek()
        if c == "(":
            pc = X.match_close(self.s, self.i)
            v = self.sub(self.s[self.i + 1:pc])
            self.i = pc + 1
            return SV(v.kind, v.rows, v.cols, vec=v.vec)
        m = NUM_RX.match(self.s, self.i)
        if m and not (self.i and (self.s[self.i - 1].isalnum() or self.s[self.i - 1] == "_")):
            self.i = m.end()
            return SV("scalar")
        for nm in sorted((k for k in self.env.shapes if "." in k), key=len, reverse=True):
            if self.s.startswith(nm, self.i) and not re.match(r"\w", self.s[self.i + len(nm):self.i + len(nm) + 1] or " "):
                self.i += len(nm)
                return self.named_shape(nm)
        name = self.ident()
        if self.peek() == "(":
            if name in CONVERSIONS:
                a = self.args()
                if len(a) != 1:
                    self.err("%s(...) conversion with %d arguments" % (name, len(a)))
                v = self.sub(a[0])
                if v.kind != "mat":
                    self.err("conversion of a non-matrix")
                return SV("mat", v.rows, v.cols, vec=v.vec)
            if name in ("Matrix::Identity", "Matrix::Zero", "SparseMatrix::Identity"):
                a = self.args()
                if len(a) != 2:
                    self.err("%s with %d arguments" % (name, len(a)))
                self.cx.check("0 <= %s && 0 <= %s" % (_p(a[0]), _p(a[1])), MSG_DIMS)
                return SV("mat", a[0], a[1])
            if name in SCALAR_CTORS:
                for t in self.args():
                    if self.sub(t).kind != "scalar":
                        self.err("%s(...) of a matrix" % name)
                return SV("scalar")
            if name in self.env.funcs:
                return self.call(name, self.args())
        if name in self.env.shapes:
            return self.named_shape(name)
        if name in self.env.decomps:
            return SV("decomp", named=(self.env.decomps[name], name))
        if name in self.env.scalars:
            return SV("scalar")
        self.err("unknown identifier %r" % name)

    def named_shape(self, nm):
        vec = self.env.shapes[nm] == "vec"
        if nm not in self.cx.reads:
            self.cx.reads.append(nm)
        return SV("mat", "%s.rows" % nm, "1" if vec else "%s.cols" % nm, named=nm, vec=vec)

    def call(self, name, a):
        txt, fi = call_text(name, a, self.cx)
        if fi.ret not in MAT_TYPES:
            return SV("scalar")
        self.env.tmp[0] += 1
        t = "verif_t%d" % self.env.tmp[0]
        self.cx.pre.append("const %s %s = %s;" % (fi.ret, t, txt))
        return SV("mat", "%s.rows" % t, "1" if fi.ret in VEC_TYPES else "%s.cols" % t, vec=fi.ret in VEC_TYPES)


# --------------------------------------------------------------------------- member functions: signatures from the header

class FInfo:
    def __init__(self, fn):
        self.fn, self.name = fn, fn.name
        ret = fn.ret
        for kw in ("inline", "static", "virtual"):
            ret = re.sub(r"\b%s\b" % kw, "", ret)
        self.ret = " ".join(ret.split())
        self.params = []            # (kind, type, name, default); kind: 'ref' | 'shape' | 'scalar'
        for p in X.split_top(fn.params, angle=True):
            p = " ".join(p.split())
            if not p:
                continue
            parts = X.split_top(p, "=")
            dflt = parts[1].strip() if len(parts) > 1 else None
            m = re.match(r"^(.*?)(\w+)$", parts[0].strip())
            ty, nm = m.group(1).strip(), m.group(2)
            base = ty.replace("const ", "").replace("&", "").strip()
            if ty.endswith("&") and not ty.startswith("const "):
                kind = "ref"
            elif base in MAT_TYPES:
                kind = "shape"
            elif base in ("int", "bool", "Scalar", "SortRule", "Index"):
                kind = "scalar"
            else:
                raise X.ExtractionBreak("%s: parameter %r has a type the shape rules do not know" % (fn.name, p))
            self.params.append((kind, base, nm, dflt))


def call_text(name, a, cx):
    """C text of a call of a member function: `self` first, reference arguments by address, by-value matrices as the SHAPE of the argument expression,
    defaulted arguments filled in from the declaration."""
    fi = cx.env.funcs[name]
    if len(a) > len(fi.params):
        raise X.ExtractionBreak("call of %s with %d arguments" % (name, len(a)))
    out = ["self"]
    for k, (kind, ty, nm, dflt) in enumerate(fi.params):
        if k >= len(a):
            if dflt is None:
                raise X.ExtractionBreak("call of %s: argument %s missing" % (name, nm))
            out.append(dflt)
        elif kind == "ref":
            if not re.match(r"^\w+$", a[k]):
                raise X.ExtractionBreak("call of %s: reference argument %r is not a plain name" % (name, a[k]))
            if ty in MAT_TYPES and a[k] not in cx.env.shapes:
                raise X.ExtractionBreak("call of %s: reference argument %r is not a known matrix" % (name, a[k]))
            out.append("&" + a[k])
        elif kind == "shape":
            v = Parser(a[k], cx).parse()
            if v.kind != "mat":
                raise X.ExtractionBreak("call of %s: argument %r is not a matrix expression" % (name, a[k]))
            if ty in VEC_TYPES and not v.vec:
                cx.check("%s == 1" % _p(v.cols), MSG_VECASSIGN)
            out.append("SHV(%s, %s)" % (v.rows, v.cols))
        else:
            out.append(a[k])
    return "%s(%s)" % (name, ", ".join(out)), fi


# --------------------------------------------------------------------------- statement pass (generic, fire-counted)

def scan_env(fn, env0, finfo):
    """Names in scope of one function: parameters and locals (from their declarations in the real text)."""
    env = env0.clone()
    shadow = set()
    for kind, ty, nm, _ in finfo.params:
        shadow.add(nm)
        env.shapes.pop(nm, None)
        if ty in MAT_TYPES:
            env.shapes[nm] = "vec" if ty in VEC_TYPES else "mat"
        elif ty in ("int", "bool", "Scalar", "SortRule", "Index"):
            env.scalars.add(nm)
            if ty == "Scalar":
                env.fscalars.add(nm)
    for m in re.finditer(r"(?<![\w:<.])(%s)\s+(\w+(?:\s*,\s*\w+)*)\s*(?=[;=(])" % TYPES_RX, fn.body):
        for nm in re.split(r"\s*,\s*", m.group(2)):
            env.shapes[nm] = "vec" if m.group(1) in VEC_TYPES else "mat"
            shadow.add(nm)
    for m in re.finditer(r"(?<![\w:<.])(?:const\s+)?(int|Scalar|bool|Index)\s+(\w+(?:\s*(?:=\s*[^,;()]+)?\s*,\s*\w+)*)\s*(?=[;=])", fn.body):
        for part in X.split_top(m.group(2)):
            nm = part.split("=")[0].strip()
            env.scalars.add(nm)
            if m.group(1) == "Scalar":
                env.fscalars.add(nm)
            shadow.add(nm)
    return env, shadow


def translate(fn, env, R, report, returns_shape=None):
    """Rewrite every Eigen statement of fn.body into its assertions + the shape of what it defines.  Returns a copy of fn."""
    b = fn.body
    done = []

    def note(kind, m):
        done.append("%s: %s" % (kind, " ".join(m.group(0).split())))

    b = R.sub("s:cast", r"\.template\s+cast<\s*\w+\s*>\(\)", ".cast()", b)
    names = lambda: "|".join(sorted((re.escape(k) for k in env.shapes if "." not in k), key=len, reverse=True)) or "@none@"

    # -- decomposition objects (ASSUMED library contracts: square input, status) ---------------------------------------
    def decomp(m):
        kind = {"SimplicialLDLT": "ldlt", "EigenSolver": "eigsolver"}[m.group(1)]
        nm = m.group(2)
        note("decomposition", m)
        cx = Ctx(env)
        v = Parser(m.group(3), cx).parse()
        if v.kind != "mat":
            raise X.ExtractionBreak("shape rules: decomposition of a non-matrix")
        cx.check("%s == %s" % (_p(v.rows), _p(v.cols)), MSG_SQUARE)
        env.decomps[nm] = kind
        return "%s const Sh %s = SHV(%s, %s); const int %s_info = LIB_INFO_%s();" % (" ".join(cx.pre), nm, v.rows, v.cols, nm, kind)
    b = R.sub("s:decomposition", r"Eigen::(SimplicialLDLT|EigenSolver)<\s*\w+\s*>\s+(\w+)\s*\(([^;]+)\)\s*;", decomp, b)
    for nm in env.decomps:
        if env.decomps[nm] in ("ldlt", "eigsolver"):
            b = R.sub("s:decomp-info", r"(?<![\w.>])%s\.info\(\)" % re.escape(nm), "%s_info" % nm, b)

    # -- declarations -------------------------------------------------------------------------------------------------
    def decl_init(m):
        ty, nm, rhs = m.group(1), m.group(2), m.group(3)
        note("decl", m)
        cx = Ctx(env)
        v = Parser(rhs, cx).parse()
        if v.kind != "mat":
            raise X.ExtractionBreak("shape rules: %s %s initialised from a non-matrix" % (ty, nm))
        if ty in VEC_TYPES and not v.vec:
            cx.check("%s == 1" % _p(v.cols), MSG_VECASSIGN)
        return "%s %s %s = SHN(%s, %s);" % (" ".join(cx.pre), ty, nm, v.rows, "1" if ty in VEC_TYPES else v.cols)
    b = R.sub("s:decl-init", r"(?<![\w:<.])(%s)\s+(\w+)\s*=\s*([^;]+);" % TYPES_RX, decl_init, b)

    def decl_ctor(m):
        ty, nm, a = m.group(1), m.group(2), [t.strip() for t in X.split_top(m.group(3))]
        if len(a) == 2:
            note("decl-dims", m)
            return "%s %s = SH_DIMS(%s, %s);" % (ty, nm, a[0], a[1])
        if len(a) == 1:
            class _M:
                def group(self_, k):
                    return (m.group(0), ty, nm, a[0])[k]
            return decl_init(_M())
        raise X.ExtractionBreak("shape rules: %s %s(...) with %d constructor arguments" % (ty, nm, len(a)))
    b = R.sub("s:decl-ctor", r"(?<![\w:<.])(%s)\s+(\w+)\s*\(([^;]*)\)\s*;" % TYPES_RX, decl_ctor, b)

    def decl_plain(m):
        ty = m.group(1)
        note("decl-empty", m)
        return "%s %s;" % (ty, ", ".join("%s = SHV(0, %s)" % (nm, "1" if ty in VEC_TYPES else "0") for nm in re.split(r"\s*,\s*", m.group(2).strip())))
    b = R.sub("s:decl-empty", r"(?<![\w:<.])(%s)\s+(\w+(?:\s*,\s*\w+)*)\s*;" % TYPES_RX, decl_plain, b)

    # -- assignments to a matrix / vector (whole object, column, block, coefficient) ----------------------------------
    def assign(m):
        lhs, sel, rhs = m.group(1), m.group(2) or "", m.group(3)
        if re.match(r"^\s*SH(V|N|_DIMS)\(", rhs):
            return m.group(0)
        note("assign", m)
        cx = Ctx(env)
        v = Parser(rhs, cx).parse()
        isvec = env.shapes[lhs] == "vec"
        L = SV("mat", "%s.rows" % lhs, "1" if isvec else "%s.cols" % lhs, named=lhs, vec=isvec)
        if not sel:
            if v.kind != "mat":
                raise X.ExtractionBreak("shape rules: scalar assigned to the matrix %s" % lhs)
            if isvec and not v.vec:
                cx.check("%s == 1" % _p(v.cols), MSG_VECASSIGN)
            return "{ %s SH_SET(%s, %s, %s); }" % (" ".join(cx.pre), lhs, v.rows, "1" if isvec else v.cols)
        if sel.startswith("("):
            idx = [t.strip() for t in X.split_top(sel[1:-1])]
            Parser("", cx).coeff(L, idx)
            if v.kind != "scalar":
                raise X.ExtractionBreak("shape rules: matrix assigned to a coefficient of %s" % lhs)
            return "{ %s SH_TOUCH(%s); }" % (" ".join(cx.pre), lhs)
        msel = re.match(r"^\.(\w+)\((.*)\)$", sel, flags=re.S)
        a = [t.strip() for t in X.split_top(msel.group(2))]
        tgt = Parser("", cx).selector(L, msel.group(1), a)
        if v.kind != "mat" or tgt.kind != "mat":
            raise X.ExtractionBreak("shape rules: %s%s = <non-matrix>" % (lhs, sel))
        if (str(tgt.rows), str(tgt.cols)) != (str(v.rows), str(v.cols)):
            cx.check("%s == %s && %s == %s" % (_p(tgt.rows), _p(v.rows), _p(tgt.cols), _p(v.cols)), MSG_ASSIGN_BLOCK)
        if msel.group(1) == "col":
            return "{ %s SH_COLWRITE(%s); }" % (" ".join(cx.pre), lhs)
        return "{ %s SH_TOUCH(%s); }" % (" ".join(cx.pre), lhs)
    b = R.sub("s:assign", r"(?<![\w.>:&])(%s)(\.\w+\((?:[^()]|\((?:[^()]|\([^()]*\))*\))*\)|\((?:[^()]|\([^()]*\))*\))?\s*(?<![-+*/<>!=])=(?!=)\s*([^;]+);" % names(), assign, b)

    # -- scalar := expression reading a matrix coefficient --------------------------------------------------------------
    if env.fscalars:
        salt = "|".join(sorted((re.escape(k) for k in env.fscalars), key=len, reverse=True))

        def sassign(m):
            if not re.search(r"(?<![\w.>])(?:%s)\b(?!\.(?:rows|cols)\(\))" % names(), m.group(2)):
                return m.group(0)
            note("scalar-read", m)
            cx = Ctx(env)
            if Parser(m.group(2), cx).parse().kind != "scalar":
                raise X.ExtractionBreak("shape rules: matrix assigned to the scalar %s" % m.group(1))
            return "{ %s %s = nondet_Scalar(); }" % (" ".join(cx.pre), m.group(1))
        b = R.sub("s:scalar-read", r"(?<![\w.>:&])(%s)\s*(?<![-+*/<>!=])=(?!=)\s*([^;]+);" % salt, sassign, b)

    # -- return of a matrix expression -------------------------------------------------------------------------------------
    if returns_shape:
        def ret(m):
            note("return", m)
            cx = Ctx(env)
            v = Parser(m.group(1), cx).parse()
            if v.kind != "mat":
                raise X.ExtractionBreak("shape rules: non-matrix returned from a function returning %s" % returns_shape)
            if returns_shape in VEC_TYPES and not v.vec:
                cx.check("%s == 1" % _p(v.cols), MSG_VECASSIGN)
            return "{ %s const %s verif_ret = SHV(%s, %s); return verif_ret; }" % (" ".join(cx.pre), returns_shape, v.rows, "1" if returns_shape in VEC_TYPES else v.cols)
        b = R.sub("s:return", r"\breturn\s+([^;]+);", ret, b, min_fires=1)

    # -- calls of member functions with reference arguments (statements and conditions) ----------------------------------
    for fname, fi in env.funcs.items():
        if fi.ret in MAT_TYPES or fname == fn.name:
            continue

        def rw(m, a, fname=fname):
            cx = Ctx(env)
            txt, _ = call_text(fname, a, cx)
            if cx.pre:
                raise X.ExtractionBreak("call of %s needs assertions inside an expression" % fname)
            done.append("call: %s(%s)" % (fname, ", ".join(a)))
            return "@CALL@" + txt
        b = R.call_rewrite("s:call:" + fname, r"(?<![\w.>@])%s(?=\s*\()" % re.escape(fname), rw, b)
    b = b.replace("@CALL@", "")

    # -- resize / setIdentity ---------------------------------------------------------------------------------------------
    b = R.sub("s:resize", r"(?<![\w.>])(%s)\.resize\(([^;]+)\);" % names(),
              lambda m: "SH_RESIZE(%s, %s);" % (m.group(1), ", ".join(t.strip() for t in X.split_top(m.group(2)))), b)
    b = R.sub("s:setIdentity", r"(?<![\w.>])(%s)\.setIdentity\(\);" % names(), r"SH_TOUCH(\1);", b)
    b = R.sub("s:trisolve", r"(?<![\w.>])(%s)\.template\s+triangularView<\s*Eigen::(?:Upper|Lower)\s*>\(\)\.solveInPlace\((\w+)\);" % names(),
              lambda m: "EIG_ASSERT(%s.rows == %s.cols && %s.cols == %s.rows, %s); SH_TOUCH(%s);" % (m.group(1), m.group(1), m.group(1), m.group(2),
                                                                                                  Q("Eigen: triangular solve needs a square matrix conforming with the right-hand side"), m.group(2)), b)
    vec_alt = "|".join(sorted((re.escape(k) for k, t in env.shapes.items() if "." not in k), key=len, reverse=True)) or "@none@"
    b = R.sub("s:rows()", r"(?<![\w.>])(%s)\.(rows|cols)\(\)" % vec_alt,
              lambda m: "1" if (m.group(2) == "cols" and env.shapes[m.group(1)] == "vec") else "%s.%s" % (m.group(1), m.group(2)), b)
    report.setdefault("abstracted_statements", {})[fn.name] = done
    g = copy.copy(fn)
    g.body = b
    return g


RESIDUE_RX = re.compile(r"::|\btemplate\b|\bauto\b|\.(?:transpose|sparseView|real|asDiagonal|coeff|block|col|resize|push_back|begin|end|clear|insert|reserve|"
                        r"setFromTriplets|solve|bdcSvd|eigenvalues|eigenvectors|info|init|compute|cast|cwiseSqrt|setIdentity|matrixU|vectorD|size|rows|cols)\s*\(|"
                        r"<\s*Scalar\s*>|\bstd\b|\bEigen\b")


def residue_check(name, ctext):
    body = ctext.split("\n", 1)[1] if ctext.startswith("#line") else ctext
    body = re.sub(r'"[^"\n]*"', '""', body)
    m = RESIDUE_RX.search(body)
    if m:
        s = max(body.rfind(";", 0, m.start()), body.rfind("{", 0, m.start()), body.rfind("}", 0, m.start())) + 1
        raise X.ExtractionBreak("%s: a statement the rules cannot translate survives: %r" % (name, " ".join(body[s:m.end() + 60].split())[:200]))


# =========================================================================== class layout (from the header)

def class_members(report):
    raw, st = X.load(HDR)
    lo, hi = X.class_body(st, CLS)
    body = st[lo:hi]
    out, depth, flat = [], 0, []
    for ch in body:
        if ch == "{":
            depth += 1
        elif ch == "}":
            depth -= 1
        elif depth == 0 or ch == "\n":
            flat.append(ch)
            continue
        flat.append(" ")
    for stmt in "".join(flat).split(";"):
        s = " ".join(stmt.split())
        s = re.sub(r"^((public|private|protected)\s*:\s*)+", "", s)
        if not s or s.startswith("typedef") or s.startswith("using") or "(" in s:
            continue
        m = re.match(r"^(const\s+)?([\w:<>]+)\s+(\w+(?:\s*,\s*\w+)*)$", s)
        if not m:
            raise X.ExtractionBreak("%s: member declaration %r not understood" % (CLS, s))
        for nm in re.split(r"\s*,\s*", m.group(3)):
            out.append((m.group(2), nm, bool(m.group(1))))
    report["members"] = ["%s %s" % (t, n) for t, n, _ in out]
    for t, n, _ in out:
        if t not in MAT_TYPES and t not in ("int", "bool"):
            raise X.ExtractionBreak("%s: member %s has type %s, which the shape model does not know" % (CLS, n, t))
    need = {"m_n": "int", "m_nev": "int", "A": "SparseMatrix", "X": "SparseMatrix", "m_Y": "SparseMatrix", "m_B": "SparseMatrix", "m_preconditioner": "SparseMatrix",
            "flag_with_constraints": "bool", "flag_with_B": "bool", "flag_with_preconditioner": "bool", "m_residuals": "SparseMatrix", "m_evectors": "Matrix",
            "m_evalues": "Vector", "m_info": "int"}
    have = {n: t for t, n, _ in out}
    for n, t in need.items():
        if have.get(n) != t:
            raise X.ExtractionBreak("%s: member %s %s expected by the contracts, found %r" % (CLS, t, n, have.get(n)))
    return out


def eigen_info_enum(report):
    """Eigen::ComputationInfo from Eigen's own header."""
    for p in ("/usr/include/eigen3/Eigen/src/Core/util/Constants.h",):
        try:
            txt = open(p).read()
        except OSError:
            continue
        m = re.search(r"enum\s+ComputationInfo\s*\{(.*?)\}", X.strip_comments(txt), flags=re.S)
        if m:
            vals = {}
            for it in m.group(1).split(","):
                mm = re.match(r"^\s*(\w+)\s*=\s*(\d+)\s*$", it)
                if mm:
                    vals[mm.group(1)] = int(mm.group(2))
            if set(("Success", "NumericalIssue", "NoConvergence", "InvalidInput")) <= set(vals):
                report["Eigen::ComputationInfo"] = vals
                return "".join("#define EIGEN_%s %d\n" % kv for kv in sorted(vals.items(), key=lambda kv: kv[1]))
    raise X.ExtractionBreak("Eigen::ComputationInfo not found in Eigen's Constants.h")


TYPES_HEAD = r'''
#include "skel.h"
#ifndef NO_EIG_ASSERT
#define EIG_ASSERT(c, msg) __CPROVER_assert(c, msg)
#else
#define EIG_ASSERT(c, msg) ((void)0)     /* secondary group on the same text: these assertions are discharged in the primary group */
#endif
/* data-less matrix / vector: the Eigen shape */
typedef struct { Index rows, cols; } Sh;
typedef Sh SparseMatrix, Matrix, Vector, SparseComplexMatrix, ComplexMatrix, ComplexVector;
typedef struct { int *data; Index size; } IVec;           /* std::vector<int>: capacity = allocated size of data */
#define SHCAP (4 * NMAX)
#define SH_OK(s) (0 <= (s).rows && (s).rows <= SHCAP && 0 <= (s).cols && (s).cols <= SHCAP)
/* ghost for the determinism assumption on the convergence test: g_unch == "since the last checkConvergence_getBlocksize call no matrix / vector was defined, except
 * that the block it examined (g_cc_block) was resized and refilled column by column" */
_Bool g_unch; const void *g_cc_block;
static Sh SHV(Index r, Index c) { Sh s; s.rows = r; s.cols = c; return s; }                      /* shape of a temporary */
static Sh SHN(Index r, Index c) { Sh s; s.rows = r; s.cols = c; g_unch = 0; return s; }          /* freshly defined object */
static Sh SH_DIMS(Index r, Index c) { EIG_ASSERT(0 <= r && 0 <= c, "Eigen: matrix dims >= 0"); return SHN(r, c); }
#define SH_SET(L, r, c) do { const Index verif_r = (r), verif_c = (c); (L).rows = verif_r; (L).cols = verif_c; g_unch = 0; } while (0)
#define SH_TOUCH(L) do { g_unch = 0; } while (0)
#define SH_COLWRITE(L) do { if ((const void *)&(L) != g_cc_block) g_unch = 0; } while (0)
#define SH_RESIZE(L, r, c) do { EIG_ASSERT(0 <= (r) && 0 <= (c), "Eigen: matrix dims >= 0"); (L).rows = (r); (L).cols = (c); if ((const void *)&(L) != g_cc_block) g_unch = 0; } while (0)
static Index ND_DIM(void) { Index n = nondet_Index(); __CPROVER_assume(0 <= n && n <= NMAX); return n; }
static Sh ND_SH(void) { Sh s; s.rows = ND_DIM(); s.cols = ND_DIM(); return s; }
static Scalar VSQRT(Scalar x) { (void)x; return nondet_Scalar(); }   /* floating-point values are dropped: sqrt of a dropped value is a dropped value */
/* Skolem indices */
Index g_a, g_b, g_c;
/* ghost record of checkConvergence_getBlocksize calls */
int g_last_bs;               /* return value of the LAST call (-1: none yet in this compute()) */
int g_cc_ret;                /* result of the last call */
Scalar *g_cnorm;             /* g_cnorm[c]: the column norm the last call compared with the tolerance */
Index *g_pos;                /* g_pos[c]: position at which column c was pushed by the last call (-1: not pushed) */
_Bool g_orth_first;          /* no orthogonalizeInPlace call yet in this compute() */
'''

LIB_DEFS = r'''
/* ---- ASSUMED library contracts (Eigen) ------------------------------------------------------------------------------------------------------------- */
/* Eigen::SimplicialLDLT<SparseMatrix>(S): square S; info() is Success or NumericalIssue; matrixU() is n x n, vectorD() has n entries */
static int LIB_INFO_ldlt(void) { int r = nondet_int(); __CPROVER_assume(r == EIGEN_Success || r == EIGEN_NumericalIssue); return r; }
/* Eigen::EigenSolver<Matrix>(S): square S; n eigenvalues, n x n eigenvectors; info() is Success, NumericalIssue or NoConvergence.
 * ASSUMPTION (evidence): it succeeds on the finite symmetric k x k matrix X'AX that compute() hands to it */
static int LIB_INFO_eigsolver(void) { int r = nondet_int(); __CPROVER_assume(r == EIGEN_Success || r == EIGEN_NumericalIssue || r == EIGEN_NoConvergence);
#ifndef EIGSOLVER_MAY_FAIL
  __CPROVER_assume(r == EIGEN_Success);
#endif
  return r; }
'''


def struct_text(members):
    cmap = {"bool": "_Bool", "int": "int"}
    return "typedef struct {\n" + "".join("  %s %s;\n" % (cmap.get(t, t), n) for t, n, _ in members) + "} LOB;\n"


def alloc_lob(members):
    L = ["  LOB Lv; LOB *self = &Lv;"]
    for t, n, _ in members:
        if t in MAT_TYPES:
            L.append("  self->%s = ND_SH();%s" % (n, (" self->%s.cols = 1;" % n) if t in VEC_TYPES else ""))
        elif t == "bool":
            L.append("  self->%s = nondet_bool();" % n)
        else:
            L.append("  self->%s = nondet_int();" % n)
    L.append("  g_a = nondet_Index(); g_b = nondet_Index(); g_c = nondet_Index(); g_last_bs = -1; g_unch = 0; g_cc_block = NULL; g_cc_ret = nondet_int(); g_orth_first = 1;")
    return "\n".join(L) + "\n"


INV = ("1 <= self->m_n && self->m_n <= NMAX && 1 <= self->m_nev && self->m_nev <= NMAX && "
       "self->A.rows == self->m_n && self->A.cols == self->m_n && self->X.rows == self->m_n && self->X.cols == self->m_nev && "
       "(!self->flag_with_B || (self->m_B.rows == self->m_n && self->m_B.cols == self->m_n)) && "
       "(!self->flag_with_constraints || (self->m_Y.rows == self->m_n && 0 <= self->m_Y.cols && self->m_Y.cols <= NMAX)) && "
       "(!self->flag_with_preconditioner || (self->m_preconditioner.rows == self->m_n && self->m_preconditioner.cols == self->m_n)) && "
       "SH_OK(self->m_residuals) && SH_OK(self->m_evectors) && SH_OK(self->m_evalues) && self->m_evalues.cols == 1 && "
       "SH_OK(self->A) && SH_OK(self->X) && SH_OK(self->m_B) && SH_OK(self->m_Y) && SH_OK(self->m_preconditioner)")
INV_DOC = ("class invariant (constructor + setters with conforming arguments): A is n x n, X is n x k, B is n x n when set, the constraints have n rows when set, "
           "the preconditioner is n x n when set; n, k >= 1")


# =========================================================================== per-function extraction

GENERIC_RULES = [
    ("std::min", r"\bstd::min\s*\(", "VMIN(", {"min": 0}),
    ("std::max", r"\bstd::max\s*\(", "VMAX(", {"min": 0}),
    ("eigen-info", r"\bEigen::(Success|NumericalIssue|NoConvergence|InvalidInput)\b", r"EIGEN_\1", {"min": 0}),
    ("sqrt-value-dropped", r"\bFSQRT\(", "VSQRT(", {"min": 0}),
]
CASTS = cgen.CAST_TYPES + "|int"


class Pack:
    """Everything shared by the per-function extractors."""

    def __init__(self, report):
        self.report = report
        self.members = class_members(report)
        self.env0 = Env()
        for t, n, _ in self.members:
            if t in MAT_TYPES:
                self.env0.shapes[n] = "vec" if t in VEC_TYPES else "mat"
            else:
                self.env0.scalars.add(n)
        self.finfo = {}
        for nm in ("orthogonalizeInPlace", "applyConstraintsInPlace", "stack_4_matricies", "stack_9_matricies", "sort_epairs", "removeColumns",
                   "checkConvergence_getBlocksize"):
            f = X.locate(HDR, nm, cls=CLS)
            f = copy.copy(f)
            f.params = f.params.replace("std::vector<int>", "IVec")
            self.finfo[nm] = FInfo_ext(f)
        self.env0.funcs = self.finfo
        self.base = (TYPES_HEAD + eigen_info_enum(report) + common.enum_defines("Util/SelectionRule.h", "SortRule") +
                     common.enum_defines("Util/CompInfo.h", "CompInfo") + struct_text(self.members) + LIB_DEFS)
        self.alloc = alloc_lob(self.members)

    def emit(self, fn, cname, spec=None, pre_rules=(), extra_rules=(), loop_contracts=None, maythrow=(), returns_shape=None, finfo=None, pre_body="",
             extra_scalars=(), extra_shapes=None, decomps=None, init_text=None):
        R = X.Rules()
        fi = finfo or FInfo_ext(fn)
        f = copy.copy(fn)
        f.params = f.params.replace("std::vector<int>", "IVec")
        for rule in pre_rules:
            kw = rule[3] if len(rule) > 3 else {}
            f.body = R.sub("pre:" + rule[0], rule[1], rule[2], f.body, flags=kw.get("flags", re.S), min_fires=kw.get("min", 1), max_fires=kw.get("max"))
        env, shadow = scan_env(f, self.env0, fi)
        env.scalars |= set(extra_scalars)
        for k, v in (extra_shapes or {}).items():
            env.shapes[k] = v
        for k, v in (decomps or {}).items():
            env.decomps[k] = v
        f = translate(f, env, R, self.report, returns_shape=returns_shape)
        f.inits = ""
        members = [n for _, n, _ in self.members if n not in shadow]
        t, R = cgen.emit(f, cname, self_type="LOB", members=members, contract=spec.frame_contract() if spec else "", loop_contracts=loop_contracts,
                         extra_rules=GENERIC_RULES + list(extra_rules), maythrow=maythrow, rules=R, cast_types=CASTS, pre_body=pre_body, static=spec is None)
        residue_check(fn.name, t)
        self.report[CLS + "::" + fn.name] = dict(R.fired)
        return t


def FInfo_ext(f):
    """Signature of a member function; std::vector<int> is the IVec model."""
    g = copy.copy(f)
    g.params = g.params.replace("std::vector<int>", "IVec")
    return FInfo(g)


# --------------------------------------------------------------------------- stack_4_matricies / stack_9_matricies

def f_stack(P, name):
    f = X.locate(HDR, name, cls=CLS)
    fi = P.finfo[name]
    ps = [nm for kind, ty, nm, _ in fi.params]
    if any(kind != "shape" for kind, _, _, _ in fi.params) or len(ps) not in (4, 9) or fi.ret != "Matrix":
        raise X.ExtractionBreak("%s: expected 4 or 9 by-value Matrix parameters and a Matrix result" % name)
    g = 2 if len(ps) == 4 else 3
    grid = [ps[r * g:(r + 1) * g] for r in range(g)]
    pre = [("block row %d: equal row counts" % r, " && ".join("%s.rows == %s.rows" % (grid[r][0], grid[r][c]) for c in range(1, g))) for r in range(g)] + \
          [("block column %d: equal column counts" % c, " && ".join("%s.cols == %s.cols" % (grid[0][c], grid[r][c]) for r in range(1, g))) for c in range(g)] + \
          [("block shapes are shapes", " && ".join("SH_OK(%s)" % p for p in ps))]
    post = [("the result stacks the block rows and block columns: (sum of row counts) x (sum of column counts)",
             "ret.rows == %s && ret.cols == %s" % (" + ".join("%s.rows" % grid[r][0] for r in range(g)), " + ".join("%s.cols" % grid[0][c] for c in range(g)))), ("ghost", "!g_unch")]
    spec = FSpec(name, "Matrix", [("LOB *", "self")] + [("Matrix", p) for p in ps], pre=pre, post=post, frame=["g_unch"], real=HDR + ":" + name)
    t = P.emit(f, name, spec, returns_shape="Matrix", finfo=fi)
    h = spec.harness("h", P.alloc + "".join("  Matrix %s = ND_SH();\n" % p for p in ps), ", ".join(["self"] + ps))
    return t, spec, h


def pname(fi, k):
    return fi.params[k][2]


SHAPE_KEPT = lambda p, o: "%s->rows == %s_r && %s->cols == %s_c" % (p, o, p, o)


# --------------------------------------------------------------------------- orthogonalizeInPlace

def f_orth(P):
    name = "orthogonalizeInPlace"
    f = X.locate(HDR, name, cls=CLS)
    fi = P.finfo[name]
    if [k for k, _, _, _ in fi.params] != ["ref", "ref", "ref", "scalar"] or fi.ret != "int":
        raise X.ExtractionBreak("%s: signature changed" % name)
    M, B, TB, HAS = (pname(fi, k) for k in range(4))
    ml = re.search(r"for \(int (\w+) = 0; \1 < (\w+)\.rows\(\); \1\+\+\)", f.body)
    if not ml:
        raise X.ExtractionBreak("%s: loop over the diagonal of the LDLT factor not recognised" % name)
    I, D = ml.group(1), ml.group(2)
    spec = FSpec(name, "int", [("LOB *", "self"), ("SparseMatrix *", M), ("SparseMatrix *", B), ("SparseMatrix *", TB), ("_Bool", HAS)],
                 pre=[("operands are shapes", "SH_OK(*%s) && SH_OK(*%s) && (!%s || SH_OK(*%s))" % (M, B, HAS, TB)),
                      ("when a metric is set it is square and conforms with the block", "!self->flag_with_B || (%s->rows == %s->cols && %s->cols == %s->rows)" % (B, B, B, M)),
                      ("a supplied product B*M has the shape of M", "!%s || (%s->rows == %s->rows && %s->cols == %s->cols)" % (HAS, TB, M, TB, M))],
                 post=[("shape-preserving on M", SHAPE_KEPT(M, "old_m")),
                       ("returns Success or the status of the failed LDLT", "ret == EIGEN_Success || ret == EIGEN_NumericalIssue"),
                       ("failure: m_info is the returned status, the product block is untouched", "ret == EIGEN_Success || (self->m_info == ret && %s)" % SHAPE_KEPT(TB, "old_t")),
                       ("success: the product block has the shape of M, m_info is untouched", "ret != EIGEN_Success || (%s->rows == old_m_r && %s->cols == old_m_c && self->m_info == old_info)" % (TB, TB)),
                       ("ghost", "!g_unch && !g_orth_first")],
                 frame=["*" + M, "*" + TB, "self->m_info", "g_unch", "g_orth_first"],
                 olds=[("Index", "old_m_r", M + "->rows"), ("Index", "old_m_c", M + "->cols"), ("Index", "old_t_r", TB + "->rows"), ("Index", "old_t_c", TB + "->cols"),
                       ("int", "old_info", "self->m_info"), ("_Bool", "old_first", "g_orth_first")],
                 real=HDR + ":" + name,
                 # ASSUMPTION (quantifier of the property: full-rank initial block, SPD B): the FIRST orthogonalisation of a compute() - the initial block - succeeds
                 stub_extra="if (old_first) __CPROVER_assume(ret == EIGEN_Success);")
    inv = ("__CPROVER_assigns(%(I)s, g_unch) __CPROVER_loop_invariant(0 <= %(I)s && %(I)s <= %(D)s.rows) "
           "__CPROVER_decreases(%(D)s.rows - %(I)s)") % {"I": I, "D": D}
    t = P.emit(f, name, spec, finfo=fi, loop_contracts={0: inv}, pre_body=" g_orth_first = 0; g_unch = 0;")
    setup = P.alloc + "  SparseMatrix Mv = ND_SH(), Bv = ND_SH(), Tv = ND_SH(); SparseMatrix *%s = &Mv, *%s = &Bv, *%s = &Tv; _Bool %s = nondet_bool();\n" % (M, B, TB, HAS)
    return t, spec, spec.harness("h", setup, "self, %s, %s, %s, %s" % (M, B, TB, HAS))


# --------------------------------------------------------------------------- applyConstraintsInPlace

def f_constraints(P):
    name = "applyConstraintsInPlace"
    f = X.locate(HDR, name, cls=CLS)
    fi = P.finfo[name]
    if [k for k, _, _, _ in fi.params] != ["ref", "ref", "ref"] or fi.ret != "void":
        raise X.ExtractionBreak("%s: signature changed" % name)
    XX, Y, B = (pname(fi, k) for k in range(3))
    spec = FSpec(name, "void", [("LOB *", "self"), ("SparseMatrix *", XX), ("SparseMatrix *", Y), ("SparseMatrix *", B)],
                 pre=[("operands are shapes", "SH_OK(*%s) && SH_OK(*%s) && SH_OK(*%s)" % (XX, Y, B)),
                      ("the constraints have as many rows as the block", "%s->rows == %s->rows" % (Y, XX)),
                      ("when a metric is set it is square and conforms with the constraints", "!self->flag_with_B || (%s->rows == %s->cols && %s->cols == %s->rows)" % (B, B, B, Y))],
                 post=[("shape-preserving on the block", SHAPE_KEPT(XX, "old_x")), ("ghost", "!g_unch")],
                 frame=["*" + XX, "g_unch"], olds=[("Index", "old_x_r", XX + "->rows"), ("Index", "old_x_c", XX + "->cols")],
                 real=HDR + ":" + name)
    t = P.emit(f, name, spec, finfo=fi)
    setup = P.alloc + "  SparseMatrix Xv = ND_SH(), Yv = ND_SH(), Bv = ND_SH(); SparseMatrix *%s = &Xv, *%s = &Yv, *%s = &Bv;\n" % (XX, Y, B)
    return t, spec, spec.harness("h", setup, "self, %s, %s, %s" % (XX, Y, B))


# --------------------------------------------------------------------------- sort_epairs

SORT_DEFS = r'''
/* std::map<Scalar, Vector, cmp>::insert (ASSUMED library contract): the first key is always inserted, a later key is inserted unless an equivalent key is present */
static Index MAP_INSERTED(Index n) { return (n == 0 || nondet_bool()) ? n + 1 : n; }
'''


def f_sort(P):
    name = "sort_epairs"
    f = X.locate(HDR, name, cls=CLS)
    fi = P.finfo[name]
    if [k for k, _, _, _ in fi.params] != ["ref", "ref", "scalar"] or fi.ret != "void":
        raise X.ExtractionBreak("%s: signature changed" % name)
    EV, EC, RULE = (pname(fi, k) for k in range(3))
    m1 = re.search(r"for \(int (\w+) = 0; \1 < (m_evectors)\.cols\(\); \+\+\1\)", f.body)
    m2 = re.search(r"for \(auto& (\w+) : (\w+)\)", f.body)
    mi = re.search(r"\bint (\w+) = 0;\s*for \(auto&", f.body)
    if not (m1 and m2 and mi):
        raise X.ExtractionBreak("%s: the two loops (fill the map, read it back) not recognised" % name)
    I1, PAIR, MAP, I2 = m1.group(1), m2.group(1), m2.group(2), mi.group(1)
    spec = FSpec(name, "void", [("LOB *", "self"), ("Vector *", EV), ("Matrix *", EC), ("SortRule", RULE)],
                 pre=[("operands are shapes", "SH_OK(*%s) && SH_OK(*%s) && SH_OK(self->m_evectors) && %s->cols == 1" % (EV, EC, EV)),
                      ("one value and one column per column of m_evectors (the loop bound is the MEMBER m_evectors, the operands are the arguments)",
                       "self->m_evectors.cols <= %s->rows && self->m_evectors.cols <= %s->cols" % (EV, EC))],
                 post=[("shapes unchanged", SHAPE_KEPT(EV, "old_v") + " && " + SHAPE_KEPT(EC, "old_c")), ("ghost", "!g_unch")],
                 frame=["*" + EV, "*" + EC, "g_unch"],
                 olds=[("Index", "old_v_r", EV + "->rows"), ("Index", "old_v_c", EV + "->cols"), ("Index", "old_c_r", EC + "->rows"), ("Index", "old_c_c", EC + "->cols")],
                 real=HDR + ":" + name)
    pre_rules = [
        ("cmp-decl", r"std::function<bool\(Scalar, Scalar\)> (\w+);", r"int \1;", {"max": 1}),
        ("cmp-less", r"std::less<Scalar>\{\}", "0", {"max": 1}), ("cmp-greater", r"std::greater<Scalar>\{\}", "1", {"max": 1}),
        ("map-decl", r"std::map<Scalar, Vector, decltype\((\w+)\)> %s\(\1\);" % MAP, r"Index %s_n = 0; Scalar %s_first = 0; Vector %s_second; (void)\1;" % (MAP, MAP, MAP), {"max": 1}),
        ("map-insert", r"%s\.insert\(std::make_pair\(([^;]+?), ([^;]+?)\)\);" % MAP, r"{ %s_first = \1; %s_second = \2; %s_n = MAP_INSERTED(%s_n); }" % (MAP, MAP, MAP, MAP), {"max": 1}),
        ("range-for", r"for \(auto& %s : %s\)" % (PAIR, MAP), "for (Index verif_it = 0; verif_it < %s_n; verif_it++)" % MAP, {"max": 1}),
        ("pair.second", r"\b%s\.second\b" % PAIR, "%s_second" % MAP, {"min": 1}), ("pair.first", r"\b%s\.first\b" % PAIR, "%s_first" % MAP, {"min": 1}),
    ]
    d = {"I1": I1, "I2": I2, "N": MAP + "_n", "S": MAP + "_second", "F": MAP + "_first", "EC": "(*%s)" % EC, "EV": "(*%s)" % EV}
    inv0 = ("__CPROVER_assigns(%(I1)s, %(N)s, %(F)s, %(S)s, g_unch) __CPROVER_loop_invariant(0 <= %(I1)s && %(I1)s <= self->m_evectors.cols && 0 <= %(N)s && %(N)s <= %(I1)s) "
            "__CPROVER_loop_invariant((%(N)s == 0 || %(S)s.rows == %(EC)s.rows) && !g_unch) "
            "__CPROVER_decreases(self->m_evectors.cols - %(I1)s)") % d
    inv1 = ("__CPROVER_assigns(verif_it, %(I2)s, g_unch) __CPROVER_loop_invariant(0 <= verif_it && verif_it <= %(N)s && %(I2)s == verif_it && !g_unch) "
            "__CPROVER_decreases(%(N)s - verif_it)") % d
    t = P.emit(f, name, spec, finfo=fi, pre_rules=pre_rules, loop_contracts={0: inv0, 1: inv1}, pre_body=" g_unch = 0;")
    # the harness covers both the aliased call of compute() (evectors IS m_evectors) and an unrelated matrix
    setup = P.alloc + "  Vector Vv = ND_SH(); Vv.cols = 1; Matrix Cv = ND_SH(); Vector *%s = &Vv; Matrix *%s = nondet_bool() ? &self->m_evectors : &Cv; SortRule %s = nondet_int();\n" % (EV, EC, RULE)
    return SORT_DEFS + t, spec, spec.harness("h", setup, "self, %s, %s, %s" % (EV, EC, RULE))


# --------------------------------------------------------------------------- removeColumns

PRE_INC = lambda v, a, b, lo="0": "(!(%s <= (%s) && (%s) < (%s) && (%s) < (%s).size) || (Index)(%s).data[%s] - (Index)(%s).data[%s] >= (%s) - (%s))" % (lo, a, a, b, b, v, v, b, v, a, b, a)
PRE_RNG = lambda v, a, n, lo="0": "(!(%s <= (%s) && (%s) < (%s).size) || (0 <= (%s).data[%s] && (%s).data[%s] < (%s)))" % (lo, a, a, v, v, a, v, a, n)

RC_DEFS = r'''
typedef struct { Index n, max_row, max_col; } Trip;     /* std::vector<Eigen::Triplet<Scalar>>: count and the largest (row, col) pushed */
#define TRIP_PUSH(t, r, c) do { (t).n++; if ((t).max_row < (r)) (t).max_row = (r); if ((t).max_col < (c)) (t).max_col = (c); EIG_ASSERT(0 <= (r) && 0 <= (c), "Eigen: triplet indices >= 0"); } while (0)
#define VEC_RESERVE(n) EIG_ASSERT(0 <= (n), "std::vector::reserve(n): n >= 0 (a negative int becomes a huge size_t: length_error)")
#define SET_FROM_TRIPLETS(M, t) do { EIG_ASSERT((t).max_row < (M).rows && (t).max_col < (M).cols, "Eigen: setFromTriplets - every triplet (row, col) inside the matrix"); SH_TOUCH(M); } while (0)
Index g_p;      /* ghost cursor: number of entries of the (strictly increasing) index list that are below the current row */
#define RC_INC(v, a, b) @INC@
#define RC_RNG(v, a, n) @RNG@
/* std::find(v.begin(), v.end(), x) == v.end()   (ASSUMED library contract [alg.find]: returns the first position holding x, end() if there is none).
 * w is the position returned.  The function's precondition (entries strictly increasing and in range, proved at every call site for arbitrary Skolem positions)
 * is instantiated at the positions this call talks about; the ghost cursor is then advanced past x. */
static _Bool IVEC_ABSENT(const IVec *v, Index x, Index ncols)
{
  Index w = nondet_Index(); __CPROVER_assume(0 <= w && w <= v->size);
  if (w < v->size) __CPROVER_assume(v->data[w] == x);
  else if (0 <= g_p && g_p < v->size) __CPROVER_assume(v->data[g_p] != x);                 /* "none equals x", instantiated at the cursor */
  __CPROVER_assume(RC_INC(*v, w, g_p - 1)); __CPROVER_assume(RC_INC(*v, g_p, w)); __CPROVER_assume(RC_INC(*v, g_p, g_p + 1));   /* INSTANTIATE precondition */
  __CPROVER_assume(RC_RNG(*v, g_p, ncols)); __CPROVER_assume(RC_RNG(*v, g_p + 1, ncols));
  _Bool absent = (w == v->size);
  if (0 <= g_p && g_p < v->size && v->data[g_p] == x) g_p++;
  return absent;
}
'''.replace("@INC@", PRE_INC("v", "a", "b")).replace("@RNG@", PRE_RNG("v", "a", "n"))


def f_remove(P):
    name = "removeColumns"
    f = X.locate(HDR, name, cls=CLS)
    fi = P.finfo[name]
    if [(k, t) for k, t, _, _ in fi.params] != [("ref", "SparseMatrix"), ("ref", "IVec")] or fi.ret != "void":
        raise X.ExtractionBreak("%s: signature changed" % name)
    MT, V = pname(fi, 0), pname(fi, 1)
    ml = re.search(r"for \(int (\w+) = 0; \1 <=? %s\.cols\(\); (?:\1\+\+|\+\+\1)\)" % MT, f.body)
    mc = re.search(r"\bint (\w+) = 0;", f.body)
    mt = re.search(r"std::vector<Eigen::Triplet<Scalar>> (\w+);", f.body)
    if not (ml and mc and mt):
        raise X.ExtractionBreak("%s: loop over the columns / kept-column counter / triplet list not recognised" % name)
    IR, IC, TL = ml.group(1), mc.group(1), mt.group(1)
    spec = FSpec(name, "void", [("LOB *", "self"), ("SparseMatrix *", MT), ("IVec *", V)],
                 pre=[("the matrix is a shape", "SH_OK(*%s)" % MT), ("index list", "0 <= %s->size && %s->size <= VEC_SIZE(%s->data)" % (V, V, V)),
                      ("entries of the index list are strictly increasing (hence distinct) ...", PRE_INC("*" + V, "g_a", "g_b")),
                      ("... and are column indices of the matrix", PRE_RNG("*" + V, "g_a", "%s->cols" % MT))],
                 post=[("the result keeps the rows and has cols - |colToRemove| columns", "%s->rows == old_r && %s->cols == old_c - %s->size" % (MT, MT, V)),
                       ("ghost", "!g_unch")],
                 frame=["*" + MT, "g_unch", "g_p"], olds=[("Index", "old_r", MT + "->rows"), ("Index", "old_c", MT + "->cols")],
                 real=HDR + ":" + name)
    vv = "(*%s)" % V
    pre_rules = [
        ("triplets", r"std::vector<Eigen::Triplet<Scalar>> %s;" % TL, "Trip %s; %s.n = 0; %s.max_row = -1; %s.max_col = -1;" % (TL, TL, TL, TL), {"max": 1}),
        ("reserve", r"%s\.reserve\(([^;]+)\);" % TL, r"VEC_RESERVE(\1);", {"max": 1}),
        ("find", r"std::find\(%s\.begin\(\), %s\.end\(\), (\w+)\) == %s\.end\(\)" % (V, V, V), r"IVEC_ABSENT(&%s, \1, %s.cols())" % (V, MT), {"max": 1}),
        ("push", r"%s\.push_back\(Eigen::Triplet<Scalar>\((\w+), (\w+), 1\)\);" % TL, r"TRIP_PUSH(%s, \1, \2);" % TL, {"max": 1}),
        ("setFromTriplets", r"(\w+)\.setFromTriplets\(%s\.begin\(\), %s\.end\(\)\);" % (TL, TL), r"SET_FROM_TRIPLETS(\1, %s);" % TL, {"max": 1}),
        ("size", r"\b%s\.size\(\)" % V, "%s.size" % V, {"min": 1}),
    ]
    d = {"IR": IR, "IC": IC, "TL": TL, "M": "(*%s)" % MT, "V": vv}
    inv = ("__CPROVER_assigns(%(IR)s, %(IC)s, %(TL)s, g_p) __CPROVER_loop_invariant(0 <= %(IR)s && %(IR)s <= %(M)s.cols && 0 <= g_p && g_p <= %(V)s.size && %(IC)s == %(IR)s - g_p) "
           "__CPROVER_loop_invariant(g_p == %(V)s.size || %(V)s.data[g_p] >= %(IR)s) __CPROVER_loop_invariant(g_p == 0 || %(V)s.data[g_p - 1] < %(IR)s) "
           "__CPROVER_loop_invariant(0 <= %(TL)s.n && %(TL)s.n <= %(IR)s && -1 <= %(TL)s.max_row && %(TL)s.max_row < %(IR)s && -1 <= %(TL)s.max_col && %(TL)s.max_col < %(IC)s) "
           "__CPROVER_decreases(%(M)s.cols - %(IR)s)") % d
    # INSTANTIATE the precondition at the positions the size arithmetic needs: first, last, (first, last)
    inst = (" g_p = 0; __CPROVER_assume(%s); __CPROVER_assume(%s); __CPROVER_assume(%s);" %
            (PRE_RNG("*" + V, "0", "%s->cols" % MT), PRE_RNG("*" + V, "%s->size - 1" % V, "%s->cols" % MT), PRE_INC("*" + V, "0", "%s->size - 1" % V)))
    t = P.emit(f, name, spec, finfo=fi, pre_rules=pre_rules, loop_contracts={0: inv}, pre_body=inst, extra_scalars=[V],
               extra_rules=[("after-loop", r"(SET_FROM_TRIPLETS\()", r"__CPROVER_assume(RC_RNG(%s, g_p, %s.cols)); \1" % (vv, "(*%s)" % MT), {"max": 1})])
    setup = P.alloc + ("  SparseMatrix Mv = ND_SH(); IVec Vv; Vv.data = malloc(ND_DIM() * sizeof(int)); __CPROVER_assume(Vv.data != NULL); Vv.size = nondet_Index(); "
                       "SparseMatrix *%s = &Mv; IVec *%s = &Vv;\n" % (MT, V))
    h = spec.harness("h", setup, "self, %s, %s" % (MT, V))
    n_inst = inst.count("__CPROVER_assume") + RC_DEFS.count("__CPROVER_assume(RC_") + 1
    P.report["removeColumns: precondition instantiations"] = n_inst
    return RC_DEFS + t, spec, h


# --------------------------------------------------------------------------- checkConvergence_getBlocksize

CC_DEFS = r'''
#define IVEC_PUSH_COL(v, x) do { __CPROVER_assert((v).size < VEC_SIZE((v).data), "std::vector model: push_back within the allocated capacity"); \
    (v).data[(v).size] = (x); g_pos[x] = (v).size; (v).size++; } while (0)
'''


def cc_spec(P, fi):
    RES, TOL, V = pname(fi, 0), pname(fi, 1), pname(fi, 2)
    app = "old_size <= g_a && g_a < %s->size" % V
    return FSpec("checkConvergence_getBlocksize", "int", [("LOB *", "self"), ("SparseMatrix *", RES), ("Scalar", TOL), ("IVec *", V)],
                 pre=[("sizes", "0 <= self->m_n && self->m_n <= NMAX && 0 <= self->m_nev && self->m_nev <= NMAX"),
                      ("the residual block is m_n x m_nev (every coefficient read is inside it)", "%s->rows == self->m_n && %s->cols == self->m_nev" % (RES, RES)),
                      ("index list with room for m_nev more entries (model of std::vector)", "0 <= %s->size && %s->size <= VEC_SIZE(%s->data) && self->m_nev <= VEC_SIZE(%s->data) - %s->size" % (V, V, V, V, V)),
                      ("ghost arrays", "VEC_SIZE(g_cnorm) >= self->m_nev && VEC_SIZE(g_pos) >= self->m_nev")],
                 post=[("returns m_nev minus the number of indices pushed, 0 <= ret <= m_nev", "old_size <= %s->size && %s->size - old_size <= self->m_nev && ret == self->m_nev - (%s->size - old_size) && 0 <= ret && ret <= self->m_nev" % (V, V, V)),
                       ("every pushed index is a column of the block", "!(%s) || (0 <= %s->data[g_a] && %s->data[g_a] < self->m_nev)" % (app, V, V)),
                       ("pushed indices are strictly increasing", PRE_INC("*" + V, "g_a", "g_b", lo="old_size")),
                       ("pushed => the column norm is below the tolerance", "!(%s) || (g_cnorm[%s->data[g_a]] < %s)" % (app, V, TOL)),
                       ("column norm below the tolerance => pushed (witness position); otherwise not pushed",
                        "!(0 <= g_c && g_c < self->m_nev) || ((g_cnorm[g_c] < %s) ? (old_size <= g_pos[g_c] && g_pos[g_c] < %s->size && %s->data[g_pos[g_c]] == g_c) : g_pos[g_c] == -1)" % (TOL, V, V)),
                       ("earlier entries of the list are untouched", "!(0 <= g_a && g_a < old_size) || %s->data[g_a] == old_entry" % V),
                       ("ghost record of this call", "g_last_bs == ret && g_cc_ret == ret && g_unch && g_cc_block == (const void *)%s" % RES)],
                 frame=["%s->size" % V, "g_last_bs", "g_cc_ret", "g_unch", "g_cc_block"], frame_objs=["%s->data" % V, "g_cnorm", "g_pos"],
                 olds=[("Index", "old_size", "%s->size" % V), ("int", "old_entry", "(0 <= g_a && g_a < %s->size) ? %s->data[g_a] : 0" % (V, V)),
                       ("_Bool", "old_same", "g_unch && g_cc_block == (const void *)%s" % RES), ("int", "old_cc_ret", "g_cc_ret")],
                 real=HDR + ":checkConvergence_getBlocksize",
                 # ASSUMPTION (determinism): the same block, resized and refilled by the same statements from operands nothing has redefined, gives the same count
                 stub_extra="if (old_same) __CPROVER_assume(ret == old_cc_ret);")


def f_check(P):
    name = "checkConvergence_getBlocksize"
    f = X.locate(HDR, name, cls=CLS)
    fi = P.finfo[name]
    if [(k, t) for k, t, _, _ in fi.params] != [("ref", "SparseMatrix"), ("scalar", "Scalar"), ("ref", "IVec")] or fi.ret != "int":
        raise X.ExtractionBreak("%s: signature changed" % name)
    RES, TOL, V = pname(fi, 0), pname(fi, 1), pname(fi, 2)
    mo = re.search(r"for \(int (\w+) = 0; \1 <=? m_nev; (?:\1\+\+|\+\+\1)\)", f.body)      # a changed bound is a failed invariant / index obligation, not an extraction break
    mi = re.search(r"for \(int (\w+) = 0; \1 <=? m_n; (?:\1\+\+|\+\+\1)\)", f.body)
    mb = re.search(r"\bint (\w+) = m_nev;", f.body)
    mt = re.search(r"if \(sqrt\((\w+)\) < %s\)" % TOL, f.body)
    if not (mo and mi and mb and mt) or mo.start() > mi.start():
        raise X.ExtractionBreak("%s: column loop / row loop / block-size counter / tolerance test not recognised" % name)
    IC, IR, BS, SUM = mo.group(1), mi.group(1), mb.group(1), mt.group(1)
    spec = cc_spec(P, fi)
    vv = "(*%s)" % V
    pre_rules = [
        ("norm-ghost", r"if \(sqrt\(%s\) < %s\)" % (SUM, TOL), "g_cnorm[%s] = sqrt(%s); g_pos[%s] = -1; if (g_cnorm[%s] < %s)" % (IC, SUM, IC, IC, TOL), {"max": 1}),
        ("push", r"%s\.push_back\((\w+)\);" % V, r"IVEC_PUSH_COL(%s, \1);" % V, {"max": 1}),
        ("ret-ghost", r"return (\w+);", r"{ g_last_bs = \1; g_cc_ret = \1; g_unch = 1; g_cc_block = (const void *)&%s; return \1; }" % RES, {"max": 1}),
    ]
    d = {"IC": IC, "IR": IR, "BS": BS, "V": vv, "TOL": TOL, "SUM": SUM}
    app = "verif_size0 <= g_a && g_a < %(V)s.size" % d
    inv0 = ("__CPROVER_assigns(%(IC)s, %(BS)s, %(SUM)s, buffer, %(V)s.size, __CPROVER_object_whole(%(V)s.data), __CPROVER_object_whole(g_cnorm), __CPROVER_object_whole(g_pos)) "
            "__CPROVER_loop_invariant(0 <= %(IC)s && %(IC)s <= self->m_nev && verif_size0 <= %(V)s.size && %(V)s.size <= verif_size0 + %(IC)s && %(BS)s == self->m_nev - (%(V)s.size - verif_size0)) "
            % d +
            "__CPROVER_loop_invariant(!(%s) || (0 <= %s.data[g_a] && %s.data[g_a] < %s && %s.size - g_a <= %s - %s.data[g_a])) " % (app, vv, vv, IC, vv, IC, vv) +
            "__CPROVER_loop_invariant(%s) " % PRE_INC(vv, "g_a", "g_b", lo="verif_size0") +
            "__CPROVER_loop_invariant(!(%s) || (g_cnorm[%s.data[g_a]] < %s)) " % (app, vv, TOL) +
            "__CPROVER_loop_invariant(!(0 <= g_c && g_c < %s) || ((g_cnorm[g_c] < %s) ? (verif_size0 <= g_pos[g_c] && g_pos[g_c] < %s.size && %s.data[g_pos[g_c]] == g_c) : g_pos[g_c] == -1)) " % (IC, TOL, vv, vv) +
            "__CPROVER_loop_invariant(!(0 <= g_a && g_a < verif_size0) || %s.data[g_a] == verif_entry0) " % vv +
            "__CPROVER_decreases(self->m_nev - %s)" % IC)
    inv1 = "__CPROVER_assigns(%(IR)s, %(SUM)s, buffer) __CPROVER_loop_invariant(0 <= %(IR)s && %(IR)s <= self->m_n) __CPROVER_decreases(self->m_n - %(IR)s)" % d
    if not re.search(r"\bScalar\s+%s\s*,\s*buffer\s*;" % SUM, f.body):
        raise X.ExtractionBreak("%s: scalars `sum, buffer` not recognised" % name)
    t = P.emit(f, name, spec, finfo=fi, pre_rules=pre_rules, loop_contracts={0: inv0, 1: inv1}, extra_scalars=[V],
               pre_body=" const Index verif_size0 = %s->size; const int verif_entry0 = (0 <= g_a && g_a < %s->size) ? %s->data[g_a] : 0;" % (V, V, V))
    setup = (P.alloc + "  __CPROVER_assume(0 <= self->m_nev && self->m_nev <= NMAX);\n  SparseMatrix Rv = ND_SH(); Scalar %s = nondet_Scalar(); IVec Vv; Vv.data = malloc(ND_DIM() * sizeof(int)); "
             "__CPROVER_assume(Vv.data != NULL); Vv.size = nondet_Index();\n  g_cnorm = VEC_NEW(self->m_nev); g_pos = IVEC_NEW(self->m_nev);\n" % TOL)
    h = spec.harness("h", setup + "  SparseMatrix *%s = &Rv; IVec *%s = &Vv;\n" % (RES, V), "self, %s, %s, %s" % (RES, TOL, V))
    return CC_DEFS + t, spec, h


# --------------------------------------------------------------------------- compute()

GEIGS_DEFS = r'''
/* ---- ASSUMED callee contract: Spectra::SymGEigsSolver<DenseSymMatProd, DenseCholesky, GEigsMode::Cholesky> -------------------------------------------
 * constructor: accepts exactly 1 <= nev <= n - 1 and nev < ncv <= n, otherwise throws std::invalid_argument (proved on the real constructor: property C12);
 * init() + compute(): info() is Successful, NotConverging or NumericalIssue; eigenvalues() has nconv <= nev entries, exactly nev when Successful;
 * eigenvectors() is n x nconv (properties C01 / C05); compute() may throw std::runtime_error when the tridiagonal eigen-decomposition fails. */
typedef struct { Index n, nev, ncv, nconv; int info; _Bool inited; } GEigs;
#ifdef CHECK_INNER_CTOR
#define INNER_CTOR_PRE(c, msg) __CPROVER_assert(c, msg)
#else
#define INNER_CTOR_PRE(c, msg) ((void)0)
#endif
static void geigs_ctor(GEigs *g, Index an, Index bn, Index nev, Index ncv)
{
  EIG_ASSERT(an == bn, "SymGEigsSolver: the A operator and the Cholesky operator of B have the same dimension");
  g->n = an; g->nev = nev; g->ncv = ncv; g->nconv = 0; g->info = CompInfo_NotComputed; g->inited = 0;
  if (!(1 <= nev && nev <= an - 1) || !(nev < ncv && ncv <= an)) { verif_exc = EXC_invalid_argument; return; }
}
static void geigs_init(GEigs *g) { g->inited = 1; }
static void geigs_compute(GEigs *g, SortRule selection)
{
  EIG_ASSERT(g->inited, "SymGEigsSolver: compute() after init()");
  if (nondet_bool()) { verif_exc = EXC_runtime_error; return; }
  int st = nondet_int(); __CPROVER_assume(st == CompInfo_Successful || st == CompInfo_NotConverging || st == CompInfo_NumericalIssue);
  Index nc = nondet_Index(); __CPROVER_assume(0 <= nc && nc <= g->nev && (st != CompInfo_Successful || nc == g->nev));
  g->info = st; g->nconv = nc;
}
'''



def compute_spec(P, variant):
    post = {
        "shapes": [("class invariant preserved: X is still n x k", INV),
                   ("the convergence test ran at least once in this compute()", "g_last_bs >= 0")],
        "inner_ctor": [],
        "status": [("status protocol: info() == Success ==> the LAST checkConvergence_getBlocksize call of THIS compute() returned 0 (all k residual column norms below tol * n)",
                    "self->m_info != EIGEN_Success || g_last_bs == 0")],
        "accessors": [("eigenvalues() has k entries", "eigenvalues(self).rows == self->m_nev"),
                      ("residuals() is n x k", "residuals(self).rows == self->m_n && residuals(self).cols == self->m_nev"),
                      ("eigenvectors() is n x k", "eigenvectors(self).rows == self->m_n && eigenvectors(self).cols == self->m_nev")],
    }[variant]
    return FSpec("compute", "void", [("LOB *", "self"), ("int", "maxit"), ("Scalar", "tol_div_n")],
                 pre=[(INV_DOC, INV), ("iteration limit is a machine integer away from overflow", "-NMAX <= maxit && maxit <= NMAX")],
                 post=post,
                 exc_post=[("an exception leaves the object inside its invariant", INV)] if variant == "shapes" else [],
                 frame=["self->X", "self->m_residuals", "self->m_evectors", "self->m_evalues", "self->m_info", "g_unch", "g_cc_block", "g_last_bs", "g_cc_ret", "g_orth_first", "g_p"],
                 may_throw=[1, 2], real=HDR + ":compute")


def f_compute(P):
    f = X.locate(HDR, "compute", cls=CLS)
    ml = re.search(r"for \(int (\w+) = 0; \1 < (\w+); \1\+\+\)\s*\{\s*m_residuals\.resize", f.body)
    mv = re.search(r"std::vector<int> (\w+);", f.body)
    mg = re.search(r"SymGEigsSolver<[^;{}]*?>\s*(\w+)\(", f.body)
    mb = re.search(r"\bint (BlockSize);", f.body)
    if not (ml and mv and mg and mb):
        raise X.ExtractionBreak("compute: iteration loop / index list / inner solver / block size not recognised")
    IT, MAXIT, V, G = ml.group(1), ml.group(2), mv.group(1), mg.group(1)
    fi = FInfo_ext(f)
    pre_rules = [
        ("index-list", r"std::vector<int> %s;" % V, "IVec %s; %s.data = malloc((2 * (Index)m_nev + 1) * sizeof(int)); __CPROVER_assume(%s.data != NULL); %s.size = 0;" % (V, V, V, V), {"max": 1}),
        ("index-list.size", r"\b%s\.size\(\)" % V, "%s.size" % V, {"min": 1}),
        ("index-list.clear", r"\b%s\.clear\(\);" % V, "%s.size = 0;" % V, {"min": 0}),
        ("Aop", r"DenseSymMatProd<Scalar> (\w+)\((\w+)\);", lambda m: "EIG_ASSERT(%s.rows() == %s.cols(), %s); const Index %s_n = %s.rows();" %
         (m.group(2), m.group(2), Q("DenseSymMatProd: the symmetric operator is a square matrix"), m.group(1), m.group(2)), {"max": 1}),
        ("Bop", r"DenseCholesky<Scalar> (\w+)\((\w+)\);", lambda m: "EIG_ASSERT(%s.rows() == %s.cols(), %s); const Index %s_n = %s.rows();" %
         (m.group(2), m.group(2), Q("DenseCholesky: matrix must be square (otherwise std::invalid_argument)"), m.group(1), m.group(2)), {"max": 1}),
    ]

    def ctor(m):
        a = [t.strip() for t in X.split_top(m.group(2))]
        if len(a) != 4 or not re.match(r"^\w+$", a[0]) or not re.match(r"^\w+$", a[1]):
            raise X.ExtractionBreak("compute: SymGEigsSolver constructor call not understood")
        return ("GEigs %s; INNER_CTOR_PRE(1 <= (%s) && (%s) <= %s_n - 1, %s); INNER_CTOR_PRE((%s) < (%s) && (%s) <= %s_n, %s); geigs_ctor(&%s, %s_n, %s_n, %s, %s);" %
                (G, a[2], a[2], a[0], Q("precondition of the SymGEigsSolver constructor at its call site: 1 <= nev <= n - 1"),
                 a[2], a[3], a[3], a[0], Q("precondition of the SymGEigsSolver constructor at its call site: nev < ncv <= n (otherwise std::invalid_argument leaves compute())"),
                 G, a[0], a[1], a[2], a[3]))
    pre_rules += [
        ("inner-ctor", r"SymGEigsSolver<[^;{}]*?>\s*(%s)\(([^;]+)\);" % G, ctor, {"max": 1}),
        ("inner-init", r"\b%s\.init\(\);" % G, "geigs_init(&%s);" % G, {"max": 1}),
        ("inner-compute", r"\b%s\.compute\(([^;]*)\);" % G, r"geigs_compute(&%s, \1);" % G, {"max": 1}),
        ("inner-info", r"\b%s\.info\(\)" % G, "%s.info" % G, {"max": 1}),
        ("snapshots", r"(for \(int %s = 0; %s < %s; %s\+\+\))" % (IT, IT, MAXIT, IT), r"const int verif_info_l = m_info; \1", {"max": 1}),
        # ghost snapshot before each residual refill: the refill itself does not define anything but the block being refilled
        ("refill-snapshot", r"(?<=;)(\s*)(for \(int i = 0; i < m_nev; i\+\+\))", r"\1const _Bool verif_unch_l = g_unch; \2", {"min": 2, "max": 2}),
    ]
    # locals of matrix type declared before the loop: all of them may be assigned by an iteration
    pre_loop = f.body[:ml.start()]
    locs = []
    for m in re.finditer(r"(?<![\w:<.])(%s)\s+(\w+(?:\s*,\s*\w+)*)\s*;" % TYPES_RX, pre_loop):
        locs += re.split(r"\s*,\s*", m.group(2))
    need = ["directions", "AX", "BX", "AD", "BD"]
    for n_ in need:
        if n_ not in locs:
            raise X.ExtractionBreak("compute: local matrix %s (named by the loop invariant) not declared before the loop" % n_)
    nk = lambda s: "%s.rows == self->m_n && %s.cols == self->m_nev" % (s, s)
    inv = ("__CPROVER_assigns(%s, BlockSize, %s, %s.size, __CPROVER_object_whole(%s.data), self->X, self->m_residuals, self->m_evectors, self->m_evalues, self->m_info, verif_exc, "
           "g_unch, g_cc_block, g_last_bs, g_cc_ret, g_orth_first, g_p) " % (IT, ", ".join(locs), V, V) +
           "__CPROVER_loop_invariant(0 <= %s && (%s <= %s || %s == 0) && verif_exc == 0 && " % (IT, IT, MAXIT, IT) +
           "%s && %s && %s && self->m_evalues.rows == self->m_nev && self->m_evalues.cols == 1 && " % (nk("self->X"), nk("AX"), nk("BX")) +
           "(%s == 0 || (%s && %s && %s)) && " % (IT, nk("directions"), nk("AD"), nk("BD")) +
           "%s.size == 0 && " % V +
           "(self->m_info != EIGEN_Success || verif_info_l == EIGEN_Success) && "
           "SH_OK(self->m_residuals) && SH_OK(self->m_evectors)) " +
           "__CPROVER_decreases(%s - %s)" % (MAXIT, IT))
    fill = ("__CPROVER_assigns(i, g_unch) __CPROVER_loop_invariant(0 <= i && i <= self->m_nev && g_unch == verif_unch_l) __CPROVER_decreases(self->m_nev - i)")
    refills = []
    for m in re.finditer(r"m_residuals\.resize\(m_n, m_nev\);\s*for \(int i = 0; i < m_nev; i\+\+\)\s*\{", f.body):
        refills.append(" ".join(f.body[m.start():X.match_close(f.body, m.end() - 1) + 1].split()))
    if len(refills) != 2 or refills[0] != refills[1] or len(re.findall(r"for \(int i = 0; i < m_nev; i\+\+\)", f.body)) != 2:
        raise X.ExtractionBreak("compute: the two residual blocks (resize + refill, inside and after the iteration loop) are not the same text: the determinism assumption on the convergence test does not apply")
    P.report["compute: residual refill (both sites, identical text)"] = refills[0]
    specs = {v: compute_spec(P, v) for v in ("shapes", "inner_ctor", "status", "accessors")}
    t = P.emit(f, "compute", specs["shapes"], finfo=fi, pre_rules=pre_rules, loop_contracts={0: inv, 1: fill, 2: fill},
               maythrow=["geigs_ctor", "geigs_compute"], decomps={G: "geigs"}, extra_scalars=["Aop_n", "Bop_n", V])
    setup = P.alloc + "  int maxit = nondet_int(); Scalar tol_div_n = nondet_Scalar();\n"
    harn = {v: s.harness("h", setup, "self, maxit, tol_div_n") for v, s in specs.items()}
    return GEIGS_DEFS, t, specs, harn


def stub_text(spec):
    """Call-site stub; its precondition assertions are Eigen-level obligations of the caller (switched off in the secondary groups, which re-use the same text).
    Clauses about the ghost arrays g_cnorm / g_pos (which column norms justified a push) are not needed by any caller: the stub used for compute() is the
    contract WITHOUT them (a weaker contract: fewer assumptions, the arrays are not touched)."""
    sp = copy.copy(spec)
    ghost = lambda e: "g_cnorm" in e or "g_pos" in e
    sp.pre = [c for c in spec.pre if not ghost(c[1])]
    sp.post = [c for c in spec.post if not ghost(c[1])]
    sp.frame_objs = [o for o in spec.frame_objs if not ghost(o)]
    return sp.stub().replace("  __CPROVER_assert(", "  EIG_ASSERT(")


# --------------------------------------------------------------------------- accessors, constructor, setters

def f_accessors(P):
    out = []
    for nm, ty in (("eigenvalues", "Vector"), ("eigenvectors", "Matrix"), ("residuals", "Matrix")):
        f = X.locate(HDR, nm, cls=CLS)
        fi = FInfo_ext(f)
        if fi.ret != ty or fi.params:
            raise X.ExtractionBreak("%s(): signature changed" % nm)
        out.append(P.emit(f, nm, None, finfo=fi, returns_shape=ty))
    f = X.locate(HDR, "info", cls=CLS)
    if " ".join(f.body.split()) != "return m_info;":
        raise X.ExtractionBreak("info() is no longer `return m_info;`")
    return "".join(out)


def f_ctor_setters(P):
    """Constructor and setters: which of them establish the invariant compute() relies on."""
    out = {}
    fc = X.locate(HDR, CLS, cls=CLS)
    fi = FInfo_ext(fc)
    if [(k, n) for k, _, n, _ in fi.params] != [("shape", "A"), ("shape", "X")]:
        raise X.ExtractionBreak("constructor: signature changed")
    inits = {}
    for it in X.split_top(fc.inits):
        m = re.match(r"^\s*(\w+)\s*\((.*)\)\s*$", it, flags=re.S)
        if not m:
            raise X.ExtractionBreak("constructor: initialiser %r not understood" % it)
        inits[m.group(1)] = " ".join(m.group(2).split())
    want = {"m_n": "A.rows()", "m_nev": "X.cols()", "A": "A", "X": "X", "flag_with_constraints": "false", "flag_with_B": "false", "flag_with_preconditioner": "false", "m_info": "Eigen::InvalidInput"}
    if inits != want:
        raise X.ExtractionBreak("constructor: initialiser list changed: %r" % inits)
    init_c = " self->m_n = (int)A.rows; self->m_nev = (int)X.cols; self->A = A; self->X = X; self->flag_with_constraints = 0; self->flag_with_B = 0; self->flag_with_preconditioner = 0; self->m_info = EIGEN_InvalidInput;" \
             " self->m_Y = SHV(0, 0); self->m_B = SHV(0, 0); self->m_preconditioner = SHV(0, 0); self->m_residuals = SHV(0, 0); self->m_evectors = SHV(0, 0); self->m_evalues = SHV(0, 1);"
    ok = "A.rows == X.rows && A.rows == A.cols"
    spec = FSpec("lobpcg_ctor", "void", [("LOB *", "self"), ("SparseMatrix", "A"), ("SparseMatrix", "X")],
                 pre=[("arguments are matrices with at least one row and one column", "1 <= A.rows && A.rows <= NMAX && 1 <= A.cols && A.cols <= NMAX && 1 <= X.rows && X.rows <= NMAX && 1 <= X.cols && X.cols <= NMAX")],
                 post=[("accepted <=> A is square and X has as many rows", ok), (INV_DOC, INV),
                       ("a new solver does not report success and has no constraints, metric or preconditioner", "self->m_info == EIGEN_InvalidInput && !self->flag_with_B && !self->flag_with_constraints && !self->flag_with_preconditioner")],
                 exc_post=[("rejected with invalid_argument <=> the sizes do not conform", "verif_exc == EXC_invalid_argument && !(%s)" % ok)],
                 frame=["*self", "g_unch"], may_throw=[1], real=HDR + ":LOBPCGSolver(A, X)")
    g = copy.copy(fc)
    g.name = "lobpcg_ctor"
    out["ctor"] = (P.emit(g, "lobpcg_ctor", spec, finfo=fi, pre_body=init_c), spec,
                   spec.harness("h", "  LOB Lv; LOB *self = &Lv; SparseMatrix A = ND_SH(), X = ND_SH();\n", "self, A, X"))
    for nm, arg, pre, member, flag in (("setB", "B", None, "m_B", "flag_with_B"),
                                       ("setConstraints", "Y", "Y.rows == self->m_n && 0 <= Y.cols && Y.cols <= NMAX", "m_Y", "flag_with_constraints"),
                                       ("setPreconditioner", "preconditioner", "preconditioner.rows == self->m_n && preconditioner.cols == self->m_n", "m_preconditioner", "flag_with_preconditioner")):
        f = X.locate(HDR, nm, cls=CLS)
        fi = FInfo_ext(f)
        if [(k, n) for k, _, n, _ in fi.params] != [("shape", arg)]:
            raise X.ExtractionBreak("%s: signature changed" % nm)
        pres = [(INV_DOC, INV), ("the argument is a matrix", "SH_OK(%s)" % arg)]
        if pre:
            pres.append(("NOT validated by %s(): the argument conforms with the n x n problem (caller's responsibility)" % nm, pre))
        sp = FSpec(nm, "void", [("LOB *", "self"), ("SparseMatrix", arg)], pre=pres,
                   post=[("invariant preserved, the setting is recorded", INV + " && self->%s && self->%s.rows == %s.rows && self->%s.cols == %s.cols" % (flag, member, arg, member, arg))] +
                        ([("accepted <=> B has the shape of A", "B.rows == self->A.rows && B.cols == self->A.cols")] if nm == "setB" else []),
                   exc_post=[("rejected with invalid_argument <=> the shape differs; nothing modified", "verif_exc == EXC_invalid_argument && !(B.rows == self->A.rows && B.cols == self->A.cols) && " + INV)] if nm == "setB" else [],
                   frame=["self->" + member, "self->" + flag, "g_unch"], may_throw=[1] if nm == "setB" else [], real=HDR + ":" + nm)
        out[nm] = (P.emit(f, nm, sp, finfo=fi), sp, sp.harness("h", P.alloc + "  SparseMatrix %s = ND_SH();\n" % arg, "self, " + arg))
    return out


# =========================================================================== groups

class TracedGroup(Group):
    """A group whose single cbmc run also produces the counterexample traces (--trace): the runner then does not re-run cbmc once per failed obligation
    (symbolic execution of the dfcc-instrumented compute() takes about 40 s each time).  The pipeline itself is the runner's (same wrapping, cache, accounting)."""

    def run_custom(self, prop, wdir):
        from vlib import runner
        inner = Group.__new__(Group)
        inner.__dict__.update(self.__dict__)
        inner.extra_cbmc = list(self.extra_cbmc) + ["--trace"]
        runner.run_group(inner, prop)
        return inner.result


def stored_trace(prop, g, o, keep=80):
    """Counterexample assignments of one failed obligation, from the cbmc.json of the group's run."""
    import json
    from vlib.runner import WORK
    path = os.path.join(WORK, prop, re.sub(r"[^\w.-]", "_", g.name), "cbmc.json")
    out = []
    try:
        for item in json.load(open(path)):
            for r in item.get("result", []):
                if r.get("property") != o["id"]:
                    continue
                for st in r.get("trace", []):
                    if st.get("stepType") != "assignment" or st.get("hidden"):
                        continue
                    fn = st.get("sourceLocation", {}).get("function")
                    lhs = st.get("lhs") or ""
                    if fn in ("compute", "h") and not lhs.startswith("__") and "write_set" not in lhs and "$" not in lhs and lhs not in ("set", "ptr", "tmp_if_expr", "self"):
                        v = st.get("value", {})
                        out.append({"lhs": lhs, "value": v.get("data", v.get("name")), "line": st.get("sourceLocation", {}).get("line"), "function": fn})
    except (OSError, ValueError):
        pass
    return out[-keep:]

ASSUMPTIONS = [
    "floating-point VALUES of every Eigen expression are dropped (nondeterministic): shapes, index expressions, ints, flags, status and control flow are kept; sqrt of a dropped value is a dropped value",
    "Eigen product / sum / block / coefficient semantics: the assertions generated by the shape evaluator are Eigen's own (eigen_assert) conditions; Matrix(expr), sparseView(), real(), cast<>(), cwiseSqrt() keep the shape; "
    "asDiagonal() of an n-vector is n x n; Identity(a, b) is a x b",
    "ASSUMED library contract Eigen::SimplicialLDLT<SparseMatrix>: needs a square matrix; info() is Success or NumericalIssue; matrixU() is n x n, vectorD() has n entries (the AMD permutation it applies is NOT modelled: numerical)",
    "ASSUMED library contract Eigen::BDCSVD (bdcSvd(ComputeThinU | ComputeThinV).solve(rhs)): rhs has as many rows as the decomposed r x c matrix, the solution is c x rhs.cols",
    "ASSUMED library contract Eigen::EigenSolver<Matrix>: needs a square matrix; n eigenvalues, n x n eigenvectors; ASSUMED to succeed on the finite symmetric k x k matrix X'AX of compute() "
    "(if it failed on a fresh object, the final residual loop would read m_evalues(i) of an empty vector: recorded here, not reported)",
    "ASSUMED (quantifier of the property: full-rank initial block, SPD B): the FIRST orthogonalizeInPlace call of a compute() - the initial block - succeeds. Outside the quantifier (rank-deficient X) the real code multiplies "
    "the empty BX by a k x k matrix at `BX = BX * sparse_eVecX` (Eigen assertion in debug builds): replay mode 4",
    "ASSUMED callee contract Spectra::SymGEigsSolver<DenseSymMatProd, DenseCholesky, Cholesky>: constructor accepts exactly 1 <= nev <= n - 1, nev < ncv <= n and throws std::invalid_argument otherwise (proved: C12); "
    "after init() + compute(): info() in {Successful, NotConverging, NumericalIssue}, eigenvalues() has nconv <= nev entries (== nev when Successful), eigenvectors() is n x nconv (C01/C05); compute() may throw std::runtime_error; "
    "DenseSymMatProd / DenseCholesky need a square matrix (asserted at the call site); DenseCholesky::info() is never examined by LOBPCGSolver (numerical)",
    "ASSUMED library contract std::map::insert: the first key is inserted, a later one unless an equivalent key is present (so sort_epairs may read back FEWER pairs than columns: equal Ritz values lose a pair - numerical, "
    "excluded by `well-separated eigenvalues`); std::function / std::less / std::greater: values dropped",
    "ASSUMED library contract std::find [alg.find] on the index list; std::vector<int> is an array with a capacity obligation; std::vector<Eigen::Triplet> is (count, largest row, largest column); "
    "setFromTriplets needs every triplet inside the matrix (Eigen's assertion)",
    "determinism of the convergence test: the same residual block, resized and refilled by the SAME statements (checked on the text) from operands that no statement has redefined since the last call, gives the same count "
    "(used only for the path `BlockSize == 0 -> break -> final test`)",
    "forall-instantiation meta-rule: removeColumns' precondition (entries strictly increasing and in range), proved at every call site for unconstrained Skolem positions, is assumed inside its body at the positions the "
    "ghost cursor and the std::find witness talk about (counted in coverage.extraction)",
    "class invariant as precondition of compute(): constructor (proved) + setB (proved: validates) + setConstraints / setPreconditioner with conforming arguments (these two setters validate NOTHING: caller's responsibility); "
    "n, k >= 1 and below the machine-integer cap 2^20; any prior m_info, m_residuals, m_evectors, m_evalues (object reuse)",
]
NOT_COVERED = ["eigenvalues() are the k smallest eigenvalues of the pencil, in ascending order (numerical; sort_epairs also drops pairs with equal values)",
               "X'BX = I (numerical; SimplicialLDLT's fill-reducing permutation is ignored by orthogonalizeInPlace)",
               "residuals() == A X - B X diag(eigenvalues) and the bound ||r_j|| < tol * n themselves (numerical; the structural part - which test decides the status - is covered)",
               "termination / convergence of the iteration beyond the decreases clause of each loop", "finiteness of the Eigen arithmetic (division by a zero LDLT pivot in orthogonalizeInPlace)"]


def build(tier):
    report = {}
    P = Pack(report)
    groups = []

    def G(name, text, enforce, fns, expect=(), timeout=300, note="", defines=(), traced=False):
        groups.append((TracedGroup if traced else Group)("lobpcg." + name, text, "h", enforce=enforce, solver="cadical", defines=["SCALAR_DOUBLE"] + list(defines), timeout=timeout,
                                                         functions=fns, expect_classes=list(expect) or ["assigns"], note=note))

    specs = {}
    broken_callees = []
    for nm in ("stack_4_matricies", "stack_9_matricies"):
        t, sp, h = f_stack(P, nm)
        specs[nm] = sp
        G(nm, P.base + t + h, nm, [HDR + ":" + nm], expect=["assigns", "Eigen block assertion", "assignment to a block"])
    for key, fn_, nm, exp in (("orthogonalizeInPlace", f_orth, "orthogonalizeInPlace", ["loop_invariant_step", "product dimensions agree", "decomposition needs a square", "triangular solve"]),
                              ("applyConstraintsInPlace", f_constraints, "applyConstraintsInPlace", ["product dimensions agree", "solve() needs", "sum/difference"]),
                              ("sort_epairs", f_sort, "sort_epairs", ["loop_invariant_step", "column index in range", "vector coefficient in range"]),
                              ("removeColumns", f_remove, "removeColumns", ["loop_invariant_step", "setFromTriplets", "product dimensions agree", "matrix dims >= 0"]),
                              ("checkConvergence_getBlocksize", f_check, "checkConvergence_getBlocksize", ["loop_invariant_step", "coefficient (row, col) in range", "push_back within"])):
        try:
            t, sp, h = fn_(P)
        except X.ExtractionBreak as e:
            if key != "checkConvergence_getBlocksize":
                raise
            # the body of the convergence helper no longer fits the rules: that function is UNDECIDED; compute() is still verified against the helper's CONTRACT (which depends
            # on the signature only) - a failure there counts only if the native replay shows the property clause broken on the real code (weak groups)
            from vlib import z3lemma
            specs[key] = cc_spec(P, P.finfo[nm])
            groups.append(z3lemma.StaticGroup("lobpcg." + key, ok=False, detail=str(e), obligation="extraction of " + nm, undecided_on_fail=True))
            broken_callees.append(nm)
            continue
        specs[key] = sp
        G(key, P.base + t + h, nm, [HDR + ":" + nm], expect=exp, timeout=400 if key.startswith("check") else 300)
    for key, (t, sp, h) in f_ctor_setters(P).items():
        G(key if key != "ctor" else "constructor", P.base + t + h, sp.cname, [HDR + ":" + (key if key != "ctor" else CLS)])
    defs, t, cspecs, harn = f_compute(P)
    stubs = "".join(stub_text(specs[k]) for k in ("orthogonalizeInPlace", "applyConstraintsInPlace", "sort_epairs", "removeColumns", "checkConvergence_getBlocksize",
                                                   "stack_4_matricies", "stack_9_matricies"))
    ctext = P.base + "Index g_p;\n" + defs + stubs + f_accessors(P) + t
    callee_note = "the seven helpers are replaced by their contracts (each proved in its own group); SymGEigsSolver, EigenSolver, LDLT, BDCSVD assumed"
    G("compute", ctext + harn["shapes"], "compute", [HDR + ":compute"], timeout=600,
      traced=True, expect=["loop_invariant_step", "assigns", "product dimensions agree", "sum/difference", "Eigen block assertion", "column index in range", "vector coefficient in range",
              "precondition of stack_9_matricies at call site", "precondition of removeColumns at call site", "precondition of checkConvergence_getBlocksize at call site",
              "DenseCholesky", "same dimension"],
      note="every Eigen assertion and every callee precondition of compute(), the loop contract of the iteration (unbounded), the class invariant at every exit; " + callee_note)
    G("compute.inner_solver_ctor", ctext + harn["inner_ctor"], "compute", [HDR + ":compute"], timeout=600, defines=["NO_EIG_ASSERT", "CHECK_INNER_CTOR"], traced=True,
      expect=["loop_invariant_step", "precondition of the SymGEigsSolver constructor"],
      note="same text; decides ONLY the precondition of the SymGEigsSolver constructor at its call site (the Eigen assertions are discharged in lobpcg.compute)")
    G("compute.status", ctext + harn["status"], "compute", [HDR + ":compute"], timeout=600, defines=["NO_EIG_ASSERT"], expect=["loop_invariant_step", "status protocol"], traced=True,
      note="same text; decides ONLY the status protocol, from an arbitrary prior m_info (object reuse)")
    G("compute.accessors", ctext + harn["accessors"], "compute", [HDR + ":compute", HDR + ":eigenvalues", HDR + ":eigenvectors", HDR + ":residuals"], timeout=600,
      defines=["NO_EIG_ASSERT"], expect=["loop_invariant_step", "eigenvectors() is n x k", "eigenvalues() has k entries"], traced=True,
      note="same text; the three accessors (extracted) are called on the exit state of compute()")
    if broken_callees:
        for g in groups:
            if g.name.startswith("lobpcg.compute"):
                g.weak = ("compute() verified against the contract of %s, whose body could not be extracted: a refutation counts only if the native replay shows a clause of the "
                          "property broken on the real code" % ", ".join(broken_callees))
    meta = {"level": "proof", "trusted_base": ["cbmc 6.11.0 dfcc", "cadical", "extractor + generic shape evaluator (props/C17.py)"],
            "assumptions": ASSUMPTIONS, "not_covered": NOT_COVERED, "extraction": report,
            "explanation": "structural clauses of C17 only, on C text re-extracted from contrib/LOBPCGSolver.h by the generic shape evaluator; unbounded in n, k, maxit, iterations, flags and prior object state"}
    return groups, meta


def replay(g, o, assigns, path):
    from vlib import replay as RP
    txt = (o.get("desc") or "") + " " + g.name
    if "SymGEigsSolver constructor" in txt or g.name.endswith("inner_solver_ctor"):
        mode = 2
    elif "status protocol" in txt or g.name.endswith(".status"):
        mode = 3
    elif g.name.endswith(".accessors") or "eigenvectors()" in txt:
        mode = 1
    else:
        mode = 6        # any other obligation: family of inputs inside the quantifier, Eigen assertions on (an abort = reproduced)
    if getattr(g, "weak", None) and mode == 6:
        # weak compute groups: the status / shape clauses of the property against the pencil itself (random well-separated pencils, loose tolerances)
        r7 = RP.run_native(PROP, RP.src("C17_lobpcg_replay.cpp"), args=[7], cxxflags="-O1 -std=c++11", name="replay7")
        if r7.get("reproduced"):
            r7["verifier_counterexample"] = stored_trace(PROP, g, o)
            return r7
    res = RP.run_native(PROP, RP.src("C17_lobpcg_replay.cpp"), args=[mode], cxxflags="-O1 -std=c++11", name="replay%d" % mode)
    res["verifier_counterexample"] = stored_trace(PROP, g, o)     # the runner does not re-run cbmc for a TracedGroup: the trace of the group's own run is kept here
    return res


MANIFEST = {
    "category": "proof",
    "text": "Proof of the contract-expressible (structural) part of C17 on C text re-extracted from contrib/LOBPCGSolver.h (all n, k, maxit, with/without B, preconditioner, constraints, every iteration, "
            "every prior object state): every Eigen shape assertion of compute() and its seven helpers (product inner dimensions, equal shapes of sums, block / column / coefficient selectors, block assignments), "
            "stack_4/9_matricies, removeColumns, checkConvergence_getBlocksize (returns m_nev minus the number of columns below tolerance, pushes exactly those indices in increasing order), "
            "orthogonalizeInPlace / applyConstraintsInPlace (shape-preserving, status protocol), constructor and setters (class invariant), the precondition of the inner SymGEigsSolver constructor, "
            "info() == Success ==> the last convergence test of this compute() passed, accessor shapes. NOT decided: k smallest eigenvalues, X'BX = I, the residual identity and bound.",
    "note": "floating-point values dropped; Eigen LDLT / BDCSVD / EigenSolver, std::map / std::find and the inner SymGEigsSolver are assumed contracts; the initial LDLT and the dense EigenSolver are assumed to succeed "
            "(quantifier of the property)",
    "technique": "CBMC dfcc frame + loop contracts with Skolem indices and ghost cursors on mechanically extracted C (cadical); generic shape evaluator for Eigen expressions",
}
