"""Spectral back-transformations of all shift modes (C04) and the sigma != 0 validators (C12)."""
import ast
import re

from vlib import extract as X
from vlib import cgen
from vlib import z3lemma
from vlib.runner import Group

GH = "SymGEigsShiftSolver.h"
MODES = [  # (class key, documented forward map nu(lambda, sigma) as SMT, needs sigma != 0)
    ("ShiftInvert", "(/ 1.0 (- lambda sigma))", False),
    ("Buckling", "(/ lambda (- lambda sigma))", True),
    ("Cayley", "(/ (+ lambda sigma) (- lambda sigma))", True),
]


def _to_smt(node):
    if isinstance(node, ast.BinOp):
        op = {ast.Add: "+", ast.Sub: "-", ast.Mult: "*", ast.Div: "/"}[type(node.op)]
        return "(%s %s %s)" % (op, _to_smt(node.left), _to_smt(node.right))
    if isinstance(node, ast.UnaryOp) and isinstance(node.op, ast.USub):
        return "(- %s)" % _to_smt(node.operand)
    if isinstance(node, ast.Name):
        return node.id
    if isinstance(node, ast.Constant):
        return "%s.0" % int(node.value) if float(node.value) == int(node.value) else repr(float(node.value))
    raise X.ExtractionBreak("back-transformation: unsupported syntax %r" % ast.dump(node))


def backtransform_expr(hdr, cls, key, report):
    f = X.locate(hdr, "sort_ritzpair", cls=cls, key=key)
    body = " ".join(f.body.split())
    m = re.match(r"^m_ritz_val\.head\(m_nev\)(?:\.array\(\))? = (.*?); Base::sort_ritzpair\(sort_rule\);$", body)
    if not m:
        raise X.ExtractionBreak("%s<%s>::sort_ritzpair is no longer `m_ritz_val.head(m_nev) = <expr>; Base::sort_ritzpair(sort_rule);`: %r" % (cls, key, body))
    e = m.group(1)
    e2 = e.replace("m_ritz_val.head(m_nev).array()", "nu").replace("m_sigma", "sigma")
    e2 = re.sub(r"\bScalar\((\d+)\)", r"\1", e2)
    if re.search(r"m_ritz_val|head|array|[^\w\s()+\-*/.]", e2):
        raise X.ExtractionBreak("back-transformation expression not purely arithmetic in (nu, sigma): %r" % e)
    smt = _to_smt(ast.parse(e2, mode="eval").body)
    report["backtransform %s<%s>" % (cls, key)] = {"source": e, "smt": smt}
    return smt


def lemmas(report):
    out = []
    cases = [("SymEigsShiftSolver.h", "SymEigsShiftSolver", None, MODES[0]), ("GenEigsRealShiftSolver.h", "GenEigsRealShiftSolver", None, MODES[0])]
    for key, fwd, nz in MODES:
        cases.append((GH, "SymGEigsShiftSolver", r"GEigsMode::%s\b" % key, (key, fwd, nz)))
    for hdr, cls, key, (mode, fwd, nz) in cases:
        smt = backtransform_expr(hdr, cls, key, report)
        txt = "(declare-const lambda Real) (declare-const sigma Real) (declare-const nu Real)\n(assert (not (= lambda sigma)))\n"
        if nz:
            txt += "(assert (not (= sigma 0.0)))\n"
        # nu - 1 != 0 etc. follow from the forward map; state the forward map and refute inequality of the round trip
        txt += "(assert (= nu %s))\n(assert (not (= %s lambda)))\n(check-sat)\n" % (fwd, smt)
        out.append(z3lemma.Z3Group("backtransform.%s.%s" % (cls, mode), txt,
                                   note="extracted expression %s inverts the documented map nu = %s (over the reals; machine arithmetic treated as mathematical)" % (smt, fwd)))
    return out


def sigma_validators(report):
    """set_shift_and_move of the three generalized shift modes: throws invalid_argument <=> sigma == 0 (buckling, Cayley),
    never (shift-invert); the accepted shift is installed in the operator."""
    pre = '#include "skel.h"\nstatic void OP_set_shift(Op *op, Scalar s) { op->shift_re = s; op->shift_im = (Scalar)0; }\n'
    groups = []
    for key, fwd, nz in MODES:
        f = X.locate(GH, "set_shift_and_move", cls="SymGEigsShiftSolver", key=r"GEigsMode::%s\b" % key)
        t, R = cgen.emit(f, "set_shift_and_move", ret_c="void", param_types={"op": "Op *", "sigma": "Scalar"},
                         extra_rules=[("set_shift", r"\bop\.set_shift\(sigma\);", "OP_set_shift(op, sigma);", {"max": 1}),
                                      ("move", r"return std::move\(op\);", "return;", {"max": 1})])
        report["SymGEigsShiftSolver<%s>::set_shift_and_move" % key] = R.fired
        cond = "sigma == (Scalar)0" if nz else "0"
        h = ('#line 1 "harness/sigma.%s"\nvoid h(void) { Op o; Op *op = &o; o.shift_re = nondet_Scalar(); Scalar old = o.shift_re; Scalar sigma = nondet_Scalar(); verif_exc = 0;\n'
             '  __CPROVER_assume(sigma == sigma);\n  set_shift_and_move(op, sigma);\n'
             '  __CPROVER_assert((verif_exc == EXC_invalid_argument) == (%s), "sigma.zero.%s: rejected with invalid_argument <=> %s");\n'
             '  __CPROVER_assert(verif_exc == 0 || verif_exc == EXC_invalid_argument, "only invalid_argument");\n'
             '  __CPROVER_assert(verif_exc != 0 || o.shift_re == sigma, "accepted shift is installed in the operator");\n'
             '  __CPROVER_assert(verif_exc == 0 || (o.shift_re == old || old != old), "rejected call leaves the operator untouched");\n  CANARY(); }\n'
             % (key, cond, key, "sigma == 0" if nz else "never"))
        groups.append(Group("sigma.%s" % key, pre + t + h, "h", loop_contracts=False, solver="cadical", defines=["SCALAR_DOUBLE"],
                            functions=[GH + ":SymGEigsShiftSolver<%s>::set_shift_and_move" % key], expect_classes=["sigma.zero"], flags=[]))
    return groups
