"""Shared lossy extraction of the solver skeletons (HermEigsBase / GenEigsBase / Arnoldi / Lanczos and the
shift-solver overrides) + their contracts (vlib.spec.FSpec).  Used by C01, C02, C04, C05, C06, C07, C13, C14.

Every Eigen *expression statement* is replaced by an abstraction macro through an exact-text rule (must fire
once); index expressions inside such statements are captured and kept, so a change to an index, a size, a
comparison operator or a call survives into the verified text.  A statement that no rule recognises makes goto-cc
fail -> UNDECIDED (exit 2)."""
import re

from vlib import extract as X
from vlib import cgen
from vlib import common
from vlib.spec import FSpec
from vlib.runner import Group

SKEL_TYPES = r'''
#include "skel.h"
/* coefficient-wise floating-point product: the same (uninterpreted) function in the translated statement and in the
 * specification - congruence is all the equivalence needs, and it holds for IEEE multiplication in particular */
Scalar __CPROVER_uninterpreted_fmul(Scalar a, Scalar b);
#define FMUL(a, b) __CPROVER_uninterpreted_fmul((a), (b))
#ifdef GEN
typedef Complex Ritz;
#define RITZ_NEW(n) ((Ritz *)CVEC_NEW(n))
static Complex *CVEC_NEW(Index n)
{ __CPROVER_assert(0 <= n, "Eigen: vector size >= 0"); __CPROVER_assume(n <= NMAX); Complex *p = malloc(n * sizeof(Complex)); __CPROVER_assume(p != NULL); return p; }
#else
typedef Scalar Ritz;
#define RITZ_NEW(n) VEC_NEW(n)
#endif
typedef struct { Index *data; Index size; } IndexArray;

typedef struct {                     /* Arnoldi / Lanczos */
  Op *m_op;
  Index m_n, m_m, m_k;
  Mat m_fac_V, m_fac_H;
  Scalar *m_fac_f;
  Scalar m_beta, m_near_0, m_eps;
  Index g_valid_k;                   /* ghost typestate: step at which (V, H, f) is a valid factorization; 0 = none */
  Index g_Vdef;                      /* ghost: number of leading columns of V written since the last resize */
  Index st_fac;                      /* ghost: provenance stamp of (V, H, f) */
} Fac;

typedef struct {                     /* HermEigsBase / GenEigsBase */
  Op *m_op;
  Index m_n, m_nev, m_ncv, m_nmatop, m_niter;
  Fac m_fac;
  Ritz *m_ritz_val;
  Mat m_ritz_vec;
  Ritz *m_ritz_est;
  _Bool *m_ritz_conv;
  CompInfo m_info;
  Scalar m_sigma, m_sigmar, m_sigmai;   /* members of the shift-solver subclasses */
  /* ghost */
  Index *tag_val, *tag_est, *tag_conv;  /* provenance tag (pair id) per entry; m_ritz_vec carries coltag */
  Index cnt_conv;                       /* number of true flags in m_ritz_conv (Eigen's count()) */
  Index st_ritz, st_conv;               /* stamps: eigen-decomposition the Ritz data came from / the flags were computed from */
  Index g_backtransformed;              /* how many times the spectral back-transformation statement ran in this compute() */
} Solver;
'''

HB = "HermEigsBase.h"
GB = "GenEigsBase.h"
AH = "LinAlg/Arnoldi.h"
FAC_MEMBERS_BASE = ["m_near_0", "m_eps", "m_op", "m_n", "m_m", "m_k", "m_fac_V", "m_fac_H", "m_fac_f", "m_beta"]

SOLVER_MEMBERS = ["m_op", "m_n", "m_nev", "m_ncv", "m_nmatop", "m_niter", "m_fac", "m_ritz_val", "m_ritz_vec",
                  "m_ritz_est", "m_ritz_conv", "m_info"]


EXTRA_FIELDS = {"Solver": [], "Fac": []}     # members added to the classes since the struct layouts were written


def member_decls(relpath, cls):
    """[(type text, name)] of the data members declared directly in the class body."""
    raw, st = X.load(relpath)
    lo, hi = X.class_body(st, cls)
    body = st[lo:hi]
    flat, depth = [], 0
    for ch in body:
        if ch == "{":
            depth += 1
        elif ch == "}":
            depth -= 1
        flat.append(ch if (depth == 0 and ch not in "{}") or ch == "\n" else " ")
    out = []
    for stmt in "".join(flat).split(";"):
        s = " ".join(stmt.split())
        s = re.sub(r"^(public|private|protected)\s*:\s*", "", s)
        if not s or s.startswith(("using ", "template", "friend", "static ", "virtual ", "typedef")) or "(" in s.split("=")[0]:
            continue
        m = re.match(r"^((?:mutable\s+|const\s+)*[\w:<>,\s\*&]+?)[\s\*&](\w+)\s*(=.*)?$", s)
        if m:
            out.append((m.group(1).strip(), m.group(2)))
    return out


SIMPLE_T = {"RealMatrix": "Mat", "Matrix": "Mat", "ComplexMatrix": "Mat", "RealVector": "Scalar *", "Vector": "Scalar *", "Index": "Index", "int": "int", "bool": "_Bool", "Scalar": "Scalar", "RealScalar": "Scalar", "long": "long", "unsigned": "unsigned",
            "std::size_t": "unsigned long", "size_t": "unsigned long", "SortRule": "SortRule", "CompInfo": "CompInfo", "BoolArray": "_Bool *", "RealArray": "Scalar *", "Array": "Scalar *",
            "ComplexVector": "Complex *", "double": "double", "float": "float", "char": "char", "unsigned char": "unsigned char", "Complex": "Complex"}


def check_members(report):
    """Known members must still exist; members added since are appended to the C structs when they have a simple scalar
    type (so extraction keeps working and C06's init-coverage obligation can decide them); anything else is an extraction break."""
    EXTRA_FIELDS["Solver"] = []
    EXTRA_FIELDS["Fac"] = []
    for hdr, cls, want, tgt in ((HB, "HermEigsBase", ["m_op_container"] + SOLVER_MEMBERS, "Solver"), (GB, "GenEigsBase", SOLVER_MEMBERS, "Solver"),
                                (AH, "Arnoldi", FAC_MEMBERS_BASE, "Fac")):
        decl = member_decls(hdr, cls)
        names = [n for _, n in decl]
        missing = [w for w in want if w not in names]
        if missing:
            raise X.ExtractionBreak("%s data members removed/renamed: %r" % (cls, missing))
        for ty, nm in decl:
            if nm in want:
                continue
            base = re.sub(r"\b(mutable|const)\b", "", ty).strip()
            if base not in SIMPLE_T:
                raise X.ExtractionBreak("%s: new data member `%s %s` has a type the C struct generator does not handle" % (cls, ty, nm))
            if nm not in [n for _, n in EXTRA_FIELDS[tgt]]:
                EXTRA_FIELDS[tgt].append((SIMPLE_T[base], nm))
    report["members"] = {"extra_fields": EXTRA_FIELDS}


# Class invariant after init() (sizes consistent).  HERM: 1 <= nev < ncv <= n ; GEN: 1 <= nev, nev+2 <= ncv <= n.
def inv_clauses(gen):
    rng = "1 <= S->m_nev && S->m_nev + 2 <= S->m_ncv" if gen else "1 <= S->m_nev && S->m_nev < S->m_ncv"
    return [
        ("argument ranges established by the constructor", rng + " && S->m_ncv <= S->m_n && S->m_n <= NMAX"),
        ("factorization dimensions", "S->m_fac.m_n == S->m_n && S->m_fac.m_m == S->m_ncv && S->m_fac.m_op == S->m_op && S->m_op->n == S->m_n"),
        ("V is n x ncv, H is ncv x ncv", "S->m_fac.m_fac_V.rows == S->m_n && S->m_fac.m_fac_V.cols == S->m_ncv && "
                                         "S->m_fac.m_fac_H.rows == S->m_ncv && S->m_fac.m_fac_H.cols == S->m_ncv"),
        ("Ritz vector matrix is ncv x nev", "S->m_ritz_vec.rows == S->m_ncv && S->m_ritz_vec.cols == S->m_nev"),
    ]


# memory owned by the harness: everything allocated with exactly the Eigen size
ALLOC_STATE = r'''
  Op op; Solver St; Solver *S = &St;
  S->m_op = &op; S->m_fac.m_op = &op;
  S->m_n = nondet_Index(); S->m_nev = nondet_Index(); S->m_ncv = nondet_Index();
  __CPROVER_assume(0 <= S->m_n && S->m_n <= NMAX && 0 <= S->m_nev && S->m_nev <= NMAX && 0 <= S->m_ncv && S->m_ncv <= NMAX);
  __CPROVER_assume(RANGE_OK(S->m_nev, S->m_ncv, S->m_n));
  op.n = S->m_n; op.shift_re = nondet_Scalar(); op.shift_im = nondet_Scalar();
  S->m_nmatop = nondet_Index(); S->m_niter = nondet_Index(); S->m_info = nondet_int();
  S->m_fac.m_n = S->m_n; S->m_fac.m_m = S->m_ncv; S->m_fac.m_k = nondet_Index();
  S->m_fac.m_fac_V = MAT_NEW(S->m_n, S->m_ncv); S->m_fac.m_fac_H = MAT_NEW(S->m_ncv, S->m_ncv);
  S->m_fac.m_fac_f = VEC_NEW(S->m_n); S->m_fac.m_beta = nondet_Scalar();
  S->m_fac.m_near_0 = SCALAR_MIN * (Scalar)10; S->m_fac.m_eps = SCALAR_EPS;
  S->m_fac.g_valid_k = nondet_Index(); S->m_fac.g_Vdef = nondet_Index(); S->m_fac.st_fac = nondet_Index();
  S->m_ritz_val = RITZ_NEW(S->m_ncv); S->m_ritz_est = RITZ_NEW(S->m_ncv); S->m_ritz_conv = BVEC_NEW(S->m_nev);
  S->m_ritz_vec = MAT_NEW(S->m_ncv, S->m_nev);
  S->tag_val = IVEC_NEW(S->m_ncv); S->tag_est = IVEC_NEW(S->m_ncv); S->tag_conv = IVEC_NEW(S->m_nev);
  S->cnt_conv = nondet_Index(); S->st_ritz = nondet_Index(); S->st_conv = nondet_Index(); S->g_backtransformed = nondet_Index();
  S->m_sigma = nondet_Scalar(); S->m_sigmar = nondet_Scalar(); S->m_sigmai = nondet_Scalar();
  g_ops = nondet_Index(); g_clock = nondet_Index(); g_restarts = nondet_Index(); g_budget = nondet_Index();
  __CPROVER_assume(0 <= g_ops && g_ops <= 1000000000 && 0 <= g_clock && g_clock <= 1000000000 && 0 <= g_budget && g_budget <= 1000000000);
  __CPROVER_assume(0 <= S->m_nmatop && S->m_nmatop <= 1000000000 && 0 <= S->m_niter && S->m_niter <= 1000000000);
  __CPROVER_assume(0 <= S->cnt_conv && S->cnt_conv <= S->m_nev);
'''


def range_ok(gen):
    return "#define RANGE_OK(nev, ncv, n) (1 <= (nev) && %s && (ncv) <= (n))\n" % ("(nev) + 2 <= (ncv)" if gen else "(nev) < (ncv)")


def prelude(gen):
    types = SKEL_TYPES
    for st, anchor in (("Fac", "  Index g_valid_k;"), ("Solver", "  Scalar m_sigma, m_sigmar, m_sigmai;")):
        extra = "".join("  %s %s;   /* member added to the class (auto-appended) */\n" % (t, n) for t, n in EXTRA_FIELDS[st])
        types = types.replace(anchor, extra + anchor)
    return ("#define GEN 1\n" if gen else "") + types + range_ok(gen) + \
        common.enum_defines("Util/SelectionRule.h", "SortRule") + common.enum_defines("Util/CompInfo.h", "CompInfo")


# --------------------------------------------------------------------------- helpers

def accessor_rules(report):
    """Trivial accessors of Arnoldi are inlined; their one-line bodies are checked against the header."""
    raw, st = X.load("LinAlg/Arnoldi.h")
    want = {"matrix_V": "m_fac_V", "matrix_H": "m_fac_H", "vector_f": "m_fac_f", "f_norm": "m_beta", "subspace_dim": "m_k"}
    for fn, mem in want.items():
        if not re.search(r"\b%s\(\)\s*const\s*\{\s*return\s+%s;\s*\}" % (fn, mem), st):
            raise X.ExtractionBreak("Arnoldi::%s() is no longer `return %s;`" % (fn, mem))
    report["accessors"] = "Arnoldi::matrix_V/matrix_H/vector_f/f_norm/subspace_dim inline to their members"
    return [("acc:" + fn, r"\.%s\(\)" % fn, "." + mem, {"min": 0}) for fn, mem in want.items()]


_pow_cache = {}


def native_pow_consts(expr_args):
    """pow(<args>) with eps = TypeTraits<RealScalar>::epsilon(): value obtained by compiling and running that exact
    expression natively for float / double / long double (DESIGN 2.2 rule `pow`)."""
    import os, subprocess, tempfile
    if expr_args in _pow_cache:
        return _pow_cache[expr_args]
    d = tempfile.mkdtemp(prefix="vpow")
    src = r'''
#include <cmath>
#include <cstdio>
#include <limits>
template <typename RealScalar> void run(const char* tag) { typedef RealScalar Scalar; using std::pow;
  using std::cbrt; using std::sqrt; using std::exp; using std::log;
  const RealScalar eps = std::numeric_limits<RealScalar>::epsilon(); const RealScalar v = (%s);
  printf("%%s %%La\n", tag, (long double)v); }
int main() { run<float>("SCALAR_FLOAT"); run<double>("SCALAR_DOUBLE"); run<long double>("SCALAR_LDOUBLE"); }
''' % expr_args
    open(os.path.join(d, "p.cpp"), "w").write(src)
    p = subprocess.run(["bash", "-c", "cd %s && g++ -O0 -std=c++11 p.cpp -o p && ./p; rm -rf %s" % (d, d)], capture_output=True, text=True)
    if p.returncode != 0:
        raise X.ExtractionBreak("cannot evaluate the eps23 initialiser `%s` natively: %s" % (expr_args, p.stderr[-300:]))
    vals = dict(l.split() for l in p.stdout.strip().split("\n"))
    _pow_cache[expr_args] = vals
    return vals


def pow_rule(defs_out):
    def _r(m):
        vals = native_pow_consts(" ".join(m.group(1).split()))
        k = len(defs_out)
        defs_out.append("".join("#if defined(%s)\n#define VERIF_POW_%d ((Scalar)%s%s)\n#endif\n" %
                                (t, k, v, {"SCALAR_FLOAT": "f", "SCALAR_DOUBLE": "", "SCALAR_LDOUBLE": "L"}[t]) for t, v in vals.items()))
        return "VERIF_POW_%d" % k
    return ("eps23-init", r"(?<=eps23 = )([^;]+)(?=;)", _r, {"min": 1, "max": 1})


def eps23_doc():
    """eps^(2/3) from the property statement, as exact decimal strings (computed with 60 digits)."""
    from decimal import Decimal, getcontext
    getcontext().prec = 60
    out = {}
    for t, bits in (("SCALAR_FLOAT", 23), ("SCALAR_DOUBLE", 52), ("SCALAR_LDOUBLE", 63)):
        eps = Decimal(2) ** (-bits)
        v = (eps.ln() * Decimal(2) / Decimal(3)).exp()
        out[t] = "%.40e" % v
    return "".join("#if defined(%s)\n#define EPS23_DOC %s%s\n#endif\n" % (t, v, {"SCALAR_FLOAT": "f", "SCALAR_DOUBLE": "", "SCALAR_LDOUBLE": "L"}[t])
                   for t, v in out.items())


def emit_solver_fn(hdr, cls, name, cname, report, ret_c=None, extra=(), pre=(), loops=None, contract="",
                   maythrow=(), params=None, ordinal=0, params_re=None, members=None, self_type="Solver", pre_body=""):
    f = X.locate(hdr, name, cls=cls, ordinal=ordinal, params_re=params_re)
    f, inl = X.inline_index_helpers(f, hdr, cls)      # e.g. the rule switch moved into a helper that returns the sorted index
    if inl:
        report["%s::%s inlined index helpers" % (cls, name)] = inl
    members = list(members or SOLVER_MEMBERS) + [n for _, n in EXTRA_FIELDS["Solver"]]
    t, R = cgen.emit(f, cname, ret_c=ret_c, self_type=self_type, members=members, self_name="S",
                     extra_rules=list(extra), pre_rules=list(pre), loop_contracts=loops or {}, contract=contract,
                     maythrow=maythrow, param_types=params, pre_body=pre_body)
    report["%s::%s" % (cls, name)] = R.fired
    return t



# --------------------------------------------------------------------------- selection rule carried by the object instead of by parameters
def rule_carrier(hdr, cls):
    """The selection rule normally travels compute(selection) -> restart(k, selection) -> retrieve_ritzpair(selection) -> argsort(selection, ...).
    A refactoring may keep it in a data member instead.  Then `selection` stays in the CONTRACTS as a ghost parameter - the rule the caller of compute()
    asked for - and the helper functions get the precondition `member == selection`, asserted at every call site: the object has to carry the requested rule
    whenever a helper orders Ritz pairs by it.  Returns the member name, or None for the parameter form."""
    f = X.locate(hdr, "retrieve_ritzpair", cls=cls)
    if re.search(r"\bselection\b", f.params):
        return None
    m = re.search(r"\bargsort\(\s*(m_\w+)\s*,", f.body)
    if not m or m.group(1) not in [n for _, n in EXTRA_FIELDS["Solver"]] + list(SOLVER_MEMBERS):
        raise X.ExtractionBreak("%s::retrieve_ritzpair takes no selection rule and none is passed to argsort from a data member" % cls)
    return m.group(1)


def _ghost_selection(t, cname, member, report):
    """Add the ghost parameter `SortRule selection` to the emitted prototype of a helper that reads the rule from `member`."""
    t2, k = re.subn(r"\b(%s\(Solver \*S(?:, Index \w+)?)\)" % cname, r"\1, SortRule selection)", t, count=1)
    if k != 1:
        raise X.ExtractionBreak("rule carrier: prototype of %s not recognised" % cname)
    report["rule carrier"] = "selection rule kept in member %s: `selection` is a ghost parameter of %s with precondition S->%s == selection" % (member, cname, member)
    return t2

# --------------------------------------------------------------------------- nev_adjusted

def f_nev_adjusted(gen, report):
    hdr, cls = (GB, "GenEigsBase") if gen else (HB, "HermEigsBase")
    extra = []
    if gen:
        extra = [("cabs", r"FABS\(S->m_ritz_est\[i\]\)", "CABS(S->m_ritz_est[i])", {"min": 1, "max": 1})]
    spec = FSpec("nev_adjusted", "Index", [("Solver *", "S"), ("Index", "nconv")],
                 pre=[("0 <= nconv <= nev (result of num_converged)", "0 <= nconv && nconv <= S->m_nev")],
                 post=[("restart size keeps every wanted value: nev <= k", "S->m_nev <= ret"),
                       ("restart size leaves at least one shift: k <= ncv - 1", "ret <= S->m_ncv - 1")] +
                      ([("a conjugate pair that is adjacent at positions k-1, k is not split",
                         "!(is_complex(S->m_ritz_val[ret - 1]) && is_conj(S->m_ritz_val[ret - 1], S->m_ritz_val[ret]) && ret <= S->m_ncv - 2) || ret == S->m_ncv - 1")] if False else []),
                 real=hdr + ":nev_adjusted")
    t = emit_solver_fn(hdr, cls, "nev_adjusted", "nev_adjusted", report, ret_c="Index", extra=extra,
                       contract=spec.frame_contract(),
                       loops={0: "__CPROVER_assigns(i, nev_new) __CPROVER_loop_invariant(S->m_nev <= i && i <= S->m_ncv && S->m_nev <= nev_new && nev_new <= i) "
                                 "__CPROVER_decreases(S->m_ncv - i)"})
    return t, spec


GEN_HELPERS_C = r'''
RealScalar __CPROVER_uninterpreted_cabs(Scalar re, Scalar im);
#define CABS(z) __CPROVER_uninterpreted_cabs((z).re, (z).im)
'''


def f_gen_helpers(report):
    """is_complex / is_conj of GenEigsBase: lossless."""
    out = []
    f = X.locate(GB, "is_complex", cls="GenEigsBase")
    t, R = cgen.emit(f, "is_complex", ret_c="_Bool", param_types={"v": "Complex"}, static=True,
                     pre_rules=[("imag", r"\bv\.imag\(\)", "v.im", {"min": 1, "max": 1})])
    report["GenEigsBase::is_complex"] = R.fired
    out.append(t)
    f = X.locate(GB, "is_conj", cls="GenEigsBase")
    t, R = cgen.emit(f, "is_conj", ret_c="_Bool", param_types={"v1": "Complex", "v2": "Complex"}, static=True,
                     pre_rules=[("conj-eq", r"\bv1\s*==\s*Eigen::numext::conj\(v2\)", "(v1.re == v2.re && v1.im == -v2.im)", {"min": 1, "max": 1})])
    report["GenEigsBase::is_conj"] = R.fired
    out.append(t)
    return GEN_HELPERS_C + "".join(out)


# --------------------------------------------------------------------------- num_converged

def f_num_converged(gen, report, defs_out):
    hdr, cls = (GB, "GenEigsBase") if gen else (HB, "HermEigsBase")
    A = "Array" if gen else "RealArray"
    ab = "CABS" if gen else "FABS"
    extra = accessor_rules(report) + [
        ("thresh", r"%s thresh = (\w+) \* S->m_ritz_val\.head\(([^()]+)\)\.array\(\)\.abs\(\)\.max\((\w+)\);" % A,
         r"const Index verif_h1 = (\2); __CPROVER_assert(0 <= verif_h1 && verif_h1 <= VEC_SIZE(S->m_ritz_val), @Q@Eigen: head(n) within m_ritz_val@Q@); "
         r"const Scalar thresh_g = (0 <= g_i && g_i < verif_h1) ? FMUL((\1), VMAX(%s(S->m_ritz_val[g_i]), (\3))) : (Scalar)0;" % ab, {"max": 1}),
        ("resid", r"%s resid = S->m_ritz_est\.head\(([^()]+)\)\.array\(\)\.abs\(\) \* ([\w>.-]+);" % A,
         r"const Index verif_h2 = (\1); __CPROVER_assert(0 <= verif_h2 && verif_h2 <= VEC_SIZE(S->m_ritz_est), @Q@Eigen: head(n) within m_ritz_est@Q@); "
         r"const Scalar resid_g = (0 <= g_i && g_i < verif_h2) ? FMUL(%s(S->m_ritz_est[g_i]), (\2)) : (Scalar)0;" % ab, {"max": 1}),
        ("conv", r"S->m_ritz_conv = \(resid (<|<=|>|>=) thresh\);",
         r"__CPROVER_assert(verif_h1 == verif_h2, @Q@Eigen: coefficient-wise comparison needs equal sizes@Q@); "
         r"if (VEC_SIZE(S->m_ritz_conv) != verif_h2) { S->m_ritz_conv = BVEC_NEW(verif_h2); S->tag_conv = IVEC_NEW(verif_h2); } else { __CPROVER_havoc_object(S->m_ritz_conv); __CPROVER_havoc_object(S->tag_conv); } "
         r"if (0 <= g_i && g_i < verif_h2) { S->m_ritz_conv[g_i] = (resid_g \1 thresh_g); S->tag_conv[g_i] = (S->tag_val[g_i] == S->tag_est[g_i]) ? S->tag_val[g_i] : -1; } "
         r"S->st_conv = S->st_ritz; S->cnt_conv = nondet_Index(); __CPROVER_assume(0 <= S->cnt_conv && S->cnt_conv <= verif_h2); "
         r"if (0 <= g_i && g_i < verif_h2) __CPROVER_assume((S->cnt_conv < verif_h2 || S->m_ritz_conv[g_i]) && (S->cnt_conv > 0 || !S->m_ritz_conv[g_i]));", {"max": 1}),
        ("count", r"return S->m_ritz_conv\.count\(\);", "return S->cnt_conv;", {"max": 1}),
    ]
    notnan = ("(S->m_ritz_val[g_i].re == S->m_ritz_val[g_i].re && CABS(S->m_ritz_val[g_i]) == CABS(S->m_ritz_val[g_i]) && CABS(S->m_ritz_est[g_i]) == CABS(S->m_ritz_est[g_i]))"
              if gen else "(S->m_ritz_val[g_i] == S->m_ritz_val[g_i] && S->m_ritz_est[g_i] == S->m_ritz_est[g_i])")
    spec = FSpec("num_converged", "Index", [("Solver *", "S"), ("Scalar", "tol")],
                 pre=[("the convergence test |est_i| * ||f|| < tol * max(eps^(2/3), |theta_i|) is evaluated on the Ritz values theta of the ITERATED operator, i.e. before the "
                       "(virtual) sort_ritzpair of a shift-mode solver has back-transformed them to eigenvalues of A", "S->g_backtransformed == 0"),
                      ("Ritz arrays hold ncv entries", "VEC_SIZE(S->m_ritz_val) == S->m_ncv && VEC_SIZE(S->m_ritz_est) == S->m_ncv && VEC_SIZE(S->tag_val) == S->m_ncv && VEC_SIZE(S->tag_est) == S->m_ncv"),
                      ("flag array has its init() size (no reallocation)", "VEC_SIZE(S->m_ritz_conv) == S->m_nev && VEC_SIZE(S->tag_conv) == S->m_nev && 1 <= S->m_nev && S->m_nev <= S->m_ncv && S->m_ncv <= NMAX")],
                 post=[("one flag per wanted Ritz value", "VEC_SIZE(S->m_ritz_conv) == S->m_nev && VEC_SIZE(S->tag_conv) == S->m_nev"),
                       ("documented criterion, element-wise: conv[i] <=> |est_i|*||f|| < tol*max(eps^(2/3), |theta_i|)",
                        "!(0 <= g_i && g_i < S->m_nev && %s && tol == tol && S->m_fac.m_beta == S->m_fac.m_beta) || "
                        "(S->m_ritz_conv[g_i] == (FMUL(%s(S->m_ritz_est[g_i]), S->m_fac.m_beta) < FMUL(tol, VMAX(%s(S->m_ritz_val[g_i]), VERIF_POW_0))))" % (notnan, ab, ab)),
                       ("max(|theta|, c) == max(c, |theta|) for the non-NaN operands (documented argument order)",
                        "!(0 <= g_i && g_i < S->m_nev && %s) || VMAX(%s(S->m_ritz_val[g_i]), VERIF_POW_0) == VMAX(VERIF_POW_0, %s(S->m_ritz_val[g_i]))" % (notnan, ab, ab)),
                       ("eps^(2/3) constant as documented (within 4 ulp)", "FABS(VERIF_POW_0 - EPS23_DOC) <= 4 * SCALAR_EPS * EPS23_DOC"),
                       ("return value is the number of set flags", "ret == S->cnt_conv && 0 <= ret && ret <= S->m_nev"),
                       ("flags are computed from the current Ritz data", "S->st_conv == S->st_ritz"),
                       ("flag i is computed from value i and estimate i", "!(0 <= g_i && g_i < S->m_nev && S->tag_val[g_i] == S->tag_est[g_i]) || S->tag_conv[g_i] == S->tag_val[g_i]"),
                       ("all flags set <=> count == nev (at the Skolem index)", "!(0 <= g_i && g_i < S->m_nev) || ((ret < S->m_nev || S->m_ritz_conv[g_i]) && (ret > 0 || !S->m_ritz_conv[g_i]))")],
                 frame=["S->cnt_conv", "S->st_conv"], frame_inplace=["S->m_ritz_conv", "S->tag_conv"],
                 real=hdr + ":num_converged")
    t = emit_solver_fn(hdr, cls, "num_converged", "num_converged", report, ret_c="Index", extra=extra,
                       pre=[pow_rule(defs_out)], contract=spec.frame_contract(), params={"tol": "Scalar"})
    return t, spec


# --------------------------------------------------------------------------- callee stubs proved elsewhere

def stub_argsort():
    """Call-site contract of argsort(selection, values, len): the clause texts proved in C18 (argsort.<rule>)."""
    from props import C18
    ok, st, od = C18.argsort_clauses(ind="ret", length="len", sel="selection", q1="g_i", q2="g_j")
    L = ["#define PMAP(i, len) (((i) % 2 == 0) ? (i) / 2 : (len) - 1 - (i) / 2)",
         "/* forall-elimination of argsort's proved range postcondition at a use-site index (DESIGN 2.3; counted in the evidence) */",
         "#define INSTANTIATE_RANGE(ind, e, len) __CPROVER_assume(!(0 <= (e) && (e) < (len)) || (0 <= (ind).data[e] && (ind).data[e] < (len)))",
         "/* forall-elimination of the eigen-decomposition's postcondition `column j of the eigenvector matrix belongs to eigenvalue j` */",
         "#define INSTANTIATE_COLTAG(M, e) __CPROVER_assume(!(0 <= (e) && (e) < (M).cols) || (M).coltag[e] == (e))",
         "Index g_ia, g_ib; Scalar g_va, g_vb;   /* witnesses: ind[g_i], ind[g_j], values[ind[g_i]], values[ind[g_j]] */",
         "/* contract stub of argsort (Util/SelectionRule.h), proved in C18 groups argsort.* */",
         "IndexArray argsort(SortRule selection, const Scalar *values, Index len) {",
         '  __CPROVER_assert(0 <= len && len <= VEC_SIZE(values), "precondition of argsort at call site: values[0..len) is a valid range");',
         "  IndexArray ret; ret.size = 0; ret.data = NULL;",
         "  if (!%s) { verif_exc = EXC_invalid_argument; return ret; }" % ok,
         "  ret.size = len; ret.data = IVEC_NEW(len);",
         "  if (0 <= g_i && g_i < g_j && g_j < len) {",
         "    Index ia = ret.data[g_i], ib = ret.data[g_j];"]
    for lab, e in st:
        L.append("    __CPROVER_assume(%s);" % e)
    L.append("    Scalar va = values[ia], vb = values[ib];")
    for lab, e in od:
        L.append("    __CPROVER_assume(%s);" % e)
    L += ["    g_ia = ia; g_ib = ib; g_va = va; g_vb = vb;   /* Skolem witnesses exported to the caller's invariants */",
          "  } else {",
          "    if (0 <= g_i && g_i < len) { __CPROVER_assume(0 <= ret.data[g_i] && ret.data[g_i] < len); g_ia = ret.data[g_i]; g_va = values[g_ia]; }",
          "    if (0 <= g_j && g_j < len) { __CPROVER_assume(0 <= ret.data[g_j] && ret.data[g_j] < len); g_ib = ret.data[g_j]; g_vb = values[g_ib]; }",
          "    if (0 <= g_i && g_i < len && 0 <= g_j && g_j < len && g_i != g_j) __CPROVER_assume(g_ia != g_ib);",
          "  }",
          "  return ret;", "}"]
    return "\n".join(L) + "\n"


DECOMP_STUBS = r'''
/* TridiagEigen<RealScalar> decomp(H) / UpperHessenbergEigen<Scalar> decomp(H): dense eigen-decomposition of the projected
 * matrix (contract decided under C09): ncv eigenvalues, ncv x ncv eigenvectors whose column j belongs to eigenvalue j;
 * throws std::invalid_argument for a non-square argument and std::runtime_error when the QR iteration fails. */
typedef struct { Ritz *evals; Mat evecs; Index stamp; } EigDecomp;
static EigDecomp EIGEN_DECOMP(Mat *H)
{
  EigDecomp d; d.evals = NULL; d.stamp = 0; d.evecs.rows = 0; d.evecs.cols = 0; d.evecs.coltag = NULL; d.evecs.colbuf = NULL;
  if (H->rows != H->cols) { verif_exc = EXC_invalid_argument; return d; }
  if (nondet_bool()) { verif_exc = EXC_runtime_error; return d; }
  d.evals = RITZ_NEW(H->rows); d.evecs = MAT_NEW(H->rows, H->rows);
  if (0 <= g_i && g_i < H->rows) d.evecs.coltag[g_i] = g_i;
  if (0 <= g_j && g_j < H->rows) d.evecs.coltag[g_j] = g_j;
  g_clock++; d.stamp = g_clock;
  return d;
}
'''


# --------------------------------------------------------------------------- retrieve_ritzpair (Herm)

def ordered_clause(arr, gen=False):
    """m_ritz_val[g_i], m_ritz_val[g_j] (g_i < g_j) are in selection-rule order: the documented key table of C18."""
    from props import C18
    doc = C18.DOC_CPLX if gen else C18.DOC_REAL
    out = []
    for r, d in doc.items():
        if r == "BothEnds":
            continue
        cond = d.replace("x", "XX").replace("y", "YY").replace("XX", "vb").replace("YY", "va")
        out.append((r, "!(selection == SortRule_%s) || !(%s)" % (r, cond)))
    return out


def f_retrieve_ritzpair_herm(report):
    extra = accessor_rules(report) + [
        ("decomp", r"TridiagEigen<RealScalar> decomp\(S->m_fac\.m_fac_H\.real\(\)\);", "EigDecomp decomp = EIGEN_DECOMP(&S->m_fac.m_fac_H);", {"max": 1}),
        ("evals", r"const RealVector& evals = decomp\.eigenvalues\(\);", "const Scalar *evals = decomp.evals;", {"max": 1}),
        ("evecs", r"const RealMatrix& evecs = decomp\.eigenvectors\(\);", "Mat evecs = decomp.evecs; S->st_ritz = decomp.stamp;", {"max": 1}),
        ("argsort", r"std::vector<Index> ind = argsort\(", "IndexArray ind = argsort(", {"max": 1}),
        ("ind[]", r"\bind\[", "ind.data[", {"min": 3, "max": 3}),
        ("val-copy", r"S->m_ritz_val\[(\w+)\] = evals\[([^;]+)\];", r"INSTANTIATE_RANGE(ind, \1, S->m_ncv); S->m_ritz_val[\1] = evals[\2]; S->tag_val[\1] = (\2);", {"max": 1}),
        ("est-copy", r"S->m_ritz_est\[(\w+)\] = evecs\(([^;]+?),\s*([^;,]+)\);",
         r"S->m_ritz_est[\1] = *MAT_ELEM(&evecs, \2, \3); S->tag_est[\1] = ((\2) == evecs.rows - 1) ? (\3) : -1;", {"max": 1}),
        ("vec-copy", r"S->m_ritz_vec\.col\((\w+)\)\.noalias\(\) = evecs\.col\(([^;]+)\);", r"INSTANTIATE_RANGE(ind, \1, S->m_ncv); INSTANTIATE_COLTAG(evecs, \2); COLCOPY(S->m_ritz_vec, \1, evecs, \2);", {"max": 1}),
    ]
    inv1 = ("__CPROVER_assigns(i, __CPROVER_object_whole(S->m_ritz_val), __CPROVER_object_whole(S->m_ritz_est), __CPROVER_object_whole(S->tag_val), __CPROVER_object_whole(S->tag_est), evecs.cell) "
            "__CPROVER_loop_invariant(0 <= i && i <= S->m_ncv) "
            "__CPROVER_loop_invariant(!(0 <= g_i && g_i < i) || (S->tag_val[g_i] == g_ia && S->tag_est[g_i] == g_ia && ((g_va != g_va) ? (S->m_ritz_val[g_i] != S->m_ritz_val[g_i]) : (S->m_ritz_val[g_i] == g_va)))) "
            "__CPROVER_loop_invariant(!(0 <= g_j && g_j < i) || (S->tag_val[g_j] == g_ib && S->tag_est[g_j] == g_ib && ((g_vb != g_vb) ? (S->m_ritz_val[g_j] != S->m_ritz_val[g_j]) : (S->m_ritz_val[g_j] == g_vb)))) "
            "__CPROVER_decreases(S->m_ncv - i)")
    inv2 = ("__CPROVER_assigns(i, __CPROVER_object_whole(S->m_ritz_vec.coltag)) "
            "__CPROVER_loop_invariant(0 <= i && i <= S->m_nev) "
            "__CPROVER_loop_invariant(!(0 <= g_i && g_i < i) || S->m_ritz_vec.coltag[g_i] == g_ia) "
            "__CPROVER_loop_invariant(!(0 <= g_j && g_j < i) || S->m_ritz_vec.coltag[g_j] == g_ib) "
            "__CPROVER_decreases(S->m_nev - i)")
    both = "0 <= g_i && g_i < g_j && g_j < S->m_ncv"
    post = [("value, estimate (and vector column, for wanted ones) at position i come from the same eigenpair of the decomposition",
             "!(0 <= g_i && g_i < S->m_ncv) || (S->tag_val[g_i] == S->tag_est[g_i] && 0 <= S->tag_val[g_i] && S->tag_val[g_i] < S->m_ncv && (g_i >= S->m_nev || S->m_ritz_vec.coltag[g_i] == S->tag_val[g_i]))"),
            ("distinct positions hold distinct eigenpairs (a permutation of the decomposition)",
             "!(%s) || S->tag_val[g_i] != S->tag_val[g_j]" % both),
            ("Ritz data stamped with the fresh decomposition", "S->st_ritz == g_clock"),
            ("one clock tick", "g_clock == old_clock + 1")]
    for r, cl in ordered_clause("S->m_ritz_val"):
        post.append(("wanted-first order by the selection rule %s: no later Ritz value strictly precedes an earlier one" % r,
                     "!(%s && S->m_ritz_val[g_i] == S->m_ritz_val[g_i] && S->m_ritz_val[g_j] == S->m_ritz_val[g_j]) || verif_ordered_%s(selection, S->m_ritz_val[g_i], S->m_ritz_val[g_j])" % (both, r)))
    from props import C18 as _C18
    post.insert(0, ("normal exit only for a selection rule the symmetric family supports (others are rejected with invalid_argument)",
                    "(" + " || ".join("selection == SortRule_%s" % r for r in _C18.DOC_REAL) + ")"))
    post.append(("BothEnds: position q holds source position p(q) of the descending order",
                 "!(%s && selection == SortRule_BothEnds && S->m_ritz_val[g_i] == S->m_ritz_val[g_i] && S->m_ritz_val[g_j] == S->m_ritz_val[g_j]) || "
                 "((PMAP(g_i, S->m_ncv) < PMAP(g_j, S->m_ncv)) ? !(S->m_ritz_val[g_j] > S->m_ritz_val[g_i]) : !(S->m_ritz_val[g_i] > S->m_ritz_val[g_j]))" % both))
    spec = FSpec("retrieve_ritzpair", "void", [("Solver *", "S"), ("SortRule", "selection")],
                 pre=[("Ritz arrays hold ncv entries", "VEC_SIZE(S->m_ritz_val) == S->m_ncv && VEC_SIZE(S->m_ritz_est) == S->m_ncv && VEC_SIZE(S->tag_val) == S->m_ncv && VEC_SIZE(S->tag_est) == S->m_ncv"),
                      ("projected matrix is ncv x ncv, Ritz vector matrix ncv x nev", "S->m_fac.m_fac_H.rows == S->m_ncv && S->m_fac.m_fac_H.cols == S->m_ncv && S->m_ritz_vec.rows == S->m_ncv && S->m_ritz_vec.cols == S->m_nev"),
                      ("1 <= nev < ncv", "1 <= S->m_nev && S->m_nev < S->m_ncv && S->m_ncv <= NMAX"),
                      ("clock bounded", "0 <= g_clock && g_clock <= 4 * CAP")],
                 post=post,
                 exc_post=[("unsupported selection rule or failed decomposition: invalid_argument / runtime_error; clock at most one tick", "old_clock <= g_clock && g_clock <= old_clock + 1")],
                 frame=["S->st_ritz", "g_clock", "g_ia", "g_ib", "g_va", "g_vb"],
                 frame_objs=["S->m_ritz_val", "S->m_ritz_est", "S->tag_val", "S->tag_est", "S->m_ritz_vec.coltag"],
                 may_throw=[1, 2], olds=[("Index", "old_clock", "g_clock")], real=HB + ":retrieve_ritzpair")
    carrier = rule_carrier(HB, "HermEigsBase")
    if carrier:
        spec.pre.append(("the object carries the selection rule requested by the caller of compute() whenever Ritz pairs are ordered by it", "S->%s == selection" % carrier))
    t = emit_solver_fn(HB, "HermEigsBase", "retrieve_ritzpair", "retrieve_ritzpair", report, ret_c="void", extra=extra,
                       loops={0: inv1, 1: inv2}, contract=spec.frame_contract(), maythrow=["EIGEN_DECOMP", "argsort"])
    if carrier:
        t = _ghost_selection(t, "retrieve_ritzpair", carrier, report)
    ordf = "".join("static _Bool verif_ordered_%s(SortRule selection, Scalar va, Scalar vb) { return %s; }\n" % (r, cl)
                   for r, cl in ordered_clause("S->m_ritz_val"))
    return ordf + t, spec


# --------------------------------------------------------------------------- sort_ritzpair (Herm base)

def _vec_size_arg(a):
    a = a.strip()
    return "VEC_SIZE(%s)" % a if re.match(r"^S->m_ritz_(val|est)$", a) else a


def sort_permutes_est(hdr, cls):
    return "new_ritz_est" in X.locate(hdr, "sort_ritzpair", cls=cls).body


def sort_loop_inv(est):
    return SORT_LOOP_INV.replace("__CPROVER_object_whole(ntag_conv))", "__CPROVER_object_whole(ntag_conv), __CPROVER_object_whole(new_ritz_est), __CPROVER_object_whole(ntag_est))") if est else SORT_LOOP_INV


SORT_LOCALS_RULES = [
    ("argsort", r"std::vector<Index> ind = argsort\(", "IndexArray ind = argsort(", {"max": 1}),
    ("ind[]", r"\bind\[", "ind.data[", {"min": 3, "max": 4}),
    # `RealVector new_ritz_val(m_ncv)` or a copy `RealVector new_ritz_val(m_ritz_val)`: a fresh array of that size (entries the loop does not write are arbitrary in both forms)
    ("new-val", r"(?:Real|Complex)Vector new_ritz_val\(([^;]+)\);",
     lambda m: "Ritz *new_ritz_val = RITZ_NEW(%s); Index *ntag_val = IVEC_NEW(%s);" % ((_vec_size_arg(m.group(1)),) * 2), {"max": 1}),
    # the Ritz estimates permuted together with the values (optional)
    ("new-est", r"(?:Real|Complex)Vector new_ritz_est\(([^;]+)\);",
     lambda m: "Ritz *new_ritz_est = RITZ_NEW(%s); Index *ntag_est = IVEC_NEW(%s);" % ((_vec_size_arg(m.group(1)),) * 2), {"min": 0, "max": 1}),
    ("est-copy", r"new_ritz_est\[(\w+)\] = S->m_ritz_est\[([^;]+)\];", r"new_ritz_est[\1] = S->m_ritz_est[\2]; ntag_est[\1] = S->tag_est[\2];", {"min": 0, "max": 1}),
    ("swap-est", r"S->m_ritz_est\.swap\(new_ritz_est\);", "{ Ritz *t_ = S->m_ritz_est; S->m_ritz_est = new_ritz_est; new_ritz_est = t_; Index *u_ = S->tag_est; S->tag_est = ntag_est; ntag_est = u_; }", {"min": 0, "max": 1}),
    ("new-vec", r"(?:Real|Complex)Matrix new_ritz_vec\(([^;]+)\);", r"Mat new_ritz_vec = MAT_NEW(\1);", {"max": 1}),
    ("new-conv", r"BoolArray new_ritz_conv\(([^;]+)\);", r"_Bool *new_ritz_conv = BVEC_NEW(\1); Index *ntag_conv = IVEC_NEW(\1);", {"max": 1}),
    ("val-copy", r"new_ritz_val\[(\w+)\] = S->m_ritz_val\[([^;]+)\];",
     r"INSTANTIATE_RANGE(ind, \1, S->m_nev); new_ritz_val[\1] = S->m_ritz_val[\2]; ntag_val[\1] = S->tag_val[\2];", {"max": 1}),
    ("vec-copy", r"new_ritz_vec\.col\((\w+)\)\.noalias\(\) = S->m_ritz_vec\.col\(([^;]+)\);", r"COLCOPY(new_ritz_vec, \1, S->m_ritz_vec, \2);", {"max": 1}),
    ("conv-copy", r"new_ritz_conv\[(\w+)\] = S->m_ritz_conv\[([^;]+)\];", r"new_ritz_conv[\1] = S->m_ritz_conv[\2]; ntag_conv[\1] = S->tag_conv[\2];", {"max": 1}),
    ("swap-val", r"S->m_ritz_val\.swap\(new_ritz_val\);", "{ Ritz *t_ = S->m_ritz_val; S->m_ritz_val = new_ritz_val; new_ritz_val = t_; Index *u_ = S->tag_val; S->tag_val = ntag_val; ntag_val = u_; }", {"max": 1}),
    ("swap-vec", r"S->m_ritz_vec\.swap\(new_ritz_vec\);", "{ Mat t_ = S->m_ritz_vec; S->m_ritz_vec = new_ritz_vec; new_ritz_vec = t_; }", {"max": 1}),
    ("swap-conv", r"S->m_ritz_conv\.swap\(new_ritz_conv\);", "{ _Bool *t_ = S->m_ritz_conv; S->m_ritz_conv = new_ritz_conv; new_ritz_conv = t_; Index *u_ = S->tag_conv; S->tag_conv = ntag_conv; ntag_conv = u_; }", {"max": 1}),
]

SORT_LOOP_INV = ("__CPROVER_assigns(i, __CPROVER_object_whole(new_ritz_val), __CPROVER_object_whole(ntag_val), __CPROVER_object_whole(new_ritz_vec.coltag), "
                 "__CPROVER_object_whole(new_ritz_conv), __CPROVER_object_whole(ntag_conv)) "
                 "__CPROVER_loop_invariant(0 <= i && i <= S->m_nev) "
                 "__CPROVER_loop_invariant(!(0 <= g_i && g_i < i) || (ntag_val[g_i] == S->tag_val[g_ia] && new_ritz_vec.coltag[g_i] == S->m_ritz_vec.coltag[g_ia] && "
                 "ntag_conv[g_i] == S->tag_conv[g_ia] && new_ritz_conv[g_i] == S->m_ritz_conv[g_ia] && NANEQ(new_ritz_val[g_i], g_va))) "
                 "__CPROVER_loop_invariant(!(0 <= g_j && g_j < i) || (ntag_val[g_j] == S->tag_val[g_ib] && new_ritz_vec.coltag[g_j] == S->m_ritz_vec.coltag[g_ib] && "
                 "ntag_conv[g_j] == S->tag_conv[g_ib] && new_ritz_conv[g_j] == S->m_ritz_conv[g_ib] && NANEQ(new_ritz_val[g_j], g_vb))) "
                 "__CPROVER_decreases(S->m_nev - i)")

NANEQ_DEF = ("#if defined(SCALAR_FLOAT)\n#define FSIGN(x) __CPROVER_signf(x)\n#elif defined(SCALAR_LDOUBLE)\n#define FSIGN(x) __CPROVER_signld(x)\n#else\n#define FSIGN(x) __CPROVER_signd(x)\n#endif\n"
             "#define NANEQ(a, b) (((b) != (b)) ? ((a) != (a)) : ((a) == (b) && FSIGN(a) == FSIGN(b)))   /* a is a copy of b: NaN-aware, zero-sign-aware */\n")

SORT_RULES_HERM = ["LargestAlge", "LargestMagn", "SmallestAlge", "SmallestMagn"]


def sort_spec(gen, hdr, cname="sort_ritzpair", extra_post=(), extra_frame=()):
    from props import C18
    est = sort_permutes_est(GB if gen else HB, "GenEigsBase" if gen else "HermEigsBase")
    rules = list(C18.DOC_CPLX) if gen else SORT_RULES_HERM
    ok = "(" + " || ".join("sort_rule == SortRule_%s" % r for r in rules) + ")"
    both = "0 <= g_i && g_i < g_j && g_j < S->m_nev"
    post = [("sizes unchanged: ncv values, nev flags, ncv x nev vectors",
             "VEC_SIZE(S->m_ritz_val) == S->m_ncv && VEC_SIZE(S->m_ritz_conv) == S->m_nev && VEC_SIZE(S->tag_val) == S->m_ncv && VEC_SIZE(S->tag_conv) == S->m_nev && "
             "S->m_ritz_vec.rows == S->m_ncv && S->m_ritz_vec.cols == S->m_nev"),
            ("value, vector column and flag are permuted together: position i receives all three from one source position",
             "!(0 <= g_i && g_i < S->m_nev && g_ia == g_p) || (S->tag_val[g_i] == old_tv && S->m_ritz_vec.coltag[g_i] == old_ct && S->tag_conv[g_i] == old_tc && S->m_ritz_conv[g_i] == old_cv)"),
            ("source positions are in [0, nev) and distinct (a permutation, so the number of set flags is unchanged)",
             "!(%s) || (0 <= g_ia && g_ia < S->m_nev && 0 <= g_ib && g_ib < S->m_nev && g_ia != g_ib)" % both),
            ("flag count and stamps untouched", "S->cnt_conv == old_cnt && S->st_conv == old_stc && S->st_ritz == old_str")]
    for r, cl in ordered_clause("", gen):
        if r in rules:
            post.append(("final order by the sorting rule %s" % r,
                         "!(%s && NOTNAN(S->m_ritz_val[g_i]) && NOTNAN(S->m_ritz_val[g_j])) || verif_sorted_%s(sort_rule, S->m_ritz_val[g_i], S->m_ritz_val[g_j])" % (both, r)))
    spec = FSpec(cname, "void", [("Solver *", "S"), ("SortRule", "sort_rule")],
                 pre=[("sizes: ncv values, nev flags, ncv x nev vectors",
                       "VEC_SIZE(S->m_ritz_val) == S->m_ncv && VEC_SIZE(S->m_ritz_conv) == S->m_nev && VEC_SIZE(S->tag_val) == S->m_ncv && VEC_SIZE(S->tag_conv) == S->m_nev && "
                       "S->m_ritz_vec.rows == S->m_ncv && S->m_ritz_vec.cols == S->m_nev"),
                      ("1 <= nev < ncv", "1 <= S->m_nev && S->m_nev < S->m_ncv && S->m_ncv <= NMAX")],
                 post=post + list(extra_post),
                 exc_post=[("rejected <=> sorting rule not supported by this solver family", "!%s && verif_exc == EXC_invalid_argument" % ok),
                           ("nothing modified when the rule is rejected", "S->cnt_conv == old_cnt && S->st_conv == old_stc && S->st_ritz == old_str")],
                 frame=["g_ia", "g_ib", "g_va", "g_vb"] + list(extra_frame),
                 frame_inplace=["S->m_ritz_val", "S->tag_val", "S->m_ritz_conv", "S->tag_conv"] + (["S->m_ritz_est", "S->tag_est"] if est else []),
                 frame_inplace_mat=["S->m_ritz_vec"],
                 may_throw=[1],
                 olds=[("Index", "old_tv", "(0 <= g_p && g_p < S->m_nev) ? S->tag_val[g_p] : 0"), ("Index", "old_tc", "(0 <= g_p && g_p < S->m_nev) ? S->tag_conv[g_p] : 0"),
                       ("Index", "old_ct", "(0 <= g_p && g_p < S->m_nev) ? S->m_ritz_vec.coltag[g_p] : 0"), ("_Bool", "old_cv", "(0 <= g_p && g_p < S->m_nev) ? S->m_ritz_conv[g_p] : 0"),
                       ("Index", "old_cnt", "S->cnt_conv"), ("Index", "old_stc", "S->st_conv"), ("Index", "old_str", "S->st_ritz")],
                 real=hdr + ":sort_ritzpair")
    spec.post.insert(0, ("accepted <=> sorting rule supported", ok))
    return spec


def f_sort_ritzpair_herm(report):
    spec = sort_spec(False, HB)
    t = emit_solver_fn(HB, "HermEigsBase", "sort_ritzpair", "sort_ritzpair", report, ret_c="void", extra=SORT_LOCALS_RULES,
                       loops={0: sort_loop_inv(sort_permutes_est(HB, "HermEigsBase"))}, contract=spec.frame_contract(), maythrow=["argsort"])
    ordf = "Index g_p;\n" + NANEQ_DEF + "#define NOTNAN(v) ((v) == (v))\n" + \
        "".join("static _Bool verif_sorted_%s(SortRule selection, Scalar va, Scalar vb) { return %s; }\n" % (r, cl)
                for r, cl in ordered_clause("") if r in SORT_RULES_HERM)
    return ordf + t, spec


# --------------------------------------------------------------------------- Arnoldi / Lanczos (struct Fac, self name F)
from vlib import eigabs

class _FacMembers(list):
    """FAC_MEMBERS_BASE plus members added to Arnoldi since (resolved at use time)."""
    def __iter__(self):
        return iter(FAC_MEMBERS_BASE + [n for _, n in EXTRA_FIELDS["Fac"]])

    def __len__(self):
        return len(FAC_MEMBERS_BASE) + len(EXTRA_FIELDS["Fac"])


FAC_MEMBERS = _FacMembers()
LH = "LinAlg/Lanczos.h"


def fac_post_fn(mats, vecs, stmts_out, ptr_vecs=(), track_uses=()):
    """Structural rewrites shared by all factorization functions, then the lexical Eigen-statement abstraction."""
    def fn(b, R):
        # Map declarations
        b = R.sub("mat-decl", r"(?<![\w:])(?:Real)?Matrix\s+(\w+)\(([^;]+?),\s*([^;,]+)\);", r"Mat \1 = MAT_NEW(\2, \3);", b)
        b = R.sub("map-vec", r"\bQ?Map(?:Const)?Vec\s+(\w+)\(([^;]+?),\s*([^;,]+)\);",
                  r"Scalar *\1 = (Scalar *)(\2); MAPLEN_CHECK(\1, \3);", b)
        b = R.sub("map-mat", r"\bMap(?:Const)?Mat\s+(\w+)\(([\w>.-]+)\.data\(\),\s*([^;,]+),\s*([^;,]+)\);",
                  r"Mat \1 = MAT_LEFTCOLS(&\2, \3, \4);", b)
        for M in mats:
            b = R.sub("matdata:" + M, r"((?:F->|S->m_fac\.)%s)\.data\(\)" % re.escape(M), r"MAT_COLPTR(&\1, 0, 0)", b)
        # plain vector declarations (possibly several declarators)
        def decl(m):
            out = []
            for d in X.split_top(m.group(1)):
                dm = re.match(r"^\s*(\w+)\((.*)\)\s*$", d, flags=re.S)
                if not dm:
                    raise X.ExtractionBreak("vector declarator %r" % d)
                out.append("Scalar *%s = VEC_NEW(%s);" % (dm.group(1), dm.group(2)))
            return " ".join(out)
        b = R.sub("vec-decl", r"(?<![\w:])Vector\s+((?:\w+\([^;]*?\))(?:\s*,\s*\w+\([^;]*?\))*);", decl, b)
        # &M(i, j) and M(i, j)
        for M in mats:
            b = R.call_rewrite("colptr:" + M, r"&((?:F->|S->m_fac\.)?%s)(?=\()" % re.escape(M),
                               lambda m, a: "MAT_COLPTR(&%s, %s)" % (m.group(1), ", ".join(a)) if len(a) == 2 else None, b)
            b = R.call_rewrite("elem:" + M, r"(?<![\w&.>])((?:F->|S->m_fac\.)?%s)(?=\()" % re.escape(M),
                               lambda m, a: "(*MAT_ELEM(&%s, %s))" % (m.group(1), ", ".join(a)) if len(a) == 2 else None, b)
        # operator application
        b = R.sub("perform_op", r"\bF->m_op\.perform_op\(([^;]+?),\s*([^;,]+)\);", r"OP_perform_op(F->m_op, \1, \2);", b)
        b = R.sub("data()", r"\b(%s)\.data\(\)" % "|".join(list(vecs) + list(ptr_vecs)), r"\1", b) if (vecs or ptr_vecs) else b
        b = R.sub("cols()", r"\b(\w+)\.cols\(\)", r"\1.cols", b)
        # Eigen reductions inside if/while conditions: nondeterministic non-negative scalars in place
        pos = 0
        while True:
            mh = re.compile(r"\b(if|while)\s*\(").search(b, pos)
            if not mh:
                break
            pc = X.match_close(b, mh.end() - 1)
            head = b[mh.end():pc]
            new = re.sub(r"[\w>.-]+\.norm\([^()]*\)", "NONNEG_SCALAR()", head)
            new = re.sub(r"[\w>.-]+(?:\.head\([^()]*\))?\.cwiseAbs\(\)\.maxCoeff\(\)", "NONNEG_SCALAR()", new)
            if new != head:
                R.fired["cond-reduction"] = R.fired.get("cond-reduction", 0) + 1
                stmts_out.append("[condition] " + " ".join(head.split()))
                new = new + "\n" * (head.count("\n") - new.count("\n"))
                b = b[:mh.end()] + new + b[pc:]
            pos = mh.end()
        b = eigabs.abstract(b, mats, vecs, report=stmts_out, keep_rx=r"^OP_perform_op|MAT_LEFTCOLS|MAPLEN_CHECK|VEC_NEW", track_uses=track_uses)
        return b
    return fn


FAC_MACROS = eigabs.SKEL_MACROS + r'''
#define CAP 1000000000000000L     /* cap on ghost counters (10^15): keeps counter arithmetic inside 64 bits */
static Index ND_SIZE(void) { Index n = nondet_Index(); __CPROVER_assume(0 <= n && n <= NMAX); return n; }
#define MAPLEN_CHECK(p, n) __CPROVER_assert((n) >= 0 && __CPROVER_rw_ok(p, (n) * sizeof(Scalar)), "Eigen::Map: pointer covers the mapped length")
static Mat MAT_LEFTCOLS(Mat *M, Index r, Index c)
{ __CPROVER_assert(r == M->rows && 0 <= c && c <= M->cols, "Eigen::Map over the leading columns of a matrix stays inside it"); Mat V = *M; V.cols = c; return V; }
'''

FAC_INV = [("factorization buffers have their init() shapes: V n x m, H m x m, f length n",
            "F->m_fac_V.rows == F->m_n && F->m_fac_V.cols == F->m_m && F->m_fac_H.rows == F->m_m && F->m_fac_H.cols == F->m_m && VEC_SIZE(F->m_fac_f) == F->m_n"),
           ("1 <= m <= n", "1 <= F->m_m && F->m_m <= F->m_n && F->m_n <= NMAX && F->m_op->n == F->m_n"),
           ("counters bounded", "0 <= g_ops && g_ops <= 2 * CAP && 0 <= (*op_counter) && (*op_counter) <= 2 * CAP && 0 <= g_clock && g_clock <= 2 * CAP")]

ALLOC_FAC = r'''
  Op op; Fac Fs; Fac *F = &Fs; F->m_op = &op;
  F->m_n = nondet_Index(); F->m_m = nondet_Index(); F->m_k = nondet_Index();
  __CPROVER_assume(0 <= F->m_n && F->m_n <= NMAX && 0 <= F->m_m && F->m_m <= NMAX);
  op.n = F->m_n;
  F->m_fac_V = MAT_NEW(ND_SIZE(), ND_SIZE()); F->m_fac_H = MAT_NEW(ND_SIZE(), ND_SIZE());
  F->m_fac_f = VEC_NEW(ND_SIZE()); F->m_beta = nondet_Scalar();
  F->m_near_0 = SCALAR_MIN * (Scalar)10; F->m_eps = SCALAR_EPS;
  F->g_valid_k = nondet_Index(); F->g_Vdef = nondet_Index(); F->st_fac = nondet_Index();
  Index counter = nondet_Index(); Index *op_counter = &counter;
  g_ops = nondet_Index(); g_clock = nondet_Index();
'''


def expand_basis_spec(counts=True):
    """counts: expand_basis has the `op_counter` out-parameter and counts its own operator application (the pinned signature).  A variant without the
    parameter leaves the counting to the caller: the contract then says `not counted here`, and `every operator application is counted` is decided where it
    belongs, in factorize_from."""
    c = "1" if counts else "0"
    return FSpec("expand_basis", "void", [("Fac *", "F"), ("Mat", "V"), ("Index", "seed"), ("Scalar *", "f"), ("Scalar *", "fnorm"), ("Index *", "op_counter")],
                 pre=[("V is the leading block of the basis, f a length-n vector", "V.rows == F->m_n && 0 <= V.cols && V.cols <= F->m_m && VEC_SIZE(f) == F->m_n && F->m_op->n == F->m_n && 0 <= F->m_n && F->m_n <= NMAX"),
                      ("seed of the library form 2*i", "0 <= seed && seed <= 2 * NMAX"),
                      ("counters bounded", "0 <= g_ops && g_ops <= 3 * CAP && 0 <= (*op_counter) && (*op_counter) <= 3 * CAP")],
                 post=[("exactly one operator application, counted" if counts else "exactly one operator application, left to the caller to count", "g_ops == old_ops + 1 && (*op_counter) == old_cnt + %s" % c),
                       ("norm of the new residual is non-negative", "(*fnorm) >= (Scalar)0"),
                       ("a restart vector that passed the orthogonality test has a nonzero norm (the caller divides by it)", "!g_accepted || (*fnorm) > (Scalar)0")],
                 exc_post=[("the operator threw: it was entered once and not counted", "verif_exc == EXC_user && g_ops == old_ops + 1 && (*op_counter) == old_cnt")],
                 frame=["*fnorm", "*op_counter", "g_ops", "g_accepted"], frame_objs=["f"], may_throw=[7],
                 olds=[("Index", "old_ops", "g_ops"), ("Index", "old_cnt", "*op_counter")], real=AH + ":expand_basis")


def f_expand_basis(report):
    stm = []
    f = X.locate(AH, "expand_basis", cls="Arnoldi")
    counts = bool(re.search(r"\bop_counter\b", f.params))
    spec = expand_basis_spec(counts)
    if not counts:
        import copy
        f = copy.copy(f)
        f.params = f.params + ", Index& op_counter"    # uniform C signature; the body never touches it
    c = "1" if counts else "0"
    has_v = bool(re.search(r"\bVector\b[^;]*\bv\(", f.body))     # the scratch vector of the first try
    t, R = cgen.emit(f, "expand_basis", ret_c="void", self_type="Fac", self_name="F", members=FAC_MEMBERS,
                     param_types={"V": "Mat", "seed": "Index", "f": "Scalar *", "fnorm": "REF", "op_counter": "REF"},
                     extra_rules=[("rng", r"SimpleRandom<Scalar> rng\(([^;]+)\);", r"const Index verif_seed = (\1); __CPROVER_assert(verif_seed >= 0, @Q@SimpleRandom seed is non-negative@Q@);", {"max": 1}),
                                  ("random_vec", r"rng\.random_vec\((\w+)\);", r"HAVOC_VEC(\1);", {"min": 1, "max": 2}),
                                  ("accept", r"if \(([^;{}]*?)\)\s*return;", r"if (\1) { g_accepted = 1; return; }", {"min": 1, "max": 1})],
                     post_fn=fac_post_fn(["V"], ["f", "v", "Vf"], stm), maythrow=["OP_perform_op"],
                     contract=spec.frame_contract(),
                     loop_contracts={0: "__CPROVER_assigns(iter, *fnorm, *op_counter, g_ops, verif_exc, g_accepted, __CPROVER_object_whole(f), %s__CPROVER_object_whole(Vf)) " % ("__CPROVER_object_whole(v), " if has_v else "") +
                                        "__CPROVER_loop_invariant(0 <= iter && iter <= 5 && verif_exc == 0 && !g_accepted) "
                                        "__CPROVER_loop_invariant(iter == 0 ? (g_ops == old_ops_l && (*op_counter) == old_cnt_l) : (g_ops == old_ops_l + 1 && (*op_counter) == old_cnt_l + %s && (*fnorm) >= (Scalar)0)) " % c +
                                        "__CPROVER_decreases(5 - iter)",
                                     1: "__CPROVER_assigns(count, *fnorm, ortho_err, __CPROVER_object_whole(f), __CPROVER_object_whole(Vf)) "
                                        "__CPROVER_loop_invariant(0 <= count && count <= 3 && (*fnorm) >= (Scalar)0 && ortho_err >= (Scalar)0) __CPROVER_decreases(3 - count)"},
                     pre_body=" const Index old_ops_l = g_ops; const Index old_cnt_l = (*op_counter); g_accepted = 0;")
    report["Arnoldi::expand_basis"] = R.fired
    report.setdefault("abstracted_statements", {})["Arnoldi::expand_basis"] = stm
    return t, spec


# --------------------------------------------------------------------------- factorize_from (Arnoldi and Lanczos)

def factorize_spec(which):
    hdr = LH if which == "Lanczos" else AH
    ext = "to_m > from_k"
    return FSpec("factorize_from", "void", [("Fac *", "F"), ("Index", "from_k"), ("Index", "to_m"), ("Index *", "op_counter")],
                 pre=FAC_INV + [
                     ("extension starts at a valid step >= 1 (H(i, i-1), V.col(i-1) are addressed)", "1 <= from_k"),
                     ("target dimension fits the allocated basis", "to_m <= F->m_m"),
                     ("typestate: (V, H, f) is a valid factorization exactly at step from_k == current dimension", "from_k == F->g_valid_k && F->m_k == F->g_valid_k"),
                     ("residual norm is a norm", "F->m_beta >= (Scalar)0")],
                 post=[("counters only grow, by at most two per added column",
                        "old_ops <= g_ops && g_ops <= old_ops + 2 * NMAX && old_cnt <= (*op_counter) && (*op_counter) <= old_cnt + 2 * NMAX"),
                       ("advertised dimension", "F->m_k == (%s ? to_m : old_k)" % ext),
                       ("typestate: valid factorization at the advertised dimension", "F->g_valid_k == F->m_k"),
                       ("every operator application is counted", "g_ops - old_ops == (*op_counter) - old_cnt"),
                       ("work: between 1 and 2 operator applications per added column",
                        "%s ? (to_m - from_k <= g_ops - old_ops && g_ops - old_ops <= 2 * (to_m - from_k)) : g_ops == old_ops" % ext),
                       ("residual norm is a norm", "F->m_beta >= (Scalar)0"),
                       ("shapes preserved", FAC_INV[0][1]),
                       ("at most one clock tick", "old_clock <= g_clock && g_clock <= old_clock + 1")],
                 exc_post=[("counters only grow", "old_ops <= g_ops && g_ops <= old_ops + 2 * NMAX + 1 && old_cnt <= (*op_counter) && (*op_counter) <= old_cnt + 2 * NMAX"),
                           ("only the operator's exception (precondition excludes from_k > k): entered once more than counted",
                            "verif_exc == EXC_user && g_ops - old_ops == (*op_counter) - old_cnt + 1"),
                           ("shapes preserved", FAC_INV[0][1]), ("clock", "g_clock == old_clock")],
                 frame=["F->m_k", "F->g_valid_k", "F->m_beta", "*op_counter", "g_ops", "F->m_fac_V.cell", "F->m_fac_H.cell", "F->st_fac", "g_clock", "g_accepted", "g_bd_col"],
                 frame_objs=["F->m_fac_f", "F->m_fac_V.colbuf"] + (["F->m_fac_H.colbuf"] if which == "Arnoldi" else []), may_throw=[1, 7],
                 olds=[("Index", "old_ops", "g_ops"), ("Index", "old_cnt", "*op_counter"), ("Index", "old_k", "F->m_k"), ("Index", "old_clock", "g_clock")],
                 real=hdr + ":factorize_from")


FACT_OUTER_INV = ("__CPROVER_assigns(i, F->m_beta, *op_counter, g_ops, verif_exc, g_accepted, g_bd_col, g_vfresh, F->m_fac_V.cell, F->m_fac_H.cell, __CPROVER_object_whole(F->m_fac_f), "
                  "__CPROVER_object_whole(F->m_fac_V.colbuf), __CPROVER_object_whole(Vf), __CPROVER_object_whole(w)) "
                  "__CPROVER_loop_invariant(from_k <= i && i <= to_m && verif_exc == 0 && F->m_beta >= (Scalar)0 && g_bd_col < i && "
                  "old_ops_l + (i - from_k) <= g_ops && g_ops <= old_ops_l + 2 * (i - from_k) && (*op_counter) == old_cnt_l + (g_ops - old_ops_l)) "
                  "__CPROVER_decreases(to_m - i)")
FACT_INNER_INV = ("__CPROVER_assigns(count, F->m_beta, ortho_err, F->m_fac_H.cell, __CPROVER_object_whole(F->m_fac_f), __CPROVER_object_whole(Vf)%s) "
                  "__CPROVER_loop_invariant(0 <= count && count <= 5 && F->m_beta >= (Scalar)0) __CPROVER_decreases(5 - count)")


def f_factorize_from(which, report):
    hdr = LH if which == "Lanczos" else AH
    stm = []
    spec = factorize_spec(which)
    f = X.locate(hdr, "factorize_from", cls=which)
    mcol = re.search(r"for \(Index (\w+) = from_k;", f.body)
    if not mcol:
        raise X.ExtractionBreak("%s::factorize_from: column loop `for (Index i = from_k; ...)` not recognised" % which)
    COL = mcol.group(1)
    # C07 (V^H B V = I, V^H B f = 0 after a breakdown): the fresh direction has to be orthogonalised against ALL columns built so far, i.e. the block handed to
    # expand_basis is the leading `i` columns of V for the column index i of the loop - asserted at the call site
    extra = [("expand", r"(?:this->)?expand_basis\((\w+),\s*([^,]+),\s*F->m_fac_f,\s*F->m_beta(?:,\s*\(\*op_counter\))?\);",
              r"__CPROVER_assert(\1.cols == %s, @Q@breakdown: the new direction is orthogonalised against all basis columns built so far (V has exactly i columns)@Q@); "
              r"expand_basis(F, \1, \2, F->m_fac_f, &F->m_beta, op_counter); g_bd_col = %s;" % (COL, COL), {"max": 1}),
             # C07 / C02 (A V = V H + f e' across a breakdown): the column started from a fresh random direction is NOT coupled to the previous one -
             # the sub-diagonal entry written for it is the literal zero, never the norm of the new direction
             ("subdiag", r"F->m_fac_H\((\w+), \1 - 1\) = (?!F->m_fac_H)([^;]+);",
              r"{ const Scalar verif_sub = (\2); __CPROVER_assert(g_bd_col != \1 || verif_sub == (Scalar)0, @Q@breakdown: H(i, i-1) of a column restarted from a random direction is exactly zero@Q@); F->m_fac_H(\1, \1 - 1) = verif_sub; }", {"min": 1, "max": 1}),
             ("mk", r"F->m_k = to_m;", "F->m_k = to_m; F->g_valid_k = to_m; g_clock++; F->st_fac = g_clock;", {"max": 1}),
             # C13 (no NaN handed to the operator) / C07: division-site obligation - the residual is normalised by a norm that is strictly positive on BOTH paths
             # (no restart: beta >= near_0 > 0; restart: expand_basis returned through its acceptance test, whose postcondition gives a nonzero norm)
             ("div-site", r"((?:v|F->m_fac_V\.col\(\w+\))\.noalias\(\) = F->m_fac_f / F->m_beta;)",
              r"__CPROVER_assert((g_bd_col == %s && !g_accepted) || F->m_beta > (Scalar)0, @Q@division site: the new basis vector f / ||f|| is formed with a strictly positive norm "
              r"(no 0/0 enters V or the operator) - unless all five random restart directions of this column failed the orthogonality test@Q@); \1" % COL, {"min": 1})]
    n_div = len(re.findall(r"/\s*m_beta\b", f.body))
    if which == "Arnoldi":
        extra.append(("h-map", r"MapVec h\(&F->m_fac_H\(0, i\), i1\);", "Scalar *h = MAT_COLPTR(&F->m_fac_H, 0, i); __CPROVER_assert(i1 <= F->m_fac_H.rows, @Q@Eigen::Map of a column segment stays inside the column@Q@);", {"max": 1}))
    inner_extra = ", __CPROVER_object_whole(F->m_fac_H.colbuf)" if which == "Arnoldi" else ""
    # V_def typestate (C07: A V = V H + f e', V'BV = I): a column of V that is mapped as the local vector `v` holds a basis vector of an EARLIER generation
    # (or nothing) until this iteration stores f/||f|| in it; every read of v before that store uses stale data
    vmap = re.search(r"MapVec\s+v\(&m_fac_V\(0,\s*%s\),\s*m_n\);" % COL, f.body)
    track = ("v",) if vmap else ()
    t, R = cgen.emit(f, "factorize_from", ret_c="void", self_type="Fac", self_name="F", members=FAC_MEMBERS,
                     param_types={"op_counter": "REF"}, extra_rules=extra,
                     post_fn=fac_post_fn(["m_fac_V", "m_fac_H", "V", "Vs"], ["m_fac_f", "w", "Vf", "v", "h"], stm, track_uses=track),
                     maythrow=["OP_perform_op", "expand_basis"], contract=spec.frame_contract(),
                     loop_contracts={0: FACT_OUTER_INV.replace("__CPROVER_object_whole(w))", "__CPROVER_object_whole(w)%s)" % inner_extra),
                                     1: FACT_INNER_INV % inner_extra},
                     pre_body=" const Index old_ops_l = g_ops; const Index old_cnt_l = (*op_counter); g_bd_col = -1; _Bool g_vfresh = 0;")
    if track:
        for nm, rx, rep, mn in (("vmap", r"(Scalar \*v = \(Scalar \*\)\(MAT_COLPTR\(&F->m_fac_V, 0, %s\)\);)" % COL, r"\1 g_vfresh = 0;", 1),
                                ("vdef", r"HAVOC_VEC\(v\)", "HAVOC_VEC(v); g_vfresh = 1", 1),
                                ("vuse-op", r"OP_perform_op\(F->m_op, v, ", "VUSE_v; OP_perform_op(F->m_op, v, ", 1)):
            t, k = re.subn(rx, rep, t)
            R.fired["vdef:" + nm] = k
            if k < mn:
                raise X.ExtractionBreak("%s::factorize_from: V_def typestate rule %s fired %d < %d times" % (which, nm, k, mn))
    if R.fired.get("x:div-site", 0) != n_div:
        raise X.ExtractionBreak("%s::factorize_from: %d divisions by m_beta in the text, %d recognised as normalisation sites" % (which, n_div, R.fired.get("x:div-site", 0)))
    report["%s::factorize_from" % which] = R.fired
    report.setdefault("abstracted_statements", {})["%s::factorize_from" % which] = stm
    return t, spec


# --------------------------------------------------------------------------- Arnoldi::init

def init_fac_spec():
    return FSpec("fac_init", "void", [("Fac *", "F"), ("Scalar *", "v0"), ("Index *", "op_counter")],
                 pre=[("1 <= m <= n, operator dimension n", "1 <= F->m_m && F->m_m <= F->m_n && F->m_n <= NMAX && F->m_op->n == F->m_n"),
                      ("start vector has n entries", "VEC_SIZE(v0) == F->m_n"),
                      ("counters bounded", "0 <= g_ops && g_ops <= 2 * CAP && 0 <= (*op_counter) && (*op_counter) <= 2 * CAP && 0 <= g_clock && g_clock <= 2 * CAP")],
                 post=[("step-1 factorization", "F->m_k == 1 && F->g_valid_k == 1"),
                       ("buffers (re)allocated to their shapes whatever they were before", FAC_INV[0][1]),
                       ("exactly two operator applications, both counted", "g_ops == old_ops + 2 && (*op_counter) == old_cnt + 2"),
                       ("residual norm is a norm", "F->m_beta >= (Scalar)0"),
                       ("factorization stamped fresh", "F->st_fac == g_clock && g_clock == old_clock + 1")],
                 exc_post=[("counters only grow", "old_ops <= g_ops && g_ops <= old_ops + 2 && old_cnt <= (*op_counter) && (*op_counter) <= old_cnt + 2"),
                           ("zero start vector -> invalid_argument before any operator application; operator exception propagates",
                            "(verif_exc == EXC_invalid_argument && g_ops == old_ops && (*op_counter) == old_cnt) || (verif_exc == EXC_user && g_ops - old_ops == (*op_counter) - old_cnt + 1)"),
                           ("buffers keep consistent shapes", FAC_INV[0][1]), ("clock", "g_clock == old_clock")],
                 frame=["F->m_k", "F->g_valid_k", "F->m_beta", "*op_counter", "g_ops", "F->st_fac", "g_clock", "F->g_Vdef", "g_div_zero"],
                 frame_fresh=[("F->m_fac_f", "Scalar")], frame_fresh_mat=["F->m_fac_V", "F->m_fac_H"],
                 may_throw=[1, 7],
                 olds=[("Index", "old_ops", "g_ops"), ("Index", "old_cnt", "*op_counter"), ("Index", "old_clock", "g_clock")],
                 real=AH + ":init")


def f_fac_init(report):
    stm = []
    spec = init_fac_spec()
    f = X.locate(AH, "init", cls="Arnoldi")
    pre = [("resize-V", r"m_fac_V\.resize\(([^;]+)\);", r"m_fac_V = MAT_NEW(\1); F->g_Vdef = 0;", {"max": 1}),
           ("resize-H", r"m_fac_H\.resize\(([^;]+)\);", r"m_fac_H = MAT_NEW(\1);", {"max": 1}),
           ("resize-f", r"m_fac_f\.resize\(([^;]+)\);", r"m_fac_f = VEC_NEW(\1);", {"max": 1}),
           ("v0norm", r"const RealScalar v0norm = m_op\.norm\(v0\);", "const RealScalar v0norm = NONNEG_SCALAR();", {"max": 1}),
           ("vnorm", r"const RealScalar vnorm = m_op\.norm\(v\);", "const RealScalar vnorm = NONNEG_SCALAR();", {"max": 1}),
           ("normalize", r"\bv /= vnorm;", "DIV_SITE(vnorm, @Q@Arnoldi::init: v /= vnorm@Q@); HAVOC_VEC(v);", {"max": 1})]
    extra = [("mk", r"F->m_k = 1;", "F->m_k = 1; F->g_valid_k = 1; g_clock++; F->st_fac = g_clock;", {"max": 1})]
    t, R = cgen.emit(f, "fac_init", ret_c="void", self_type="Fac", self_name="F", members=FAC_MEMBERS,
                     param_types={"v0": "Scalar *", "op_counter": "REF"}, pre_rules=pre, extra_rules=extra,
                     post_fn=fac_post_fn(["m_fac_V", "m_fac_H"], ["m_fac_f", "w", "v"], stm, ptr_vecs=["v0"]),
                     maythrow=["OP_perform_op"], contract=spec.frame_contract())
    report["Arnoldi::init"] = R.fired
    report.setdefault("abstracted_statements", {})["Arnoldi::init"] = stm
    return t, spec


DIV_SITE_DEF = r'''
_Bool g_accepted;      /* ghost: expand_basis returned through its orthogonality acceptance test */
Index g_bd_col;        /* ghost: column of the current factorize_from() call that was restarted from a random direction (breakdown), -1 if none */
/* g_vfresh: ghost LOCAL of factorize_from (V_def typestate): the column of V mapped as `v` has been written in this iteration */
#define VUSE_v __CPROVER_assert(g_vfresh, "V_def: the mapped column v of V is read only after this iteration has stored f/||f|| in it (no basis vector of an earlier generation is used)")
/* audited floating division site: a zero divisor here is a division by zero on a real input (C13 div.audit) */
_Bool g_div_zero;      /* ghost: set when an audited division site is reached with a zero divisor */
#define DIV_SITE(d, what) do { if ((d) == (Scalar)0) g_div_zero = 1; } while (0)
'''


# --------------------------------------------------------------------------- compress_H / compress_V

QR_STUBS = r'''
/* shifted-QR helper objects (contracts decided under C08): size, computed flag */
typedef struct { Index n; _Bool computed; int nshift; } QRDecomp;
static void QR_matrix_QtHQ(const QRDecomp *d, Mat *dest)
{
  if (!d->computed) { verif_exc = EXC_logic_error; return; }
  dest->rows = d->n; dest->cols = d->n;          /* dest.resize(n, n) inside matrix_QtHQ */
  dest->cell = nondet_Scalar();
}
'''


def compress_H_spec(nshift, cname):
    return FSpec(cname, "void", [("Fac *", "F"), ("const QRDecomp *", "decomp")],
                 pre=[("decomposition computed, of the projected matrix's size", "decomp->computed && decomp->n == F->m_fac_H.rows && decomp->n == F->m_fac_H.cols"),
                      ("dimension stays >= 1 after removing the shift(s)", "F->m_k >= 1 + %d && F->m_k <= F->m_m && F->m_m <= NMAX" % nshift)],
                 post=[("each applied shift lowers the advertised dimension by its order", "F->m_k == old_k - %d" % nshift),
                       ("H keeps its shape", "F->m_fac_H.rows == old_r && F->m_fac_H.cols == old_r"),
                       ("(V, H, f) is not a valid factorization until compress_V", "F->g_valid_k == 0")],
                 frame=["F->m_k", "F->g_valid_k", "F->m_fac_H.rows", "F->m_fac_H.cols", "F->m_fac_H.cell"], may_throw=[],
                 olds=[("Index", "old_k", "F->m_k"), ("Index", "old_r", "F->m_fac_H.rows")], real="compress_H")


def f_compress_H(report):
    out = []
    for hdr, cls, ordn, key, nshift, cname in ((LH, "Lanczos", 0, "TridiagQR", 1, "compress_H_tridiag"),
                                               (AH, "Arnoldi", 0, "DoubleShiftQR", 2, "compress_H_ds"),
                                               (AH, "Arnoldi", 1, "UpperHessenbergQR", 1, "compress_H_hb")):
        f = X.locate(hdr, "compress_H", cls=cls, params_re=key)
        spec = compress_H_spec(nshift, cname)
        spec.real = hdr + ":compress_H(" + key + ")"
        t, R = cgen.emit(f, cname, ret_c="void", self_type="Fac", self_name="F", members=FAC_MEMBERS,
                         param_types={"decomp": "const QRDecomp *"},
                         extra_rules=[("QtHQ", r"decomp\.matrix_QtHQ\(F->m_fac_H\);", "QR_matrix_QtHQ(decomp, &F->m_fac_H); F->g_valid_k = 0;", {"max": 1})],
                         contract=spec.frame_contract())
        report["%s::compress_H(%s)" % (cls, key)] = R.fired
        out.append((t, spec))
    return out


def compress_V_spec():
    return FSpec("compress_V", "void", [("Fac *", "F"), ("Mat", "Q")],
                 pre=FAC_INV[:2] + [("clock bounded", "0 <= g_clock && g_clock <= 2 * CAP"), ("Q is the m x m accumulated rotation", "Q.rows == F->m_m && Q.cols == F->m_m"),
                                    ("1 <= k <= m - 1: Q(m-1, k-1), H(k, k-1) and column k exist", "1 <= F->m_k && F->m_k <= F->m_m - 1")],
                 post=[("dimension unchanged", "F->m_k == old_k"), ("valid k-step factorization again", "F->g_valid_k == F->m_k"),
                       ("residual norm is a norm", "F->m_beta >= (Scalar)0"), ("shapes preserved", FAC_INV[0][1]),
                       ("one clock tick", "g_clock == old_clock + 1 && F->st_fac == g_clock")],
                 frame=["F->g_valid_k", "F->m_beta", "F->m_fac_V.cell", "F->m_fac_H.cell", "F->st_fac", "g_clock"],
                 frame_inplace=["F->m_fac_f"],
                 frame_objs=["F->m_fac_V.colbuf"], olds=[("Index", "old_k", "F->m_k"), ("Index", "old_clock", "g_clock")], real=AH + ":compress_V")


def f_compress_V(report):
    stm = []
    spec = compress_V_spec()
    f = X.locate(AH, "compress_V", cls="Arnoldi")
    t, R = cgen.emit(f, "compress_V", ret_c="void", self_type="Fac", self_name="F", members=FAC_MEMBERS,
                     param_types={"Q": "Mat"},
                     extra_rules=[("beta", r"F->m_beta = F->m_op\.norm\(F->m_fac_f\);", "F->m_beta = NONNEG_SCALAR(); F->g_valid_k = F->m_k; g_clock++; F->st_fac = g_clock;", {"max": 1})],
                     post_fn=fac_post_fn(["m_fac_V", "m_fac_H", "Vs", "Q"], ["m_fac_f", "fk", "q"], stm),
                     contract=spec.frame_contract(),
                     loop_contracts={0: "__CPROVER_assigns(i, Vs.cell, Q.cell) __CPROVER_loop_invariant(0 <= i && i <= F->m_k) __CPROVER_decreases(F->m_k - i)"})
    report["Arnoldi::compress_V"] = R.fired
    report.setdefault("abstracted_statements", {})["Arnoldi::compress_V"] = stm
    return t, spec


# --------------------------------------------------------------------------- restart (Herm)

QR_STUBS2 = r'''
static void QR_compute(QRDecomp *d, Mat *H, Scalar shift)
{
  (void)shift;
  if (H->rows != H->cols) { verif_exc = EXC_invalid_argument; return; }   /* "matrix must be square" */
  d->n = H->rows; d->computed = 1;
}
static void QR_apply_YQ(const QRDecomp *d, Mat *Y)
{
  if (!d->computed) { verif_exc = EXC_logic_error; return; }
  __CPROVER_assert(Y->cols == d->n, "apply_YQ: Y has as many columns as the decomposition's size");
  Y->cell = nondet_Scalar();
}
/* std::sort over [first, first+n) with a comparator on the values: assumed [alg.sort] (permutes the range) */
static void SORT_RANGE(Scalar *first, Index n)
{ __CPROVER_assert(n >= 0 && __CPROVER_rw_ok(first, n * sizeof(Scalar)), "std::sort precondition: valid range"); if (n > 0) __CPROVER_havoc_object(first); }
Index g_shift_lo, g_shift_n, g_shifts_applied;   /* ghost: first unwanted position used as shift, number of shifts taken / applied */
'''

SOLVER_INV_PRE = [
    ("argument ranges established by the constructor", "RANGE_OK(S->m_nev, S->m_ncv, S->m_n) && S->m_n <= NMAX"),
    ("factorization object belongs to this solver", "S->m_fac.m_n == S->m_n && S->m_fac.m_m == S->m_ncv && S->m_fac.m_op == S->m_op && S->m_op->n == S->m_n"),
    ("buffers have their init() shapes",
     "S->m_fac.m_fac_V.rows == S->m_n && S->m_fac.m_fac_V.cols == S->m_ncv && S->m_fac.m_fac_H.rows == S->m_ncv && S->m_fac.m_fac_H.cols == S->m_ncv && VEC_SIZE(S->m_fac.m_fac_f) == S->m_n && "
     "VEC_SIZE(S->m_ritz_val) == S->m_ncv && VEC_SIZE(S->m_ritz_est) == S->m_ncv && VEC_SIZE(S->tag_val) == S->m_ncv && VEC_SIZE(S->tag_est) == S->m_ncv && "
     "VEC_SIZE(S->m_ritz_conv) == S->m_nev && VEC_SIZE(S->tag_conv) == S->m_nev && S->m_ritz_vec.rows == S->m_ncv && S->m_ritz_vec.cols == S->m_nev"),
    ("operation counter equals the true number of operator applications", "S->m_nmatop == g_ops && 0 <= g_ops && g_ops <= CAP && 0 <= g_clock && g_clock <= CAP"),
    ("flag count within range; residual norm is a norm", "0 <= S->cnt_conv && S->cnt_conv <= S->m_nev && S->m_fac.m_beta >= (Scalar)0"),
]
SHAPES = SOLVER_INV_PRE[2][1]


def restart_spec(gen, retrieve_post):
    hdr = GB if gen else HB
    return FSpec("restart", "void", [("Solver *", "S"), ("Index", "k"), ("SortRule", "selection")],
                 pre=SOLVER_INV_PRE + [("restart size in [1, ncv-1] (result of nev_adjusted)", "1 <= k && k <= S->m_ncv - 1"),
                                       ("typestate: full ncv-step factorization", "S->m_fac.m_k == S->m_ncv && S->m_fac.g_valid_k == S->m_ncv")],
                 post=[("counters only grow", "old_ops <= g_ops && g_ops <= old_ops + 2 * NMAX"),
                       ("full ncv-step factorization again", "S->m_fac.m_k == S->m_ncv && S->m_fac.g_valid_k == S->m_ncv"),
                       ("shapes preserved", SHAPES),
                       ("operation counter equals the true number of operator applications", "S->m_nmatop == g_ops"),
                       ("work of one restart: between ncv-k and 2(ncv-k) operator applications", "S->m_ncv - k <= g_ops - old_ops && g_ops - old_ops <= 2 * (S->m_ncv - k)"),
                       ("shifts are exactly the unwanted Ritz values: positions [k, ncv), ncv-k of them, each applied once",
                        "g_shift_lo == k && g_shift_n == S->m_ncv - k && g_shifts_applied == S->m_ncv - k"),
                       ("flags untouched by a restart", "S->cnt_conv == old_cnt && S->st_conv == old_stc"),
                       ("residual norm is a norm", "S->m_fac.m_beta >= (Scalar)0"),
                       ("clock advances by 2 or 3 ticks", "old_clock + 2 <= g_clock && g_clock <= old_clock + 3")] + [c for c in retrieve_post if "old_clock" not in c[1]],
                 exc_post=[("counters only grow", "old_ops <= g_ops && g_ops <= old_ops + 2 * NMAX + 1 && 0 <= S->m_nmatop && S->m_nmatop <= g_ops && old_clock <= g_clock && g_clock <= old_clock + 3"),
                           ("operator / decomposition exceptions propagate; counter lags by at most the interrupted application",
                            "(verif_exc == EXC_user ? g_ops == S->m_nmatop + 1 : (S->m_nmatop == g_ops && (verif_exc == EXC_invalid_argument || verif_exc == EXC_runtime_error)))"),
                           ("shapes preserved", SHAPES)],
                 frame=["S->m_nmatop", "g_ops", "g_clock", "g_accepted", "g_bd_col", "S->st_ritz", "g_ia", "g_ib", "g_va", "g_vb", "g_shift_lo", "g_shift_n", "g_shifts_applied",
                        "S->m_fac.m_k", "S->m_fac.g_valid_k", "S->m_fac.m_beta", "S->m_fac.m_fac_V.cell", "S->m_fac.m_fac_H.cell", "S->m_fac.m_fac_H.rows",
                        "S->m_fac.m_fac_H.cols", "S->m_fac.st_fac"],
                 frame_objs=["S->m_ritz_val", "S->m_ritz_est", "S->tag_val", "S->tag_est", "S->m_ritz_vec.coltag", "S->m_fac.m_fac_V.colbuf"] + (["S->m_fac.m_fac_H.colbuf"] if gen else []),
                 frame_inplace=["S->m_fac.m_fac_f"],
                 may_throw=[1, 2, 7],
                 olds=[("Index", "old_ops", "g_ops"), ("Index", "old_cnt", "S->cnt_conv"), ("Index", "old_stc", "S->st_conv"), ("Index", "old_clock", "g_clock")],
                 real=hdr + ":restart")


def f_restart_herm(report, retrieve_post):
    spec = restart_spec(False, retrieve_post)
    carrier = rule_carrier(HB, "HermEigsBase")
    if carrier:
        spec.pre.append(("the object carries the selection rule requested by the caller of compute() whenever Ritz pairs are ordered by it", "S->%s == selection" % carrier))
    extra = accessor_rules(report) + [
        ("decomp", r"TridiagQR<RealScalar> decomp\(([^;]+)\);", r"QRDecomp decomp; decomp.n = (\1); decomp.computed = 0; decomp.nshift = 1;", {"max": 1}),
        ("Q", r"RealMatrix Q = RealMatrix::Identity\(([^;]+)\);", r"Mat Q = MAT_NEW(\1);", {"max": 1}),
        ("shifts", r"RealVector shifts = S->m_ritz_val\.tail\(([^;]+)\);",
         r"SEG_CHECK(S->m_ritz_val, \1); Scalar *shifts = VEC_NEW(\1); g_shift_lo = VEC_SIZE(S->m_ritz_val) - (\1); g_shift_n = (\1); g_shifts_applied = 0;", {"max": 1}),
        ("sort", r"std::sort\(shifts\.data\(\), shifts\.data\(\) \+ (\w+),\s*\[\]\(const RealScalar& v1, const RealScalar& v2\) \{ return FABS\(v1\) > FABS\(v2\); \}\);",
         r"SORT_RANGE(shifts, \1);", {"max": 1}),
        ("compute", r"decomp\.compute\(S->m_fac\.m_fac_H\.real\(\), ([^;]+)\);", r"QR_compute(&decomp, &S->m_fac.m_fac_H, \1);", {"max": 1}),
        ("apply_YQ", r"decomp\.apply_YQ\(Q\);", "QR_apply_YQ(&decomp, &Q);", {"max": 1}),
        ("compress_H", r"S->m_fac\.compress_H\(decomp\);", "compress_H_tridiag(&S->m_fac, &decomp); g_shifts_applied++;", {"max": 1}),
        ("compress_V", r"S->m_fac\.compress_V\(Q\);", "compress_V(&S->m_fac, Q);", {"max": 1}),
        ("factorize", r"S->m_fac\.factorize_from\(([^;]+), S->m_nmatop\);", r"factorize_from(&S->m_fac, \1, &S->m_nmatop);", {"max": 1}),
        ("retrieve", r"(?<![\w>])retrieve_ritzpair\((?:selection)?\);", "retrieve_ritzpair(S, selection);", {"max": 1}),
    ]
    inv = ("__CPROVER_assigns(i, decomp, Q.cell, g_shifts_applied, verif_exc, S->m_fac.m_k, S->m_fac.g_valid_k, S->m_fac.m_fac_H.rows, S->m_fac.m_fac_H.cols, S->m_fac.m_fac_H.cell) "
           "__CPROVER_loop_invariant(0 <= i && i <= nshift && verif_exc == 0 && g_shifts_applied == i && S->m_fac.m_k == S->m_ncv - i && "
           "S->m_fac.m_fac_H.rows == S->m_ncv && S->m_fac.m_fac_H.cols == S->m_ncv && (i == 0 || S->m_fac.g_valid_k == 0)) "
           "__CPROVER_decreases(nshift - i)")
    t = emit_solver_fn(HB, "HermEigsBase", "restart", "restart", report, ret_c="void", extra=extra, loops={0: inv},
                       contract=spec.frame_contract(),
                       maythrow=["QR_compute", "QR_apply_YQ", "compress_H_tridiag", "compress_V", "factorize_from", "retrieve_ritzpair"])
    if carrier:
        t = _ghost_selection(t, "restart", carrier, report)
    return t, spec


# --------------------------------------------------------------------------- compute (both bases share the text shape)

def compute_spec(gen, sort_post):
    hdr = GB if gen else HB
    return FSpec("compute", "Index", [("Solver *", "S"), ("SortRule", "selection"), ("Index", "maxit"), ("Scalar", "tol"), ("SortRule", "sorting")],
                 pre=SOLVER_INV_PRE + [
                     ("maxit bounded (cap on a machine integer)", "maxit <= 100000"),
                     ("typestate: the object was initialised: step-1 factorization after init(), or the full one left by an earlier compute()",
                      "S->m_fac.m_k == S->m_fac.g_valid_k && (S->m_fac.g_valid_k == 1 || S->m_fac.g_valid_k == S->m_ncv)"),
                     ("iteration counter bounded", "0 <= S->m_niter && S->m_niter <= CAP")],
                 post=[("counters only grow", "old_ops <= g_ops && 0 <= g_restarts && g_restarts <= 100000"),
                       ("return value equals the number of flagged pairs the accessors will return (eigenvalues().size(), eigenvectors().cols())",
                        "ret == S->cnt_conv"),
                       ("at most nev", "0 <= ret && ret <= S->m_nev"),
                       ("Successful exactly when all nev converged, NotConverging otherwise",
                        "S->m_info == ((ret == S->m_nev) ? CompInfo_Successful : CompInfo_NotConverging)"),
                       ("num_operations() equals the number of times the operator was really applied", "S->m_nmatop == g_ops"),
                       ("at most maxit restarts", "g_restarts <= (maxit > 0 ? maxit : 0)"),
                       ("work bound (additive form): every factorization call is paid for by the budget, one call per restart plus the first",
                        "g_ops - old_ops <= g_budget && g_budget <= 2 * NMAX * (g_restarts + 1) && g_calls == g_restarts + 1"),
                       ("work bound (the statement's form): operator applications in this compute() <= g_term, and g_term is 2*ncv added once per factorization call = 2*ncv*(restarts+1) <= 2*ncv*(maxit+1) "
                        "(the product is carried as a ghost sum because 64-bit multiplication facts do not discharge; restarts <= maxit is the clause above)",
                        "g_ops - old_ops <= g_term && g_term <= 2 * NMAX * (g_restarts + 1)"),
                       ("convergence flags were computed from the Ritz data that is returned (no stale flags)", "!(ret > 0) || S->st_conv == S->st_ritz"),
                       ("the returned Ritz data comes from an eigen-decomposition made during this compute() (nothing left over from an earlier call is returned)",
                        "S->st_ritz > old_clock_c && S->st_ritz <= g_clock"),
                       ("full factorization left behind", "S->m_fac.m_k == S->m_ncv && S->m_fac.g_valid_k == S->m_ncv"),
                       ("shapes preserved", SHAPES)] + [(c[0], c[1].replace("sort_rule", "sorting")) for c in sort_post if "old_" not in c[1] and "g_p" not in c[1] and "accepted" not in c[0]],
                 exc_post=[("counters only grow", "old_ops <= g_ops && 0 <= S->m_nmatop && S->m_nmatop <= g_ops"),
                           ("exception type is a documented one and the operator's exception propagates unchanged; counter lags by at most the interrupted application",
                            "(verif_exc == EXC_user ? g_ops == S->m_nmatop + 1 : (S->m_nmatop == g_ops && (verif_exc == EXC_invalid_argument || verif_exc == EXC_runtime_error)))"),
                           ("object keeps consistent shapes (init() can be called again)", SHAPES)],
                 frame=["S->m_nmatop", "S->m_niter", "S->m_info", "g_ops", "g_clock", "g_accepted", "g_bd_col", "g_restarts", "g_budget", "g_term", "g_calls", "S->st_ritz", "S->st_conv", "S->cnt_conv",
                        "g_ia", "g_ib", "g_va", "g_vb", "g_shift_lo", "g_shift_n", "g_shifts_applied",
                        "S->m_fac.m_k", "S->m_fac.g_valid_k", "S->m_fac.m_beta", "S->m_fac.m_fac_V.cell", "S->m_fac.m_fac_H.cell", "S->m_fac.m_fac_H.rows",
                        "S->m_fac.m_fac_H.cols", "S->m_fac.st_fac", "S->g_backtransformed"],
                 frame_inplace=["S->m_fac.m_fac_f", "S->m_ritz_val", "S->tag_val", "S->m_ritz_conv", "S->tag_conv"],
                 frame_inplace_mat=["S->m_ritz_vec"],
                 frame_objs=["S->m_ritz_est", "S->tag_est", "S->m_fac.m_fac_V.colbuf"] + (["S->m_fac.m_fac_H.colbuf"] if gen else []),
                 may_throw=[1, 2, 7],
                 olds=[("Index", "old_ops", "g_ops"), ("Index", "old_clock_c", "g_clock")], real=hdr + ":compute")


COMPUTE_GHOST = ("Index g_calls;   /* ghost: factorization calls paid from the budget in the current compute() */\n"
                 "Index g_term;    /* ghost: 2*ncv added once per factorization call, i.e. the product 2*ncv*g_calls by repeated addition */\n")


def _compute_factorize(m):
    a = [x.strip() for x in X.split_top(m.group(1))]
    if len(a) != 2:
        raise X.ExtractionBreak("compute: factorize_from call has %d leading arguments" % len(a))
    return ("g_restarts = 0; g_calls = 1; g_term = 2 * S->m_ncv; const Index verif_from = (%s); g_budget = 2 * ((%s) - verif_from); S->g_backtransformed = 0; "
            "factorize_from(&S->m_fac, verif_from, %s, &S->m_nmatop);" % (a[0], a[1], a[1]))


def f_compute(gen, report, sort_post):
    hdr, cls = (GB, "GenEigsBase") if gen else (HB, "HermEigsBase")
    spec = compute_spec(gen, sort_post)
    carrier = None if gen else rule_carrier(HB, "HermEigsBase")
    if carrier:
        spec.frame.append("S->%s" % carrier)
    # loop locals are identified by their ROLE in the code (loop counter, result of num_converged, result of nev_adjusted),
    # not by name: a renamed local keeps the sidecar loop contract applicable
    body0 = X.locate(hdr, "compute", cls=cls).body
    m_i = re.search(r"for \((\w+) = 0; \1 < maxit; (?:\1\+\+|\+\+\1)\)", body0)
    m_c = re.search(r"(\w+) = num_converged\(tol\);", body0)
    m_a = re.search(r"(\w+) = nev_adjusted\((\w+)\);", body0)
    if not (m_i and m_c and m_a) or m_a.group(2) != m_c.group(1):
        raise X.ExtractionBreak("compute(): restart loop roles (counter / nconv / adjusted nev) not recognised in %s" % hdr)
    L_I, L_C, L_A = m_i.group(1), m_c.group(1), m_a.group(1)
    ren = lambda t: re.sub(r"\bnev_adj\b", L_A, re.sub(r"\bnconv\b", L_C, re.sub(r"(?<![\w.>])i\b(?!\s*\()", L_I, t)))
    extra = accessor_rules(report) + [
        ("factorize", r"S->m_fac\.factorize_from\((.*?), S->m_nmatop\);", _compute_factorize, {"max": 1}),
        ("retrieve", r"(?<![\w>])retrieve_ritzpair\((?:selection)?\);", "retrieve_ritzpair(S, selection);", {"max": 1}),
        ("num_converged", r"(?<![\w>])num_converged\(tol\)", "num_converged(S, tol)", {"min": 1, "max": 2}),
        ("nev_adjusted", r"(?<![\w>])nev_adjusted\((\w+)\)", r"nev_adjusted(S, \1)", {"max": 1}),
        ("restart", r"(?<![\w>])restart\((\w+)(?:, selection)?\);", r"g_budget += 2 * (S->m_ncv - (\1)); g_term += 2 * S->m_ncv; g_calls++; restart(S, \1, selection); g_restarts++;", {"max": 1}),
        ("sort", r"(?<![\w>])sort_ritzpair\(sorting\);", "sort_ritzpair(S, sorting);", {"max": 1}),
    ]
    inv = ("__CPROVER_assigns(i, nconv, nev_adj, verif_exc, S->m_nmatop, g_ops, g_clock, g_accepted, g_bd_col, g_restarts, g_budget, g_term, g_calls, S->st_ritz, S->st_conv, S->cnt_conv, "
           "g_ia, g_ib, g_va, g_vb, g_shift_lo, g_shift_n, g_shifts_applied, S->m_fac.m_k, S->m_fac.g_valid_k, S->m_fac.m_beta, S->m_fac.m_fac_V.cell, "
           "S->m_fac.m_fac_H.cell, S->m_fac.m_fac_H.rows, S->m_fac.m_fac_H.cols, S->m_fac.st_fac, "
           "__CPROVER_object_whole(S->m_fac.m_fac_f), __CPROVER_object_whole(S->m_ritz_conv), __CPROVER_object_whole(S->tag_conv), "
           "__CPROVER_object_whole(S->m_ritz_val), __CPROVER_object_whole(S->m_ritz_est), __CPROVER_object_whole(S->tag_val), __CPROVER_object_whole(S->tag_est), "
           "__CPROVER_object_whole(S->m_ritz_vec.coltag), __CPROVER_object_whole(S->m_fac.m_fac_V.colbuf)%s) "
           "__CPROVER_loop_invariant(0 <= i && (i <= maxit || maxit < 0) && verif_exc == 0 && g_restarts == i && g_calls == i + 1) "
           "__CPROVER_loop_invariant(S->m_nmatop == g_ops && old_ops_l <= g_ops && g_ops - old_ops_l <= g_budget && 0 <= g_budget && g_budget <= g_term && g_term <= 2 * NMAX * (i + 1)) "
           "__CPROVER_loop_invariant(0 <= g_clock && g_clock <= old_clock_l + 2 + 3 * i && S->st_ritz > old_clock_l && S->st_ritz <= g_clock) "
           "__CPROVER_loop_invariant(S->m_fac.m_k == S->m_ncv && S->m_fac.g_valid_k == S->m_ncv && S->m_fac.m_beta >= (Scalar)0 && %s) "
           "__CPROVER_loop_invariant(0 <= nconv && nconv <= S->m_nev && 0 <= S->cnt_conv && S->cnt_conv <= S->m_nev && (i == 0 || nconv == S->cnt_conv)) "
           "__CPROVER_decreases(maxit - i)") % ((", __CPROVER_object_whole(S->m_fac.m_fac_H.colbuf)" if gen else ""), SHAPES)
    inv = ren(inv)
    t = emit_solver_fn(hdr, cls, "compute", "compute", report, ret_c="Index", extra=extra, loops={0: inv},
                       contract=spec.frame_contract(), params={"tol": "Scalar"},
                       maythrow=["factorize_from", "retrieve_ritzpair", "restart", "sort_ritzpair"],
                       members=SOLVER_MEMBERS + ["subspace_dim"] if False else None,
                       pre_body=" const Index old_ops_l = g_ops; const Index old_clock_l = g_clock;")
    return COMPUTE_GHOST + t, spec


# --------------------------------------------------------------------------- init(init_resid), init(), constructor

def init_spec(gen):
    hdr = GB if gen else HB
    return FSpec("init_ptr", "void", [("Solver *", "S"), ("const Scalar *", "init_resid")],
                 pre=[("argument ranges established by the constructor (everything else about the object is arbitrary)",
                       "RANGE_OK(S->m_nev, S->m_ncv, S->m_n) && S->m_n <= NMAX && S->m_fac.m_n == S->m_n && S->m_fac.m_m == S->m_ncv && S->m_fac.m_op == S->m_op && S->m_op->n == S->m_n"),
                      ("caller passes a length-n start vector", "VEC_SIZE(init_resid) == S->m_n"),
                      ("clock bounded", "0 <= g_clock && g_clock <= CAP")],
                 post=[(c[0], c[1]) for c in SOLVER_INV_PRE] + [
                     ("counters restart from the two applications made by init()", "S->m_nmatop == 2 && g_ops == 2 && S->m_niter == 0"),
                     ("no pair is flagged: accessors return empty results", "S->cnt_conv == 0 && (!(0 <= g_i && g_i < S->m_nev) || !S->m_ritz_conv[g_i])"),
                     ("step-1 factorization", "S->m_fac.m_k == 1 && S->m_fac.g_valid_k == 1"),
                     ("every datum compute() can read is re-created by init(): stamps are this init's", "S->m_fac.st_fac == g_clock && S->st_ritz == g_clock && S->st_conv == g_clock && g_clock == old_clock + 1")],
                 exc_post=[("zero start vector -> invalid_argument; operator exception propagates unchanged", "verif_exc == EXC_invalid_argument || verif_exc == EXC_user"),
                           ("object keeps consistent shapes (init() can simply be called again)", SHAPES)],
                 frame=["S->m_nmatop", "S->m_niter", "g_ops", "g_clock", "S->cnt_conv", "S->st_ritz", "S->st_conv", "S->m_fac.m_k", "S->m_fac.g_valid_k", "S->m_fac.m_beta",
                        "S->m_fac.st_fac", "S->m_fac.g_Vdef", "g_div_zero"],
                 frame_fresh=[("S->m_ritz_val", "Ritz"), ("S->m_ritz_est", "Ritz"), ("S->m_ritz_conv", "_Bool"), ("S->tag_val", "Index"), ("S->tag_est", "Index"),
                              ("S->tag_conv", "Index"), ("S->m_fac.m_fac_f", "Scalar")],
                 frame_fresh_mat=["S->m_ritz_vec", "S->m_fac.m_fac_V", "S->m_fac.m_fac_H"],
                 may_throw=[1, 7], olds=[("Index", "old_clock", "g_clock")], real=hdr + ":init(const Scalar*)")


def f_init(gen, report):
    hdr, cls = (GB, "GenEigsBase") if gen else (HB, "HermEigsBase")
    spec = init_spec(gen)
    pre = [("resize-val", r"m_ritz_val\.resize\(([^;]+)\);", r"m_ritz_val = RITZ_NEW(\1); S->tag_val = IVEC_NEW(\1);", {"max": 1}),
           ("resize-vec", r"m_ritz_vec\.resize\(([^;]+)\);", r"m_ritz_vec = MAT_NEW(\1);", {"max": 1}),
           ("resize-est", r"m_ritz_est\.resize\(([^;]+)\);", r"m_ritz_est = RITZ_NEW(\1); S->tag_est = IVEC_NEW(\1);", {"max": 1}),
           ("resize-conv", r"m_ritz_conv\.resize\(([^;]+)\);", r"m_ritz_conv = BVEC_NEW(\1); S->tag_conv = IVEC_NEW(\1);", {"max": 1}),
           ("zero-val", r"m_ritz_val\.setZero\(\);", "/* setZero */ g_clock++; S->st_ritz = g_clock;", {"max": 1}),
           ("zero-vec", r"m_ritz_vec\.setZero\(\);", "/* setZero */", {"max": 1}),
           ("zero-est", r"m_ritz_est\.setZero\(\);", "/* setZero */", {"max": 1}),
           ("zero-conv", r"m_ritz_conv\.setZero\(\);", "if (0 <= g_i && g_i < VEC_SIZE(S->m_ritz_conv)) S->m_ritz_conv[g_i] = 0; S->cnt_conv = 0; S->st_conv = g_clock;", {"max": 1}),
           ("nmatop", r"m_nmatop = 0;", "m_nmatop = 0; g_ops = 0;", {"max": 1}),
           ("map", r"MapConstVec v0\(init_resid, m_n\);", "Scalar *v0 = (Scalar *)init_resid; MAPLEN_CHECK(v0, S->m_n);", {"max": 1}),
           ("fac-init", r"m_fac\.init\(v0, m_nmatop\);", "g_clock--; fac_init(&S->m_fac, v0, &S->m_nmatop);", {"max": 1})]
    t = emit_solver_fn(hdr, cls, "init", "init_ptr", report, ret_c="void", pre=pre, contract=spec.frame_contract(),
                       params={"init_resid": "const Scalar *"}, params_re=r"init_resid", maythrow=["fac_init"])
    # init(): fixed-seed random start vector, then init(init_resid.data())
    f = X.locate(hdr, "init", cls=cls, params_re=r"^\s*$")
    want = "SimpleRandom<Scalar> rng(0); Vector init_resid = rng.random_vec(m_n); init(init_resid.data());"
    if " ".join(f.body.split()) != want:
        raise X.ExtractionBreak("%s::init() is no longer `%s`" % (cls, want))
    report["%s::init()" % cls] = "forwards a length-m_n SimpleRandom(0) vector to init(const Scalar*) (text checked)"
    return t, spec


def ctor_spec(gen):
    hdr = GB if gen else HB
    rng = "1 <= nev && nev <= op->n - 2 && nev + 2 <= ncv && ncv <= op->n" if gen else "1 <= nev && nev <= op->n - 1 && nev < ncv && ncv <= op->n"
    return FSpec("solver_ctor", "void", [("Solver *", "S"), ("Op *", "op"), ("Index", "nev"), ("Index", "ncv")],
                 pre=[("operator reports a dimension", "0 <= op->n && op->n <= NMAX"), ("arguments are machine integers away from overflow", "-NMAX <= nev && nev <= NMAX && -NMAX <= ncv && ncv <= NMAX")],
                 post=[("accepted <=> (nev, ncv) inside the documented range", rng),
                       ("members as documented", "S->m_n == op->n && S->m_nev == nev && S->m_ncv == ncv && S->m_op == op && S->m_fac.m_op == op && S->m_fac.m_n == op->n && S->m_fac.m_m == ncv && S->m_fac.m_k == 0"),
                       ("before any compute(): info() is NotComputed, counters are zero", "S->m_info == CompInfo_NotComputed && S->m_nmatop == 0 && S->m_niter == 0"),
                       ("before any compute(): no flags, so eigenvalues()/eigenvectors() are empty", "S->cnt_conv == 0 && VEC_SIZE(S->m_ritz_conv) == 0")],
                 exc_post=[("rejected <=> (nev, ncv) outside the documented range, with invalid_argument", "!(%s) && verif_exc == EXC_invalid_argument" % rng)],
                 frame=["S->m_op", "S->m_n", "S->m_nev", "S->m_ncv", "S->m_nmatop", "S->m_niter", "S->m_info", "S->m_fac.m_op", "S->m_fac.m_n", "S->m_fac.m_m", "S->m_fac.m_k",
                        "S->m_fac.g_valid_k", "S->cnt_conv"],
                 frame_fresh=[("S->m_ritz_conv", "_Bool")], may_throw=[1], real=hdr + ":constructor")


def f_ctor(gen, report, ordinal=0):
    hdr, cls = (GB, "GenEigsBase") if gen else (HB, "HermEigsBase")
    spec = ctor_spec(gen)
    f = X.locate(hdr, cls, cls=cls, ordinal=ordinal)
    inits = " ".join(f.inits.split())
    if ordinal == 0:
        want = ("m_op(op), m_n(%s.rows()), m_nev(nev), m_ncv(ncv > m_n ? m_n : ncv), m_nmatop(0), m_niter(0), m_fac(ArnoldiOpType(op, Bop), m_ncv), m_info(CompInfo::NotComputed)"
                % ("m_op" if gen else "op"))
    else:
        want = ("m_op_container(create_op_container(std::move(op))), m_op(m_op_container.front()), m_n(m_op.rows()), m_nev(nev), m_ncv(ncv > m_n ? m_n : ncv), "
                "m_nmatop(0), m_niter(0), m_fac(ArnoldiOpType(m_op, Bop), m_ncv), m_info(CompInfo::NotComputed)")
    extra_init = ""
    if inits != want and inits.startswith(want):
        # initialisers of members added to the class since (simple scalar / enum types only: check_members) are taken over as statements
        rest = inits[len(want):]
        names = [n for _, n in EXTRA_FIELDS["Solver"]]
        for it in X.split_top(rest)[1:] if rest.startswith(",") else [None]:
            mi = re.match(r"^\s*(\w+)\(([\w:.+\- ]*)\)\s*$", it or "")
            if not mi or mi.group(1) not in names:
                raise X.ExtractionBreak("%s constructor #%d initialiser list changed: %r" % (cls, ordinal, inits))
            extra_init += " S->%s = %s;" % (mi.group(1), re.sub(r"\b(\w+)::(\w+)", r"\1_\2", mi.group(2)) or "0")
        inits = want
    if inits != want:
        raise X.ExtractionBreak("%s constructor #%d initialiser list changed: %r" % (cls, ordinal, inits))
    # Arnoldi constructor: m_op(op), m_n(op.rows()), m_m(m), m_k(0)
    fa = X.locate(AH, "Arnoldi", cls="Arnoldi", ordinal=0)
    fa_in = " ".join(fa.inits.split())
    fa_extra = fa_in[len("m_op(op), m_n(op.rows()), m_m(m), m_k(0)"):]
    if not fa_in.startswith("m_op(op), m_n(op.rows()), m_m(m), m_k(0)") or fa.body.strip() or \
            not re.match(r"^(?:, (?:%s)\([\w.+-]*\))*$" % "|".join([n for _, n in EXTRA_FIELDS["Fac"]] + ["m_beta", "m_near_0", "m_eps"]), fa_extra):
        raise X.ExtractionBreak("Arnoldi constructor changed: %r" % fa.inits)
    # the initialiser list as statements (members are initialised in declaration order, which is this order)
    pre_body = (" S->m_op = op; S->m_n = op->n; S->m_nev = nev; S->m_ncv = (ncv > S->m_n ? S->m_n : ncv); S->m_nmatop = 0; S->m_niter = 0; "
                "S->m_fac.m_op = op; S->m_fac.m_n = op->n; S->m_fac.m_m = S->m_ncv; S->m_fac.m_k = 0; S->m_fac.g_valid_k = 0; "
                "S->m_info = CompInfo_NotComputed; S->m_ritz_conv = BVEC_NEW(0); S->cnt_conv = 0; /* default-constructed Eigen members are empty */" + extra_init)
    f.inits = ""
    f, inlined = X.inline_member_calls(f, hdr, cls)      # e.g. range checks factored out into a private helper shared by the constructors
    t, R = cgen.emit(f, "solver_ctor" + (str(ordinal) if ordinal else ""), ret_c="void", self_type="Solver", self_name="S", members=SOLVER_MEMBERS,
                     param_types={"op": "Op *", "Bop": "int"}, pre_body=pre_body, contract=spec.frame_contract())
    t = t.replace("Op * op, int Bop,", "Op *op,").replace("Op * op, int Bop", "Op *op")
    report["%s::%s#%d" % (cls, cls, ordinal)] = dict(R.fired, inlined_helpers=inlined)
    return t, spec


# --------------------------------------------------------------------------- accessors

COUNT_AXIOMS = r'''
/* Eigen's count() on the flag array, as a ghost prefix function: prefix[e] = number of set flags in [0, e).
 * Definitional axioms, instantiated where used (each use is counted in the evidence):
 *   prefix[0] == 0, prefix[e+1] == prefix[e] + flag[e], prefix monotone, prefix[size] == count(). */
Index *g_prefix;
#define COUNT_DEF(S, e) __CPROVER_assume(g_prefix[0] == 0 && (!(0 <= (e) && (e) < VEC_SIZE((S)->m_ritz_conv)) || \
   (g_prefix[(e) + 1] == g_prefix[e] + ((S)->m_ritz_conv[e] ? 1 : 0) && 0 <= g_prefix[e] && g_prefix[(e) + 1] <= g_prefix[VEC_SIZE((S)->m_ritz_conv)])) && \
   g_prefix[VEC_SIZE((S)->m_ritz_conv)] == (S)->cnt_conv)
Index g_out, g_src;     /* Skolem output position and the stored position it was taken from */
'''


def accessor_spec(which, gen):
    hdr = GB if gen else HB
    if which == "eigenvalues":
        params = [("Solver *", "S")]
        post = [("size equals the number of set flags", "ret.size == S->cnt_conv"),
                ("entry j is the Ritz value stored at the j-th flagged position, in stored order",
                 "!(0 <= g_out && g_out < ret.size) || (0 <= g_src && g_src < S->m_nev && S->m_ritz_conv[g_src] && g_prefix[g_src] == g_out && ret.tag[g_out] == S->tag_val[g_src])")]
        ret = "ValOut"
    else:
        params = [("Solver *", "S"), ("Index", "nvec")]
        post = [("number of columns is min(nvec, number of set flags); n rows", "ret.cols == VMIN(nvec, S->cnt_conv) && ret.rows == S->m_n"),
                ("column j is V times the Ritz vector stored at the j-th flagged position, in stored order (same position as eigenvalue j)",
                 "!(0 <= g_out && g_out < ret.cols) || (0 <= g_src && g_src < S->m_nev && S->m_ritz_conv[g_src] && g_prefix[g_src] == g_out && ret.coltag[g_out] == S->m_ritz_vec.coltag[g_src])")]
        ret = "Mat"
    return FSpec(which, ret, params,
                 pre=[("object constructed; flags either empty (before init) or one per wanted value", "1 <= S->m_nev && S->m_nev <= NMAX && 0 <= S->m_n && S->m_n <= NMAX && 1 <= S->m_ncv && S->m_ncv <= NMAX && "
                       "(VEC_SIZE(S->m_ritz_conv) == 0 || VEC_SIZE(S->m_ritz_conv) == S->m_nev) && VEC_SIZE(g_prefix) == VEC_SIZE(S->m_ritz_conv) + 1"),
                      ("count() is the number of set flags", "0 <= S->cnt_conv && S->cnt_conv <= VEC_SIZE(S->m_ritz_conv)"),
                      ("stored Ritz data present whenever a flag is set", "S->cnt_conv == 0 || (VEC_SIZE(S->m_ritz_val) == S->m_ncv && VEC_SIZE(S->tag_val) == S->m_ncv && S->m_nev <= S->m_ncv && "
                       "S->m_ritz_vec.rows == S->m_ncv && S->m_ritz_vec.cols == S->m_nev && S->m_fac.m_fac_V.rows == S->m_n && S->m_fac.m_fac_V.cols == S->m_ncv)")] +
                     ([("number of eigenvectors requested is non-negative (documented domain)", "0 <= nvec && nvec <= NMAX")] if which != "eigenvalues" else []),
                 post=post, frame=["g_src"], real=hdr + ":" + which)


ACCESSOR_TYPES = "typedef struct { Ritz *data; Index *tag; Index size; } ValOut;\n"


def f_eigenvalues(gen, report):
    hdr, cls = (GB, "GenEigsBase") if gen else (HB, "HermEigsBase")
    spec = accessor_spec("eigenvalues", gen)
    extra = [("count", r"const Index nconv = S->m_ritz_conv\.(?:count\(\)|cast<Index>\(\)\.sum\(\));", "const Index nconv = S->cnt_conv;", {"max": 1}),
             ("res", r"(?:Real|Complex)Vector res\(nconv\);", "ValOut res; res.size = nconv; res.data = RITZ_NEW(nconv); res.tag = IVEC_NEW(nconv);", {"max": 1}),
             ("copy", r"res\[j\] = S->m_ritz_val\[i\];", "res.data[j] = S->m_ritz_val[i]; res.tag[j] = S->tag_val[i]; if (j == g_out) g_src = i;", {"max": 1}),
             ("flag", r"if \(S->m_ritz_conv\[i\]\)", "COUNT_DEF(S, i); if (S->m_ritz_conv[i])", {"max": 1})]
    inv = ("__CPROVER_assigns(i, j, g_src, __CPROVER_object_whole(res.data), __CPROVER_object_whole(res.tag)) "
           "__CPROVER_loop_invariant(0 <= i && i <= S->m_nev && 0 <= j && j <= nconv && j == g_prefix[i]) "
           "__CPROVER_loop_invariant(!(0 <= g_out && g_out < j) || (0 <= g_src && g_src < i && S->m_ritz_conv[g_src] && g_prefix[g_src] == g_out && res.tag[g_out] == S->tag_val[g_src])) "
           "__CPROVER_decreases(S->m_nev - i)")
    t = emit_solver_fn(hdr, cls, "eigenvalues", "eigenvalues", report, ret_c="ValOut", extra=extra, loops={0: inv},
                       contract=spec.frame_contract(), pre_body=" COUNT_DEF(S, 0);")
    return t, spec


def f_eigenvectors(gen, report):
    hdr, cls = (GB, "GenEigsBase") if gen else (HB, "HermEigsBase")
    spec = accessor_spec("eigenvectors", gen)
    extra = accessor_rules(report) + [
        ("count", r"const Index nconv = S->m_ritz_conv\.(?:count\(\)|cast<Index>\(\)\.sum\(\));", "const Index nconv = S->cnt_conv;", {"max": 1}),
        ("res", r"(?:Complex)?Matrix res\(([^;]+)\);", r"Mat res = MAT_NEW(\1);", {"max": 1}),
        # the gather loop and its temporary may be absent (restructured accessor): the rules then do not fire, and the product rules below decide
        ("conv", r"(?:Real|Complex)Matrix ritz_vec_conv\(([^;]+)\);", r"Mat ritz_vec_conv = MAT_NEW(\1);", {"min": 0, "max": 1}),
        ("copy", r"ritz_vec_conv\.col\(j\)(?:\.noalias\(\))? = S->m_ritz_vec\.col\(i\);", "COLCOPY(ritz_vec_conv, j, S->m_ritz_vec, i); if (j == g_out) g_src = i;", {"min": 0, "max": 1}),
        ("flag", r"if \(S->m_ritz_conv\[i\]\)", "COUNT_DEF(S, i); if (S->m_ritz_conv[i])", {"min": 0, "max": 1}),
        ("product", r"res(?:\.noalias\(\))? = S->m_fac\.m_fac_V \* ritz_vec_conv;",
         "__CPROVER_assert(S->m_fac.m_fac_V.cols == ritz_vec_conv.rows && res.rows == S->m_fac.m_fac_V.rows && res.cols == ritz_vec_conv.cols, @Q@Eigen: product dimensions agree@Q@); "
         "if (0 <= g_out && g_out < res.cols) res.coltag[g_out] = ritz_vec_conv.coltag[g_out];", {"min": 0, "max": 1}),
        # product with the LEADING columns of the Ritz-vector matrix: result column g is Ritz vector g (provenance recorded; the postcondition decides whether that is a flagged one)
        ("product-leading", r"res(?:\.noalias\(\))? = S->m_fac\.m_fac_V \* S->m_ritz_vec\.leftCols\(([^;()]+)\);",
         r"NCOLS_CHECK(S->m_ritz_vec, \1); __CPROVER_assert(S->m_fac.m_fac_V.cols == S->m_ritz_vec.rows && res.rows == S->m_fac.m_fac_V.rows && res.cols == (\1), @Q@Eigen: product dimensions agree@Q@); "
         r"if (0 <= g_out && g_out < res.cols) { res.coltag[g_out] = S->m_ritz_vec.coltag[g_out]; g_src = g_out; }", {"min": 0, "max": 2})]
    inv = ("__CPROVER_assigns(i, j, g_src, __CPROVER_object_whole(ritz_vec_conv.coltag)) "
           "__CPROVER_loop_invariant(0 <= i && i <= S->m_nev && 0 <= j && j <= nvec && j <= g_prefix[i] && (j == g_prefix[i] || j == nvec)) "
           "__CPROVER_loop_invariant(!(0 <= g_out && g_out < j) || (0 <= g_src && g_src < i && S->m_ritz_conv[g_src] && g_prefix[g_src] == g_out && ritz_vec_conv.coltag[g_out] == S->m_ritz_vec.coltag[g_src])) "
           "__CPROVER_decreases(S->m_nev - i)")
    f0 = X.locate(hdr, "eigenvectors", cls=cls, params_re=r"Index\s+nvec")
    has_loop = len(re.findall(r"\bfor\s*\(", f0.body)) >= 1
    t = emit_solver_fn(hdr, cls, "eigenvectors", "eigenvectors", report, ret_c="Mat", extra=extra, loops=({0: inv} if has_loop else {}),
                       contract=spec.frame_contract(), params_re=r"Index\s+nvec", pre_body=" COUNT_DEF(S, 0);")
    fired = report["%s::eigenvectors" % cls]
    if not (fired.get("x:product", 0) + fired.get("x:product-leading", 0) >= 1):
        raise X.ExtractionBreak("%s::eigenvectors(nvec): no recognised product that forms the returned matrix" % cls)
    f = X.locate(hdr, "eigenvectors", cls=cls, params_re=r"^\s*$")
    if " ".join(f.body.split()) != "return eigenvectors(m_nev);":
        raise X.ExtractionBreak("%s::eigenvectors() no longer forwards eigenvectors(m_nev)" % cls)
    return t, spec


# =========================================================================== general (nonsymmetric) family

def stub_sort_complex():
    """Call-site contract of `SortEigenvalue<Complex, Rule> sorting(evals.data(), n); sorting.swap(ind);`: the
    constructor contract proved in C18 (ctor.iota+sort.complex / ctor.order.complex) with the documented complex keys
    (key.complex.* groups)."""
    from props import C18
    L = ["#define INSTANTIATE_RANGE(ind, e, len) __CPROVER_assume(!(0 <= (e) && (e) < (len)) || (0 <= (ind).data[e] && (ind).data[e] < (len)))",
         "#define INSTANTIATE_COLTAG(M, e) __CPROVER_assume(!(0 <= (e) && (e) < (M).cols) || (M).coltag[e] == (e))",
         "Index g_ia, g_ib; Complex g_va, g_vb;   /* witnesses: ind[g_i], ind[g_j], values[ind[g_i]], values[ind[g_j]] */",
         "IndexArray sort_complex(SortRule rule, const Complex *values, Index len) {",
         '  __CPROVER_assert(0 <= len && len <= VEC_SIZE(values), "precondition of SortEigenvalue at call site: values[0..len) is a valid range");',
         '  __CPROVER_assert(%s, "precondition of SortEigenvalue at call site: rule defined for complex values");' %
         " || ".join("rule == SortRule_%s" % r for r in C18.DOC_CPLX),
         "  IndexArray ret; ret.size = len; ret.data = IVEC_NEW(len);",
         "  if (0 <= g_i && g_i < len) { __CPROVER_assume(0 <= ret.data[g_i] && ret.data[g_i] < len); g_ia = ret.data[g_i]; g_va = values[g_ia]; }",
         "  if (0 <= g_j && g_j < len) { __CPROVER_assume(0 <= ret.data[g_j] && ret.data[g_j] < len); g_ib = ret.data[g_j]; g_vb = values[g_ib]; }",
         "  if (0 <= g_i && g_i < len && 0 <= g_j && g_j < len && g_i != g_j) __CPROVER_assume(g_ia != g_ib);",
         "  if (0 <= g_i && g_i < g_j && g_j < len && CNOTNAN(g_va) && CNOTNAN(g_vb)) {",
         "    Complex va = g_va, vb = g_vb;"]
    for r, d in C18.DOC_CPLX.items():
        cond = d.replace("x", "XX").replace("y", "YY").replace("XX", "vb").replace("YY", "va")
        L.append("    __CPROVER_assume(!(rule == SortRule_%s) || !(%s));" % (r, cond))
    L += ["  }", "  return ret;", "}"]
    return "\n".join(L) + "\n"


GEN_DEFS = r'''
#define CNOTNAN(z) ((z).re == (z).re && (z).im == (z).im && CABS(z) == CABS(z))
#define NOTNAN(z) CNOTNAN(z)
#define CNANEQ(a, b) (NANEQ((a).re, (b).re) && NANEQ((a).im, (b).im))
Index g_p;
'''


def gen_switch_rules(arr, n, ncases=6):
    """`SortEigenvalue<Complex, SortRule::X> sorting(ARR.data(), N); sorting.swap(ind);` in each case of the rule switch."""
    return [
        ("ind-decl", r"std::vector<Index> ind;", "IndexArray ind; ind.data = NULL; ind.size = 0;", {"max": 1}),
        ("sorter", r"SortEigenvalue<Complex, SortRule_(\w+)> sorting\(%s\.data\(\), %s\);\s*sorting\.swap\(ind\);" % (re.escape(arr), re.escape(n)),
         r"ind = sort_complex(SortRule_\1, %s, %s);" % (arr, n), {"min": ncases, "max": ncases}),
        ("case-consistent", r"case SortRule_(\w+):\s*\{\s*ind = sort_complex\(SortRule_(\w+),",
         lambda m: m.group(0) if m.group(1) == m.group(2) else "case SortRule_%s: { RULE_DISPATCH_MISMATCH(); ind = sort_complex(SortRule_%s," % (m.group(1), m.group(2)),
         {"min": ncases, "max": ncases}),
    ]


def f_retrieve_ritzpair_gen(report):
    extra = accessor_rules(report) + [
        ("decomp", r"UpperHessenbergEigen<Scalar> decomp\(S->m_fac\.m_fac_H\);", "EigDecomp decomp = EIGEN_DECOMP(&S->m_fac.m_fac_H);", {"max": 1}),
        ("evals", r"const ComplexVector& evals = decomp\.eigenvalues\(\);", "const Complex *evals = decomp.evals;", {"max": 1}),
        ("evecs", r"ComplexMatrix evecs = decomp\.eigenvectors\(\);", "Mat evecs = decomp.evecs; S->st_ritz = decomp.stamp;", {"max": 1}),
    ] + gen_switch_rules("evals", "S->m_ncv") + [
        ("ind[]", r"\bind\[", "ind.data[", {"min": 3, "max": 3}),
        ("val-copy", r"S->m_ritz_val\[(\w+)\] = evals\[([^;]+)\];", r"INSTANTIATE_RANGE(ind, \1, S->m_ncv); S->m_ritz_val[\1] = evals[\2]; S->tag_val[\1] = (\2);", {"max": 1}),
        ("est-copy", r"S->m_ritz_est\[(\w+)\] = evecs\(([^;]+?),\s*([^;,]+)\);",
         r"S->m_ritz_est[\1].re = *MAT_ELEM(&evecs, \2, \3); S->m_ritz_est[\1].im = nondet_Scalar(); S->tag_est[\1] = ((\2) == evecs.rows - 1) ? (\3) : -1;", {"max": 1}),
        ("vec-copy", r"S->m_ritz_vec\.col\((\w+)\)\.noalias\(\) = evecs\.col\(([^;]+)\);",
         r"INSTANTIATE_RANGE(ind, \1, S->m_ncv); INSTANTIATE_COLTAG(evecs, \2); COLCOPY(S->m_ritz_vec, \1, evecs, \2);", {"max": 1}),
    ]
    inv1 = ("__CPROVER_assigns(i, __CPROVER_object_whole(S->m_ritz_val), __CPROVER_object_whole(S->m_ritz_est), __CPROVER_object_whole(S->tag_val), __CPROVER_object_whole(S->tag_est), evecs.cell) "
            "__CPROVER_loop_invariant(0 <= i && i <= S->m_ncv) "
            "__CPROVER_loop_invariant(!(0 <= g_i && g_i < i) || (S->tag_val[g_i] == g_ia && S->tag_est[g_i] == g_ia && CNANEQ(S->m_ritz_val[g_i], g_va))) "
            "__CPROVER_loop_invariant(!(0 <= g_j && g_j < i) || (S->tag_val[g_j] == g_ib && S->tag_est[g_j] == g_ib && CNANEQ(S->m_ritz_val[g_j], g_vb))) "
            "__CPROVER_decreases(S->m_ncv - i)")
    inv2 = ("__CPROVER_assigns(i, __CPROVER_object_whole(S->m_ritz_vec.coltag)) "
            "__CPROVER_loop_invariant(0 <= i && i <= S->m_nev) "
            "__CPROVER_loop_invariant(!(0 <= g_i && g_i < i) || S->m_ritz_vec.coltag[g_i] == g_ia) "
            "__CPROVER_loop_invariant(!(0 <= g_j && g_j < i) || S->m_ritz_vec.coltag[g_j] == g_ib) "
            "__CPROVER_decreases(S->m_nev - i)")
    both = "0 <= g_i && g_i < g_j && g_j < S->m_ncv"
    post = [("value, estimate (and vector column, for wanted ones) at position i come from the same eigenpair of the decomposition",
             "!(0 <= g_i && g_i < S->m_ncv) || (S->tag_val[g_i] == S->tag_est[g_i] && 0 <= S->tag_val[g_i] && S->tag_val[g_i] < S->m_ncv && (g_i >= S->m_nev || S->m_ritz_vec.coltag[g_i] == S->tag_val[g_i]))"),
            ("distinct positions hold distinct eigenpairs (a permutation of the decomposition)", "!(%s) || S->tag_val[g_i] != S->tag_val[g_j]" % both),
            ("Ritz data stamped with the fresh decomposition", "S->st_ritz == g_clock"), ("one clock tick", "g_clock == old_clock + 1")]
    from props import C18 as _C18
    post.insert(0, ("normal exit only for a selection rule the general family supports (others are rejected with invalid_argument)",
                    "(" + " || ".join("selection == SortRule_%s" % r for r in _C18.DOC_CPLX) + ")"))
    for r, cl in ordered_clause("", gen=True):
        post.append(("wanted-first order by the selection rule %s: no later Ritz value strictly precedes an earlier one" % r,
                     "!(%s && CNOTNAN(S->m_ritz_val[g_i]) && CNOTNAN(S->m_ritz_val[g_j])) || verif_ordered_%s(selection, S->m_ritz_val[g_i], S->m_ritz_val[g_j])" % (both, r)))
    spec = FSpec("retrieve_ritzpair", "void", [("Solver *", "S"), ("SortRule", "selection")],
                 pre=[("Ritz arrays hold ncv entries", "VEC_SIZE(S->m_ritz_val) == S->m_ncv && VEC_SIZE(S->m_ritz_est) == S->m_ncv && VEC_SIZE(S->tag_val) == S->m_ncv && VEC_SIZE(S->tag_est) == S->m_ncv"),
                      ("projected matrix is ncv x ncv, Ritz vector matrix ncv x nev", "S->m_fac.m_fac_H.rows == S->m_ncv && S->m_fac.m_fac_H.cols == S->m_ncv && S->m_ritz_vec.rows == S->m_ncv && S->m_ritz_vec.cols == S->m_nev"),
                      ("1 <= nev, nev + 2 <= ncv", "1 <= S->m_nev && S->m_nev + 2 <= S->m_ncv && S->m_ncv <= NMAX"),
                      ("clock bounded", "0 <= g_clock && g_clock <= 4 * CAP")],
                 post=post,
                 exc_post=[("unsupported selection rule or failed decomposition: invalid_argument / runtime_error; clock at most one tick", "old_clock <= g_clock && g_clock <= old_clock + 1")],
                 frame=["S->st_ritz", "g_clock", "g_ia", "g_ib", "g_va", "g_vb"],
                 frame_objs=["S->m_ritz_val", "S->m_ritz_est", "S->tag_val", "S->tag_est", "S->m_ritz_vec.coltag"],
                 may_throw=[1, 2], olds=[("Index", "old_clock", "g_clock")], real=GB + ":retrieve_ritzpair")
    t = emit_solver_fn(GB, "GenEigsBase", "retrieve_ritzpair", "retrieve_ritzpair", report, ret_c="void", extra=extra,
                       loops={0: inv1, 1: inv2}, contract=spec.frame_contract(), maythrow=["EIGEN_DECOMP"])
    ordf = "".join("static _Bool verif_ordered_%s(SortRule selection, Complex va, Complex vb) { return %s; }\n" % (r, cl)
                   for r, cl in ordered_clause("", gen=True))
    return ordf + t, spec


def f_sort_ritzpair_gen(report):
    spec = sort_spec(True, GB)
    rules = gen_switch_rules("S->m_ritz_val", "S->m_nev") + [r for r in SORT_LOCALS_RULES if r[0] not in ("argsort",)]
    loop = sort_loop_inv(sort_permutes_est(GB, "GenEigsBase")).replace("NANEQ(new_ritz_val[g_i], g_va)", "CNANEQ(new_ritz_val[g_i], g_va)").replace("NANEQ(new_ritz_val[g_j], g_vb)", "CNANEQ(new_ritz_val[g_j], g_vb)")
    t = emit_solver_fn(GB, "GenEigsBase", "sort_ritzpair", "sort_ritzpair", report, ret_c="void", extra=rules,
                       loops={0: loop}, contract=spec.frame_contract())
    ordf = "".join("static _Bool verif_sorted_%s(SortRule selection, Complex va, Complex vb) { return %s; }\n" % (r, cl)
                   for r, cl in ordered_clause("", gen=True))
    return ordf + t, spec


QR_STUBS_GEN = r'''
static void QR_compute_ds(QRDecomp *d, Mat *H, Scalar s, Scalar t)
{
  (void)s; (void)t;
  if (H->rows != H->cols) { verif_exc = EXC_invalid_argument; return; }
  __CPROVER_assert(H->rows >= 3 || 1, "DoubleShiftQR size");
  d->n = H->rows; d->computed = 1;
}
#define CNORM(z) ((z).re * (z).re + (z).im * (z).im)
#define RULE_DISPATCH_MISMATCH() __CPROVER_assert(0, "rule switch: case label and SortEigenvalue rule template argument agree")
'''


def f_restart_gen(report, retrieve_post):
    spec = restart_spec(True, retrieve_post)
    spec.pre = [c for c in spec.pre if "restart size" not in c[0]] + [
        ("restart size in [1, ncv-1] (result of nev_adjusted)", "1 <= k && k <= S->m_ncv - 1")]
    extra = accessor_rules(report) + [
        ("using-norm", r"\busing std::norm;", "", {"min": 0}),
        ("decomp_ds", r"DoubleShiftQR<Scalar> (\w+)\(([^;]+)\);", r"QRDecomp \1; \1.n = (\2); \1.computed = 0; \1.nshift = 2;", {"max": 1}),
        ("decomp_hb", r"UpperHessenbergQR<Scalar> (\w+)\(([^;]+)\);", r"QRDecomp \1; \1.n = (\2); \1.computed = 0; \1.nshift = 1;", {"max": 1}),
        ("Q", r"Matrix Q = Matrix::Identity\(([^;]+)\);", r"Mat Q = MAT_NEW(\1); g_shift_lo = k; g_shift_n = 0; g_shifts_applied = 0;", {"max": 1}),
        ("is_complex", r"(?<![\w>])is_complex\(", "is_complex(", {"min": 1}),
        ("s", r"const Scalar s = \(\(Scalar\)\(2\)\) \* S->m_ritz_val\[i\]\.real\(\);", "const Scalar s = ((Scalar)(2)) * S->m_ritz_val[i].re;", {"max": 1}),
        ("t", r"const Scalar t = norm\(S->m_ritz_val\[i\]\);", "const Scalar t = CNORM(S->m_ritz_val[i]);", {"max": 1}),
        ("compute_ds", r"decomp_ds\.compute\(S->m_fac\.m_fac_H, s, t\);", "QR_compute_ds(&decomp_ds, &S->m_fac.m_fac_H, s, t);", {"max": 1}),
        ("compute_hb", r"decomp_hb\.compute\(S->m_fac\.m_fac_H, S->m_ritz_val\[i\]\.real\(\)\);", "QR_compute(&decomp_hb, &S->m_fac.m_fac_H, S->m_ritz_val[i].re);", {"max": 1}),
        ("apply_YQ", r"(decomp_ds|decomp_hb)\.apply_YQ\(Q\);", r"QR_apply_YQ(&\1, &Q);", {"min": 2, "max": 2}),
        ("compress_H_ds", r"S->m_fac\.compress_H\(decomp_ds\);", "compress_H_ds(&S->m_fac, &decomp_ds); g_shifts_applied += 2;", {"max": 1}),
        ("compress_H_hb", r"S->m_fac\.compress_H\(decomp_hb\);", "compress_H_hb(&S->m_fac, &decomp_hb); g_shifts_applied += 1;", {"max": 1}),
        ("compress_V", r"S->m_fac\.compress_V\(Q\);", "g_shift_n = g_shifts_applied; compress_V(&S->m_fac, Q);", {"max": 1}),
        ("factorize", r"S->m_fac\.factorize_from\(([^;]+), S->m_nmatop\);", r"factorize_from(&S->m_fac, \1, &S->m_nmatop);", {"max": 1}),
        ("retrieve", r"(?<![\w>])retrieve_ritzpair\(selection\);", "retrieve_ritzpair(S, selection);", {"max": 1}),
    ]
    inv = ("__CPROVER_assigns(i, decomp_ds, decomp_hb, Q.cell, g_shifts_applied, verif_exc, S->m_fac.m_k, S->m_fac.g_valid_k, S->m_fac.m_fac_H.rows, S->m_fac.m_fac_H.cols, S->m_fac.m_fac_H.cell) "
           "__CPROVER_loop_invariant(k <= i && i <= S->m_ncv && verif_exc == 0 && g_shifts_applied == i - k && S->m_fac.m_k == S->m_ncv - (i - k) && "
           "S->m_fac.m_fac_H.rows == S->m_ncv && S->m_fac.m_fac_H.cols == S->m_ncv && (i == k || S->m_fac.g_valid_k == 0)) "
           "__CPROVER_decreases(S->m_ncv - i)")
    t = emit_solver_fn(GB, "GenEigsBase", "restart", "restart", report, ret_c="void", extra=extra, loops={0: inv},
                       contract=spec.frame_contract(),
                       maythrow=["QR_compute_ds", "QR_compute", "QR_apply_YQ", "compress_H_ds", "compress_H_hb", "compress_V", "factorize_from", "retrieve_ritzpair"])
    return t, spec


# =========================================================================== shift-and-invert overrides

def bt_rule(gen, ops_out=None):
    """`m_ritz_val.head(N)[.array()] = NUM / m_ritz_val.head(N).array() + ADD;` rendered coefficient-wise (Eigen semantics
    assumed); N, NUM and ADD are kept from the source text."""
    def _r(m):
        n1, num, n2, add = m.group(1), m.group(2), m.group(3), m.group(4)
        if ops_out is not None:
            ops_out.extend([num.strip(), add.strip()])
        expr = "CPLX_BACKTRANSFORM(%s, S->m_ritz_val[e_], %s)" % (num, add) if gen else "(%s) / S->m_ritz_val[e_] + (%s)" % (num, add)
        return ("SEG_CHECK(S->m_ritz_val, %s); SEG_CHECK(S->m_ritz_val, %s); __CPROVER_assert((%s) == (%s), @Q@Eigen: coefficient-wise assignment needs equal sizes@Q@); "
                "g_bt_n = (%s); S->g_backtransformed++; for (Index e_ = 0; e_ < (%s); e_++) { S->m_ritz_val[e_] = %s; }" % (n1, n2, n1, n2, n1, n1, expr))
    return ("backtransform", r"S->m_ritz_val\.head\(([^()]+)\)(?:\.array\(\))? = (.+?) / S->m_ritz_val\.head\(([^()]+)\)\.array\(\) \+ ([^;]+);", _r, {"max": 1})


BT_DEFS = r'''
Index g_bt_n;      /* ghost: number of leading Ritz values the back-transformation was applied to */
#ifdef GEN
/* std::complex: num / z + add  (library arithmetic, assumed) */
static Complex CPLX_BACKTRANSFORM(Scalar num, Complex z, Scalar add)
{ Complex r; Scalar d = z.re * z.re + z.im * z.im; r.re = num * z.re / d + add; r.im = -num * z.im / d; return r; }
#endif
'''


def f_shift_sort(gen, report):
    """SymEigsShiftSolver / GenEigsRealShiftSolver ::sort_ritzpair override."""
    hdr, cls = ("GenEigsRealShiftSolver.h", "GenEigsRealShiftSolver") if gen else ("SymEigsShiftSolver.h", "SymEigsShiftSolver")
    base = sort_spec(gen, hdr, cname="sort_ritzpair")
    spec = FSpec("shift_sort_ritzpair", "void", [("Solver *", "S"), ("SortRule", "sort_rule")],
                 pre=base.pre + [("back-transformation counter bounded", "0 <= S->g_backtransformed && S->g_backtransformed <= 1000")],
                 post=[("the spectral back-transformation lambda = 1/nu + sigma ran exactly once, on exactly the nev wanted Ritz values, before sorting",
                        "S->g_backtransformed == old_bt + 1 && g_bt_n == S->m_nev && g_bt_before_sort")],
                 exc_post=[("rejected sorting rule propagates from the base class", "verif_exc == EXC_invalid_argument")],
                 frame=base.frame + ["S->g_backtransformed", "g_bt_n", "g_bt_before_sort"], frame_inplace=base.frame_inplace, frame_inplace_mat=base.frame_inplace_mat,
                 may_throw=[1], olds=[("Index", "old_bt", "S->g_backtransformed")], real=hdr + ":sort_ritzpair")
    ops = []
    extra = [bt_rule(gen, ops),
             ("base", r"Base::sort_ritzpair\(sort_rule\);", "g_bt_before_sort = (S->g_backtransformed == old_bt_l + 1); sort_ritzpair(S, sort_rule);", {"max": 1})]
    inv = {0: "__CPROVER_assigns(e_, __CPROVER_object_whole(S->m_ritz_val)) __CPROVER_loop_invariant(0 <= e_ && e_ <= S->m_nev) __CPROVER_decreases(S->m_nev - e_)"}
    t = emit_solver_fn(hdr, cls, "sort_ritzpair", "shift_sort_ritzpair", report, ret_c="void", extra=extra, loops=inv,
                       contract=spec.frame_contract(), maythrow=["sort_ritzpair"], members=SOLVER_MEMBERS + ["m_sigma"],
                       pre_body=" const Index old_bt_l = S->g_backtransformed;")
    report["backtransform:" + cls] = {"numerator": ops[0], "addend": ops[1]}
    return "_Bool g_bt_before_sort;\n" + t, spec, tuple(ops)


def backtransform_lemma(name, numer, addend, forward):
    """z3 lemma over the reals: the extracted expression NUM/nu + ADD inverts the documented spectral map."""
    from vlib import z3lemma
    def smt(e):
        e = e.strip()
        e = re.sub(r"\(\((?:Real)?Scalar\)\((\d+)\)\)", r"\1", e)
        e = e.replace("S->m_sigma", "sigma")
        if re.match(r"^\(*\d+\)*$", e):
            return re.sub(r"[()]", "", e) + ".0"
        if e in ("sigma",):
            return e
        raise X.ExtractionBreak("back-transformation operand %r not understood" % e)
    txt = """(declare-const lambda Real) (declare-const sigma Real) (declare-const nu Real)
(assert (not (= lambda sigma)))
(assert (= nu %s))
(assert (not (= (+ (/ %s nu) %s) lambda)))
(check-sat)
""" % (forward, smt(numer), smt(addend))
    return z3lemma.Z3Group(name, txt, note="extracted back-transformation %s/nu + %s inverts nu = %s (real arithmetic: machine arithmetic treated as mathematical)" % (numer, addend, forward))


def f_shift_ctor(report):
    """Constructors of the three shift solvers: base constructor, then op.set_shift(sigma) with the constructor's shift."""
    out = {}
    for hdr, cls, want_init, want_body in (
            ("SymEigsShiftSolver.h", "SymEigsShiftSolver", "Base(op, IdentityBOp(), nev, ncv), m_sigma(sigma)", "op.set_shift(m_sigma);"),
            ("GenEigsRealShiftSolver.h", "GenEigsRealShiftSolver", "Base(op, IdentityBOp(), nev, ncv), m_sigma(sigma)", "op.set_shift(m_sigma);"),
            ("GenEigsComplexShiftSolver.h", "GenEigsComplexShiftSolver", "Base(op, IdentityBOp(), nev, ncv), m_sigmar(sigmar), m_sigmai(sigmai)", "op.set_shift(m_sigmar, m_sigmai);")):
        f = X.locate(hdr, cls, cls=cls)
        if " ".join(f.inits.split()) != want_init or " ".join(f.body.split()) != want_body:
            raise X.ExtractionBreak("%s constructor changed: %r / %r" % (cls, f.inits, f.body))
        out[cls] = "installs the constructor's shift in the operator (text checked): " + want_body
    report["shift constructors"] = out
    return out


# --------------------------------------------------------------------------- GenEigsComplexShiftSolver::sort_ritzpair

CSHIFT_DEFS = r'''
static void OP_set_shift2(Op *op, Scalar re, Scalar im) { op->shift_re = re; op->shift_im = im; }
/* the post-processing solves at the probe shift are outside the counted iteration (C05 statement): not counted in g_ops */
static void OP_probe_op(Op *op, const Scalar *x_in, Scalar *y_out)
{
  __CPROVER_assert(__CPROVER_r_ok(x_in, op->n * sizeof(Scalar)), "operator argument: x_in is a valid length-n vector");
  __CPROVER_assert(__CPROVER_w_ok(y_out, op->n * sizeof(Scalar)), "operator argument: y_out is a valid length-n vector");
  __CPROVER_assert(!__CPROVER_same_object(x_in, y_out), "operator argument: x_in and y_out are distinct buffers");
  if (nondet_bool()) { verif_exc = EXC_user; return; }
  __CPROVER_havoc_object(y_out);
}
static Complex nondet_Complex(void) { Complex z; z.re = nondet_Scalar(); z.im = nondet_Scalar(); return z; }
static Complex CMAKE(Scalar re, Scalar im) { Complex z; z.re = re; z.im = im; return z; }
static Complex CCONJ(Complex z) { Complex r; r.re = z.re; r.im = -z.im; return r; }
_Bool g_pair_adjacent_violated;   /* ghost: a conjugate was written over an entry that is not the conjugate partner in the iterated spectrum */
'''


def cshift_spec():
    base = sort_spec(True, "GenEigsComplexShiftSolver.h")
    return FSpec("cshift_sort_ritzpair", "void", [("Solver *", "S"), ("SortRule", "sort_rule")],
                 pre=base.pre + [("V is n x ncv", "S->m_fac.m_fac_V.rows == S->m_n && S->m_fac.m_fac_V.cols == S->m_ncv && S->m_op->n == S->m_n && 1 <= S->m_n && S->m_n <= NMAX && S->m_nev + 2 <= S->m_ncv"),
                                 ("the operator carries the shift installed by the constructor", "S->m_op->shift_re == S->m_sigmar && S->m_op->shift_im == S->m_sigmai"),
                                 ("back-transformation counter bounded", "0 <= S->g_backtransformed && S->g_backtransformed <= 1000")],
                 post=[("the shift installed at construction is still in force when compute() returns", "S->m_op->shift_re == S->m_sigmar && S->m_op->shift_im == S->m_sigmai"),
                       ("post-processing solves are not counted as iteration work", "g_ops == old_ops && S->m_nmatop == old_nmatop"),
                       ("root selection ran once per compute(), before sorting", "S->g_backtransformed == old_bt + 1"),
                       # NOT claimed (DESIGN section 4, F5): "a conjugate is only written over its conjugate partner" needs adjacency of conjugate
                       # pairs, which the sort contract does not give for tied keys; the obligation fails, no real failing input was found
                       # (replay_src/C02_cshift_pairs_replay.cpp), so it is neither a violation nor a finding.  The write itself is index-safe.
                       ],
                 exc_post=[("operator exception or rejected rule propagates", "verif_exc == EXC_user || verif_exc == EXC_invalid_argument"),
                           # C14 / C06: a fault in one of the root-selection probe solves must not leave the probe shift installed in the user's operator
                           ("the shift installed at construction is in force again when an exception leaves sort_ritzpair", "S->m_op->shift_re == S->m_sigmar && S->m_op->shift_im == S->m_sigmai")],
                 frame=base.frame + ["S->g_backtransformed", "S->m_op->shift_re", "S->m_op->shift_im", "g_pair_adjacent_violated", "S->m_fac.m_fac_V.cell"],
                 frame_inplace=base.frame_inplace, frame_inplace_mat=base.frame_inplace_mat, may_throw=[1, 7],
                 olds=[("Index", "old_bt", "S->g_backtransformed"), ("Index", "old_ops", "g_ops"), ("Index", "old_nmatop", "S->m_nmatop")],
                 real="GenEigsComplexShiftSolver.h:sort_ritzpair")


def f_cshift_sort(report):
    stm = []
    spec = cshift_spec()
    hdr, cls = "GenEigsComplexShiftSolver.h", "GenEigsComplexShiftSolver"
    pre = [("catch-restore", r"\btry\s*\{\s*(m_op\.perform_op\([^;]*\);\s*m_op\.perform_op\([^;]*\);)\s*\}\s*catch \(\.\.\.\)\s*\{\s*m_op\.set_shift\(m_sigmar, m_sigmai\);\s*throw;\s*\}",
            r"\1 /*CATCH_RESTORE*/", {"min": 0, "max": 1}),
           ("rng", r"SimpleRandom<Scalar> rng\(0\);", "", {"max": 1}),
           ("shiftr", r"const Scalar shiftr = rng\.random\(\) \* m_sigmar \+ rng\.random\(\);", "const Scalar shiftr = nondet_Scalar();", {"max": 1}),
           ("set_shift", r"m_op\.set_shift\(shiftr, Scalar\(0\)\);", "OP_set_shift2(m_op, shiftr, (Scalar)0);", {"max": 1}),
           ("probe-op", r"m_op\.perform_op\((\w+)\.data\(\), (\w+)\.data\(\)\);", r"OP_probe_op(m_op, \1, \2);", {"min": 2, "max": 2}),
           ("inner-loop", r"for \(int k = 0; k < m_n; k\+\+\)\s*\{.*?err2 \+= norm\(OPv - rhs2\);\s*\}",
            "__CPROVER_assert(VEC_SIZE(v_real) >= m_n && VEC_SIZE(v_imag) >= m_n && VEC_SIZE(OPv_real) >= m_n && VEC_SIZE(OPv_imag) >= m_n, @Q@Eigen index assertion: k < size() for all k < n@Q@); "
            "err1 = nondet_Scalar(); err2 = nondet_Scalar();", {"max": 1}),
           ("nu", r"const Complex nu = m_ritz_val\[i\];", "const Complex nu = m_ritz_val[i];", {"max": 1}),
           ("complex-expr", r"const Complex (shift|root_part1|root_part2|root1|root2) = [^;]+;", r"const Complex \1 = nondet_Complex();", {"min": 5, "max": 5}),
           ("imag", r"Eigen::numext::imag\((\w+)\)", r"(\1).im", {"max": 1}),
           ("conj-write", r"m_ritz_val\[i \+ 1\] = Eigen::numext::conj\((\w+)\);",
            r"if (i + 1 < m_nev && !is_conj(nu, m_ritz_val[i + 1])) g_pair_adjacent_violated = 1; m_ritz_val[i + 1] = CCONJ(\1);", {"max": 1}),
           ("real-write", r"Complex\(Eigen::numext::real\((\w+)\), Scalar\(0\)\)", r"CMAKE((\1).re, (Scalar)0)", {"max": 1}),
           ("restore", r"m_op\.set_shift\(m_sigmar, m_sigmai\);", "OP_set_shift2(m_op, m_sigmar, m_sigmai);", {"min": 0, "max": 1}),
           ("base", r"Base::sort_ritzpair\(sort_rule\);", "OLDBT_CHECK; sort_ritzpair(S, sort_rule);", {"max": 1})]
    post_fn = fac_post_fn(["m_fac_V", "m_ritz_vec"], ["v_real", "v_imag", "OPv_real", "OPv_imag"], stm)

    def pf(b, R):
        b = post_fn(b, R)
        return b.replace("OLDBT_CHECK;", "S->g_backtransformed++;")
    inv = ("__CPROVER_assigns(i, verif_exc, g_pair_adjacent_violated, S->m_fac.m_fac_V.cell, S->m_ritz_vec.cell, __CPROVER_object_whole(S->m_ritz_val), "
           "__CPROVER_object_whole(v_real), __CPROVER_object_whole(v_imag), __CPROVER_object_whole(OPv_real), __CPROVER_object_whole(OPv_imag)) "
           "__CPROVER_loop_invariant(0 <= i && i <= S->m_nev + 1 && verif_exc == 0) __CPROVER_decreases(S->m_nev + 1 - i)")
    # the structural rewrites (vector declarations, V * col(i) products) run as a post function
    f = X.locate(hdr, "sort_ritzpair", cls=cls)
    t, R = cgen.emit(f, "cshift_sort_ritzpair", ret_c="void", self_type="Solver", self_name="S", members=SOLVER_MEMBERS + ["m_sigmar", "m_sigmai"],
                     pre_rules=pre, extra_rules=accessor_rules(report), loop_contracts={0: inv}, contract=spec.frame_contract(),
                     maythrow=["OP_probe_op", "sort_ritzpair"], post_fn=pf, pre_body=" g_pair_adjacent_violated = 0;")
    if "/*CATCH_RESTORE*/" in t:
        # `try { probe solves } catch (...) { m_op.set_shift(m_sigmar, m_sigmai); throw; }`: the handler runs on the unwinding path of the two probe solves
        t, nrep = re.subn(r"(OP_probe_op\(S->m_op, \w+, \w+\); if \(verif_exc\) \{) (return; \})", r"\1 OP_set_shift2(S->m_op, S->m_sigmar, S->m_sigmai); \2", t)
        if nrep != 2:
            raise X.ExtractionBreak("cshift sort_ritzpair: catch handler around the probe solves not mapped onto both unwinding paths (%d)" % nrep)
        R.fired["catch-handler-paths"] = nrep
    report["GenEigsComplexShiftSolver::sort_ritzpair"] = R.fired
    report.setdefault("abstracted_statements", {})["GenEigsComplexShiftSolver::sort_ritzpair"] = stm
    return t, spec



# --------------------------------------------------------------------------- C06: init() covers every mutable member

def init_coverage(report):
    """Supporting static obligation for C06 `init.canonical`: every non-const data member of the solver base classes and of
    Arnoldi is (re)assigned by init() - or is on the short list of members compute() never reads before writing.
    A member added to a class and forgotten in init() is state that leaks from one run into the next."""
    from vlib import z3lemma
    bad = []
    detail = {}
    for hdr, cls, fn, pre, allowed in ((AH, "Arnoldi", "init", None, {"m_op": "operator adaptor, bound at construction"}),
                                       (HB, "HermEigsBase", "init", r"init_resid", {"m_op_container": "owning container of the operator", "m_op": "reference bound at construction",
                                                                                    "m_fac": "re-initialised through m_fac.init()", "m_info": "written at the end of every compute(), never read by it"}),
                                       (GB, "GenEigsBase", "init", r"init_resid", {"m_op": "reference bound at construction", "m_fac": "re-initialised through m_fac.init()",
                                                                                   "m_info": "written at the end of every compute(), never read by it"})):
        f = X.locate(hdr, fn, cls=cls, params_re=pre)
        body = f.body
        cov = {}
        for ty, nm in member_decls(hdr, cls):
            if re.search(r"\bconst\b", ty) and "&" not in ty and "*" not in ty:
                cov[nm] = "const"
                continue
            if nm in allowed:
                cov[nm] = "exempt: " + allowed[nm]
                if nm == "m_fac" and not re.search(r"\bm_fac\.init\(", body):
                    bad.append("%s::init no longer calls m_fac.init()" % cls)
                if nm == "m_info":
                    cf = X.locate(hdr, "compute", cls=cls)
                    if re.search(r"\bm_info\b(?!\s*=[^=])", cf.body):
                        bad.append("%s::compute reads m_info" % cls)
                continue
            if re.search(r"\b%s\s*(?:=[^=]|\.resize\(|\.setZero\(\)|\.swap\()" % re.escape(nm), body) or re.search(r"\b%s\([^;]*\)\s*=" % re.escape(nm), body):
                cov[nm] = "assigned in init()"
            else:
                cov[nm] = "NOT re-created by init()"
                bad.append("%s::%s is not re-created by %s::init()" % (cls, nm, cls))
        detail[cls] = cov
    report["init_coverage"] = detail
    return z3lemma.StaticGroup("init.coverage", ok=not bad, detail="; ".join(bad) or "every mutable data member of Arnoldi, HermEigsBase, GenEigsBase is re-created by init() (or exempt with reason)",
                               obligation="init() re-creates every mutable data member (no state survives from an earlier run)")



def catch_handlers(report):
    """Supporting static obligation for C14 `exc.propagates`: the solver / factorization classes contain no handler that
    swallows or re-throws a copy of the exception (`throw e;` slices the user's exception type)."""
    from vlib import z3lemma
    bad, seen = [], 0
    for hdr in (HB, GB, AH, LH, "SymEigsSolver.h", "SymEigsShiftSolver.h", "GenEigsSolver.h", "GenEigsRealShiftSolver.h", "GenEigsComplexShiftSolver.h",
                "SymGEigsSolver.h", "SymGEigsShiftSolver.h", "MatOp/internal/ArnoldiOp.h"):
        raw, st = X.load(hdr)
        for m in re.finditer(r"\bcatch\s*\(([^)]*)\)\s*\{", st):
            seen += 1
            be = X.match_close(st, m.end() - 1)
            body = st[m.end():be]
            throws = re.findall(r"\bthrow\b\s*([^;]*);", body)
            if not throws:
                bad.append("%s:%d catch(%s) swallows the exception" % (hdr, X.lineno(st, m.start()), m.group(1).strip()))
            elif any(t.strip() for t in throws):
                bad.append("%s:%d catch(%s) re-throws a copy (`throw %s;`) instead of `throw;`" % (hdr, X.lineno(st, m.start()), m.group(1).strip(), [t for t in throws if t.strip()][0].strip()))
    report["catch_handlers"] = {"handlers_found": seen, "bad": bad}
    return z3lemma.StaticGroup("exc.handlers", ok=not bad, detail="; ".join(bad) or "%d catch handler(s) in the solver / factorization classes, none swallows or copies the exception" % seen,
                               obligation="the operator's exception leaves the solver unchanged in type (no handler swallows it or re-throws a copy)")



def norm_kind(report):
    """Supporting static obligation for C07 (clause V^H B V = I, V^H B f = 0): every residual norm that is stored in m_beta or handed
    back through expand_basis' fnorm - the quantity basis vectors are normalised with - is taken in the B-inner product
    (`m_op.norm(.)`), never the Euclidean `.norm()`; the only other value ever stored is a literal zero."""
    from vlib import z3lemma
    bad, seen = [], 0
    for hdr, cls, fn in ((AH, "Arnoldi", "expand_basis"), (AH, "Arnoldi", "init"), (AH, "Arnoldi", "factorize_from"), (LH, "Lanczos", "factorize_from"), (AH, "Arnoldi", "compress_V")):
        f = X.locate(hdr, fn, cls=cls)
        for m in re.finditer(r"\b(m_beta|fnorm|v0norm|vnorm)\s*=\s*([^;]+);", f.body):
            seen += 1
            rhs = " ".join(m.group(2).split())
            if not (re.match(r"^m_op\.norm\(\w+\)$", rhs) or re.match(r"^(Real)?Scalar\(0\)$", rhs)):
                bad.append("%s::%s: `%s = %s`" % (cls, fn, m.group(1), rhs))
        for m in re.finditer(r"[\w.>-]+\.norm\(\)", f.body):
            if not m.group(0).startswith("m_op"):
                bad.append("%s::%s uses the Euclidean norm `%s`" % (cls, fn, m.group(0)))
        # Euclidean normalisations of a vector (x.normalized(), x.normalize(), squaredNorm / stableNorm / blueNorm): a basis vector must be scaled by its B-norm
        for m in re.finditer(r"[\w.>-]+\.(normalized|normalize|squaredNorm|stableNorm|blueNorm|hypotNorm)\(\)", f.body):
            bad.append("%s::%s uses the Euclidean `%s`" % (cls, fn, m.group(0)))
    report["norm_kind"] = {"assignments_seen": seen, "bad": bad}
    return z3lemma.StaticGroup("norm.kind", ok=not bad and seen >= 8, detail="; ".join(bad) or "%d norm assignments in Arnoldi/Lanczos, all through m_op.norm() (B-inner product) or literal 0" % seen,
                               obligation="residual norms used to normalise basis vectors are B-norms")
