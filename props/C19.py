"""C19 - internal RNG is the exact, seed-pure Park-Miller sequence."""
import os
import re
import subprocess

from vlib import extract as X
from vlib import cgen
from vlib.runner import Group, WORK, VERIF
from vlib import z3lemma

PROP = "C19"
H = "Util/SimpleRandom.h"
M = 2147483647

MINI_PRELUDE = r'''
typedef long Index;
#if defined(SCALAR_FLOAT)
typedef float Scalar;
#elif defined(SCALAR_LDOUBLE)
typedef long double Scalar;
#else
typedef double Scalar;
#endif
typedef Scalar RealScalar;
typedef struct { Scalar re, im; } Complex;
static Complex verif_cplx_make(Scalar re, Scalar im) { Complex z; z.re = re; z.im = im; return z; }
typedef struct { Scalar *data; Index size; } Vector;
typedef struct { long m_rand; } SimpleRandom;
long nondet_long(void); unsigned long nondet_ulong(void); Index nondet_Index(void);
#define CANARY() __CPROVER_assert(0, "CANARY reachable end of harness")
#define MMAX 2147483647L
'''


def free_function_names():
    """Names of the namespace-scope functions defined in SimpleRandom.h."""
    raw, st = X.load(H)
    out, depth, i = [], 0, 0
    for m in re.finditer(r"[{}]|(?:inline|static|constexpr)\s+(?:[\w:<>]+\s+)+?(\w+)\s*\(", st):
        if m.group(0) == "{":
            depth += 1
        elif m.group(0) == "}":
            depth -= 1
        elif depth == 1 and m.group(1) not in out:
            out.append(m.group(1))
    return out


def helper_functions(text, report, seen=None, level=0):
    seen = seen if seen is not None else {"next_long_rand"}
    out = []
    if level > 3:
        raise X.ExtractionBreak("helper functions of next_long_rand nest deeper than 3 levels")
    for nm in free_function_names():
        if nm in seen or not re.search(r"(?<![\w.>:])%s\s*\(" % re.escape(nm), text):
            continue
        seen.add(nm)
        f = X.locate(H, nm)
        t, R = cgen.emit(f, nm, static=True)
        report.setdefault("helper functions", {})[nm] = R.fired
        out = helper_functions(t, report, seen, level + 1) + out + [t]
    return out


def extracted(report):
    """C text of every function of SimpleRandom.h, nothing dropped."""
    parts = []
    f = X.locate(H, "next_long_rand")
    t, R = cgen.emit(f, "next_long_rand", ret_c="long",
                     contract="__CPROVER_requires(1 <= seed && seed <= MMAX - 1) "
                              "__CPROVER_ensures(1 <= __CPROVER_return_value && __CPROVER_return_value <= MMAX - 1) "
                              "__CPROVER_assigns()")
    # free helper functions of the header that next_long_rand calls (e.g. a factored-out reduction step) are extracted with it, nothing dropped
    helpers = helper_functions(t, report)
    parts.extend(helpers); parts.append(t); report["next_long_rand"] = R.fired
    f = X.locate(H, "run", cls="RandomScalar")
    t, R = cgen.emit(f, "RandomScalar_run", ret_c="Scalar")
    parts.append(t); report["RandomScalar::run"] = R.fired
    if R.fired.get("ref-param:seed", 0) < 3:
        raise X.ExtractionBreak("RandomScalar::run: seed reference not used as expected")
    f = X.locate(H, "run", cls="RandomScalar", key="complex")
    t, R = cgen.emit(f, "RandomScalar_cplx_run", ret_c="Complex", extra_rules=[
        ("real-run", r"RandomScalar<RealScalar>::run\(", "RandomScalar_run(&", {"min": 2, "max": 2}),
        ("complex-ctor", r"std::complex<RealScalar>\(", "verif_cplx_make(", {"min": 1, "max": 1})])
    parts.append(t); report["RandomScalar<complex>::run"] = R.fired
    mem = X.members(H, "SimpleRandom")
    if mem != ["m_rand"]:
        raise X.ExtractionBreak("SimpleRandom members changed: %r (state must be the single member m_rand)" % mem)
    f = X.locate(H, "SimpleRandom", cls="SimpleRandom")
    t, R = cgen.emit(f, "SimpleRandom_ctor", ret_c="void", self_type="SimpleRandom", members=mem, init_skip=())
    parts.append(t); report["SimpleRandom::SimpleRandom"] = R.fired
    f = X.locate(H, "random", cls="SimpleRandom")
    t, R = cgen.emit(f, "SimpleRandom_random", ret_c="Scalar", self_type="SimpleRandom", members=mem, extra_rules=[
        ("run", r"RandomScalar<Scalar>::run\(", "RandomScalar_run(&", {"min": 1, "max": 1})],
        pre_body=" g_self_steps++;   /* ghost: random() advances the OBJECT's state by one step (proved in random.LP64) */",
        contract="__CPROVER_requires(__CPROVER_is_fresh(self, sizeof(*self)) && 1 <= self->m_rand && self->m_rand <= MMAX - 1 && 0 <= g_self_steps && g_self_steps <= 1048576) "
                 "__CPROVER_assigns(self->m_rand, g_self_steps) "
                 "__CPROVER_ensures(g_self_steps == __CPROVER_old(g_self_steps) + 1) "
                 "__CPROVER_ensures(1 <= self->m_rand && self->m_rand <= MMAX - 1) "
                 "__CPROVER_ensures(-0.5 <= __CPROVER_return_value && __CPROVER_return_value <= 0.5)")
    parts.append(t); report["SimpleRandom::random"] = R.fired
    f = X.locate(H, "random_vec", cls="SimpleRandom", params_re=r"Vector\s*&")
    t, R = cgen.emit(f, "SimpleRandom_random_vec", ret_c="void", self_type="SimpleRandom", members=mem,
                     extra_rules=[("size", r"\(\*vec\)\.size\(\)", "(*vec).size", {"min": 1, "max": 1}),
                                  ("index", r"\(\*vec\)\[", "(*vec).data[", {"min": 0, "max": 2}),
                                  ("data", r"\(\*vec\)\.data\(\)", "(*vec).data", {"min": 0, "max": 2}),
                                  ("auto", r"\bauto (\w+) = ", r"long \1 = ", {"min": 0, "max": 2}),
                                  # a draw made directly with the scalar generator: tracked - does it step the OBJECT's state word or something else?
                                  ("run-direct", r"RandomScalar<Scalar>::run\(", "RUN_TRACK(&", {"min": 0, "max": 2}),
                                  ("random", r"(?<![\w>.])random\(\)", "SimpleRandom_random(self)", {"min": 0, "max": 2})],
                     pre_body=" g_state_ptr = &self->m_rand; const Index verif_steps0 = g_self_steps;",
                     contract="__CPROVER_requires(__CPROVER_is_fresh(self, sizeof(*self)) && 1 <= self->m_rand && self->m_rand <= MMAX - 1 && g_self_steps == 0) "
                              "__CPROVER_requires(__CPROVER_is_fresh(vec, sizeof(*vec)) && 0 <= vec->size && vec->size <= 1048576 "
                              " && __CPROVER_is_fresh(vec->data, vec->size * sizeof(Scalar))) "
                              "__CPROVER_assigns(self->m_rand, g_self_steps, g_state_ptr, __CPROVER_object_whole(vec->data)) "
                              "__CPROVER_ensures(g_self_steps == vec->size) "
                              "__CPROVER_ensures(1 <= self->m_rand && self->m_rand <= MMAX - 1) "
                              "__CPROVER_ensures((0 <= ghost_g && ghost_g < vec->size) ==> (-0.5 <= vec->data[ghost_g] && vec->data[ghost_g] <= 0.5))",
                     loop_contracts={0: "__CPROVER_assigns(i, self->m_rand, g_self_steps, __CPROVER_object_whole(vec->data)) "
                                        "__CPROVER_loop_invariant(0 <= i && i <= len && g_self_steps == verif_steps0 + i) "
                                        "__CPROVER_loop_invariant(1 <= self->m_rand && self->m_rand <= MMAX - 1) "
                                        "__CPROVER_loop_invariant((0 <= ghost_g && ghost_g < i) ==> (-0.5 <= vec->data[ghost_g] && vec->data[ghost_g] <= 0.5)) "
                                        "__CPROVER_decreases(len - i)"})
    parts.append(t); report["SimpleRandom::random_vec"] = R.fired
    report["_parts"] = parts
    if report["SimpleRandom::random_vec"].get("x:random", 0) + report["SimpleRandom::random_vec"].get("x:run-direct", 0) < 1:
        raise X.ExtractionBreak("random_vec: no recognised draw in the fill loop")
    ghost = ("Index ghost_g;\nIndex g_self_steps;      /* ghost: steps taken by the state word of the SimpleRandom object under test */\nlong *g_state_ptr;       /* ghost: address of that state word */\n"
             "Scalar RandomScalar_run(long *seed);\nstatic Scalar RUN_TRACK(long *p) { if (p == g_state_ptr) g_self_steps++; return RandomScalar_run(p); }\n")
    return ghost + "\n".join(parts)


def purity_scan(report):
    """Free-identifier / hidden-state scan of next_long_rand and RandomScalar::run on the real text:
    any `static`, `thread_local`, `extern`, global, clock or address use is reported as obligation text."""
    bad = []
    helpers = [X.locate(H, nm) for nm in free_function_names() if nm != "next_long_rand"]
    for fn in [X.locate(H, "next_long_rand"), X.locate(H, "run", cls="RandomScalar"),
               X.locate(H, "run", cls="RandomScalar", key="complex"), X.locate(H, "random", cls="SimpleRandom")] + helpers:
        body = fn.body
        for kw in ("static", "thread_local", "extern", "time", "clock", "rand", "srand", "getpid", "this", "&seed",
                   "std::random_device", "chrono", "reinterpret_cast", "uintptr_t"):
            if re.search(r"(?<![\w:])%s\b" % re.escape(kw), body):
                bad.append("%s uses %s" % (fn.name, kw))
    raw, st = X.load(H)
    # namespace-scope variables in the header (anything at depth <= 1 that is a declaration with storage)
    depth = 0
    cur = []
    for ch in st:
        if ch == "{":
            depth += 1
        elif ch == "}":
            depth -= 1
        if depth <= 1:
            cur.append(ch)
    top = "".join(cur)
    for stmt in top.split(";"):
        s = " ".join(stmt.split())
        if re.match(r"^(static|extern|thread_local|inline)?\s*(unsigned |signed )?(long|int|double|float|std::atomic\S*)\s+\w+(\s*=.*)?$", s):
            bad.append("namespace-scope variable: " + s)
    report["purity_scan"] = bad
    return bad


def callsite_harness(report):
    """Seed expressions at the library's own constructor call sites, with the enclosing loop ranges
    taken from the real text."""
    sites = []
    for hdr, cls, fn in (("HermEigsBase.h", "HermEigsBase", "init"), ("GenEigsBase.h", "GenEigsBase", "init"),
                         ("GenEigsComplexShiftSolver.h", "GenEigsComplexShiftSolver", "sort_ritzpair")):
        f = X.locate(hdr, fn, cls=cls, params_re=r"^\s*$" if fn == "init" else None)
        m = re.findall(r"SimpleRandom<\s*Scalar\s*>\s+\w+\(([^;]*)\);", f.body)
        if len(m) != 1:
            raise X.ExtractionBreak("%s::%s: expected one SimpleRandom construction, found %d" % (cls, fn, len(m)))
        sites.append((cls + "::" + fn, m[0].strip(), None))
    f = X.locate("LinAlg/Arnoldi.h", "expand_basis", cls="Arnoldi")
    m = re.findall(r"SimpleRandom<\s*Scalar\s*>\s+\w+\(([^;]*)\);", f.body)
    loop = re.search(r"for\s*\(\s*Index\s+iter\s*=\s*([^;]+);\s*iter\s*<\s*([^;]+);\s*iter\+\+\s*\)", f.body)
    if len(m) != 1 or not loop:
        raise X.ExtractionBreak("Arnoldi::expand_basis: seed construction / iter loop not found")
    if not re.search(r"const\s+Index\s+seed\b", f.params):
        raise X.ExtractionBreak("Arnoldi::expand_basis: `const Index seed` parameter not found")
    seed_args = []
    for hdr, cls in (("LinAlg/Arnoldi.h", "Arnoldi"), ("LinAlg/Lanczos.h", "Lanczos")):
        g = X.locate(hdr, "factorize_from", cls=cls)
        calls = re.findall(r"expand_basis\(\s*\w+\s*,\s*([^,]+),", g.body)
        lp = re.search(r"for\s*\(\s*Index\s+i\s*=\s*from_k\s*;\s*i\s*<=\s*to_m\s*-\s*1\s*;\s*i\+\+\s*\)", g.body)
        if len(calls) != 1 or not lp:
            raise X.ExtractionBreak("%s::factorize_from: expand_basis call / i loop not found" % cls)
        seed_args.append((cls, calls[0].strip()))
    report["callsites"] = {"ctor_args": [s[:2] for s in sites] + [("Arnoldi::expand_basis", m[0].strip())],
                           "iter_loop": [loop.group(1).strip(), loop.group(2).strip()], "seed_args": seed_args}
    h = []
    for k, (where, expr, _) in enumerate(sites):
        h.append("  { SimpleRandom r; SimpleRandom_ctor(&r, (unsigned long)(%s)); "
                 "__CPROVER_assert(1 <= r.m_rand && r.m_rand <= MMAX - 1, \"callsite %s: state in [1, M-1]\"); "
                 "__CPROVER_assert((%s) == 0, \"callsite %s: seed has library form 0\"); }" % (expr, where, expr, where))
    for cls, sarg in seed_args:
        h.append("  { Index i = nondet_Index(); __CPROVER_assume(1 <= i && i < 1048576); /* from_k <= i <= to_m-1 <= ncv-1, capped */\n"
                 "    Index seed = (%s); Index iter = nondet_Index(); __CPROVER_assume((%s) <= iter && iter < (%s));\n"
                 "    SimpleRandom r; SimpleRandom_ctor(&r, (unsigned long)(%s));\n"
                 "    __CPROVER_assert(1 <= r.m_rand && r.m_rand <= MMAX - 1, \"callsite %s::factorize_from->expand_basis: state in [1, M-1]\");\n"
                 "    __CPROVER_assert(seed == 2 * i && (%s) == 2 * i + 123 * iter && 0 <= iter && iter < 5, \"callsite %s: seed has library form 2i+123j\"); }"
                 % (sarg, loop.group(1), loop.group(2), m[0].strip(), cls, m[0].strip(), cls))
    return "#line 1 \"harness/C19.callsites(generated)\"\nvoid h_callsites(void) {\n" + "\n".join(h) + "\n  CANARY();\n}\n"


H_NEXT = r'''
#line 1 "harness/C19.H_NEXT"
void h_next(void) {
  long s = nondet_long();
  __CPROVER_assume(s >= 1 && s <= MMAX - 1);
  long r = next_long_rand(s);
#ifdef DIRECT_PRODUCT
  unsigned long long p = 16807ULL * (unsigned long long)s;
#else
  /* the code's own partial products; p == 16807*s is the z3 bridging lemma (linear integer arithmetic) */
  unsigned long long L = 16807ULL * ((unsigned long long)s & 0xFFFFULL);
  unsigned long long Hh = 16807ULL * ((unsigned long long)s >> 16);
  unsigned long long p = L + (Hh << 16);
#endif
  unsigned long long q0 = p >> 31, q1 = q0 + 1, rr = (unsigned long long)r;
  __CPROVER_assert(r >= 1 && r <= MMAX - 1, "closure: next state in [1, 2^31-2]");
  __CPROVER_assert((p + q0 == (q0 << 31) + rr) || (p + q1 == (q1 << 31) + rr),
                   "Park-Miller certificate: 16807*s == q*(2^31-1) + r");
  long r2 = next_long_rand(s);
  __CPROVER_assert(r == r2, "purity: same state gives same successor (no hidden state)");
  CANARY();
}
'''

H_RUN = r'''
#line 1 "harness/C19.H_RUN"
void h_run(void) {
  long s = nondet_long();
  __CPROVER_assume(s >= 1 && s <= MMAX - 1);
  long st = s;
  Scalar x = RandomScalar_run(&st);
  __CPROVER_assert(st == next_long_rand(s), "advance: exactly one step per real draw");
  __CPROVER_assert(x >= (Scalar)-0.5 && x <= (Scalar)0.5, "range: draw in [-0.5, 0.5]");
  __CPROVER_assert(x == (Scalar)st / (Scalar)2147483647L - (Scalar)0.5, "draw is state/(2^31-1) - 0.5");
  CANARY();
}
#ifdef CPLX_HARNESS
/* callee RandomScalar<RealScalar>::run replaced by its contract, proved in group run.range+advance:
 * state' = next(state); result in [-0.5, 0.5] and a function of state' only.  The stub logs the calls. */
long log_state[4]; Scalar log_draw[4]; int log_n;
Scalar nondet_scalar(void);
Scalar RandomScalar_run(long *seed) {
  __CPROVER_assert(1 <= *seed && *seed <= MMAX - 1, "precondition of run at call site: state in [1, M-1]");
  *seed = next_long_rand(*seed);
  Scalar x = nondet_scalar();
  __CPROVER_assume(x >= (Scalar)-0.5 && x <= (Scalar)0.5);
  __CPROVER_assert(log_n < 4, "at most two real draws per complex draw");
  log_state[log_n] = *seed; log_draw[log_n] = x; log_n++;
  return x;
}
void h_run_cplx(void) {
  long s = nondet_long();
  __CPROVER_assume(s >= 1 && s <= MMAX - 1);
  long st = s;
  log_n = 0;
  Complex z = RandomScalar_cplx_run(&st);
  long s1 = next_long_rand(s), s2 = next_long_rand(s1);
  __CPROVER_assert(log_n == 2 && st == s2, "advance: exactly two steps per complex draw");
  __CPROVER_assert(log_state[0] == s1 && z.re == log_draw[0], "real part is the first draw");
  __CPROVER_assert(log_state[1] == s2 && z.im == log_draw[1], "imaginary part is the second draw");
  __CPROVER_assert(z.re >= (Scalar)-0.5 && z.re <= (Scalar)0.5 && z.im >= (Scalar)-0.5 && z.im <= (Scalar)0.5, "range: both components in [-0.5, 0.5]");
  CANARY();
}
#endif
'''

H_CTOR = r'''
#line 1 "harness/C19.H_CTOR"
void h_ctor(void) {
  unsigned long seed = nondet_ulong();
  SimpleRandom r;
  SimpleRandom_ctor(&r, seed);
  __CPROVER_assert(r.m_rand == (seed ? (long)(seed & 2147483647UL) : 1L), "ctor: m_rand = seed ? seed & (2^31-1) : 1");
  unsigned long i = nondet_ulong(), j = nondet_ulong();
  __CPROVER_assume(i < 1048576UL && j < 5UL);
  if (seed == 0 || seed == 2 * i + 123 * j)
    __CPROVER_assert(1 <= r.m_rand && r.m_rand <= MMAX - 1, "ctor: library-form seeds give a non-degenerate state");
  SimpleRandom r2;
  SimpleRandom_ctor(&r2, seed);
  __CPROVER_assert(r.m_rand == r2.m_rand, "ctor purity");
  CANARY();
}
void h_random(void) {
  SimpleRandom r; r.m_rand = nondet_long();
  __CPROVER_assume(1 <= r.m_rand && r.m_rand <= MMAX - 1);
  long s = r.m_rand;
  Scalar x = SimpleRandom_random(&r);
  __CPROVER_assert(r.m_rand == next_long_rand(s), "random(): state advanced by one Park-Miller step");
  __CPROVER_assert(x >= (Scalar)-0.5 && x <= (Scalar)0.5, "random(): in [-0.5, 0.5]");
  CANARY();
}
'''

H_VEC = r'''
#line 1 "harness/C19.H_VEC"
void h_random_vec(void) {
  SimpleRandom *r = malloc(sizeof(SimpleRandom));
  Vector *v = malloc(sizeof(Vector));
  SimpleRandom_random_vec(r, v);
  CANARY();
}
void h_next_frame(void) {
  long s = nondet_long();
  long r = next_long_rand(s);
  CANARY();
}
'''

ARCHS = {"LP64": ["--LP64"], "LLP64": ["--LLP64"], "ILP32": ["--ILP32"]}
SCAL = {"float": "SCALAR_FLOAT", "double": "SCALAR_DOUBLE", "ldouble": "SCALAR_LDOUBLE"}


def native_crosscheck(c_text, tier, report):
    """Extractor validation (not the property): the emitted C of next_long_rand, compiled natively,
    against the real C++ function; thorough = all 2^31-2 states."""
    wd = os.path.join(WORK, PROP, "native")
    os.makedirs(wd, exist_ok=True)
    body = c_text
    body = re.sub(r"__CPROVER_\w+\((?:[^()]|\((?:[^()]|\([^()]*\))*\))*\)", "", body)
    open(os.path.join(wd, "ext.c"), "w").write("#define MMAX 2147483647L\n" + body.replace("long next_long_rand", "long ext_next_long_rand"))
    n = "2147483646L" if tier == "thorough" else "3000000L"
    open(os.path.join(wd, "main.cpp"), "w").write(r'''
#include <Spectra/Util/SimpleRandom.h>
#include <cstdio>
extern "C" long ext_next_long_rand(long);
int main() { long bad = 0, cnt = 0;
  for (long s = 1; s <= %s; s++) { cnt++; if (Spectra::next_long_rand(s) != ext_next_long_rand(s)) { if (!bad) printf("MISMATCH at %%ld\n", s); bad++; } }
  long step = 2147483646L / 1000003L; for (long s = 1; s <= 2147483646L; s += step) { cnt++; if (Spectra::next_long_rand(s) != ext_next_long_rand(s)) bad++; }
  if (Spectra::next_long_rand(2147483646L) != ext_next_long_rand(2147483646L)) bad++;
  printf("checked %%ld states, %%ld mismatches\n", cnt, bad); return bad != 0; }
''' % n)
    cmd = "cd %s && gcc -O2 -c ext.c -o ext.o && g++ -O2 -std=c++11 -I%s/include -I/usr/include/eigen3 main.cpp ext.o -o xc && ./xc" % (wd, X.REPO)
    p = subprocess.run(["bash", "-c", cmd], capture_output=True, text=True, timeout=600)
    report["extractor_crosscheck"] = (p.stdout + p.stderr).strip()[-300:]
    return p.returncode == 0


def build(tier):
    report = {}
    groups = []
    ext = extracted(report)
    base = MINI_PRELUDE + ext
    # same text with the definition of RandomScalar<Scalar>::run cut out (replaced by its contract stub)
    parts = report.pop("_parts")
    base_nrun = MINI_PRELUDE + "Index ghost_g;\nIndex g_self_steps; long *g_state_ptr;\nScalar RandomScalar_run(long *seed);\nstatic Scalar RUN_TRACK(long *p) { if (p == g_state_ptr) g_self_steps++; return RandomScalar_run(p); }\n" + \
        "\n".join(p for p in parts if "Scalar RandomScalar_run(long *seed)" not in p)
    bad = purity_scan(report)
    funcs_rng = ["SimpleRandom.h:next_long_rand"]
    # 1. next: certificate, closure, purity - three data models
    for arch, fl in ARCHS.items():
        groups.append(Group("next.spec+closure+purity.%s" % arch, base + H_NEXT, "h_next", loop_contracts=False,
                            solver="kissat", arch=fl, direct=True, timeout=300, functions=funcs_rng,
                            flags=["--signed-overflow-check", "--conversion-check", "--undefined-shift-check"],
                            expect_classes=["Park-Miller certificate", "closure", "purity", "overflow"],
                            note="all s in [1, 2^31-2]; certificate uses the code's own partial products + z3 bridging lemma"))
    groups.append(Group("next.spec.direct-product.LP64", base + H_NEXT, "h_next", loop_contracts=False,
                        solver="kissat", arch=ARCHS["LP64"], direct=True, timeout=1500, defines=["DIRECT_PRODUCT"],
                        functions=funcs_rng, flags=["--signed-overflow-check"], tiers=("thorough",),
                        expect_classes=["Park-Miller certificate"],
                        note="certificate against p = 16807*s directly (no bridging lemma)"))
    groups.append(z3lemma.Z3Group("next.bridge.z3", """
(declare-const s Int) (declare-const lo Int) (declare-const hi Int)
(assert (and (>= s 1) (<= s 2147483646) (>= lo 0) (< lo 65536) (>= hi 0) (= s (+ lo (* 65536 hi)))))
(assert (not (= (* 16807 s) (+ (* 16807 lo) (* 65536 (* 16807 hi))))))
(check-sat)
""", note="16807*s == 16807*(s mod 2^16) + 2^16*(16807*(s div 2^16)); linear integer arithmetic, machine arithmetic treated as mathematical"))
    # frame: empty assigns clause enforced by dfcc
    groups.append(Group("next.frame", "#include <stdlib.h>\n" + base + H_VEC, "h_next_frame", enforce="next_long_rand", loop_contracts=False,
                        solver="cadical", functions=funcs_rng, flags=["--signed-overflow-check"],
                        expect_classes=["postcondition"],
                        note="__CPROVER_assigns() enforced: nothing visible to the caller is written"))
    # 2. draws
    scal = ["float", "double", "ldouble"]
    for sc in scal:
        for arch in (["LP64"] if tier == "quick" and sc != "double" else list(ARCHS)):
            groups.append(Group("run.range+advance.%s.%s" % (sc, arch), base + H_RUN, "h_run", loop_contracts=False,
                                solver="cadical", arch=ARCHS[arch], direct=True, defines=[SCAL[sc]],
                                functions=["SimpleRandom.h:RandomScalar<Scalar>::run"],
                                flags=["--signed-overflow-check", "--conversion-check"],
                                expect_classes=["range", "advance"]))
            groups.append(Group("run.complex.%s.%s" % (sc, arch), base_nrun + H_RUN, "h_run_cplx", loop_contracts=False,
                                solver="cadical", arch=ARCHS[arch], direct=True, defines=[SCAL[sc], "CPLX_HARNESS"],
                                functions=["SimpleRandom.h:RandomScalar<std::complex<RealScalar>>::run"],
                                flags=["--signed-overflow-check", "--conversion-check"],
                                expect_classes=["real part is the first draw", "range"],
                                note="callee run() replaced by its proved contract (logging stub)"))
    # 3. constructor / random()
    for arch in ARCHS:
        groups.append(Group("ctor.%s" % arch, base + H_CTOR, "h_ctor", loop_contracts=False, solver="cadical",
                            arch=ARCHS[arch], direct=True, functions=["SimpleRandom.h:SimpleRandom::SimpleRandom"],
                            flags=["--signed-overflow-check", "--conversion-check"], expect_classes=["ctor: m_rand", "library-form"]))
    groups.append(Group("random.LP64", base + H_CTOR, "h_random", loop_contracts=False, solver="cadical",
                        arch=ARCHS["LP64"], direct=True, functions=["SimpleRandom.h:SimpleRandom::random"],
                        flags=["--signed-overflow-check", "--conversion-check"], expect_classes=["state advanced", "in [-0.5"]))
    groups.append(Group("random_vec.loop", "#include <stdlib.h>\n" + base + H_VEC, "h_random_vec", enforce="SimpleRandom_random_vec",
                        replace=["SimpleRandom_random"], solver="cadical",
                        functions=["SimpleRandom.h:SimpleRandom::random_vec(Vector&)"],
                        expect_classes=["loop_invariant_step", "postcondition", "assigns"],
                        note="loop contract, symbolic length <= 2^20, Skolem index ghost_g"))
    # 4. call sites
    cs = callsite_harness(report)
    groups.append(Group("callsites.seed-forms", base + cs, "h_callsites", loop_contracts=False, solver="cadical",
                        arch=ARCHS["LP64"], direct=True,
                        functions=["HermEigsBase.h:init()", "GenEigsBase.h:init()", "Arnoldi.h:expand_basis", "Arnoldi.h:factorize_from",
                                   "Lanczos.h:factorize_from", "GenEigsComplexShiftSolver.h:sort_ritzpair"],
                        flags=["--signed-overflow-check", "--conversion-check"], expect_classes=["callsite"],
                        note="constructor argument expressions and loop ranges are cut from the real call sites"))
    # 5. purity scan as an obligation
    groups.append(z3lemma.StaticGroup("purity.scan", ok=not bad, detail="; ".join(bad) or
                                      "no static/thread_local/global/clock/address use in next_long_rand, RandomScalar::run, SimpleRandom::random; no namespace-scope variable in SimpleRandom.h",
                                      obligation="hidden-state scan of the real text (supporting static fact; purity itself is the CBMC obligation `purity`)"))
    k_next = [i for i, p_ in enumerate(parts) if re.search(r"\blong next_long_rand\(", p_)][0]
    okx = native_crosscheck("\n".join(parts[:k_next + 1]), tier, report)      # helper functions precede next_long_rand
    groups.append(z3lemma.StaticGroup("extractor.crosscheck", ok=okx, detail=report["extractor_crosscheck"],
                                      obligation="extractor validation: emitted C == real C++ next_long_rand natively", undecided_on_fail=True))
    meta = {
        "level": "proof",
        "trusted_base": ["cbmc 6.11.0 (goto-cc, goto-instrument dfcc)", "kissat / cadical", "z3 4.8.12 (one LIA lemma)",
                         "extractor /verif/vlib (validated natively against the real function)"],
        "assumptions": [
            "uniqueness of Euclidean division turns the certificate 16807*s = q*(2^31-1) + r, 1 <= r <= 2^31-2, into r = 16807*s mod (2^31-1) (mathematics, not machine-checked)",
            "bridging lemma p = 16807*s is proved over mathematical integers by z3 (machine arithmetic treated as mathematical; no overflow is separately proved by CBMC in 64-bit)",
            "CBMC's model of long double (x86 extended) is trusted for the long double draws",
            "float conversions/divisions are IEEE-754 round-to-nearest as modelled by CBMC",
        ],
        "not_covered": ["statistical quality of the generator (not part of the property)"],
        "extraction": report,
        "explanation": "every function of SimpleRandom.h extracted with nothing dropped; obligations over all 2^31-2 states",
    }
    return groups, meta


def replay(g, o, assigns, path):
    """Counterexample replay on the real header: the failing state s is the input."""
    from vlib.runner import last_value
    s = last_value(assigns, "s") or last_value(assigns, "seed")
    if s is None:
        s = "12345"     # obligations about the object's state (random_vec) have no scalar input in the trace: replay the sequence family at a fixed seed
    try:
        sval = int(str(s).replace("l", "").replace("u", "").replace("L", "").replace("U", ""))
    except ValueError:
        return {"reproduced": False, "why": "unparsed input %r" % s}
    wd = os.path.join(WORK, PROP, "replay")
    os.makedirs(wd, exist_ok=True)
    prog = r'''
#include <Spectra/Util/SimpleRandom.h>
#include <complex>
#include <cstdio>
int main() {
  long s = %dL; int bad = 0;
  if (s >= 1 && s <= 2147483646L) {
    long r = Spectra::next_long_rand(s);
    long want = (long)((unsigned __int128)16807 * (unsigned __int128)s %% 2147483647UL);
    printf("s=%%ld next=%%ld park_miller=%%ld\n", s, r, want);
    if (r != want) bad = 1;
    if (Spectra::next_long_rand(s) != r) bad = 1;
    long st = s; double x = Spectra::RandomScalar<double>::run(st);
    if (!(x >= -0.5 && x <= 0.5) || st != r) { printf("draw %%g state %%ld\n", x, st); bad = 1; }
    st = s; float xf = Spectra::RandomScalar<float>::run(st);
    if (!(xf >= -0.5f && xf <= 0.5f) || st != r) { printf("float draw %%g\n", (double)xf); bad = 1; }
    st = s; std::complex<double> z = Spectra::RandomScalar<std::complex<double>>::run(st);
    long s2 = Spectra::next_long_rand(r);
    if (st != s2 || z.real() != (double)r / 2147483647.0 - 0.5 || z.imag() != (double)s2 / 2147483647.0 - 0.5) { printf("complex draw order/advance\n"); bad = 1; }
  }
  Spectra::SimpleRandom<double> g((unsigned long)s);
  double d = g.random();
  if (!(d >= -0.5 && d <= 0.5)) bad = 1;
  // the object's state advances by exactly one step per element drawn, also through random_vec
  for (unsigned long seed : {(unsigned long)(s > 0 ? s : 1), 1UL, 2147483646UL, 7UL}) for (int len : {1, 2, 5}) {
    Spectra::SimpleRandom<double> a(seed), b(seed); Eigen::VectorXd v(len); a.random_vec(v);
    for (int i = 0; i < len; i++) { double w = b.random(); if (v[i] != w) { printf("random_vec element %%d differs from the %%d-th draw\n", i, i); bad = 1; } }
    double na = a.random(), nb = b.random();
    if (na != nb) { printf("seed %%lu len %%d: the draw after random_vec is %%g, the Park-Miller continuation is %%g (state not advanced by len steps)\n", seed, len, na, nb); bad = 1; }
    Eigen::VectorXd w2 = a.random_vec(len); for (int i = 0; i < len; i++) { double w = b.random(); if (w2[i] != w) { printf("random_vec(len) element %%d differs\n", i); bad = 1; } }
  }
  printf(bad ? "REPRODUCED\n" : "not reproduced\n");
  return bad;
}
''' % sval
    open(os.path.join(wd, "replay.cpp"), "w").write(prog)
    p = subprocess.run(["bash", "-c", "cd %s && g++ -O1 -std=c++11 -I%s/include -I/usr/include/eigen3 replay.cpp -o rp && ./rp" % (wd, X.REPO)],
                       capture_output=True, text=True, timeout=300)
    return {"reproduced": p.returncode == 1 and "REPRODUCED" in p.stdout, "input": {"s": sval}, "program": prog,
            "output": (p.stdout + p.stderr)[-1500:]}


MANIFEST = {
    "category": "proof",
    "text": "Unbounded proof over all 2^31-2 generator states and all 64-bit seeds: every function of SimpleRandom.h is extracted with nothing dropped and verified by CBMC against the Park-Miller certificate, closure, purity, draw range/order, constructor normalisation and the library's call-site seed forms, under LP64, LLP64 and ILP32. random_vec advances the OBJECT's state by exactly one step per element (ghost step counter on the state word). Third session: free helper functions called by next_long_rand are extracted and verified with it.",
    "note": "trusted: CBMC 6.11 + kissat/cadical, z3 (one linear-integer bridging lemma, mathematical integers), the extractor "
            "(cross-checked natively against the real function), CBMC's long double model; Euclidean-division uniqueness is a stated mathematical step",
    "technique": "CBMC code contracts / full-domain loop-free harnesses on mechanically extracted C (SAT: kissat, cadical; z3 lemma)",
}
