"""C06 - results depend only on arguments (contract-expressible part, see DESIGN.md section 3)."""
from props import skelgroups as SG

PROP = "C06"
FAMILIES = ["herm", "gen"]


def build(tier):
    report = {}
    from props import skel
    from vlib import z3lemma
    from vlib.extract import ExtractionBreak
    try:
        groups = SG.select(PROP, FAMILIES, report)
    except ExtractionBreak as e:
        # the skeleton cannot be extracted any more: that part is UNDECIDED, the static obligations below still decide
        groups = [z3lemma.StaticGroup("skeleton.extraction", ok=False, detail=str(e), obligation="extraction of the solver skeleton", undecided_on_fail=True)]
    groups.append(skel.init_coverage(report))
    # state carried by the stock shift-solve operators across set_shift() calls: the BKLDLT factorization object is re-used, so compute() must rebuild
    # everything it owns from an ARBITRARY prior state (groups shared with C10)
    try:
        from props import C10
        have = set(g.name for g in groups)
        groups += [g for g in C10.build(tier)[0] if g.name in ("bk.compute", "bk.compress_permutation") and g.name not in have]
    except ExtractionBreak as e:
        groups.append(z3lemma.StaticGroup("bkldlt.extraction", ok=False, detail=str(e), obligation="extraction of BKLDLT::compute", undecided_on_fail=True))

    # cached singular vectors of the partial SVD: state of an earlier run must not leak into the next one (groups shared with C16)
    try:
        from props import C16
        have = set(g.name for g in groups)
        groups += [g for g in C16.build(tier)[0] if g.name in ("svd.cache.coverage", "svd.compute", "svd.matrix_U", "svd.matrix_V", "svd.extraction") and g.name not in have]
    except ExtractionBreak as e:
        groups.append(z3lemma.StaticGroup("svd.extraction", ok=False, detail=str(e), obligation="extraction of PartialSVDSolver", undecided_on_fail=True))

    meta = {"level": "proof", "trusted_base": SG.TRUSTED, "assumptions": SG.ASSUMPTIONS, "extraction": report,
            "not_covered": ['bit-level determinism of Eigen kernels and of the operator (assumed)'],
            "explanation": 'init() re-creates every datum compute() can read, from an arbitrary object state'}
    return groups, meta


def replay(g, o, assigns, path):
    """Skeleton counterexamples are paths, not inputs: the replay searches the structured family of real inputs/histories of
    replay_src/solver_replay.cpp (mode 'history') on the REAL solvers."""
    from vlib import replay as RP
    if g.name.startswith("svd."):
        return RP.run_native(PROP, RP.src("C16_svd_replay.cpp"), args=[1], timeout=900)
    if g.name.startswith("bk."):
        return RP.run_native(PROP, RP.src("C10_bkldlt_replay.cpp"), timeout=900)
    if "cshift" in g.name and "exceptional exit" in (o.get("desc") or ""):
        r0 = RP.run_native(PROP, RP.src("C14_cshift_exc_replay.cpp"), timeout=900, name="replay_cshift")
        if r0.get("reproduced"):
            return r0
    r = RP.run_native(PROP, RP.src("solver_replay.cpp"), args=["history"], timeout=900)
    if not r.get("reproduced"):
        r2 = RP.run_native(PROP, RP.src("C02_cshift_pairs_replay.cpp"), args=[2], timeout=600, name="replay2")
        if r2.get("reproduced"):
            return r2
    return r


MANIFEST = {
    "category": "proof",
    "text": 'Proof on the extracted skeleton: from ANY object state (arbitrary buffer sizes, counters, flags, factorization) init(v) establishes the canonical state - buffers re-sized, flags cleared, counters zeroed, step-1 factorization stamped with this init - and compute() reads only data stamped at or after that init; hence init(v);compute(args) is a function of (operator, nev, ncv, v, args) under the stated determinism assumption on Eigen and the operator. BKLDLT::compute and compress_permutation (state re-used by the stock shift-solve operators across set_shift calls) are proved from an arbitrary prior state in the same check. Since the second session the operator-shift clause also covers exceptional exits of the complex-shift root selection (F16) and the partial SVD cache groups (svd.compute / matrix_U / matrix_V: vectors of an earlier run are never returned) are part of this check.',
    "note": 'floating-point values of Eigen expressions are havocked (lossy extraction, every abstracted statement listed in the evidence); callee contracts are generated stubs sharing clause texts with the enforcing harness; std::sort/Eigen/operator contracts assumed; Skolem instantiation meta-rule',
    "technique": "CBMC dfcc frame contracts + loop contracts + harness-asserted postconditions on mechanically extracted C (cadical)",
}
