"""C10 - Bunch-Kaufman LDLT: status protocol, permutation well-formedness, index safety of the solves."""
import re

from vlib import extract as X
from vlib import cgen
from vlib.runner import Group
from vlib.spec import FSpec
from vlib import z3lemma
from vlib import common

PROP = "C10"
BH = "LinAlg/BKLDLT.h"
MEM = ["m_n", "m_data", "m_colptr", "m_perm", "m_permc", "m_computed", "m_info"]

TYPES = r'''
#include "skel.h"
typedef struct { Index first, second; } IndexPair;
typedef struct {
  Index m_n;
  Index *m_perm;  Index perm_size;            /* IntVector */
  IndexPair *m_permc; Index permc_size, permc_cap;   /* std::vector<std::pair<Index, Index>> */
  _Bool m_computed; CompInfo m_info;
  /* ghost */
  Index *kind;            /* block kind per position: 0 = 1x1 pivot, 1 = first row of a 2x2 pivot, 2 = second row */
  _Bool g_singular;       /* a pivot test `== 0` fired during this compute() */
  Index packed_size;      /* size of m_data set by compute() */
} BK;
Index g_q;                /* Skolem position */
/* packed lower-triangular storage seen through m_colptr[j] as a column segment of length n - j:
 * coeff(i, j) = m_colptr[j][i - j] is in bounds iff 0 <= j <= i < n */
#define COEFF_CHECK(B, i, j) __CPROVER_assert(0 <= (j) && (j) <= (i) && (i) < (B)->m_n, "packed storage: coeff(i, j) needs 0 <= j <= i < n")
#define COEFFPTR_CHECK(B, i, j, len) __CPROVER_assert(0 <= (j) && (j) <= (i) && (len) >= 0 && (i) + (len) <= (B)->m_n, "packed storage: &coeff(i, j) mapped over len entries stays inside column j")
#define WF_AT(B, e) ( !(0 <= (e) && (e) < (B)->m_n) || ( \
    ((B)->kind[e] == 0 || (B)->kind[e] == 1 || (B)->kind[e] == 2) && (((B)->kind[e] == 0) == ((B)->m_perm[e] >= 0)) && \
    ((B)->kind[e] != 1 || ((e) + 1 < (B)->m_n && (B)->kind[(e) + 1] == 2)) && ((B)->kind[e] != 2 || ((e) >= 1 && (B)->kind[(e) - 1] == 1)) && \
    (((B)->m_perm[e] >= 0) ? ((B)->m_perm[e] < (B)->m_n) : ((B)->m_perm[e] >= -(B)->m_n)) ) )
/* forall-elimination of the proved well-formedness postcondition of compute() at a use-site index */
#define INSTANTIATE_WF(B, e) __CPROVER_assume(WF_AT(B, e))
/* forall-elimination of the loop invariant "positions lo..n-1 still hold the identity record" (proved for the Skolem position g_q) at index e */
#define INSTANTIATE_IDENT(B, lo, e) __CPROVER_assume(!((lo) <= (e) && (e) < (B)->m_n) || (B)->m_perm[e] == (e))
'''

CALLEES = r'''
/* pivoting / elimination kernels (raw-pointer code: bounded stand-ins in C13/C10 kernels); contracts used here */
static _Bool permutate_mat(BK *B, Index k, Scalar alpha)
{
  __CPROVER_assert(0 <= k && k < B->m_n - 1, "permutate_mat precondition: k < n - 1 (a sub-column exists)");
  __CPROVER_assert(B->m_perm[k] == k, "permutate_mat precondition: position k still holds the identity record (permutate_mat does not write it when no interchange is needed)");
  if (nondet_bool()) { Index r = nondet_Index(); __CPROVER_assume(k <= r && r < B->m_n); B->m_perm[k] = r; return 1; }
  { Index r = nondet_Index(), p = nondet_Index(); __CPROVER_assume(k + 1 <= r && r < B->m_n && k <= p && p < B->m_n);
    B->m_perm[k] = -p - 1; B->m_perm[k + 1] = -r - 1; return 0; }
}
static CompInfo gaussian_elimination_1x1(BK *B, Index k)
{ __CPROVER_assert(0 <= k && k < B->m_n, "gaussian_elimination_1x1 precondition: k < n");
  if (nondet_bool()) { B->g_singular = 1; return CompInfo_NumericalIssue; } return CompInfo_Successful; }
static CompInfo gaussian_elimination_2x2(BK *B, Index k)
{ __CPROVER_assert(0 <= k && k + 1 < B->m_n, "gaussian_elimination_2x2 precondition: k + 1 < n");
  if (nondet_bool()) { B->g_singular = 1; return CompInfo_NumericalIssue; } return CompInfo_Successful; }
static void compute_pointer(BK *B) { }
static void copy_data(BK *B, int uplo, Scalar shift) { (void)uplo; (void)shift; }
static Scalar DIAG_REAL(BK *B, Index k) { COEFF_CHECK(B, k, k); return nondet_Scalar(); }
'''


def f_compute(report):
    f = X.locate(BH, "compute", cls="BKLDLT")
    spec = FSpec("bk_compute", "void", [("BK *", "B"), ("Index", "rows"), ("Index", "cols"), ("int", "uplo"), ("Scalar", "shift")],
                 pre=[("matrix shape", "0 <= rows && rows <= 1024 && 0 <= cols && cols <= 1024"), ("Skolem position bounded", "-4 <= g_q && g_q <= 4096"),
                      ("object in ANY prior state (fresh, or after an earlier factorization that succeeded or failed)", "B->m_perm != NULL && B->kind != NULL && B->m_permc != NULL && 0 <= B->permc_size && B->permc_size <= B->permc_cap")],
                 post=[("status after compute() is Successful or NumericalIssue - never NotComputed, never left over from an earlier call",
                        "B->m_info == CompInfo_Successful || B->m_info == CompInfo_NumericalIssue"),
                       ("NumericalIssue is reported exactly when a singular pivot block was met", "(B->m_info == CompInfo_NumericalIssue) == B->g_singular"),
                       ("factorization marked computed, dimension recorded", "B->m_computed && B->m_n == rows"),
                       ("permutation record has one entry per row", "B->perm_size == rows"),
                       ("the pivot record is well formed at every position (also after a reported singularity): non-negative entry <=> 1x1 pivot; negative entries come in adjacent pairs; targets in range",
                        "WF_AT(B, g_q)"),
                       ("compressed permutation starts from empty: entries of an earlier factorization are not kept", "B->permc_size <= rows"),
                       ("packed storage sized n(n+1)/2", "B->packed_size == rows * (rows + 1) / 2")],
                 exc_post=[("non-square input -> invalid_argument", "rows != cols && verif_exc == EXC_invalid_argument")],
                 frame=["B->m_n", "B->m_perm", "B->perm_size", "B->permc_size", "B->m_computed", "B->m_info", "B->g_singular", "B->packed_size", "B->kind"],
                 frame_objs=["B->m_permc"], may_throw=[1], real=BH + ":compute")
    pre = [("rows", r"m_n = mat\.rows\(\);", "m_n = rows; B->g_singular = 0;", {"max": 1}),
           ("cols", r"mat\.cols\(\)", "cols", {"max": 1}),
           ("linspaced", r"m_perm\.setLinSpaced\(m_n, 0, m_n - 1\);", "B->m_perm = IVEC_NEW(m_n); B->perm_size = m_n; B->kind = IVEC_NEW(m_n); if (0 <= g_q && g_q < m_n) { B->m_perm[g_q] = g_q; B->kind[g_q] = 0; } "
            "if (0 <= g_q + 1 && g_q + 1 < m_n) { B->m_perm[g_q + 1] = g_q + 1; B->kind[g_q + 1] = 0; } if (0 <= g_q - 1 && g_q - 1 < m_n) { B->m_perm[g_q - 1] = g_q - 1; B->kind[g_q - 1] = 0; }", {"max": 1}),
           ("permc-clear", r"m_permc\.clear\(\);", "B->permc_size = 0;", {"min": 0, "max": 1}),
           ("permc-reserve", r"m_permc\.reserve\(m_n\);", "/* reserve */", {"min": 0, "max": 1}),
           ("data-resize", r"m_data\.resize\(([^;]+)\);", r"B->packed_size = (\1);", {"max": 1}),
           ("data-size", r"m_data\.size\(\)", "B->packed_size", {"min": 0}),
           ("perm-size", r"m_perm\.size\(\)", "B->perm_size", {"min": 0}),
           ("alpha", r"const RealScalar alpha = \(1\.0 \+ std::sqrt\(17\.0\)\) / 8\.0;", "const Scalar alpha = (Scalar)0.6403882032022076;", {"max": 1}),
           ("copy_data", r"copy_data\(mat, uplo, shift\);", "copy_data(B, uplo, shift);", {"max": 1}),
           ("compute_pointer", r"(?<![\w>])compute_pointer\(\);", "compute_pointer(B);", {"max": 1}),
           ("permutate", r"permutate_mat\(k, alpha\)", "(INSTANTIATE_IDENT(B, k, k), permutate_mat(B, k, alpha))", {"max": 1}),
           ("ge1", r"m_info = gaussian_elimination_1x1\(k\);", "m_info = gaussian_elimination_1x1(B, k); B->kind[k] = 0;", {"max": 1}),
           ("ge2", r"m_info = gaussian_elimination_2x2\(k\);", "m_info = gaussian_elimination_2x2(B, k); B->kind[k] = 1; B->kind[k + 1] = 2;", {"max": 1}),
           ("last-akk", r"const Scalar akk = ScalarOp<Scalar>::real\(diag_coeff\(k\)\);\s*diag_coeff\(k\) = akk;", "const Scalar akk = DIAG_REAL(B, k); if (B->m_perm[k] >= 0) B->kind[k] = 0;", {"max": 1}),
           ("last-test", r"if \((akk == Scalar\(0\)|Scalar\(0\) == akk)\)\s*(\{?)\s*m_info = CompInfo::NumericalIssue;", r"if (\1) \2 { m_info = CompInfo::NumericalIssue; B->g_singular = 1; }", {"max": 1}),
           ("compress", r"(?<![\w>])compress_permutation\(\);", "compress_permutation(B);", {"max": 1})]
    inv = ("__CPROVER_assigns(k, B->m_info, B->g_singular, __CPROVER_object_whole(B->m_perm), __CPROVER_object_whole(B->kind)) "
           "__CPROVER_loop_invariant(0 <= k && k <= B->m_n && B->m_n == rows && B->perm_size == rows) "
           "__CPROVER_loop_invariant(B->m_info == CompInfo_Successful && !B->g_singular) "
           "__CPROVER_loop_invariant(!(0 <= g_q && g_q < k) || WF_AT(B, g_q)) "
           "__CPROVER_loop_invariant(!(0 <= g_q && g_q < k && g_q + 1 == k) || B->kind[g_q] != 1) "
           "__CPROVER_loop_invariant(!(k <= g_q && g_q < B->m_n) || (B->m_perm[g_q] == g_q && B->kind[g_q] == 0)) "
           "__CPROVER_loop_invariant(!(k <= g_q + 1 && g_q + 1 < B->m_n) || (B->m_perm[g_q + 1] == g_q + 1 && B->kind[g_q + 1] == 0)) "
           "__CPROVER_loop_invariant(!(k <= g_q - 1 && g_q - 1 < B->m_n && g_q >= 1) || (B->m_perm[g_q - 1] == g_q - 1 && B->kind[g_q - 1] == 0)) "
           "__CPROVER_loop_invariant(!(0 <= g_q - 1 && g_q - 1 < k && g_q == k) || B->kind[g_q - 1] != 1) "
           "__CPROVER_decreases(B->m_n - k)")
    t, R = cgen.emit(f, "bk_compute", ret_c="void", self_type="BK", self_name="B", members=MEM,
                     param_types={"mat": "Index", "uplo": "int", "shift": "Scalar"}, pre_rules=pre, loop_contracts={0: inv},
                     contract=spec.frame_contract(), maythrow=[])
    t = t.replace("Index mat, int uplo", "Index rows, Index cols, int uplo")
    report["BKLDLT::compute"] = R.fired
    return t, spec


def f_compress(report):
    f = X.locate(BH, "compress_permutation", cls="BKLDLT")
    spec = FSpec("compress_permutation", "void", [("BK *", "B")],
                 pre=[("perm has n entries, compressed list has room for n more", "0 <= B->m_n && B->m_n <= 1024 && B->perm_size == B->m_n && VEC_SIZE(B->m_perm) == B->m_n && 0 <= B->permc_size && B->permc_size + B->m_n <= B->permc_cap && VEC_SIZE(B->m_permc) == B->permc_cap")],
                 post=[("at most one swap per row is appended", "old_size <= B->permc_size && B->permc_size <= old_size + B->m_n"),
                       ("appended swaps have both positions in [0, n)", "!(old_size <= g_q && g_q < B->permc_size) || (0 <= B->m_permc[g_q].first && B->m_permc[g_q].first < B->m_n && 0 <= B->m_permc[g_q].second && B->m_permc[g_q].second < B->m_n)")],
                 frame=["B->permc_size"], frame_objs=["B->m_permc"], olds=[("Index", "old_size", "B->permc_size")], real=BH + ":compress_permutation")
    t, R = cgen.emit(f, "compress_permutation", ret_c="void", self_type="BK", self_name="B", members=MEM,
                     pre_rules=[("wf", r"const Index perm = ", "INSTANTIATE_WF(B, i); const Index perm = ", {"max": 1})],
                     extra_rules=[("push", r"B->m_permc\.push_back\(std::make_pair\((\w+), (\w+)\)\);",
                                   r"{ __CPROVER_assert(B->permc_size < B->permc_cap, @Q@push_back within modelled capacity@Q@); B->m_permc[B->permc_size].first = \1; B->m_permc[B->permc_size].second = \2; B->permc_size++; }", {"max": 1})],
                     loop_contracts={0: "__CPROVER_assigns(i, B->permc_size, __CPROVER_object_whole(B->m_permc)) __CPROVER_loop_invariant(0 <= i && i <= B->m_n && old_l <= B->permc_size && B->permc_size <= old_l + i) "
                                        "__CPROVER_loop_invariant(!(old_l <= g_q && g_q < B->permc_size) || (0 <= B->m_permc[g_q].first && B->m_permc[g_q].first < B->m_n && 0 <= B->m_permc[g_q].second && B->m_permc[g_q].second < B->m_n)) __CPROVER_decreases(B->m_n - i)"},
                     contract=spec.frame_contract(), pre_body=" const Index old_l = B->permc_size;")
    report["BKLDLT::compress_permutation"] = R.fired
    return t, spec


def f_solve(report):
    """solve_inplace: index safety of the four sweeps given the well-formedness established by compute()."""
    f = X.locate(BH, "solve_inplace", cls="BKLDLT")
    spec = FSpec("solve_inplace", "void", [("BK *", "B"), ("Scalar *", "b")],
                 pre=[("n >= 1, right-hand side has n entries", "1 <= B->m_n && B->m_n <= 1024 && VEC_SIZE(b) == B->m_n && B->perm_size == B->m_n && VEC_SIZE(B->m_perm) == B->m_n && VEC_SIZE(B->kind) == B->m_n"),
                      ("compressed permutation entries in range (established by compress_permutation from a well-formed record)",
                       "0 <= B->permc_size && B->permc_size <= VEC_SIZE(B->m_permc) && (!(0 <= g_q && g_q < B->permc_size) || (0 <= B->m_permc[g_q].first && B->m_permc[g_q].first < B->m_n && 0 <= B->m_permc[g_q].second && B->m_permc[g_q].second < B->m_n))")],
                 post=[], exc_post=[("not computed -> logic_error", "!B->m_computed && verif_exc == EXC_logic_error")], frame=[], frame_objs=["b"], may_throw=[3],
                 real=BH + ":solve_inplace")
    pre = [("x", r"Scalar\* x = b\.data\(\);", "Scalar *x = b;", {"max": 1}),
           ("res", r"MapVec res\(x, m_n\);", "", {"max": 1}),
           ("npermc", r"Index npermc = m_permc\.size\(\);", "Index npermc = B->permc_size;", {"max": 1}),
           ("swap", r"std::swap\(x\[m_permc\[i\]\.first\], x\[m_permc\[i\]\.second\]\);",
            "{ __CPROVER_assume(0 <= B->m_permc[i].first && B->m_permc[i].first < B->m_n && 0 <= B->m_permc[i].second && B->m_permc[i].second < B->m_n); /* INSTANTIATE permc range at i */ "
            "Scalar t_ = x[B->m_permc[i].first]; x[B->m_permc[i].first] = x[B->m_permc[i].second]; x[B->m_permc[i].second] = t_; }", {"min": 2, "max": 2}),
           ("fwd-1x1", r"MapConstVec l\(&coeff\(i \+ 1, i\), b1size\);\s*res\.segment\(i \+ 1, b1size\)\.noalias\(\) -= l \* x\[i\];",
            "COEFFPTR_CHECK(B, i + 1, i, b1size); SEGX_CHECK(B, i + 1, b1size); (void)x[i]; HAVOC_VEC(x);", {"max": 1}),
           ("fwd-2x2", r"MapConstVec l1\(&coeff\(i \+ 2, i\), b2size\);\s*MapConstVec l2\(&coeff\(i \+ 2, i \+ 1\), b2size\);\s*res\.segment\(i \+ 2, b2size\)\.noalias\(\) -= \(l1 \* x\[i\] \+ l2 \* x\[i \+ 1\]\);",
            "COEFFPTR_CHECK(B, i + 2, i, b2size); COEFFPTR_CHECK(B, i + 2, i + 1, b2size); SEGX_CHECK(B, i + 2, b2size); (void)x[i]; (void)x[i + 1]; HAVOC_VEC(x);", {"max": 1}),
           ("diag1", r"const Scalar e11 = diag_coeff\(i\);", "COEFF_CHECK(B, i, i); const Scalar e11 = nondet_Scalar();", {"max": 1}),
           ("diag2", r"const Scalar e21 = coeff\(i \+ 1, i\), e22 = diag_coeff\(i \+ 1\);", "COEFF_CHECK(B, i + 1, i); COEFF_CHECK(B, i + 1, i + 1); const Scalar e21 = nondet_Scalar(), e22 = nondet_Scalar();", {"max": 1}),
           ("solve2x2", r"solve_inplace_2x2\(e11, e21, e22, x\[i\], x\[i \+ 1\]\);", "x[i] = nondet_Scalar(); x[i + 1] = nondet_Scalar();", {"max": 1}),
           ("bwd-1", r"MapConstVec l\(&coeff\(i \+ 1, i\), ldim\);\s*x\[i\] -= l\.dot\(res\.segment\(i \+ 1, ldim\)\);",
            "COEFFPTR_CHECK(B, i + 1, i, ldim); SEGX_CHECK(B, i + 1, ldim); x[i] = nondet_Scalar();", {"max": 1}),
           ("bwd-2", r"MapConstVec l2\(&coeff\(i \+ 1, i - 1\), ldim\);\s*x\[i - 1\] -= l2\.dot\(res\.segment\(i \+ 1, ldim\)\);",
            "COEFFPTR_CHECK(B, i + 1, i - 1, ldim); SEGX_CHECK(B, i + 1, ldim); x[i - 1] = nondet_Scalar();", {"max": 1}),
           ("perm-read", r"\bm_perm\[(m_n - 1|i)\]", r"WFPERM(B, \1)", {"min": 5})]
    WFQ = "__CPROVER_assume(WF_AT(B, i)); "
    loops = {
        0: "__CPROVER_assigns(i, __CPROVER_object_whole(x)) __CPROVER_loop_invariant(0 <= i && i <= npermc) __CPROVER_decreases(npermc - i)",
        1: "__CPROVER_assigns(i, __CPROVER_object_whole(x)) __CPROVER_loop_invariant(0 <= i && i <= end + 1 + 1 && i <= B->m_n && BLOCK_START(B, i)) __CPROVER_decreases(B->m_n - i)",
        2: "__CPROVER_assigns(i, __CPROVER_object_whole(x)) __CPROVER_loop_invariant(0 <= i && i <= B->m_n + 1 && (i >= B->m_n || BLOCK_START(B, i)) && i <= B->m_n) __CPROVER_decreases(B->m_n - i)",
        3: "__CPROVER_assigns(i, __CPROVER_object_whole(x)) __CPROVER_loop_invariant(-1 <= i && i <= B->m_n - 2 && BLOCK_END(B, i)) __CPROVER_decreases(i + 1)",
        4: "__CPROVER_assigns(i, __CPROVER_object_whole(x)) __CPROVER_loop_invariant(-1 <= i && i <= npermc - 1) __CPROVER_decreases(i + 1)",
    }
    t, R = cgen.emit(f, "solve_inplace", ret_c="void", self_type="BK", self_name="B", members=MEM, param_types={"b": "Scalar *"},
                     pre_rules=pre, loop_contracts=loops, contract=spec.frame_contract())
    report["BKLDLT::solve_inplace"] = R.fired
    return t, spec


SOLVE_DEFS = r'''
#define SEGX_CHECK(B, start, len) __CPROVER_assert(0 <= (start) && (len) >= 0 && (start) + (len) <= (B)->m_n, "Eigen block assertion: res.segment(start, len) inside the right-hand side")
/* m_perm[e] read with the well-formedness fact instantiated at e (and its neighbours) */
static Index WFPERM_f(BK *B, Index e) { INSTANTIATE_WF(B, e); INSTANTIATE_WF(B, e - 1); INSTANTIATE_WF(B, e + 1); INSTANTIATE_WF(B, e + 2); INSTANTIATE_WF(B, e - 2); return B->m_perm[e]; }
#define WFPERM(B, e) WFPERM_f(B, e)
#define BLOCK_START(B, i) (!(0 <= (i) && (i) < (B)->m_n) || (B)->kind[i] != 2)
#define BLOCK_END(B, i) (!(0 <= (i) && (i) < (B)->m_n) || (B)->kind[i] != 1)
'''


def build(tier):
    report = {}
    enumdefs = common.enum_defines("Util/CompInfo.h", "CompInfo")
    mem = X.members(BH, "BKLDLT")
    if mem != MEM:
        raise X.ExtractionBreak("BKLDLT members changed: %r" % mem)
    base = TYPES + enumdefs
    groups = []
    tc, sc = f_compress(report)
    t, s = f_compute(report)
    alloc = ("  BK Bv; BK *B = &Bv; B->m_n = nondet_Index(); B->perm_size = nondet_Index(); __CPROVER_assume(0 <= B->perm_size && B->perm_size <= 1024); B->m_perm = IVEC_NEW(B->perm_size); B->kind = IVEC_NEW(B->perm_size); B->permc_cap = 4096; B->m_permc = malloc(4096 * sizeof(IndexPair)); __CPROVER_assume(B->m_permc != NULL);\n"
             "  B->permc_size = nondet_Index(); B->m_computed = nondet_bool(); B->m_info = nondet_int(); B->g_singular = nondet_bool(); B->packed_size = nondet_Index();\n"
             "  __CPROVER_assume(0 <= B->permc_size && B->permc_size <= 1024);\n")
    groups.append(Group("bk.compute", base + CALLEES + sc.stub() + t + s.harness("h", alloc + "  Index rows = nondet_Index(), cols = nondet_Index(); int uplo = nondet_int(); Scalar shift = nondet_Scalar();", "B, rows, cols, uplo, shift"),
                        "h", enforce="bk_compute", solver="cadical", defines=["SCALAR_DOUBLE"], timeout=600, functions=[BH + ":compute"], expect_classes=["loop_invariant_step", "assigns"],
                        note="from ANY prior object state; pivoting/elimination kernels replaced by their contracts; n <= 1024 (cap for packed-size arithmetic)"))
    alloc2 = ("  BK Bv; BK *B = &Bv; B->m_n = nondet_Index(); __CPROVER_assume(0 <= B->m_n && B->m_n <= 1024); B->perm_size = B->m_n; B->m_perm = IVEC_NEW(B->m_n); B->kind = IVEC_NEW(B->m_n);\n"
              "  B->permc_cap = nondet_Index(); __CPROVER_assume(0 <= B->permc_cap && B->permc_cap <= 4096); B->m_permc = malloc(B->permc_cap * sizeof(IndexPair)); __CPROVER_assume(B->m_permc != NULL);\n"
              "  B->permc_size = nondet_Index(); __CPROVER_assume(0 <= B->permc_size && B->permc_size <= B->permc_cap); B->m_computed = nondet_bool(); B->m_info = nondet_int();\n")
    groups.append(Group("bk.compress_permutation", base + tc + sc.harness("h", alloc2, "B"), "h", enforce="compress_permutation", solver="cadical", defines=["SCALAR_DOUBLE"],
                        functions=[BH + ":compress_permutation"], expect_classes=["loop_invariant_step"]))
    ts, ss = f_solve(report)
    groups.append(Group("bk.solve_inplace", base + SOLVE_DEFS + ts + ss.harness("h", alloc2 + "  Scalar *b = VEC_NEW(nondet_Index() < 0 ? 0 : B->m_n);", "B, b"), "h", enforce="solve_inplace",
                        solver="cadical", defines=["SCALAR_DOUBLE"], timeout=600, functions=[BH + ":solve_inplace"], expect_classes=["loop_invariant_step", "packed storage"],
                        note="index safety of the permuted forward / diagonal / backward sweeps for every n >= 1 and every well-formed pivot record"))
    # wrappers turn a non-Successful status into invalid_argument
    ok = []
    bad = []
    for hdr, cls, pat in (("MatOp/DenseSymShiftSolve.h", "DenseSymShiftSolve", r"m_solver\.compute\(m_mat, Uplo, sigma\);\s*if \(m_solver\.info\(\) != CompInfo::Successful\)\s*throw std::invalid_argument\("),
                          ("MatOp/SymShiftInvert.h", "SymShiftInvert", r"if \(!success\)\s*throw std::invalid_argument\(")):
        raw, st = X.load(hdr)
        (ok if re.search(pat, raw) else bad).append(cls)
    raw, st = X.load("MatOp/SymShiftInvert.h")
    if len(re.findall(r"return fac\.info\(\) == CompInfo::Successful;", raw)) < 2:
        bad.append("SymShiftInvert::factorize no longer returns info()==Successful")
    groups.append(z3lemma.StaticGroup("wrappers.status-to-exception", ok=not bad, detail=("missing in: " + ", ".join(bad)) if bad else "set_shift of %s throws invalid_argument unless info()==Successful" % ", ".join(ok),
                                      obligation="the dense shift-solve wrappers turn a non-Successful factorization status into invalid_argument"))
    from props import kernels
    groups += kernels.bkldlt_groups(tier, report)
    from props import bk2x2
    groups += bk2x2.lemmas(report)
    from props import guards
    groups += guards.groups(PROP, report)
    meta = {"level": "proof", "trusted_base": ["cbmc 6.11.0 dfcc", "cadical", "extractor"],
            "assumptions": ["permutate_mat's contract stubbed in bk.compute (incl. its precondition: position k still holds the identity record) is PROVED for every n on the packed-cursor model "
                            "(bkldlt.pivoting.unbounded: pointers into the packed storage are (column, offset) pairs, values not modelled) and re-checked with real pointer arithmetic at concrete n (bkldlt.kernels.*, BOUNDED); "
                            "gaussian_elimination_1x1 / _2x2: index safety proved for every n on the packed-cursor model (bkldlt.ge*.unbounded); the exact-singularity decision (NumericalIssue <=> pivot block exactly singular) needs values and is "
                            "checked on the real bodies only as a BOUNDED stand-in (bkldlt.ge*.n<N>); copy_data: provenance (which entry, conjugated or not, written once, shifted once) proved for every n on the packed-cursor model "
                            "(bkldlt.copy_data.unbounded.*), re-checked bit-exactly with real pointer arithmetic and an uninterpreted conj at concrete n (bkldlt.copy_data.n<N>.*, BOUNDED)",
                            "in the bounded elimination kernels mapped-vector updates lose their values (extent checked against the addressed column); the VALUES of solve_inplace_2x2 / solve_left_2x2 are decided separately as algebraic identities over the complex field (bkldlt.solve_*_2x2.*: z3, real closed field, machine arithmetic treated as mathematical, divisors assumed non-zero); "
                            "the two products of the 2x2 determinant test are an uninterpreted function on both sides; conj() in copy_data is an uninterpreted function (generic scalar), real()/conj() are the identity in the other kernels (real instantiation)",
                            "packed storage is seen through m_colptr[j] as column segments of length n - j (layout by compute_pointer is a bounded check)",
                            "floating-point values are not modelled: NumericalIssue may be reported at any pivot (nondeterministic `== 0` tests)",
                            "Skolem instantiation meta-rule (INSTANTIATE_WF)", "n <= 1024 only to keep n(n+1)/2 inside machine integers"],
            "not_covered": ["residual bound c*n*eps*(||A - sigma I|| ||x|| + ||b||)", "agreement of lower/upper results to rounding beyond copy_data (the two triangles of a Hermitian matrix give the same packed entries: bounded check)"],
            "extraction": report, "explanation": "status / permutation protocol and index safety"}
    return groups, meta


def replay(g, o, assigns, path):
    from vlib import replay as RP
    return RP.run_native(PROP, RP.src("C10_bkldlt_replay.cpp"))


MANIFEST = {
    "category": "proof",
    "text": "Unbounded proof (every n, every pivot sequence, object in ANY prior state) on the extracted BKLDLT::compute skeleton: info() is Successful or NumericalIssue after compute(), NumericalIssue exactly when a singular pivot block was met (incl. the trailing 1x1 block and n == 1), the compressed permutation is rebuilt from empty, the pivot record is well formed (negative entries exactly in adjacent pairs, targets in range); solve_inplace's four permuted sweeps are index-safe for every n >= 1 given that record; the wrappers turn a bad status into invalid_argument. On the packed-cursor model of the lower-triangular storage, also for every n: the pivot search and interchanges (find_lambda, find_sigma, pivoting_1x1/2x2, interchange_rows, permutate_mat with the contract bk.compute relies on), the index safety of both elimination kernels, and copy_data's provenance (packed(i,j) = A(i,j) from the lower, conj(A(j,i)) from the upper triangle, written once, shifted once; both storage orders). BOUNDED at concrete n: the real address arithmetic of those kernels and the exact-singularity decision of the elimination kernels. The residual bound is numerical and NOT decided. Third session: the VALUES computed by solve_inplace_2x2 and solve_left_2x2 (both branches each) are decided as algebraic identities over the complex field - E x = b resp. [x1 x2] E = [c1 c2] with E = [e11 conj(e21); e21 e22] - by z3 on constraints generated from the header text (machine arithmetic treated as mathematical, divisors assumed non-zero).",
    "note": "kernel contracts stubbed (bounded checks of their bodies listed separately); float values not modelled; Skolem instantiation meta-rule",
    "technique": 'CBMC dfcc frame + loop contracts with ghost block-kind array and a packed-cursor model on mechanically extracted C (cadical); bounded unwinding for the real packed-storage address arithmetic; z3 (real closed field) for the 2x2 block-solve identities',
}
