"""C08 - shifted QR helpers: scalar kernels (full-domain proofs) and matrix kernels (bounded stand-ins)."""
import re

from vlib import extract as X
from vlib import cgen
from vlib.runner import Group
from props import skel

PROP = "C08"
QH = "LinAlg/UpperHessenbergQR.h"


def rotation_text(report, defs):
    """stable_scaling + compute_rotation of UpperHessenbergQR, nothing dropped (pow(eps, 0.25) evaluated natively)."""
    f = X.locate(QH, "stable_scaling", cls="UpperHessenbergQR")
    def cut(m):
        vals = skel.native_pow_consts(" ".join(m.group(1).split()))
        k = len(defs)
        defs.append("".join("#if defined(%s)\n#define VERIF_CUTOFF_%d ((Scalar)%s%s)\n#endif\n" % (t, k, v, {"SCALAR_FLOAT": "f", "SCALAR_DOUBLE": "", "SCALAR_LDOUBLE": "L"}[t]) for t, v in vals.items()))
        return "VERIF_CUTOFF_%d" % k
    t1, R = cgen.emit(f, "stable_scaling", ret_c="void", static=True, param_types={"r": "REF", "c": "REF", "s": "REF"},
                      pre_rules=[("cutoff-init", r"(?<=cutoff = )([^;]+)(?=;)", cut, {"min": 1, "max": 1})])
    report["UpperHessenbergQR::stable_scaling"] = R.fired
    f = X.locate(QH, "compute_rotation", cls="UpperHessenbergQR")
    t2, R = cgen.emit(f, "compute_rotation", ret_c="void", static=True, param_types={"r": "REF", "c": "REF", "s": "REF"},
                      extra_rules=[("call1", r"stable_scaling\(xabs, yabs, \(\*r\), \(\*c\), \(\*s\)\);", "stable_scaling(xabs, yabs, r, c, s);", {"max": 1}),
                                   ("call2", r"stable_scaling\(yabs, xabs, \(\*r\), \(\*s\), \(\*c\)\);", "stable_scaling(yabs, xabs, r, s, c);", {"max": 1})])
    report["UpperHessenbergQR::compute_rotation"] = R.fired
    return t1 + t2


H_ROT = r'''
#line 1 "harness/C08.rotation"
/* finite inputs whose magnitude stays a factor 4 away from the overflow threshold (r = a*sqrt(1+t^2) <= sqrt(2)*a) */
#define DOM(v) ((v) == (v) && FABS(v) <= SCALAR_MAX / (Scalar)4)
void h_rot(void) {
  Scalar x = nondet_Scalar(), y = nondet_Scalar(), r, c, s;
  __CPROVER_assume(DOM(x) && DOM(y));
  compute_rotation(x, y, &r, &c, &s);
#if CLAUSE == 1
  __CPROVER_assert(r == r && c == c && s == s, "rotation: no NaN for finite inputs");
  __CPROVER_assert(r >= (Scalar)0, "rotation: r >= 0");
#elif CLAUSE == 2
  if (y == (Scalar)0) __CPROVER_assert(s == (Scalar)0 && r == FABS(x) && c == ((x == (Scalar)0) ? (Scalar)1 : (x > (Scalar)0 ? (Scalar)1 : (Scalar)-1)), "rotation: y == 0 => s = 0, r = |x|, c = sign(x) (c = 1 if x = 0)");
  if (x == (Scalar)0 && y != (Scalar)0) __CPROVER_assert(c == (Scalar)0 && r == FABS(y) && s == (y > (Scalar)0 ? (Scalar)-1 : (Scalar)1), "rotation: x == 0 != y => c = 0, s = -sign(y), r = |y|");
#elif CLAUSE == 3
  __CPROVER_assert(FABS(c) <= (Scalar)1 && FABS(s) <= (Scalar)1, "rotation: |c| <= 1 and |s| <= 1");
#elif CLAUSE == 4
  __CPROVER_assert(!(x > (Scalar)0) || c >= (Scalar)0, "rotation: c has the sign of x (x > 0)");
  __CPROVER_assert(!(x < (Scalar)0) || c <= (Scalar)0, "rotation: c has the sign of x (x < 0)");
  __CPROVER_assert(!(y > (Scalar)0) || s <= (Scalar)0, "rotation: s has the sign of -y (y > 0)");
  __CPROVER_assert(!(y < (Scalar)0) || s >= (Scalar)0, "rotation: s has the sign of -y (y < 0)");
#elif CLAUSE == 5
  /* Q is a rotation, not a contraction: the larger of |c|, |s| is at least 1/sqrt(2) (up to rounding) */
  __CPROVER_assert((FABS(c) >= (Scalar)0.70) || (FABS(s) >= (Scalar)0.70), "rotation: max(|c|, |s|) >= 0.70 for every finite input (no collapse to c = s = 0)");
#elif CLAUSE == 6
  { Scalar a = FABS(x) > FABS(y) ? FABS(x) : FABS(y);
    __CPROVER_assert(r >= a, "rotation: r >= max(|x|, |y|)");
    __CPROVER_assert(r <= a + a / (Scalar)2, "rotation: r <= 1.5 * max(|x|, |y|) (finite whenever the inputs are)"); }
#endif
  CANARY();
}
'''


def build(tier):
    report = {}
    defs = []
    rot = rotation_text(report, defs)
    pre = '#include "verif_prelude.h"\n' + "".join(defs)
    groups = []
    scal = [("float", "SCALAR_FLOAT")] + ([("double", "SCALAR_DOUBLE")] if tier == "thorough" else [])
    names = {1: "no-nan", 2: "exact-cases", 3: "bounded", 4: "signs", 5: "no-collapse", 6: "r-range"}
    for sn, sd in scal:
        for k, nm in names.items():
            groups.append(Group("rotation.%s.%s" % (nm, sn), pre + rot + H_ROT, "h_rot", loop_contracts=False, solver="kissat", defines=[sd, "CLAUSE=%d" % k],
                                timeout=(2400 if nm == "r-range" else 900) if sn == "double" else 400, flags=[], functions=[QH + ":compute_rotation", QH + ":stable_scaling"], expect_classes=["rotation:"],
                                note="loop-free, full finite domain |x|,|y| <= MAX/4; one clause per run"))
    # exact cases in double are cheap: keep them in the quick tier too
    if tier == "quick":
        groups.append(Group("rotation.exact-cases.double", pre + rot + H_ROT, "h_rot", loop_contracts=False, solver="kissat", defines=["SCALAR_DOUBLE", "CLAUSE=2"],
                            timeout=400, flags=[], functions=[QH + ":compute_rotation"], expect_classes=["rotation:"]))
    from props import kernels
    groups += kernels.qr_groups(tier, report, pre, rot)
    from props import guards
    groups += guards.groups(PROP, report)
    meta = {"level": "proof", "trusted_base": ["cbmc 6.11.0", "kissat", "cadical", "extractor"],
            "assumptions": ["IEEE-754 binary32/binary64 round-to-nearest as modelled by CBMC; sqrt correctly rounded", "pow(eps, 0.25) evaluated natively at extraction time",
                            "matrix kernels are BOUNDED stand-ins (concrete n, full unwinding) and are listed separately - never counted as proved"],
            "not_covered": ["||Q'Q - I||, Q R = H - s I, Q'HQ similarity to n*eps*(||H|| + |s|) (nonlinear floating point, not dischargeable)",
                            "c*c + s*s ~ 1 (timed out at 300 s even in binary32)", "DoubleShiftQR Hessenberg shape (holds only to rounding)"],
            "extraction": report, "explanation": "scalar Givens kernel proved over the full finite domain; matrix kernels bounded"}
    return groups, meta


def replay(g, o, assigns, path):
    from vlib import replay as RP
    from vlib.runner import last_value
    x, y = last_value(assigns, "x", "h_rot"), last_value(assigns, "y", "h_rot")
    args = []
    if x is not None and y is not None:
        args = [str(x).rstrip("fFlL"), str(y).rstrip("fFlL")]
    return RP.run_native(PROP, RP.src("C08_qr_replay.cpp"), args=args)


MANIFEST = {
    "category": "proof",
    "text": "Scalar kernels (the stable Givens rotation with its Taylor branch, stable_norm3, the reflector mark nr) are proved loop-free over the FULL finite domain in binary32 (quick) and binary64 (thorough): no NaN, exact y==0 / x==0 cases with the documented signs, |c|,|s|<=1, sign conventions, no collapse (max(|c|,|s|)>=0.70), |.|_max <= r <= 1.5|.|_max. UNBOUNDED in n: TridiagQR::compute (band arrays, c/s pointer walks) and matrix_QtHQ (tridiagonal, exactly symmetric shape, also into a reused destination); on the cursor model of the raw pointer walks UpperHessenbergQR::compute (R exactly upper triangular), matrix_QtHQ (Q'HQ exactly upper Hessenberg), apply_YQ (memory safety), and DoubleShiftQR compute / update_block / apply_YQ / apply_QtY (every block, coefficient and pointer access inside the matrix, blocks partition 0..n-1, reflector record nr[q] in {1,2,3} with q + nr[q] <= n). BOUNDED at concrete n with full unwinding: the real flattened address arithmetic of the same kernels, and UpperHessenbergQR::apply_YQ as the EXACT product Y*G_0*...*G_{n-2} (uninterpreted arithmetic on both sides). Orthogonality and similarity to n*eps are numerical and NOT decided. Third session: the computed-flag typestate of the decomposition classes used by the solvers is under contract (guard.coverage.* / guard.*: every public function that touches a result member starts with the m_computed guard, and the extracted guard throws std::logic_error exactly on an uncomputed object).",
    "note": "CBMC's IEEE model trusted; bounded groups are labelled with their bound in the evidence and never counted in obligations/discharged of the proof part",
    "technique": 'CBMC full-domain loop-free float proofs (kissat) + dfcc loop contracts on cursor models of the raw-pointer kernels (cadical) + bounded unwinding of the real address arithmetic at concrete n',
}
