"""C12 - invalid arguments are rejected with invalid_argument; valid ones are accepted; a rejected call leaks nothing."""
import re

from vlib import extract as X
from vlib import cgen
from vlib.runner import Group
from vlib import z3lemma
from props import skelgroups as SG

PROP = "C12"

SQUARE_EXPECTED = ["SparseGenRealShiftSolve", "DenseCholesky", "SymShiftInvert", "DenseGenComplexShiftSolve", "DenseGenRealShiftSolve", "DenseSymShiftSolve",
                   "SparseSymShiftSolve", "SparseGenComplexShiftSolve", "SparseCholesky", "SparseRegularInverse", "TridiagEigen", "BKLDLT", "UpperHessenbergEigen",
                   "UpperHessenbergQR", "TridiagQR", "UpperHessenbergSchur", "DoubleShiftQR"]


def square_sites(report):
    """Every `if (COND) throw std::invalid_argument("... square ...")` of the wrappers and decompositions, with COND taken from
    the real text; m_n is tied to rows() by the assignment / initialiser found next to it."""
    import glob, os
    sites = []
    for path in sorted(glob.glob(os.path.join(X.INC, "MatOp", "*.h")) + glob.glob(os.path.join(X.INC, "LinAlg", "*.h"))):
        rel = os.path.relpath(path, X.INC)
        raw, st = X.load(rel)
        for m in re.finditer(r'if \(([^\n{;]*)\)\s*\n\s*throw std::invalid_argument\("(\w+): [^"]*square[^"]*"\);', raw):
            cond, cls = m.group(1).strip(), m.group(2)
            before = raw[max(0, m.start() - 900):m.start()]
            mn = None
            if "m_n" in cond:
                if re.search(r"\bm_n = mat\.rows\(\);", before) or re.search(r"\bm_n\(mat\.rows\(\)\)", raw):
                    mn = "mat.rows()"
                elif re.search(r"\bm_n\(A\.rows\(\)\)", raw):
                    mn = "A.rows()"
                else:
                    raise X.ExtractionBreak("%s: cannot tie m_n to rows() next to the square check" % cls)
            sites.append({"file": rel, "class": cls, "cond": cond, "m_n": mn, "line": raw.count("\n", 0, m.start()) + 1})
    report["square_checks"] = sites
    return sites


def square_harness(sites):
    L = ['#include "verif_prelude.h"', '#line 1 "harness/C12.square(generated)"', "void h(void) {",
         "  Index ar = nondet_Index(), ac = nondet_Index(), br = nondet_Index(), bc = nondet_Index();",
         "  __CPROVER_assume(0 <= ar && ar <= 1048576 && 0 <= ac && ac <= 1048576 && 0 <= br && br <= 1048576 && 0 <= bc && bc <= 1048576);"]
    for s in sites:
        c = s["cond"].replace("mat.rows()", "ar").replace("mat.cols()", "ac").replace("A.rows()", "ar").replace("A.cols()", "ac").replace("B.rows()", "br").replace("B.cols()", "bc")
        c = re.sub(r"\bm_n\b", "ar", c)
        if re.search(r"[A-Za-z_]\w*\s*\(|\.", c.replace("ar", "").replace("ac", "").replace("br", "").replace("bc", "")):
            raise X.ExtractionBreak("%s: square-check condition not understood: %r" % (s["class"], s["cond"]))
        want = "!(ar == ac && br == bc && ar == br)" if s["class"] == "SymShiftInvert" else "ar != ac"
        L.append('  __CPROVER_assert((%s) == (%s), "square.%s: throws invalid_argument <=> %s (%s:%d)");' %
                 (c, want, s["class"], "A, B not square of the same size" if s["class"] == "SymShiftInvert" else "matrix not square", s["file"], s["line"]))
    L += ["  CANARY();", "}"]
    return "\n".join(L) + "\n"


def jd_groups(report):
    JH = "JDSymEigsBase.h"
    f = X.locate(JH, "check_argument", cls="JDSymEigsBase")
    t, R = cgen.emit(f, "check_argument", ret_c="void", self_type="JD", self_name="J", members=["m_number_eigenvalues", "m_matrix_operator"],
                     extra_rules=[("cols", r"J->m_matrix_operator\.cols\(\)", "J->m_matrix_operator_cols", {"min": 1})])
    report["JDSymEigsBase::check_argument"] = R.fired
    c = X.locate(JH, "JDSymEigsBase", cls="JDSymEigsBase", ordinal=0)
    c2 = X.locate(JH, "JDSymEigsBase", cls="JDSymEigsBase", ordinal=1)
    if not re.match(r"^\s*check_argument\(\);\s*initialize\(\);\s*$", c.body) or "m_number_eigenvalues(nev)" not in " ".join(c.inits.split()):
        raise X.ExtractionBreak("JDSymEigsBase constructor no longer starts with check_argument() on m_number_eigenvalues(nev)")
    if " ".join(c2.inits.split()) != "JDSymEigsBase(op, nev, 2 * nev, 10 * nev)":
        raise X.ExtractionBreak("JDSymEigsBase(op, nev) no longer delegates to the checking constructor")
    report["JDSymEigsBase constructors"] = "both run check_argument() first (text checked)"
    h = ('#include "verif_prelude.h"\ntypedef struct { Index m_number_eigenvalues; Index m_matrix_operator_cols; } JD;\n' + t +
         '#line 1 "harness/C12.jd"\nvoid h(void) { JD j; j.m_number_eigenvalues = nondet_Index(); j.m_matrix_operator_cols = nondet_Index();\n'
         '  __CPROVER_assume(0 <= j.m_matrix_operator_cols && j.m_matrix_operator_cols <= 1048576); verif_exc = 0; check_argument(&j);\n'
         '  __CPROVER_assert((verif_exc == EXC_invalid_argument) == !(1 <= j.m_number_eigenvalues && j.m_number_eigenvalues <= j.m_matrix_operator_cols - 1), "ctor.range.davidson: rejected with invalid_argument <=> not (1 <= nev <= n-1)");\n'
         '  __CPROVER_assert(verif_exc == 0 || verif_exc == EXC_invalid_argument, "only invalid_argument");\n  CANARY(); }\n')
    return [Group("davidson.check_argument", h, "h", loop_contracts=False, solver="cadical", functions=[JH + ":check_argument", JH + ":constructors"],
                  expect_classes=["ctor.range.davidson"], flags=["--signed-overflow-check"])]


def build(tier):
    report = {}
    groups = SG.select(PROP, ["herm", "gen"], report)
    # rule validation of the dispatching helper (shared with C18)
    from props import C18
    g18, _ = C18.build(tier)
    groups += [g for g in g18 if g.name.startswith(("argsort.", "key.", "table."))]
    from props import shiftmodes
    groups += shiftmodes.sigma_validators(report)
    groups += jd_groups(report)
    sites = square_sites(report)
    groups.append(Group("square.checks", square_harness(sites), "h", loop_contracts=False, solver="cadical", flags=[],
                        functions=["%s:%s (square check)" % (s["file"], s["class"]) for s in sites], expect_classes=["square."]))
    found = [s["class"] for s in sites]
    missing = [c for c in SQUARE_EXPECTED if c not in found]
    groups.append(z3lemma.StaticGroup("square.sites-present", ok=not missing, detail=("missing square check in: " + ", ".join(missing)) if missing else "%d sites: %s" % (len(found), ", ".join(found)),
                                      obligation="every wrapper / decomposition that requires a square matrix validates it"))
    from props import C16
    g16, _ = C16.build(tier)
    groups += [g for g in g16 if g.name == "svd.ctor"]
    meta = {"level": "proof", "trusted_base": SG.TRUSTED + ["z3 not used"], "assumptions": SG.ASSUMPTIONS + [
        "a zero start vector has norm exactly 0 (Eigen norm of an all-zero vector), so init() reaches the invalid_argument throw; tiny nonzero vectors below near_0 are rejected too",
        "m_n equals rows() at the square checks (tied by the adjacent assignment/initialiser found in the text)"],
        "not_covered": ["`accepted` means the validator does not throw; a later set_shift that rejects a singular A - sigma I is a different, documented rejection"],
        "extraction": report, "explanation": "all 64-bit (n, nev, ncv) within the integer caps, all nine rule values"}
    return groups, meta


def replay(g, o, assigns, path):
    from vlib import replay as RP
    if g.name.startswith(("argsort.", "key.", "table.")):
        from props import C18
        return C18.replay(g, o, assigns, path)
    if g.name == "svd.ctor":
        return RP.run_native(PROP, RP.src("C16_svd_replay.cpp"), args=[2])
    return RP.run_native(PROP, RP.src("C12_args_replay.cpp"))


MANIFEST = {
    "category": "proof",
    "text": "Proof over all machine-integer (n, nev, ncv) (caps 2^20) and all nine rule values: each solver constructor throws invalid_argument exactly outside the documented "
            "range (symmetric: 1<=nev<=n-1, nev<ncv<=n; general: 1<=nev<=n-2, nev+2<=ncv<=n; Davidson: 1<=nev<=n-1) and otherwise constructs; sorting/selection rules not "
            "defined for the solver family reach invalid_argument; buckling/Cayley reject sigma==0 and only that; init() with a zero vector throws before touching the operator; "
            "every square-matrix check is `rows != cols`; the one raw-owning constructor leaks nothing when it rejects.",
    "note": "predicates are copied from the property/Doxygen text, not from the code's ifs; Eigen norm(0)==0 assumed; extractor trusted",
    "technique": "CBMC contracts / full-domain loop-free harnesses on mechanically extracted validators (cadical)",
}
