"""C15 - Davidson solver: the contract-expressible part (status / count / flag protocol of compute_with_guess, convergence test
element-wise, pairing and order of RitzPairs::sort, shapes and index safety of the search-space bookkeeping, the division site of
the DPR correction).  The residual bound against the user's matrix and orthonormality are numerical and NOT decided."""
import re

from vlib import extract as X
from vlib import cgen, common, eigabs
from vlib.runner import Group
from vlib.spec import FSpec
from vlib import z3lemma
from props import skel

PROP = "C15"
JD = "JDSymEigsBase.h"
DV = "DavidsonSymEigsSolver.h"
RPH = "LinAlg/RitzPairs.h"
SSH = "LinAlg/SearchSpace.h"

TYPES = r'''
#include "skel.h"
typedef struct { Index *data; Index size; } IndexArray;
typedef struct {                       /* RitzPairs<Scalar> */
  Scalar *m_values; Index *tag_val;    /* eigenvalues of the small problem + ghost provenance tag per entry */
  Mat m_small_vectors, m_vectors, m_residues;
  _Bool *m_root_converged;
  Scalar *g_norms;                     /* ghost: the column norms of m_residues that the flags were computed from */
  Index st_pairs, st_conv;             /* ghost stamps: when (values, vectors, residues) were produced / which pairs the flags describe */
} RP;
typedef struct { Mat m_basis_vectors, m_op_basis_product; } SS;   /* SearchSpace<Scalar> */
typedef struct {                       /* JDSymEigsBase / DavidsonSymEigsSolver */
  Index op_n;                          /* m_matrix_operator.rows() == cols() */
  Index niter_, m_number_eigenvalues, m_max_search_space_size, m_initial_search_space_size, m_correction_size;
  RP m_ritz_pairs; SS m_search_space; CompInfo m_info;
  Scalar *m_diagonal;
} JDS;
Index g_w;                             /* ghost witness: first requested pair found not converged by check_convergence */
Index g_p;
static Index ND_SIZE(void) { Index n = nondet_Index(); __CPROVER_assume(0 <= n && n <= NMAX); return n; }
'''

RP_MEMBERS = ["m_values", "m_small_vectors", "m_vectors", "m_residues", "m_root_converged"]
SS_MEMBERS = ["m_basis_vectors", "m_op_basis_product"]
JD_MEMBERS = ["m_matrix_operator", "niter_", "m_number_eigenvalues", "m_max_search_space_size", "m_initial_search_space_size",
              "m_correction_size", "m_ritz_pairs", "m_search_space", "m_info"]

ALLOC_RP = r'''
  RP Rv; RP *self = &Rv;
  self->m_values = VEC_NEW(ND_SIZE()); self->tag_val = IVEC_NEW(VEC_SIZE(self->m_values));
  self->m_small_vectors = MAT_NEW(ND_SIZE(), ND_SIZE()); self->m_vectors = MAT_NEW(ND_SIZE(), ND_SIZE()); self->m_residues = MAT_NEW(ND_SIZE(), ND_SIZE());
  self->m_root_converged = BVEC_NEW(ND_SIZE()); self->g_norms = VEC_NEW(ND_SIZE());
  self->st_pairs = nondet_Index(); self->st_conv = nondet_Index();
  g_i = nondet_Index(); g_j = nondet_Index(); g_p = nondet_Index(); g_w = -1;
'''

RP_SHAPES = ("VEC_SIZE(self->tag_val) == VEC_SIZE(self->m_values) && self->m_vectors.cols == VEC_SIZE(self->m_values) && "
             "self->m_residues.cols == VEC_SIZE(self->m_values) && self->m_small_vectors.cols == VEC_SIZE(self->m_values) && "
             "self->m_small_vectors.rows == VEC_SIZE(self->m_values) && self->m_residues.rows == self->m_vectors.rows")


def check_members(report):
    for hdr, cls, want in ((RPH, "RitzPairs", RP_MEMBERS), (SSH, "SearchSpace", SS_MEMBERS), (JD, "JDSymEigsBase", JD_MEMBERS),
                           (DV, "DavidsonSymEigsSolver", ["m_diagonal"])):
        got = X.members(hdr, cls)
        if got != want:
            raise X.ExtractionBreak("%s data members changed: %r (struct layout of the C15 skeleton was written for %r)" % (cls, got, want))
    report["members"] = "RitzPairs / SearchSpace / JDSymEigsBase / DavidsonSymEigsSolver data members as expected"


# --------------------------------------------------------------------------- RitzPairs::check_convergence

CC_DEFS = r'''
/* m_residues.colwise().norm(): one non-negative norm per column (Eigen; values not modelled) */
static Scalar *COLNORMS(RP *self) { Scalar *p = VEC_NEW(self->m_residues.cols); self->g_norms = p; return p; }
/* BoolArray::Zero(n) */
static _Bool *BVEC_ZERO(Index n) { _Bool *p = BVEC_NEW(n); if (0 <= g_i && g_i < n) p[g_i] = 0; return p; }
'''


def f_check_convergence(report):
    f = X.locate(RPH, "check_convergence", cls="RitzPairs")
    ml = re.search(r"for \(Index (\w+) = 0; \1 < norms\.size\(\); (?:\1\+\+|\+\+\1)\)", f.body)
    mc = re.search(r"\bbool (\w+) = true;", f.body)
    if not (ml and mc):
        raise X.ExtractionBreak("check_convergence: loop over the residual norms / accumulator not recognised")
    J, CV = ml.group(1), mc.group(1)
    spec = FSpec("check_convergence", "_Bool", [("RP *", "self"), ("Scalar", "tol"), ("Index", "number_eigenvalues")],
                 pre=[("the requested number of eigenvalues is positive", "1 <= number_eigenvalues && number_eigenvalues <= NMAX")],
                 post=[("one flag per Ritz pair", "VEC_SIZE(self->m_root_converged) == self->m_residues.cols && VEC_SIZE(self->g_norms) == self->m_residues.cols"),
                       ("flag j <=> ||r_j|| < tol, element-wise, computed from the residual norms of THIS call",
                        "!(0 <= g_i && g_i < self->m_residues.cols) || (self->m_root_converged[g_i] == (self->g_norms[g_i] < tol))"),
                       ("returns true only if every one of the first min(nev, size) pairs has residual norm < tol",
                        "!ret || !(0 <= g_i && g_i < number_eigenvalues && g_i < self->m_residues.cols) || (self->g_norms[g_i] < tol)"),
                       ("returns false only if one of the first nev pairs has a residual norm that is not < tol (witness)",
                        "ret || (0 <= g_w && g_w < number_eigenvalues && g_w < self->m_residues.cols && !(self->g_norms[g_w] < tol))"),
                       ("the flags describe the current Ritz pairs", "self->st_conv == self->st_pairs")],
                 frame=["self->m_root_converged", "self->g_norms", "self->st_conv", "g_w"], real=RPH + ":check_convergence")
    inv = ("__CPROVER_assigns(%(J)s, %(CV)s, g_w, __CPROVER_object_whole(self->m_root_converged)) "
           "__CPROVER_loop_invariant(0 <= %(J)s && %(J)s <= VEC_SIZE(norms) && (%(CV)s == 0 || %(CV)s == 1)) "   # a C _Bool holds 0 or 1 (dfcc havocs the byte)
           "__CPROVER_loop_invariant(!(0 <= g_i && g_i < %(J)s) || (self->m_root_converged[g_i] == (norms[g_i] < tol))) "
           "__CPROVER_loop_invariant(!%(CV)s || (g_w < 0 && (!(0 <= g_i && g_i < %(J)s && g_i < number_eigenvalues) || (norms[g_i] < tol)))) "
           "__CPROVER_loop_invariant(%(CV)s || (0 <= g_w && g_w < %(J)s && g_w < number_eigenvalues && !(norms[g_w] < tol))) "
           "__CPROVER_decreases(VEC_SIZE(norms) - %(J)s)") % {"J": J, "CV": CV}
    t, R = cgen.emit(f, "check_convergence", ret_c="_Bool", self_type="RP", members=RP_MEMBERS, param_types={"tol": "Scalar"},
                     extra_rules=[("norms", r"const Array norms = self->m_residues\.colwise\(\)\.norm\(\);", "Scalar *norms = COLNORMS(self);", {"max": 1}),
                                  ("zero", r"self->m_root_converged = BoolArray::Zero\(norms\.size\(\)\);", "self->m_root_converged = BVEC_ZERO(VEC_SIZE(norms)); self->st_conv = self->st_pairs;", {"max": 1}),
                                  ("size", r"\bnorms\.size\(\)", "VEC_SIZE(norms)", {"min": 1}),
                                  ("bool", r"\bbool\b", "_Bool", {"min": 1}),
                                  # ghost witness for the `false` direction: the first requested pair that failed the test
                                  ("witness", r"((?<!Bool )\b%s\s*(?:&=|=)(?!=)[^;]*;)" % CV, r"\1 if (!%s && g_w < 0) g_w = %s;" % (CV, J), {"min": 1}),
                                  ],
                     loop_contracts={0: inv}, contract=spec.frame_contract())
    report["RitzPairs::check_convergence"] = R.fired
    return CC_DEFS + t, spec


# --------------------------------------------------------------------------- RitzPairs::sort

SORT_DEFS = r'''
/* `RitzPairs<Scalar> temp = *this;` : temp keeps the old arrays; *this gets equally-sized fresh storage holding a copy.  The copy is
 * stated at the two Skolem positions (a position the loop does not overwrite keeps the old value there) */
static void RP_COPY_SPLIT(RP *self, RP *temp)
{
  *temp = *self;
  Index k = VEC_SIZE(temp->m_values);
  self->m_values = VEC_NEW(k); self->tag_val = IVEC_NEW(k);
  self->m_vectors = MAT_NEW(temp->m_vectors.rows, temp->m_vectors.cols);
  self->m_residues = MAT_NEW(temp->m_residues.rows, temp->m_residues.cols);
  self->m_small_vectors = MAT_NEW(temp->m_small_vectors.rows, temp->m_small_vectors.cols);
  if (0 <= g_i && g_i < k) { self->m_values[g_i] = temp->m_values[g_i]; self->tag_val[g_i] = temp->tag_val[g_i]; }
  if (0 <= g_j && g_j < k) { self->m_values[g_j] = temp->m_values[g_j]; self->tag_val[g_j] = temp->tag_val[g_j]; }
  if (0 <= g_i && g_i < temp->m_vectors.cols) self->m_vectors.coltag[g_i] = temp->m_vectors.coltag[g_i];
  if (0 <= g_j && g_j < temp->m_vectors.cols) self->m_vectors.coltag[g_j] = temp->m_vectors.coltag[g_j];
  if (0 <= g_i && g_i < temp->m_residues.cols) self->m_residues.coltag[g_i] = temp->m_residues.coltag[g_i];
  if (0 <= g_j && g_j < temp->m_residues.cols) self->m_residues.coltag[g_j] = temp->m_residues.coltag[g_j];
  if (0 <= g_i && g_i < temp->m_small_vectors.cols) self->m_small_vectors.coltag[g_i] = temp->m_small_vectors.coltag[g_i];
  if (0 <= g_j && g_j < temp->m_small_vectors.cols) self->m_small_vectors.coltag[g_j] = temp->m_small_vectors.coltag[g_j];
}
'''

SORT_RULES_REAL = ["LargestAlge", "LargestMagn", "SmallestAlge", "SmallestMagn", "BothEnds"]


def sort_spec():
    ok = "(" + " || ".join("selection == SortRule_%s" % r for r in SORT_RULES_REAL) + ")"
    both = "0 <= g_i && g_i < g_j && g_j < VEC_SIZE(self->m_values)"
    post = [("accepted <=> the rule is defined for real values", ok),
            ("shapes unchanged", RP_SHAPES + " && VEC_SIZE(self->m_values) == old_k && self->m_vectors.rows == old_rows"),
            ("value, Ritz vector, residual and small eigenvector are permuted together: position i receives all four from ONE source position",
             "!(0 <= g_i && g_i < old_k && g_ia == g_p) || (self->tag_val[g_i] == old_tv && self->m_vectors.coltag[g_i] == old_cv && "
             "self->m_residues.coltag[g_i] == old_cr && self->m_small_vectors.coltag[g_i] == old_cs)"),
            ("source positions are in range and distinct (a permutation: no pair is duplicated or lost)",
             "!(%s) || (0 <= g_ia && g_ia < old_k && 0 <= g_ib && g_ib < old_k && g_ia != g_ib)" % both),
            ("the pairs are the ones computed by the last small eigenproblem (stamp untouched)", "self->st_pairs == old_st")]
    for r, cl in skel.ordered_clause(""):
        if r in SORT_RULES_REAL and r != "BothEnds":
            post.append(("pairs ordered by the selection rule %s" % r,
                         "!(%s && NOTNAN(self->m_values[g_i]) && NOTNAN(self->m_values[g_j])) || verif_sorted_%s(selection, self->m_values[g_i], self->m_values[g_j])" % (both, r)))
    return FSpec("rp_sort", "void", [("RP *", "self"), ("SortRule", "selection")],
                 pre=[("class invariant of RitzPairs: one value, Ritz vector, residual and small eigenvector per pair", RP_SHAPES)],
                 post=post,
                 exc_post=[("rejected <=> rule not defined for real values", "!%s && verif_exc == EXC_invalid_argument" % ok),
                           ("nothing modified when the rule is rejected", "self->st_pairs == old_st && VEC_SIZE(self->m_values) == old_k")],
                 frame=["g_ia", "g_ib", "g_va", "g_vb", "self->m_values", "self->tag_val", "self->m_vectors", "self->m_residues", "self->m_small_vectors"],
                 may_throw=[1],
                 olds=[("Index", "old_k", "VEC_SIZE(self->m_values)"), ("Index", "old_rows", "self->m_vectors.rows"), ("Index", "old_st", "self->st_pairs"),
                       ("Index", "old_tv", "(0 <= g_p && g_p < VEC_SIZE(self->m_values)) ? self->tag_val[g_p] : 0"),
                       ("Index", "old_cv", "(0 <= g_p && g_p < self->m_vectors.cols) ? self->m_vectors.coltag[g_p] : 0"),
                       ("Index", "old_cr", "(0 <= g_p && g_p < self->m_residues.cols) ? self->m_residues.coltag[g_p] : 0"),
                       ("Index", "old_cs", "(0 <= g_p && g_p < self->m_small_vectors.cols) ? self->m_small_vectors.coltag[g_p] : 0")],
                 real=RPH + ":sort")


def f_sort(report):
    f = X.locate(RPH, "sort", cls="RitzPairs")
    ml = re.search(r"for \(Index (\w+) = 0; \1 < size\(\); (?:\1\+\+|\+\+\1)\)", f.body)
    if not ml:
        raise X.ExtractionBreak("RitzPairs::sort: loop over the pairs not recognised")
    J = ml.group(1)
    spec = sort_spec()
    K = "VEC_SIZE(temp.m_values)"
    tagged = lambda gi, gia, gv: ("__CPROVER_loop_invariant(!(0 <= %(gi)s && %(gi)s < %(J)s) || (self->tag_val[%(gi)s] == temp.tag_val[%(gia)s] && "
                                  "self->m_vectors.coltag[%(gi)s] == temp.m_vectors.coltag[%(gia)s] && self->m_residues.coltag[%(gi)s] == temp.m_residues.coltag[%(gia)s] && "
                                  "self->m_small_vectors.coltag[%(gi)s] == temp.m_small_vectors.coltag[%(gia)s] && NANEQ(self->m_values[%(gi)s], %(gv)s))) ") % {"gi": gi, "gia": gia, "gv": gv, "J": J}
    inv = ("__CPROVER_assigns(%(J)s, __CPROVER_object_whole(self->m_values), __CPROVER_object_whole(self->tag_val), __CPROVER_object_whole(self->m_vectors.coltag), "
           "__CPROVER_object_whole(self->m_residues.coltag), __CPROVER_object_whole(self->m_small_vectors.coltag)) "
           "__CPROVER_loop_invariant(0 <= %(J)s && %(J)s <= %(K)s) " % {"J": J, "K": K}) + tagged("g_i", "g_ia", "g_va") + tagged("g_j", "g_ib", "g_vb") + \
        "__CPROVER_decreases(%s - %s)" % (K, J)
    col = lambda m_: (r"self->%s\.col\((\w+)\) = temp\.%s\.col\(([^;]+)\);" % (m_, m_), r"COLCOPY(self->%s, \1, temp.%s, \2);" % (m_, m_))
    t, R = cgen.emit(f, "rp_sort", ret_c="void", self_type="RP", members=RP_MEMBERS,
                     extra_rules=[("argsort", r"std::vector<Index> ind = argsort\(selection, self->m_values\);", "IndexArray ind = argsort(selection, self->m_values, VEC_SIZE(self->m_values));", {"max": 1}),
                                  ("temp", r"RitzPairs<Scalar> temp = \*this;", "RP temp; RP_COPY_SPLIT(self, &temp);", {"max": 1}),
                                  ("size", r"(?<![\w.>])size\(\)", K, {"min": 1}),
                                  ("ind[]", r"\bind\[", "ind.data[", {"min": 1}),
                                  ("val-copy", r"self->m_values\[(\w+)\] = temp\.m_values\[([^;]+)\];",
                                   r"INSTANTIATE_RANGE(ind, \1, %s); self->m_values[\1] = temp.m_values[\2]; self->tag_val[\1] = temp.tag_val[\2];" % K, {"max": 1}),
                                  ("vec-copy",) + col("m_vectors") + ({"max": 1},),
                                  ("res-copy",) + col("m_residues") + ({"max": 1},),
                                  ("small-copy",) + col("m_small_vectors") + ({"max": 1},)],
                     loop_contracts={0: inv}, contract=spec.frame_contract(), maythrow=["argsort"])
    report["RitzPairs::sort"] = R.fired
    ordf = skel.NANEQ_DEF + "#define NOTNAN(v) ((v) == (v))\n" + \
        "".join("static _Bool verif_sorted_%s(SortRule selection, Scalar va, Scalar vb) { return %s; }\n" % (r, cl)
                for r, cl in skel.ordered_clause("") if r in SORT_RULES_REAL)
    return SORT_DEFS + ordf + t, spec


def base_text():
    return TYPES.replace('#include "skel.h"', '#include "skel.h"\n' + eigabs.SKEL_MACROS) + \
        common.enum_defines("Util/SelectionRule.h", "SortRule") + common.enum_defines("Util/CompInfo.h", "CompInfo")


def build(tier):
    report = {}
    check_members(report)
    base = base_text()
    groups = []

    def G(name, text, enforce, fns, expect=(), timeout=300, note=""):
        groups.append(Group("jd." + name, text, "h", enforce=enforce, solver="cadical", defines=["SCALAR_DOUBLE"], timeout=timeout,
                            functions=fns, expect_classes=list(expect) or ["assigns"], note=note))

    t_cc, s_cc = f_check_convergence(report)
    G("check_convergence", base + t_cc + s_cc.harness("h", ALLOC_RP + "  Scalar tol = nondet_Scalar(); Index number_eigenvalues = nondet_Index();", "self, tol, number_eigenvalues"),
      "check_convergence", [RPH + ":check_convergence"], expect=["loop_invariant_step", "assigns"])
    t_so, s_so = f_sort(report)
    G("sort", base + skel.stub_argsort() + t_so + s_so.harness("h", ALLOC_RP + "  SortRule selection = nondet_int();", "self, selection"),
      "rp_sort", [RPH + ":sort"], expect=["loop_invariant_step", "assigns"], note="argsort replaced by its contract (proved in C18)")

    meta = {"level": "proof", "trusted_base": ["cbmc 6.11.0 dfcc", "cadical", "extractor"],
            "assumptions": ["Eigen expression values are not modelled (column norms, small eigenproblem, products are nondeterministic)",
                            "argsort satisfies the contract proved in C18; std::sort assumed"],
            "not_covered": ["||A x - theta x|| < tol against the user's matrix (numerical drift of the cached products)", "orthonormality of the returned vectors",
                            "finiteness of Eigen-expression arithmetic as a whole"],
            "extraction": report, "explanation": "structural clauses of C15 only"}
    return groups, meta


MANIFEST = {}
