"""C15 - Davidson solver: the contract-expressible part (status / count / flag protocol of compute_with_guess, convergence test
element-wise, pairing and order of RitzPairs::sort, shapes and index safety of the search-space bookkeeping, the division site of
the DPR correction).  The residual bound against the user's matrix and orthonormality are numerical and NOT decided."""
import re

from vlib import extract as X
from vlib import cgen, common, eigabs
from vlib.runner import Group
from vlib.spec import FSpec
from vlib import z3lemma
from props import skel

PROP = "C15"
JD = "JDSymEigsBase.h"
DV = "DavidsonSymEigsSolver.h"
RPH = "LinAlg/RitzPairs.h"
SSH = "LinAlg/SearchSpace.h"

TYPES = r'''
#include "skel.h"
typedef struct { Index *data; Index size; } IndexArray;
typedef struct {                       /* RitzPairs<Scalar> */
  Scalar *m_values; Index *tag_val;    /* eigenvalues of the small problem + ghost provenance tag per entry */
  Mat m_small_vectors, m_vectors, m_residues;
  _Bool *m_root_converged;
  Scalar *g_norms;                     /* ghost: the column norms of m_residues that the flags were computed from */
  Index st_pairs, st_conv;             /* ghost stamps: when (values, vectors, residues) were produced / which pairs the flags describe */
  _Bool g_cc_ret; Index g_cc_nev;      /* ghost: result and nev argument of the last check_convergence() */
  SortRule g_sorted_sel;               /* ghost: rule the current pairs were last sorted by (-1: not sorted since they were computed) */
  Index n_values, n_flags, n_norms;    /* capacity mode only (CAPMODE): current Eigen sizes of m_values/tag_val, m_root_converged, g_norms */
} RP;
/* Eigen sizes of the vector members.  Callee proofs: the arrays are allocated with exactly the Eigen size (VEC_SIZE).  The caller-level proof of
 * compute_with_guess runs in CAPACITY MODE: dfcc forbids allocation inside a loop that carries a loop contract and CBMC cannot follow a havocked pointer, so
 * there the arrays are allocated once with capacity NMAX, callee stubs havoc them in place, and the Eigen size is a ghost field. */
#ifdef CAPMODE
#define NVALS(rp) ((rp)->n_values)
#define NTAGS(rp) ((rp)->n_values)
#define NFLAGS(rp) ((rp)->n_flags)
#define NNORMS(rp) ((rp)->n_norms)
#else
#define NVALS(rp) VEC_SIZE((rp)->m_values)
#define NTAGS(rp) VEC_SIZE((rp)->tag_val)
#define NFLAGS(rp) VEC_SIZE((rp)->m_root_converged)
#define NNORMS(rp) VEC_SIZE((rp)->g_norms)
#endif

typedef struct { Mat m_basis_vectors, m_op_basis_product; } SS;   /* SearchSpace<Scalar> */
typedef struct {                       /* JDSymEigsBase / DavidsonSymEigsSolver */
  Index op_n;                          /* m_matrix_operator.rows() == cols() */
  Op *op;
  Index niter_, m_number_eigenvalues, m_max_search_space_size, m_initial_search_space_size, m_correction_size;
  RP m_ritz_pairs; SS m_search_space; CompInfo m_info;
  Scalar *m_diagonal;
} JDS;
Index g_w;                             /* ghost witness: first requested pair found not converged by check_convergence */
Index g_p;
static Index ND_SIZE(void) { Index n = nondet_Index(); __CPROVER_assume(0 <= n && n <= NMAX); return n; }
'''

RP_MEMBERS = ["m_values", "m_small_vectors", "m_vectors", "m_residues", "m_root_converged"]
SS_MEMBERS = ["m_basis_vectors", "m_op_basis_product"]
JD_MEMBERS = ["m_matrix_operator", "niter_", "m_number_eigenvalues", "m_max_search_space_size", "m_initial_search_space_size",
              "m_correction_size", "m_ritz_pairs", "m_search_space", "m_info"]

ALLOC_RP = r'''
  RP Rv; RP *self = &Rv;
  self->m_values = VEC_NEW(ND_SIZE()); self->tag_val = IVEC_NEW(VEC_SIZE(self->m_values));
  self->m_small_vectors = MAT_NEW(ND_SIZE(), ND_SIZE()); self->m_vectors = MAT_NEW(ND_SIZE(), ND_SIZE()); self->m_residues = MAT_NEW(ND_SIZE(), ND_SIZE());
  self->m_root_converged = BVEC_NEW(ND_SIZE()); self->g_norms = VEC_NEW(ND_SIZE());
  self->st_pairs = nondet_Index(); self->st_conv = nondet_Index(); self->g_cc_ret = nondet_bool(); self->g_cc_nev = nondet_Index(); self->g_sorted_sel = nondet_int();
  g_i = nondet_Index(); g_j = nondet_Index(); g_p = nondet_Index(); g_w = -1;
'''

RP_SHAPES = ("VEC_SIZE(self->tag_val) == VEC_SIZE(self->m_values) && self->m_vectors.cols == VEC_SIZE(self->m_values) && "
             "self->m_residues.cols == VEC_SIZE(self->m_values) && self->m_small_vectors.cols == VEC_SIZE(self->m_values) && "
             "self->m_small_vectors.rows == VEC_SIZE(self->m_values) && self->m_residues.rows == self->m_vectors.rows")


_CAP_RX = re.compile(r"VEC_SIZE\(((?:[\w]|->|\.)+?)(->|\.)(m_values|tag_val|m_root_converged|g_norms)\)")
_CAP_NM = {"m_values": "NVALS", "tag_val": "NTAGS", "m_root_converged": "NFLAGS", "g_norms": "NNORMS"}


def capify_text(e):
    return _CAP_RX.sub(lambda m: "%s(%s%s)" % (_CAP_NM[m.group(3)], "" if m.group(2) == "->" else "&", m.group(1)), e)


def capify(spec):
    """Write the Eigen sizes of the RitzPairs vector members through the NVALS/NTAGS/NFLAGS/NNORMS macros, so that ONE clause text serves the callee
    proof (exact-size arrays) and the capacity-mode stub used by compute_with_guess."""
    for lst in (spec.pre, spec.post, spec.exc_post):
        lst[:] = [(lab, capify_text(e)) for lab, e in lst]
    spec.olds = [(ty, nm, capify_text(e)) for ty, nm, e in spec.olds]
    return spec


CAP_VECS = {"m_values": "n_values", "tag_val": None, "m_root_converged": "n_flags", "g_norms": "n_norms"}


def cap_stub(spec, mats=(), extra=""):
    """Call-site stub for capacity mode: like FSpec.stub(), but a frame entry that is a vector member is havocked IN PLACE (its ghost size field becomes
    nondeterministic) and a frame entry that is a Mat gets nondeterministic dimensions and an in-place havoc of its column tags - no allocation, no pointer havoc."""
    L = ["/* capacity-mode contract stub of %s (%s): assert PRE, havoc FRAME in place, assume POST */" % (spec.cname, spec.real), spec.proto() + " {"]
    for lab, e in spec.pre:
        L.append('  __CPROVER_assert(%s, "precondition of %s at call site: %s");' % (e, spec.cname, lab.replace('"', "'")))
    for ty, nm, e in spec.olds:
        L.append("  %s %s = %s;" % (ty, nm, e))
    for lv in spec.frame:
        base = re.split(r"->|\.", lv)[-1]
        owner = lv[:len(lv) - len(base)]
        if base in CAP_VECS:
            L.append("  __CPROVER_havoc_object(%s);" % lv)
            if CAP_VECS[base]:
                L.append("  { Index verif_n = nondet_Index(); __CPROVER_assume(0 <= verif_n && verif_n <= g_cap); %s%s = verif_n; }" % (owner, CAP_VECS[base]))
        elif base in mats:
            L.append("  { Index verif_r = nondet_Index(), verif_c = nondet_Index(); __CPROVER_assume(0 <= verif_r && verif_r <= g_cap && 0 <= verif_c && verif_c <= g_cap); "
                     "%s.rows = verif_r; %s.cols = verif_c; __CPROVER_havoc_object(%s.coltag); %s.cell = nondet_Scalar(); }" % (lv, lv, lv, lv))
        elif base in ("m_ritz_pairs", "m_search_space"):
            raise X.ExtractionBreak("cap_stub: whole-object frame entry %s" % lv)
        elif base in ("n_values", "n_flags", "n_norms", "rows", "cols"):
            L.append("  { Index verif_n = nondet_Index(); __CPROVER_assume(0 <= verif_n && verif_n <= g_cap); %s = verif_n; }" % lv)
        else:
            L.append("  { __typeof__(%s) verif_nd; %s = verif_nd; }" % (lv, lv))
    for ob in spec.frame_objs:
        L.append("  __CPROVER_havoc_object(%s);" % ob)
    if spec.ret_c != "void":
        L.append("  %s ret;" % spec.ret_c)
    if extra:
        L.append("  " + extra)
    if spec.may_throw:
        L.append("  if (nondet_bool()) { int verif_e = nondet_int(); __CPROVER_assume(%s); verif_exc = verif_e;" % " || ".join("verif_e == %d" % c for c in spec.may_throw))
        for lab, e in spec.exc_post:
            L.append("    __CPROVER_assume(%s);" % e)
        L.append("    return%s; }" % ("" if spec.ret_c == "void" else " ret"))
    for lab, e in spec.post:
        L.append("  __CPROVER_assume(%s);" % e)
    L.append("  return%s;" % ("" if spec.ret_c == "void" else " ret"))
    L.append("}")
    return "\n".join(L) + "\n"



def check_members(report):
    for hdr, cls, want in ((RPH, "RitzPairs", RP_MEMBERS), (SSH, "SearchSpace", SS_MEMBERS), (JD, "JDSymEigsBase", JD_MEMBERS),
                           (DV, "DavidsonSymEigsSolver", ["m_diagonal"])):
        got = X.members(hdr, cls)
        if got != want:
            raise X.ExtractionBreak("%s data members changed: %r (struct layout of the C15 skeleton was written for %r)" % (cls, got, want))
    report["members"] = "RitzPairs / SearchSpace / JDSymEigsBase / DavidsonSymEigsSolver data members as expected"


# --------------------------------------------------------------------------- RitzPairs::check_convergence

CC_DEFS = r'''
/* m_residues.colwise().norm(): one non-negative norm per column (Eigen; values not modelled) */
static Scalar *COLNORMS(RP *self) { Scalar *p = VEC_NEW(self->m_residues.cols); self->g_norms = p; return p; }
/* BoolArray::Zero(n) */
static _Bool *BVEC_ZERO(Index n) { _Bool *p = BVEC_NEW(n); if (0 <= g_i && g_i < n) p[g_i] = 0; return p; }
/* a.conservativeResizeLike(BoolArray::Zero(n)): the leading min(old, n) entries are kept, further entries are zero */
static _Bool *BVEC_RESIZE_KEEP(_Bool *old, Index n)
{ _Bool *p = BVEC_NEW(n); if (0 <= g_i && g_i < n) p[g_i] = (g_i < VEC_SIZE(old)) ? old[g_i] : 0; return p; }
'''


def f_check_convergence(report):
    f = X.locate(RPH, "check_convergence", cls="RitzPairs")
    ml = re.search(r"for \(Index (\w+) = 0; \1 < norms\.size\(\); (?:\1\+\+|\+\+\1)\)", f.body)
    mc = re.search(r"\bbool (\w+) = true;", f.body)
    if not (ml and mc):
        raise X.ExtractionBreak("check_convergence: loop over the residual norms / accumulator not recognised")
    J, CV = ml.group(1), mc.group(1)
    spec = FSpec("check_convergence", "_Bool", [("RP *", "self"), ("Scalar", "tol"), ("Index", "number_eigenvalues")],
                 pre=[("the requested number of eigenvalues is positive", "1 <= number_eigenvalues && number_eigenvalues <= NMAX")],
                 post=[("one flag per Ritz pair", "VEC_SIZE(self->m_root_converged) == self->m_residues.cols && VEC_SIZE(self->g_norms) == self->m_residues.cols"),
                       ("flag j <=> ||r_j|| < tol, element-wise, computed from the residual norms of THIS call",
                        "!(0 <= g_i && g_i < self->m_residues.cols) || (self->m_root_converged[g_i] == (self->g_norms[g_i] < tol))"),
                       ("returns true only if every one of the first min(nev, size) pairs has residual norm < tol",
                        "!ret || !(0 <= g_i && g_i < number_eigenvalues && g_i < self->m_residues.cols) || (self->g_norms[g_i] < tol)"),
                       ("returns false only if one of the first nev pairs has a residual norm that is not < tol (witness)",
                        "ret || (0 <= g_w && g_w < number_eigenvalues && g_w < self->m_residues.cols && !(self->g_norms[g_w] < tol))"),
                       ("the flags describe the current Ritz pairs", "self->st_conv == self->st_pairs"),
                       ("ghost record of this call", "self->g_cc_ret == ret && self->g_cc_nev == number_eigenvalues")],
                 frame=["self->m_root_converged", "self->g_norms", "self->st_conv", "g_w", "self->g_cc_ret", "self->g_cc_nev"], real=RPH + ":check_convergence")
    capify(spec)
    inv = ("__CPROVER_assigns(%(J)s, %(CV)s, g_w, __CPROVER_object_whole(self->m_root_converged)) "
           "__CPROVER_loop_invariant(0 <= %(J)s && %(J)s <= VEC_SIZE(norms) && (%(CV)s == 0 || %(CV)s == 1)) "   # a C _Bool holds 0 or 1 (dfcc havocs the byte)
           "__CPROVER_loop_invariant(!(0 <= g_i && g_i < %(J)s) || (self->m_root_converged[g_i] == (norms[g_i] < tol))) "
           "__CPROVER_loop_invariant(!%(CV)s || (g_w < 0 && (!(0 <= g_i && g_i < %(J)s && g_i < number_eigenvalues) || (norms[g_i] < tol)))) "
           "__CPROVER_loop_invariant(%(CV)s || (0 <= g_w && g_w < %(J)s && g_w < number_eigenvalues && !(norms[g_w] < tol))) "
           "__CPROVER_decreases(VEC_SIZE(norms) - %(J)s)") % {"J": J, "CV": CV}
    t, R = cgen.emit(f, "check_convergence", ret_c="_Bool", self_type="RP", members=RP_MEMBERS, param_types={"tol": "Scalar"},
                     extra_rules=[("norms", r"const Array norms = self->m_residues\.colwise\(\)\.norm\(\);", "Scalar *norms = COLNORMS(self);", {"max": 1}),
                                  ("zero", r"self->m_root_converged = BoolArray::Zero\(norms\.size\(\)\);", "self->m_root_converged = BVEC_ZERO(VEC_SIZE(norms)); self->st_conv = self->st_pairs;", {"min": 0, "max": 1}),
                                  # alternative (re)allocation idiom: resize keeping the old leading entries, new entries zero
                                  ("zero-keep", r"self->m_root_converged\.conservativeResizeLike\(BoolArray::Zero\(norms\.size\(\)\)\);",
                                   "self->m_root_converged = BVEC_RESIZE_KEEP(self->m_root_converged, VEC_SIZE(norms)); self->st_conv = self->st_pairs;", {"min": 0, "max": 1}),
                                  ("size", r"\bnorms\.size\(\)", "VEC_SIZE(norms)", {"min": 1}),
                                  ("bool", r"\bbool\b", "_Bool", {"min": 1}),
                                  # ghost witness for the `false` direction: the first requested pair that failed the test
                                  ("ret-ghost", r"return (\w+);", r"self->g_cc_ret = \1; self->g_cc_nev = number_eigenvalues; return \1;", {"max": 1}),
                                  ("witness", r"((?<!Bool )\b%s\s*(?:&=|=)(?!=)[^;]*;)" % CV, r"\1 if (!%s && g_w < 0) g_w = %s;" % (CV, J), {"min": 1}),
                                  ],
                     loop_contracts={0: inv}, contract=spec.frame_contract())
    if R.fired.get("x:zero", 0) + R.fired.get("x:zero-keep", 0) != 1:
        raise X.ExtractionBreak("check_convergence: (re)allocation of the flag array not recognised")
    report["RitzPairs::check_convergence"] = R.fired
    return CC_DEFS + t, spec


# --------------------------------------------------------------------------- RitzPairs::sort

SORT_DEFS = r'''
/* `RitzPairs<Scalar> temp = *this;` : temp keeps the old arrays; *this gets equally-sized fresh storage holding a copy.  The copy is
 * stated at the two Skolem positions (a position the loop does not overwrite keeps the old value there) */
static void RP_COPY_SPLIT(RP *self, RP *temp)
{
  *temp = *self;
  Index k = VEC_SIZE(temp->m_values);
  self->m_values = VEC_NEW(k); self->tag_val = IVEC_NEW(k);
  self->m_vectors = MAT_NEW(temp->m_vectors.rows, temp->m_vectors.cols);
  self->m_residues = MAT_NEW(temp->m_residues.rows, temp->m_residues.cols);
  self->m_small_vectors = MAT_NEW(temp->m_small_vectors.rows, temp->m_small_vectors.cols);
  if (0 <= g_i && g_i < k) { self->m_values[g_i] = temp->m_values[g_i]; self->tag_val[g_i] = temp->tag_val[g_i]; }
  if (0 <= g_j && g_j < k) { self->m_values[g_j] = temp->m_values[g_j]; self->tag_val[g_j] = temp->tag_val[g_j]; }
  if (0 <= g_i && g_i < temp->m_vectors.cols) self->m_vectors.coltag[g_i] = temp->m_vectors.coltag[g_i];
  if (0 <= g_j && g_j < temp->m_vectors.cols) self->m_vectors.coltag[g_j] = temp->m_vectors.coltag[g_j];
  if (0 <= g_i && g_i < temp->m_residues.cols) self->m_residues.coltag[g_i] = temp->m_residues.coltag[g_i];
  if (0 <= g_j && g_j < temp->m_residues.cols) self->m_residues.coltag[g_j] = temp->m_residues.coltag[g_j];
  if (0 <= g_i && g_i < temp->m_small_vectors.cols) self->m_small_vectors.coltag[g_i] = temp->m_small_vectors.coltag[g_i];
  if (0 <= g_j && g_j < temp->m_small_vectors.cols) self->m_small_vectors.coltag[g_j] = temp->m_small_vectors.coltag[g_j];
}
'''

SORT_RULES_REAL = ["LargestAlge", "LargestMagn", "SmallestAlge", "SmallestMagn", "BothEnds"]


def sort_spec():
    ok = "(" + " || ".join("selection == SortRule_%s" % r for r in SORT_RULES_REAL) + ")"
    both = "0 <= g_i && g_i < g_j && g_j < VEC_SIZE(self->m_values)"
    post = [("accepted <=> the rule is defined for real values", ok),
            ("shapes unchanged", RP_SHAPES + " && VEC_SIZE(self->m_values) == old_k && self->m_vectors.rows == old_rows"),
            ("value, Ritz vector, residual and small eigenvector are permuted together: position i receives all four from ONE source position",
             "!(0 <= g_i && g_i < old_k && g_ia == g_p) || (self->tag_val[g_i] == old_tv && self->m_vectors.coltag[g_i] == old_cv && "
             "self->m_residues.coltag[g_i] == old_cr && self->m_small_vectors.coltag[g_i] == old_cs)"),
            ("source positions are in range and distinct (a permutation: no pair is duplicated or lost)",
             "!(%s) || (0 <= g_ia && g_ia < old_k && 0 <= g_ib && g_ib < old_k && g_ia != g_ib)" % both),
            ("the pairs are the ones computed by the last small eigenproblem (stamp untouched)", "self->st_pairs == old_st")]
    for r, cl in skel.ordered_clause(""):
        if r in SORT_RULES_REAL and r != "BothEnds":
            post.append(("pairs ordered by the selection rule %s" % r,
                         "!(%s && NOTNAN(self->m_values[g_i]) && NOTNAN(self->m_values[g_j])) || verif_sorted_%s(selection, self->m_values[g_i], self->m_values[g_j])" % (both, r)))
    return FSpec("rp_sort", "void", [("RP *", "self"), ("SortRule", "selection")],
                 pre=[("class invariant of RitzPairs: one value, Ritz vector, residual and small eigenvector per pair", RP_SHAPES)],
                 post=post,
                 exc_post=[("rejected <=> rule not defined for real values", "!%s && verif_exc == EXC_invalid_argument" % ok),
                           ("nothing modified when the rule is rejected", "self->st_pairs == old_st && VEC_SIZE(self->m_values) == old_k")],
                 frame=["g_ia", "g_ib", "g_va", "g_vb", "self->m_values", "self->tag_val", "self->m_vectors", "self->m_residues", "self->m_small_vectors"],
                 may_throw=[1],
                 olds=[("Index", "old_k", "VEC_SIZE(self->m_values)"), ("Index", "old_rows", "self->m_vectors.rows"), ("Index", "old_st", "self->st_pairs"),
                       ("Index", "old_tv", "(0 <= g_p && g_p < VEC_SIZE(self->m_values)) ? self->tag_val[g_p] : 0"),
                       ("Index", "old_cv", "(0 <= g_p && g_p < self->m_vectors.cols) ? self->m_vectors.coltag[g_p] : 0"),
                       ("Index", "old_cr", "(0 <= g_p && g_p < self->m_residues.cols) ? self->m_residues.coltag[g_p] : 0"),
                       ("Index", "old_cs", "(0 <= g_p && g_p < self->m_small_vectors.cols) ? self->m_small_vectors.coltag[g_p] : 0")],
                 real=RPH + ":sort")


PERM_DEFS = r'''
/* Eigen::PermutationMatrix P with indices array p (ASSUMED library contract, Eigen documentation): (P * v)[p[i]] = v[i]; (P^T * v)[i] = v[p[i]];
 * (M * P).col(i) = M.col(p[i]); (M * P^T).col(p[i]) = M.col(i).  Results are fresh objects of the same shape whose entries / column tags are stated at
 * the two Skolem positions.  For the scatter forms the source of position g is SOME w with p[w] == g; it exists because p - argsort's result - is an
 * injective map of [0, k) into itself (proved in C18), hence onto (pigeonhole: mathematics, listed as an assumption). */
static Index PERM_PREIMAGE(const IndexArray *p, Index g) { Index w = nondet_Index(); __CPROVER_assume(0 <= w && w < p->size && p->data[w] == g); return w; }
static Index PERM_SRC(const IndexArray *p, Index g, _Bool gather)
{ if (gather) { __CPROVER_assume(0 <= p->data[g] && p->data[g] < p->size); return p->data[g]; } return PERM_PREIMAGE(p, g); }
static void PERM_VEC(RP *self, const IndexArray *p, _Bool gather)
{
  Index k = VEC_SIZE(self->m_values);
  __CPROVER_assert(p->size == k, "Eigen: permutation size equals the vector length");
  Scalar *nv = VEC_NEW(k); Index *nt = IVEC_NEW(k);
  if (0 <= g_i && g_i < k) { Index s_ = PERM_SRC(p, g_i, gather); nv[g_i] = self->m_values[s_]; nt[g_i] = self->tag_val[s_]; }
  if (0 <= g_j && g_j < k) { Index s_ = PERM_SRC(p, g_j, gather); nv[g_j] = self->m_values[s_]; nt[g_j] = self->tag_val[s_]; }
  self->m_values = nv; self->tag_val = nt;
}
static void PERM_MAT(Mat *M, const IndexArray *p, _Bool gather)
{
  __CPROVER_assert(p->size == M->cols, "Eigen: permutation size equals the number of columns");
  Mat N = MAT_NEW(M->rows, M->cols);
  if (0 <= g_i && g_i < M->cols) N.coltag[g_i] = M->coltag[PERM_SRC(p, g_i, gather)];
  if (0 <= g_j && g_j < M->cols) N.coltag[g_j] = M->coltag[PERM_SRC(p, g_j, gather)];
  *M = N;
}
'''


def _f_sort_perm(report):
    """RitzPairs::sort written with an Eigen::PermutationMatrix built from argsort's result (generalized extraction; the group is WEAK)."""
    f = X.locate(RPH, "sort", cls="RitzPairs")
    spec = capify(sort_spec())
    K = "VEC_SIZE(self->m_values)"
    mp = re.search(r"Eigen::PermutationMatrix<[^;]*>\s+(\w+)\(size\(\)\);", f.body)
    if not mp:
        raise X.ExtractionBreak("RitzPairs::sort: neither the copy-and-gather loop nor a PermutationMatrix built from argsort")
    P = mp.group(1)
    tr = r"(\.transpose\(\)|\.inverse\(\))?"
    vec = lambda m: "PERM_VEC(self, &%s, %d);" % (P, 1 if m.group(1) else 0)
    mat = lambda m: "PERM_MAT(&self->%s, &%s, %d);" % (m.group(1), P, 0 if m.group(2) else 1)
    t, R = cgen.emit(f, "rp_sort", ret_c="void", self_type="RP", members=RP_MEMBERS,
                     extra_rules=[("argsort", r"(?:const )?std::vector<Index> ind = argsort\(selection, self->m_values\);", "IndexArray ind = argsort(selection, self->m_values, %s);" % K, {"min": 1, "max": 1}),
                                  ("perm-decl", r"Eigen::PermutationMatrix<[^;]*>\s+%s\(size\(\)\);" % P, "IndexArray %s; %s.size = %s; %s.data = NULL;" % (P, P, K, P), {"min": 1, "max": 1}),
                                  # the fill loop `P.indices()[i] = ind[i]` for every i in [0, size()): P's index array IS ind
                                  ("perm-fill", r"for \(Index (\w+) = 0; \1 < size\(\); (?:\1\+\+|\+\+\1)\)\s*\{?\s*%s\.indices\(\)\[\1\] = ind\[\1\];\s*\}?" % P,
                                   "__CPROVER_assert(ind.size == %s.size, @Q@permutation filled from an index array of its own size@Q@); %s = ind;" % (P, P), {"min": 1, "max": 1}),
                                  ("perm-vec", r"self->m_values = %s%s \* self->m_values;" % (P, tr), vec, {"min": 1, "max": 1}),
                                  ("perm-mat", r"self->(m_vectors|m_residues|m_small_vectors) = self->\1 \* %s%s;" % (P, tr), mat, {"min": 3, "max": 3})],
                     contract=spec.frame_contract(), maythrow=["argsort"])
    if re.search(r"PermutationMatrix|\.indices\(\)|size\(\)", t):
        raise X.ExtractionBreak("RitzPairs::sort (permutation form): an unrecognised construct remains")
    report["RitzPairs::sort (permutation form)"] = R.fired
    return SORT_DEFS + PERM_DEFS + sort_order_defs() + t, spec


def f_sort(report):
    try:
        r = _f_sort_canonical(report)
        report["RitzPairs::sort form"] = "canonical"
        return r + (None,)
    except X.ExtractionBreak as e:
        report["RitzPairs::sort canonical break"] = str(e)
    t, spec = _f_sort_perm(report)
    report["RitzPairs::sort form"] = "permutation"
    return t, spec, ("RitzPairs::sort restructured around an Eigen::PermutationMatrix: Eigen's product semantics enter as an assumed contract, facts stated only at the "
                     "Skolem positions; a refutation counts only if the native replay reproduces a mis-paired result")


def _f_sort_canonical(report):
    f = X.locate(RPH, "sort", cls="RitzPairs")
    ml = re.search(r"for \(Index (\w+) = 0; \1 < size\(\); (?:\1\+\+|\+\+\1)\)", f.body)
    if not ml:
        raise X.ExtractionBreak("RitzPairs::sort: loop over the pairs not recognised")
    J = ml.group(1)
    spec = capify(sort_spec())
    K = "VEC_SIZE(temp.m_values)"
    tagged = lambda gi, gia, gv: ("__CPROVER_loop_invariant(!(0 <= %(gi)s && %(gi)s < %(J)s) || (self->tag_val[%(gi)s] == temp.tag_val[%(gia)s] && "
                                  "self->m_vectors.coltag[%(gi)s] == temp.m_vectors.coltag[%(gia)s] && self->m_residues.coltag[%(gi)s] == temp.m_residues.coltag[%(gia)s] && "
                                  "self->m_small_vectors.coltag[%(gi)s] == temp.m_small_vectors.coltag[%(gia)s] && NANEQ(self->m_values[%(gi)s], %(gv)s))) ") % {"gi": gi, "gia": gia, "gv": gv, "J": J}
    inv = ("__CPROVER_assigns(%(J)s, __CPROVER_object_whole(self->m_values), __CPROVER_object_whole(self->tag_val), __CPROVER_object_whole(self->m_vectors.coltag), "
           "__CPROVER_object_whole(self->m_residues.coltag), __CPROVER_object_whole(self->m_small_vectors.coltag)) "
           "__CPROVER_loop_invariant(0 <= %(J)s && %(J)s <= %(K)s) " % {"J": J, "K": K}) + tagged("g_i", "g_ia", "g_va") + tagged("g_j", "g_ib", "g_vb") + \
        "__CPROVER_decreases(%s - %s)" % (K, J)
    col = lambda m_: (r"self->%s\.col\((\w+)\) = temp\.%s\.col\(([^;]+)\);" % (m_, m_), r"COLCOPY(self->%s, \1, temp.%s, \2);" % (m_, m_))
    t, R = cgen.emit(f, "rp_sort", ret_c="void", self_type="RP", members=RP_MEMBERS,
                     extra_rules=[("argsort", r"std::vector<Index> ind = argsort\(selection, self->m_values\);", "IndexArray ind = argsort(selection, self->m_values, VEC_SIZE(self->m_values));", {"max": 1}),
                                  ("temp", r"RitzPairs<Scalar> temp = \*this;", "RP temp; RP_COPY_SPLIT(self, &temp);", {"max": 1}),
                                  ("size", r"(?<![\w.>])size\(\)", K, {"min": 1}),
                                  ("ind[]", r"\bind\[", "ind.data[", {"min": 1}),
                                  ("val-copy", r"self->m_values\[(\w+)\] = temp\.m_values\[([^;]+)\];",
                                   r"INSTANTIATE_RANGE(ind, \1, %s); self->m_values[\1] = temp.m_values[\2]; self->tag_val[\1] = temp.tag_val[\2];" % K, {"max": 1}),
                                  ("vec-copy",) + col("m_vectors") + ({"max": 1},),
                                  ("res-copy",) + col("m_residues") + ({"max": 1},),
                                  ("small-copy",) + col("m_small_vectors") + ({"max": 1},)],
                     loop_contracts={0: inv}, contract=spec.frame_contract(), maythrow=["argsort"])
    report["RitzPairs::sort"] = R.fired
    return SORT_DEFS + sort_order_defs() + t, spec


def sort_order_defs():
    return skel.NANEQ_DEF + "#define NOTNAN(v) ((v) == (v))\n" + \
        "".join("static _Bool verif_sorted_%s(SortRule selection, Scalar va, Scalar vb) { return %s; }\n" % (r, cl)
                for r, cl in skel.ordered_clause("") if r in SORT_RULES_REAL)


# --------------------------------------------------------------------------- shapes of Eigen expressions (mechanical, generic)
# The Davidson bookkeeping functions consist of a handful of dense expressions.  Their floating-point values are dropped; what is kept is what
# Eigen itself asserts about them: block selectors inside the matrix, inner dimensions of products, equal shapes of sums.  Grammar accepted:
#   expr := term (('+'|'-') term)* ;  term := factor ('*' factor)* ;  factor := NAME ('.transpose()' | '.leftCols(e)' | '.rightCols(e)' | '.asDiagonal()')*
# NAME is a Mat lvalue, a vector lvalue (asDiagonal only) or the operator.  Anything else is an extraction break.

class Shape:
    def __init__(self, rows, cols, checks, tag, opapply=False):
        self.rows, self.cols, self.checks, self.tag, self.opapply = rows, cols, checks, tag, opapply


SEL_RX = r"\.(transpose|asDiagonal|leftCols|rightCols)\(((?:[^()]|\([^()]*\))*)\)"
SEL_NC = r"\.(?:transpose|asDiagonal|leftCols|rightCols)\((?:[^()]|\([^()]*\))*\)"


def _strip_parens(t):
    t = t.strip()
    while t.startswith("(") and X.match_close(t, 0) == len(t) - 1:
        t = t[1:-1].strip()
    return t


def _factor(txt, mats, vecs, opname, g):
    txt = txt.strip()
    if txt.startswith("(") and X.match_close(txt, 0) == len(txt) - 1:
        return shape_of(txt[1:-1], mats, vecs, opname, g, as_factor=True)      # parenthesised sub-expression
    m = re.match(r"^([\w>-]+(?:\.\w+(?![\w(]))*)((?:%s)*)$" % SEL_NC, txt.strip())
    if not m:
        raise X.ExtractionBreak("shape rules: cannot parse factor %r" % txt)
    nm, sels = m.group(1), m.group(2)
    base = nm.split("->")[-1].split(".")[-1]
    if opname and nm == opname:
        if sels:
            raise X.ExtractionBreak("shape rules: selector on the operator: %r" % txt)
        return Shape("%s->n" % opname, "%s->n" % opname, [], None, opapply=True)
    if base in vecs:
        if sels != ".asDiagonal()":
            raise X.ExtractionBreak("shape rules: vector factor without asDiagonal(): %r" % txt)
        tg = vecs[base]
        return Shape("VEC_SIZE(%s)" % nm, "VEC_SIZE(%s)" % nm, [], ("%s[%s]" % (tg.replace("@", nm), g)) if tg else None)
    if base not in mats:
        raise X.ExtractionBreak("shape rules: %r is not a known matrix/vector/operator" % nm)
    rows, cols, checks, tag = "%s.rows" % nm, "%s.cols" % nm, [], "%s.coltag[%s]" % (nm, g)
    for sm in re.finditer(SEL_RX, sels):
        k, a = sm.group(1), sm.group(2).strip()
        if k == "transpose":
            rows, cols, tag = cols, rows, None
        elif k == "leftCols":
            checks.append("__CPROVER_assert(0 <= (%s) && (%s) <= %s, @Q@Eigen block assertion: leftCols(n) within the matrix@Q@);" % (a, a, cols))
            cols = "(%s)" % a
        elif k == "rightCols":
            checks.append("__CPROVER_assert(0 <= (%s) && (%s) <= %s, @Q@Eigen block assertion: rightCols(n) within the matrix@Q@);" % (a, a, cols))
            tag = "%s.coltag[%s - (%s) + %s]" % (nm, cols, a, g) if tag else None
            cols = "(%s)" % a
        else:
            raise X.ExtractionBreak("shape rules: asDiagonal() on a matrix: %r" % txt)
    return Shape(rows, cols, checks, tag)


def _split_terms(expr):
    """Split at top-level ` + ` / ` - ` (outside parentheses)."""
    out, depth, cur, i = [], 0, [], 0
    while i < len(expr):
        ch = expr[i]
        if ch in "([":
            depth += 1
        elif ch in ")]":
            depth -= 1
        if depth == 0 and ch in "+-" and i > 0 and expr[i - 1] == " " and i + 1 < len(expr) and expr[i + 1] == " ":
            out.append("".join(cur))
            cur = []
        else:
            cur.append(ch)
        i += 1
    out.append("".join(cur))
    return out


def shape_of(expr, mats, vecs, opname=None, g="g_i", as_factor=False):
    terms = _split_terms(expr.strip())
    out = None
    for t in terms:
        fs = [_factor(f, mats, vecs, opname, g) for f in X.split_top(t, "*")]
        cur = fs[0]
        tags = [fs[-1].tag]
        for nx in fs[1:]:
            cur = Shape(cur.rows, nx.cols, cur.checks + nx.checks +
                        ["__CPROVER_assert(%s == %s, @Q@Eigen: product dimensions agree@Q@);" % (cur.cols, nx.rows)], None, cur.opapply or nx.opapply)
        # column g of a product is a function of column g of its last factor (and of entry g of a trailing diagonal factor)
        if len(fs) >= 2 and fs[-1].rows.startswith("VEC_SIZE"):
            tags.append(fs[-2].tag if len(fs) == 2 else None)
        cur.tag = tags
        if out is None:
            out = cur
        else:
            out = Shape(out.rows, out.cols, out.checks + cur.checks +
                        ["__CPROVER_assert(%s == %s && %s == %s, @Q@Eigen: sum/difference needs equal shapes@Q@);" % (out.rows, cur.rows, out.cols, cur.cols)],
                        out.tag + cur.tag, out.opapply or cur.opapply)
    if as_factor:
        out.tag = None if (out.tag is None or any(t is None for t in out.tag) or len(out.tag) != 1) else out.tag[0]
    return out


def tag_expr(tags):
    """Provenance of column g of the result: the common tag of everything it was computed from, -1 if they disagree or are unknown."""
    if not tags or any(t is None for t in tags):
        return "-1"
    e = tags[0]
    cond = " && ".join("%s == %s" % (tags[0], t) for t in tags[1:]) or "1"
    return "((%s) ? %s : -1)" % (cond, e)


SHAPE_DEFS = r"""
/* fresh matrix standing for the value of an Eigen expression: shape from the expression, provenance of column g_i / g_j from its operands */
static Mat MAT_RESULT(Index r, Index c, Index tag_i, Index tag_j)
{ Mat M = MAT_NEW(r, c); if (0 <= g_i && g_i < c) M.coltag[g_i] = tag_i; if (0 <= g_j && g_j < c) M.coltag[g_j] = tag_j; return M; }
/* M.conservativeResize(Eigen::NoChange, c): the leading min(old, c) columns are kept */
static void CONS_RESIZE_COLS(Mat *M, Index c)
{ __CPROVER_assert(0 <= c, "Eigen: conservativeResize to a non-negative column count"); __CPROVER_assume(c <= NMAX);
  Index *nt = IVEC_NEW(c);
  if (0 <= g_i && g_i < c && g_i < M->cols) nt[g_i] = M->coltag[g_i];
  if (0 <= g_j && g_j < c && g_j < M->cols) nt[g_j] = M->coltag[g_j];
  M->coltag = nt; M->cols = c; }
/* Y = op * X for a block of k columns: the user's operator is applied (and may throw) */
static void OP_APPLY_BLOCK(Op *op, Index xrows, Index yrows, Index k)
{ __CPROVER_assert(xrows == op->n && yrows == op->n, "operator argument: blocks of length-n columns");
  if (k > 0) { g_ops++; if (nondet_bool()) { verif_exc = EXC_user; return; } } }
"""


def assign_rule(mats, vecs, opname=None):
    """`lhs[.rightCols(e)][.noalias()] = <expr>;` with a Mat lvalue on the left -> checks + fresh result of the expression's shape."""
    alt = "|".join(sorted((re.escape(m) for m in mats), key=len, reverse=True))
    pat = r"(?<![\w.>])((?:\w+->)?(?:%s))((?:\.(?:rightCols|leftCols)\((?:[^()]|\([^()]*\))*\))?)(?:\.noalias\(\))?\s*[-+]?=\s*([^;=]+);" % alt

    def rep(m):
        lhs, sel, rhs = m.group(1), m.group(2), " ".join(m.group(3).split())
        if re.match(r"^MAT_(NEW|RESULT|RIGHTCOLS)\(", rhs):
            return m.group(0)
        mm = re.match(r"^Matrix\((.*)\)$", rhs)
        if mm:
            a = X.split_top(mm.group(1))
            if len(a) != 2:
                raise X.ExtractionBreak("shape rules: Matrix(...) with %d arguments" % len(a))
            return "%s = MAT_NEW(%s, %s);" % (lhs, a[0].strip(), a[1].strip())
        si, sj = shape_of(rhs, mats, vecs, opname, "g_i"), shape_of(rhs, mats, vecs, opname, "g_j")
        pre = " ".join(si.checks)
        if sel:
            a = sel[sel.index("(") + 1:-1]
            pre += (" __CPROVER_assert(0 <= (%s) && (%s) <= %s.cols, @Q@Eigen block assertion: leftCols/rightCols(n) within the matrix@Q@);" % (a, a, lhs) +
                    " __CPROVER_assert(%s.rows == %s && (%s) == %s, @Q@Eigen: assignment to a block needs equal shapes@Q@);" % (lhs, si.rows, a, si.cols))
            if si.opapply:
                return pre + " OP_APPLY_BLOCK(%s, %s, %s.rows, %s); MAT_TOUCH(%s);" % (opname, si.rows, lhs, a, lhs)
            return pre + " MAT_TOUCH(%s);" % lhs
        if si.opapply:
            raise X.ExtractionBreak("shape rules: operator product assigned to a whole matrix")
        guard = lambda tg, g: "((0 <= %s && %s < %s) ? %s : -1)" % (g, g, si.cols, tag_expr(tg))
        return pre + " { Mat verif_r = MAT_RESULT(%s, %s, %s, %s); %s = verif_r; }" % (si.rows, si.cols, guard(si.tag, "g_i"), guard(sj.tag, "g_j"), lhs)
    return ("mat-assign", pat, rep, {"min": 1})


DIM_RULES = [("rows()", r"\.rows\(\)", ".rows", {"min": 0}), ("cols()", r"\.cols\(\)", ".cols", {"min": 0})]


def accessor_map(hdr, cls, table, report):
    """One-line const accessors are inlined after checking their bodies in the header."""
    out = {}
    for acc, member in table.items():
        f = X.locate(hdr, acc, cls=cls)
        if " ".join(f.body.split()) != "return %s;" % member:
            raise X.ExtractionBreak("%s::%s() is no longer `return %s;`" % (cls, acc, member))
        out[acc] = member
    report["%s accessors" % cls] = out
    return out


# --------------------------------------------------------------------------- SearchSpace

SS_SHAPE = ("0 <= self->m_basis_vectors.rows && self->m_basis_vectors.rows <= NMAX && 0 <= self->m_basis_vectors.cols && self->m_basis_vectors.cols <= NMAX && "
            "0 <= self->m_op_basis_product.rows && self->m_op_basis_product.rows <= NMAX && 0 <= self->m_op_basis_product.cols && self->m_op_basis_product.cols <= NMAX")
ALLOC_SS = r"""
  SS Sv; SS *self = &Sv; self->m_basis_vectors = MAT_NEW(ND_SIZE(), ND_SIZE()); self->m_op_basis_product = MAT_NEW(ND_SIZE(), ND_SIZE());
  g_i = nondet_Index(); g_j = nondet_Index(); g_ops = nondet_Index(); __CPROVER_assume(0 <= g_ops && g_ops <= 1000000000);
"""
ALLOC_RPC = ALLOC_RP.replace("RP Rv; RP *self = &Rv;", "RP Rv; RP *ritz_pairs = &Rv;").replace("self->", "ritz_pairs->")


def ss_specs():
    S = {}
    S["initialize_search_space"] = FSpec(
        "ss_initialize_search_space", "void", [("SS *", "self"), ("Mat", "initial_vectors")],
        pre=[("initial space is a matrix", "0 <= initial_vectors.rows && initial_vectors.rows <= NMAX && 0 <= initial_vectors.cols && initial_vectors.cols <= NMAX")],
        post=[("the basis is the caller's initial space", "self->m_basis_vectors.rows == initial_vectors.rows && self->m_basis_vectors.cols == initial_vectors.cols"),
              ("no cached operator product is kept from an earlier run", "self->m_op_basis_product.rows == initial_vectors.rows && self->m_op_basis_product.cols == 0")],
        frame=["self->m_basis_vectors", "self->m_op_basis_product"], real=SSH + ":initialize_search_space")
    S["update_operator_basis_product"] = FSpec(
        "ss_update_operator_basis_product", "void", [("SS *", "self"), ("Op *", "op")],
        pre=[("shapes", SS_SHAPE), ("cached products cover a prefix of the basis", "self->m_op_basis_product.cols <= self->m_basis_vectors.cols"),
             ("basis and cached products have operator-sized columns", "self->m_basis_vectors.rows == op->n && self->m_op_basis_product.rows == op->n")],
        post=[("one cached product column per basis column", "self->m_op_basis_product.cols == self->m_basis_vectors.cols && self->m_op_basis_product.rows == old_rows"),
              ("basis untouched", "self->m_basis_vectors.cols == old_bc && self->m_basis_vectors.rows == old_rows"),
              ("the operator is applied exactly when there are new basis vectors", "g_ops == old_ops + (old_bc > old_pc ? 1 : 0)")],
        exc_post=[("only the user's operator throws", "verif_exc == EXC_user")],
        frame=["self->m_op_basis_product", "g_ops"], may_throw=[7],
        olds=[("Index", "old_rows", "self->m_basis_vectors.rows"), ("Index", "old_bc", "self->m_basis_vectors.cols"), ("Index", "old_pc", "self->m_op_basis_product.cols"), ("Index", "old_ops", "g_ops")],
        real=SSH + ":update_operator_basis_product")
    S["restart"] = FSpec(
        "ss_restart", "void", [("SS *", "self"), ("const RP *", "ritz_pairs"), ("Index", "size")],
        pre=[("shapes", SS_SHAPE), ("restart size within the Ritz pairs", "0 <= size && size <= ritz_pairs->m_vectors.cols && size <= ritz_pairs->m_small_vectors.cols"),
             ("the small eigenvectors were computed for the current cached products", "self->m_op_basis_product.cols == ritz_pairs->m_small_vectors.rows"),
             ("Ritz vectors have operator-sized columns", "ritz_pairs->m_vectors.rows == self->m_op_basis_product.rows")],
        post=[("basis := the leading `size` Ritz vectors", "self->m_basis_vectors.rows == old_rows && self->m_basis_vectors.cols == size"),
              ("cached products follow the basis (same number of columns)", "self->m_op_basis_product.rows == old_rows && self->m_op_basis_product.cols == size"),
              ("column g of the new basis is Ritz vector g", "!(0 <= g_i && g_i < size) || self->m_basis_vectors.coltag[g_i] == ritz_pairs->m_vectors.coltag[g_i]"),
              ("column g of the new cached products is combined with small eigenvector g (the same pair)", "!(0 <= g_i && g_i < size) || self->m_op_basis_product.coltag[g_i] == ritz_pairs->m_small_vectors.coltag[g_i]")],
        frame=["self->m_basis_vectors", "self->m_op_basis_product"],
        olds=[("Index", "old_rows", "self->m_op_basis_product.rows")], real=SSH + ":restart")
    S["extend_basis"] = FSpec(
        "ss_extend_basis", "void", [("SS *", "self"), ("Mat", "new_vect")],
        pre=[("shapes", SS_SHAPE), ("new directions have basis-sized columns", "new_vect.rows == self->m_basis_vectors.rows && 0 <= new_vect.cols && new_vect.cols <= NMAX"),
             ("at least one new direction (precondition asserted by the orthogonalisation routine)", "new_vect.cols >= 1")],
        post=[("basis grows by the number of new directions", "self->m_basis_vectors.cols == old_bc + new_vect.cols && self->m_basis_vectors.rows == old_rows"),
              ("cached products untouched", "self->m_op_basis_product.cols == old_pc")],
        frame=["self->m_basis_vectors"],
        olds=[("Index", "old_rows", "self->m_basis_vectors.rows"), ("Index", "old_bc", "self->m_basis_vectors.cols"), ("Index", "old_pc", "self->m_op_basis_product.cols")],
        real=SSH + ":extend_basis")
    return S


ORTHO_STUB = r"""
/* twice_is_enough_orthogonalisation (LinAlg/Orthogonalization.h): shape-preserving; its own asserted precondition is checked here */
static void twice_is_enough_orthogonalisation(Mat *in_output, Index left_cols_to_skip)
{ __CPROVER_assert(in_output->cols > left_cols_to_skip && left_cols_to_skip >= 0, "precondition asserted by the orthogonalisation: 0 <= left_cols_to_skip < cols");
  MAT_TOUCH(*in_output); }
"""


def f_search_space(report):
    mats = ["m_basis_vectors", "m_op_basis_product", "initial_vectors", "new_vect", "m_vectors", "m_small_vectors", "m_residues"]
    rp_acc = accessor_map(RPH, "RitzPairs", {"ritz_vectors": "m_vectors", "ritz_values": "m_values", "small_ritz_vectors": "m_small_vectors",
                                              "residues": "m_residues", "converged_eigenvalues": "m_root_converged"}, report)
    specs = ss_specs()
    for v_ in specs.values():
        capify(v_)
    out = {}
    acc_rule = ("rp-accessor", r"\britz_pairs\.(\w+)\(\)", lambda m: "ritz_pairs->" + rp_acc[m.group(1)] if m.group(1) in rp_acc else m.group(0), {"min": 0})
    size_rule = ("size()", r"(?<![\w.>])size\(\)", "self->m_basis_vectors.cols", {"min": 0})
    sz = X.locate(SSH, "size", cls="SearchSpace")
    if " ".join(sz.body.split()) != "return m_basis_vectors.cols();":
        raise X.ExtractionBreak("SearchSpace::size() is no longer the number of basis columns")
    common_rules = [acc_rule] + DIM_RULES + [size_rule]
    resize = ("cons-resize", r"(self->\w+)\.conservativeResize\(Eigen::NoChange, ([^;]+)\);", r"CONS_RESIZE_COLS(&\1, \2);", {"max": 1})
    # initialize_search_space
    f = X.locate(SSH, "initialize_search_space", cls="SearchSpace")
    t, R = cgen.emit(f, "ss_initialize_search_space", ret_c="void", self_type="SS", members=SS_MEMBERS, param_types={"initial_vectors": "Mat"},
                     extra_rules=common_rules + [assign_rule(mats, {})], contract=specs["initialize_search_space"].frame_contract())
    report["SearchSpace::initialize_search_space"] = R.fired
    out["initialize_search_space"] = t
    # update_operator_basis_product
    f = X.locate(SSH, "update_operator_basis_product", cls="SearchSpace")
    t, R = cgen.emit(f, "ss_update_operator_basis_product", ret_c="void", self_type="SS", members=SS_MEMBERS, param_types={"op": "Op *"},
                     extra_rules=common_rules + [resize, assign_rule(mats, {}, "op")],
                     contract=specs["update_operator_basis_product"].frame_contract(), maythrow=["OP_APPLY_BLOCK"])
    report["SearchSpace::update_operator_basis_product"] = R.fired
    out["update_operator_basis_product"] = t
    # restart
    f = X.locate(SSH, "restart", cls="SearchSpace")
    t, R = cgen.emit(f, "ss_restart", ret_c="void", self_type="SS", members=SS_MEMBERS, param_types={"ritz_pairs": "const RP *"},
                     extra_rules=common_rules + [assign_rule(mats, {})], contract=specs["restart"].frame_contract())
    report["SearchSpace::restart"] = R.fired
    out["restart"] = t
    # extend_basis (+ private helper append_new_vectors_to_basis, kept as a real callee)
    fa = X.locate(SSH, "append_new_vectors_to_basis", cls="SearchSpace")
    ta, R = cgen.emit(fa, "ss_append_new_vectors_to_basis", ret_c="void", self_type="SS", members=SS_MEMBERS, param_types={"new_vect": "Mat"}, static=True,
                      extra_rules=common_rules + [resize, assign_rule(mats, {})])
    report["SearchSpace::append_new_vectors_to_basis"] = R.fired
    f = X.locate(SSH, "extend_basis", cls="SearchSpace")
    t, R = cgen.emit(f, "ss_extend_basis", ret_c="void", self_type="SS", members=SS_MEMBERS, param_types={"new_vect": "Mat"},
                     extra_rules=common_rules + [("append", r"(?<![\w>])append_new_vectors_to_basis\(new_vect\);", "ss_append_new_vectors_to_basis(self, new_vect);", {"max": 1}),
                                                 ("ortho", r"twice_is_enough_orthogonalisation\(self->m_basis_vectors, (\w+)\);", r"twice_is_enough_orthogonalisation(&self->m_basis_vectors, \1);", {"max": 1})],
                     contract=specs["extend_basis"].frame_contract())
    report["SearchSpace::extend_basis"] = R.fired
    out["extend_basis"] = ORTHO_STUB + ta + t
    return out, specs


# --------------------------------------------------------------------------- RitzPairs::compute_eigen_pairs

def decl_rule(mats, vecs):
    """`Matrix name = <expr>;` / `Matrix name = Matrix::Zero(r, c);` -> fresh result of the expression's shape (name joins `mats`)."""
    def rep(m):
        nm, rhs = m.group(1), " ".join(m.group(2).split())
        mats.append(nm)
        mz = re.match(r"^Matrix::Zero\((.*)\)$", rhs)
        if mz:
            a = X.split_top(mz.group(1))
            if len(a) != 2:
                raise X.ExtractionBreak("shape rules: Matrix::Zero with %d arguments" % len(a))
            return "Mat %s = MAT_NEW(%s, %s);" % (nm, a[0].strip(), a[1].strip())
        si, sj = shape_of(rhs, mats, vecs, None, "g_i"), shape_of(rhs, mats, vecs, None, "g_j")
        guard = lambda tg, g: "((0 <= %s && %s < %s) ? %s : -1)" % (g, g, si.cols, tag_expr(tg))
        return " ".join(si.checks) + " Mat %s = MAT_RESULT(%s, %s, %s, %s);" % (nm, si.rows, si.cols, guard(si.tag, "g_i"), guard(sj.tag, "g_j"))
    return ("mat-decl", r"(?<![\w&])Matrix (\w+) = ([^;]+);", rep, {"min": 0})


CEP_DEFS = r"""
/* Eigen::SelfAdjointEigenSolver<Matrix>(M): assumed contract - needs a square matrix; n eigenvalues, n x n eigenvectors, column j belongs to value j;
 * info() is Success, NumericalIssue or NoConvergence */
static int ES_INFO(void) { int r = nondet_int(); __CPROVER_assume(0 <= r && r <= 2); return r; }
static Scalar *ES_VALUES(RP *self, Index n)
{ Scalar *p = VEC_NEW(n); self->tag_val = IVEC_NEW(n);
  if (0 <= g_i && g_i < n) self->tag_val[g_i] = g_i;
  if (0 <= g_j && g_j < n) self->tag_val[g_j] = g_j;
  return p; }
"""


def cep_spec():
    return FSpec("rp_compute_eigen_pairs", "int", [("RP *", "self"), ("const SS *", "search_space")],
                 pre=[("one cached operator product per basis vector, columns of equal length",
                       "search_space->m_basis_vectors.rows == search_space->m_op_basis_product.rows && search_space->m_basis_vectors.cols == search_space->m_op_basis_product.cols && "
                       "0 <= search_space->m_basis_vectors.rows && search_space->m_basis_vectors.rows <= NMAX && 0 <= search_space->m_basis_vectors.cols && search_space->m_basis_vectors.cols <= NMAX"),
                      ("clock", "0 <= g_clock && g_clock <= 2000000000")],
                 post=[("one value, Ritz vector, residual and small eigenvector per basis vector (class invariant of RitzPairs)",
                        RP_SHAPES + " && VEC_SIZE(self->m_values) == search_space->m_basis_vectors.cols && self->m_vectors.rows == search_space->m_basis_vectors.rows"),
                       ("value j, Ritz vector j, residual j and small eigenvector j belong to the same pair",
                        "!(0 <= g_i && g_i < VEC_SIZE(self->m_values)) || (self->tag_val[g_i] == g_i && self->m_vectors.coltag[g_i] == g_i && self->m_residues.coltag[g_i] == g_i && self->m_small_vectors.coltag[g_i] == g_i)"),
                       ("the pairs are new: flags computed earlier no longer describe them", "self->st_pairs == g_clock && g_clock == old_clock + 1"),
                       ("status of the small eigenproblem is returned", "0 <= ret && ret <= 2")],
                 frame=["self->m_values", "self->tag_val", "self->m_small_vectors", "self->m_vectors", "self->m_residues", "self->st_pairs", "g_clock"],
                 olds=[("Index", "old_clock", "g_clock")], real=RPH + ":compute_eigen_pairs")


def f_compute_eigen_pairs(report):
    f = X.locate(RPH, "RitzPairs<Scalar>::compute_eigen_pairs")
    ss_acc = accessor_map(SSH, "SearchSpace", {"basis_vectors": "m_basis_vectors", "operator_basis_product": "m_op_basis_product"}, report)
    mats = ["m_small_vectors", "m_vectors", "m_residues"]
    vecs = {"m_values": "self->tag_val"}
    spec = capify(cep_spec())

    def ref_rule(m):
        mats.append(m.group(1))
        return "const Mat %s = %s;" % (m.group(1), m.group(2))
    t, R = cgen.emit(f, "rp_compute_eigen_pairs", ret_c="int", self_type="RP", members=RP_MEMBERS, param_types={"search_space": "const SS *"},
                     extra_rules=[("ss-accessor", r"\bsearch_space\.(\w+)\(\)", lambda m: "search_space->" + ss_acc[m.group(1)] if m.group(1) in ss_acc else m.group(0), {"min": 2}),
                                  ("ref-decl", r"const Matrix& (\w+) = ([^;]+);", ref_rule, {"min": 0}),
                                  decl_rule(mats, vecs),
                                  ("eigensolver", r"Eigen::SelfAdjointEigenSolver<Matrix> (\w+)\((\w+)\);",
                                   r"__CPROVER_assert(\2.rows == \2.cols, @Q@Eigen: SelfAdjointEigenSolver needs a square matrix@Q@); const Index \1_n = \2.rows; const int \1_info = ES_INFO(); g_clock++;", {"max": 1}),
                                  ("es-values", r"self->m_values = (\w+)\.eigenvalues\(\);", r"self->m_values = ES_VALUES(self, \1_n); self->st_pairs = g_clock;", {"max": 1}),
                                  ("es-vectors", r"self->m_small_vectors = (\w+)\.eigenvectors\(\);", r"self->m_small_vectors = MAT_RESULT(\1_n, \1_n, g_i, g_j);", {"max": 1}),
                                  assign_rule(mats, vecs),
                                  ("es-info", r"return (\w+)\.info\(\);", r"return \1_info;", {"max": 1})],
                     contract=spec.frame_contract())
    report["RitzPairs::compute_eigen_pairs"] = R.fired
    return CEP_DEFS + t, spec


# --------------------------------------------------------------------------- DavidsonSymEigsSolver

JD_INV = ("1 <= self->op_n && self->op_n <= NMAX && 1 <= self->m_number_eigenvalues && self->m_number_eigenvalues <= self->op_n - 1 && "
          "0 <= self->m_initial_search_space_size && self->m_initial_search_space_size <= NMAX && 0 <= self->m_correction_size && self->m_correction_size <= NMAX && "
          "self->m_number_eigenvalues <= self->m_initial_search_space_size && 1 <= self->m_correction_size && self->m_correction_size <= self->m_initial_search_space_size && "
          "self->m_initial_search_space_size + self->m_correction_size <= self->op_n && self->m_initial_search_space_size <= self->m_max_search_space_size && "
          "self->m_max_search_space_size <= self->op_n")
JD_INV_DOC = ("class invariant established by the constructor (setters are the caller's responsibility): 1 <= nev <= n - 1, nev <= initial size, "
              "1 <= correction size <= initial size, initial + correction <= n, initial size <= maximal size <= n")

ALLOC_JD = r"""
  JDS Jv; JDS *self = &Jv; Op opv; Op *op = &opv;
  self->op_n = nondet_Index(); op->n = self->op_n; self->op = op;
  self->niter_ = nondet_Index(); self->m_number_eigenvalues = nondet_Index(); self->m_max_search_space_size = nondet_Index();
  self->m_initial_search_space_size = nondet_Index(); self->m_correction_size = nondet_Index(); self->m_info = nondet_int();
  self->m_diagonal = VEC_NEW(ND_SIZE());
  { RP *rp = &self->m_ritz_pairs;
    rp->m_values = VEC_NEW(ND_SIZE()); rp->tag_val = IVEC_NEW(VEC_SIZE(rp->m_values));
    rp->m_small_vectors = MAT_NEW(ND_SIZE(), ND_SIZE()); rp->m_vectors = MAT_NEW(ND_SIZE(), ND_SIZE()); rp->m_residues = MAT_NEW(ND_SIZE(), ND_SIZE());
    rp->m_root_converged = BVEC_NEW(ND_SIZE()); rp->g_norms = VEC_NEW(ND_SIZE()); rp->st_pairs = nondet_Index(); rp->st_conv = nondet_Index();
    rp->g_cc_ret = nondet_bool(); rp->g_cc_nev = nondet_Index(); rp->g_sorted_sel = nondet_int(); }
  self->m_search_space.m_basis_vectors = MAT_NEW(ND_SIZE(), ND_SIZE()); self->m_search_space.m_op_basis_product = MAT_NEW(ND_SIZE(), ND_SIZE());
  g_i = nondet_Index(); g_j = nondet_Index(); g_p = nondet_Index(); g_w = -1;
  g_ops = nondet_Index(); g_clock = nondet_Index(); __CPROVER_assume(0 <= g_ops && g_ops <= 1000000000 && 0 <= g_clock && g_clock <= 1000000000);
"""

THIS_RULE = ("this->", r"\bthis->", "", {"min": 0})
OPDIM_RULES = [("op.rows()", r"self->m_matrix_operator\.(rows|cols)\(\)", "self->op_n", {"min": 0}), ("op.rows()2", r"\bop\.(rows|cols)\(\)", "op->n", {"min": 0})]


def ccv_spec():
    return FSpec("calculate_correction_vector", "Mat", [("const JDS *", "self")],
                 pre=[("operator dimension", "1 <= self->op_n && self->op_n <= NMAX"),
                      ("one correction per leading Ritz pair: 0 <= correction size <= number of Ritz pairs",
                       "0 <= self->m_correction_size && self->m_correction_size <= VEC_SIZE(self->m_ritz_pairs.m_values) && self->m_correction_size <= self->m_ritz_pairs.m_residues.cols"),
                      ("residuals and the stored diagonal have operator-sized columns", "self->m_ritz_pairs.m_residues.rows == self->op_n && VEC_SIZE(self->m_diagonal) == self->op_n"),
                      ("DPR denominator: no Ritz value used for a correction equals a diagonal entry exactly (theta_k - a_ii != 0)",
                       "!(0 <= g_j && g_j < self->m_correction_size && 0 <= g_i && g_i < self->op_n) || self->m_ritz_pairs.m_values[g_j] != self->m_diagonal[g_i]")],
                 post=[("one n-vector per correction", "ret.rows == self->op_n && ret.cols == self->m_correction_size")],
                 frame=[], real=DV + ":calculate_correction_vector")


CCV_DEFS = r"""
/* correction.col(k) = residues.col(k).array() / (theta_k - diagonal).array(): sizes must agree, and the quotient is finite only for a non-zero denominator */
#define DPR_QUOTIENT(corr, k, res, theta, diag) do { COL_CHECK(corr, k); COL_CHECK(res, k); \
    __CPROVER_assert((res).rows == VEC_SIZE(diag) && (corr).rows == (res).rows, "Eigen: coefficient-wise quotient needs equal sizes"); \
    __CPROVER_assert(!((k) == g_j && 0 <= g_i && g_i < VEC_SIZE(diag)) || ((theta) - (diag)[g_i]) != (Scalar)0, "DPR correction: the denominator theta_k - a_ii is not zero"); \
    (corr).cell = nondet_Scalar(); } while (0)
"""


def f_calc_correction(report):
    f = X.locate(DV, "calculate_correction_vector", cls="DavidsonSymEigsSolver")
    ml = re.search(r"for \(Index (\w+) = 0; \1 < this->m_correction_size; (?:\1\+\+|\+\+\1)\)", f.body)
    if not ml:
        raise X.ExtractionBreak("calculate_correction_vector: loop over the corrections not recognised")
    K = ml.group(1)
    spec = capify(ccv_spec())
    mats = []
    inv = ("__CPROVER_assigns(%(K)s, correction.cell) __CPROVER_loop_invariant(0 <= %(K)s && %(K)s <= self->m_correction_size) "
           "__CPROVER_decreases(self->m_correction_size - %(K)s)") % {"K": K}
    t, R = cgen.emit(f, "calculate_correction_vector", ret_c="Mat", self_type="const JDS", members=JD_MEMBERS + ["m_diagonal"],
                     pre_rules=[THIS_RULE],
                     extra_rules=OPDIM_RULES + [
                         ("residues", r"const Matrix& (\w+) = self->m_ritz_pairs\.residues\(\);", r"const Mat \1 = self->m_ritz_pairs.m_residues;", {"max": 1}),
                         ("eigvals", r"const Vector& (\w+) = self->m_ritz_pairs\.ritz_values\(\);", r"const Scalar *\1 = self->m_ritz_pairs.m_values;", {"max": 1}),
                         decl_rule(mats, {}),
                         ("theta", r"Vector (\w+) = (\w+)\((\w+)\) - self->m_diagonal\.array\(\);", r"const Scalar \1_theta = \2[\3];", {"max": 1}),
                         ("quotient", r"(\w+)\.col\((\w+)\) = (\w+)\.col\((\w+)\)\.array\(\) / (\w+)\.array\(\);",
                          lambda m: ("DPR_QUOTIENT(%s, %s, %s, %s_theta, self->m_diagonal);" % (m.group(1), m.group(2), m.group(3), m.group(5))) if m.group(2) == m.group(4)
                          else "COL_CHECK(%s, %s); COL_CHECK(%s, %s); __CPROVER_assert(0, @Q@correction k is computed from residual k@Q@);" % (m.group(1), m.group(2), m.group(3), m.group(4)), {"max": 1})],
                     loop_contracts={0: inv}, contract=spec.frame_contract())
    t = t.replace("const JDS *self", "const JDS *self", 1)
    report["DavidsonSymEigsSolver::calculate_correction_vector"] = R.fired
    return CCV_DEFS + t, spec


def sis_spec():
    return FSpec("setup_initial_search_space", "Mat", [("const JDS *", "self"), ("SortRule", "selection")],
                 pre=[("the initial search space fits the matrix: 0 <= initial size <= n", "1 <= self->op_n && self->op_n <= NMAX && 0 <= self->m_initial_search_space_size && self->m_initial_search_space_size <= self->op_n"),
                      ("stored diagonal has n entries", "VEC_SIZE(self->m_diagonal) == self->op_n")],
                 post=[("accepted <=> the rule is defined for real values", "(" + " || ".join("selection == SortRule_%s" % r for r in SORT_RULES_REAL) + ")"),
                       ("n x (initial size) basis", "ret.rows == self->op_n && ret.cols == self->m_initial_search_space_size"),
                       ("column k is the unit vector of the k-th diagonal entry in selection order; distinct columns pick distinct coordinates",
                        "!(0 <= g_i && g_i < g_j && g_j < self->m_initial_search_space_size) || (ret.coltag[g_i] == g_ia && ret.coltag[g_j] == g_ib && g_ia != g_ib)")],
                 exc_post=[("rejected <=> rule not defined for real values", "verif_exc == EXC_invalid_argument && !(" + " || ".join("selection == SortRule_%s" % r for r in SORT_RULES_REAL) + ")")],
                 frame=["g_ia", "g_ib", "g_va", "g_vb"], may_throw=[1], real=DV + ":setup_initial_search_space")


def f_setup_initial(report):
    f = X.locate(DV, "setup_initial_search_space", cls="DavidsonSymEigsSolver")
    ml = re.search(r"for \(Index (\w+) = 0; \1 < this->m_initial_search_space_size; (?:\1\+\+|\+\+\1)\)", f.body)
    if not ml:
        raise X.ExtractionBreak("setup_initial_search_space: loop over the initial basis not recognised")
    K = ml.group(1)
    spec = capify(sis_spec())
    mats = []
    inv = ("__CPROVER_assigns(%(K)s, initial_basis.cell, __CPROVER_object_whole(initial_basis.coltag)) "
           "__CPROVER_loop_invariant(0 <= %(K)s && %(K)s <= self->m_initial_search_space_size) "
           "__CPROVER_loop_invariant(!(0 <= g_i && g_i < %(K)s) || initial_basis.coltag[g_i] == g_ia) "
           "__CPROVER_loop_invariant(!(0 <= g_j && g_j < %(K)s) || initial_basis.coltag[g_j] == g_ib) "
           "__CPROVER_decreases(self->m_initial_search_space_size - %(K)s)") % {"K": K}
    t, R = cgen.emit(f, "setup_initial_search_space", ret_c="Mat", self_type="const JDS", members=JD_MEMBERS + ["m_diagonal"],
                     pre_rules=[THIS_RULE],
                     extra_rules=OPDIM_RULES + [
                         ("argsort", r"std::vector<Eigen::Index> (\w+) = argsort\(selection, self->m_diagonal\);", r"IndexArray \1 = argsort(selection, self->m_diagonal, VEC_SIZE(self->m_diagonal));", {"max": 1}),
                         decl_rule(mats, {}),
                         ("row", r"Index (\w+) = (\w+)\[(\w+)\];",
                          r"__CPROVER_assert(0 <= \3 && \3 < \2.size, @Q@std::vector index within argsort's result@Q@); INSTANTIATE_RANGE(\2, \3, VEC_SIZE(self->m_diagonal)); Index \1 = \2.data[\3];", {"max": 1}),
                         ("unit", r"(\w+)\((\w+), (\w+)\) = 1\.0;", r"*MAT_ELEM(&\1, \2, \3) = (Scalar)1.0; \1.coltag[\3] = \2;", {"max": 1})],
                     loop_contracts={0: inv}, contract=spec.frame_contract(), maythrow=["argsort"])
    report["DavidsonSymEigsSolver::setup_initial_search_space"] = R.fired
    return t, spec


# --------------------------------------------------------------------------- JDSymEigsBase::compute_with_guess / compute / constructor / accessors

SUCC = "self->m_info == CompInfo_Successful"
_RPM = ["m_small_vectors", "m_vectors", "m_residues"]
_SSM = ["m_basis_vectors", "m_op_basis_product"]
CAP_MATS = _RPM + _SSM
# capacity mode: what compute_with_guess (and its loop) may assign - scalars, Mat dimensions, and the pre-allocated capacity arrays (in place)
CWG_SCALARS = ["self->m_ritz_pairs.%s" % f for f in ("n_values", "n_flags", "n_norms", "st_pairs", "st_conv", "g_cc_ret", "g_cc_nev", "g_sorted_sel")] + \
    ["self->m_ritz_pairs.%s.%s" % (m, f) for m in _RPM for f in ("rows", "cols", "cell")] + ["self->m_search_space.%s.%s" % (m, f) for m in _SSM for f in ("rows", "cols", "cell")]
CWG_OBJS = ["self->m_ritz_pairs.%s" % f for f in ("m_values", "tag_val", "m_root_converged", "g_norms")] + \
    ["self->m_ritz_pairs.%s.coltag" % m for m in _RPM] + ["self->m_search_space.%s.coltag" % m for m in _SSM]

CAP_GLOBALS = ("Index g_ia, g_ib; Scalar g_va, g_vb; Index g_cap; static Index CAP_SIZE(void) { Index n = nondet_Index(); __CPROVER_assume(0 <= n && n <= g_cap); return n; } "
               "Index *g_corr_coltag;   /* capacity mode: column tags of a matrix returned by value */\n")
ALLOC_JD_CAP = r"""
  JDS Jv; JDS *self = &Jv; Op opv; Op *op = &opv;
  self->op_n = nondet_Index(); op->n = self->op_n; self->op = op;
  self->niter_ = nondet_Index(); self->m_number_eigenvalues = nondet_Index(); self->m_max_search_space_size = nondet_Index();
  self->m_initial_search_space_size = nondet_Index(); self->m_correction_size = nondet_Index(); self->m_info = nondet_int();
  self->m_diagonal = VEC_NEW(ND_SIZE());
  g_cap = ND_SIZE();   /* capacity of every pre-allocated array: arbitrary, so every run whose sizes stay below the machine-integer cap NMAX is covered */
  { RP *rp = &self->m_ritz_pairs;      /* capacity mode: every array has capacity NMAX, the Eigen size is the ghost field */
    rp->m_values = VEC_NEW(g_cap); rp->tag_val = IVEC_NEW(g_cap); rp->m_root_converged = BVEC_NEW(g_cap); rp->g_norms = VEC_NEW(g_cap);
    rp->n_values = CAP_SIZE(); rp->n_flags = CAP_SIZE(); rp->n_norms = CAP_SIZE();
    rp->m_small_vectors = MAT_NEW(g_cap, g_cap); rp->m_vectors = MAT_NEW(g_cap, g_cap); rp->m_residues = MAT_NEW(g_cap, g_cap);
    rp->m_small_vectors.rows = CAP_SIZE(); rp->m_small_vectors.cols = CAP_SIZE(); rp->m_vectors.rows = CAP_SIZE(); rp->m_vectors.cols = CAP_SIZE();
    rp->m_residues.rows = CAP_SIZE(); rp->m_residues.cols = CAP_SIZE();
    rp->st_pairs = nondet_Index(); rp->st_conv = nondet_Index(); rp->g_cc_ret = nondet_bool(); rp->g_cc_nev = nondet_Index(); rp->g_sorted_sel = nondet_int(); }
  self->m_search_space.m_basis_vectors = MAT_NEW(g_cap, g_cap); self->m_search_space.m_op_basis_product = MAT_NEW(g_cap, g_cap);
  self->m_search_space.m_basis_vectors.rows = CAP_SIZE(); self->m_search_space.m_basis_vectors.cols = CAP_SIZE();
  self->m_search_space.m_op_basis_product.rows = CAP_SIZE(); self->m_search_space.m_op_basis_product.cols = CAP_SIZE();
  g_corr_coltag = IVEC_NEW(g_cap);
  __CPROVER_assume(self->op_n <= g_cap);   /* every size that occurs is at most the capacity (the instance g_cap = NMAX covers every run below the integer cap) */
  g_i = nondet_Index(); g_j = nondet_Index(); g_p = nondet_Index(); g_w = -1;
  g_ops = nondet_Index(); g_clock = nondet_Index(); __CPROVER_assume(0 <= g_ops && g_ops <= 1000000000 && 0 <= g_clock && g_clock <= 1000000000);
"""


def cwg_spec(sized=True):
    nev = "self->m_number_eigenvalues"
    rp = "self->m_ritz_pairs"
    pre = [(JD_INV_DOC, JD_INV),
           ("the initial space has n rows, at least as many columns as the restart size (which is at least nev and the correction size) and at most the maximal size",
            "initial_space.rows == self->op_n && self->m_initial_search_space_size <= initial_space.cols && initial_space.cols <= self->m_max_search_space_size"),
           ("at least one iteration is allowed", "1 <= maxit && maxit <= 100000"),
           ("stored diagonal has n entries", "VEC_SIZE(self->m_diagonal) == self->op_n"), ("operator", "self->op->n == self->op_n"),
           ("clock", "0 <= g_clock && g_clock <= 1000000000 && 0 <= g_ops && g_ops <= 1000000000")]
    post = [("status after compute is Successful, NotConverging or NumericalIssue", "%s || self->m_info == CompInfo_NotConverging || self->m_info == CompInfo_NumericalIssue" % SUCC),
            ("Successful => compute() returns nev", "!(%s) || ret == %s" % (SUCC, nev)),
            ("the return value counts flagged pairs among the first nev", "0 <= ret && ret <= %s" % nev),
            ("Successful => the flags describe the returned pairs (not an earlier set)", "!(%s) || %s.st_conv == %s.st_pairs" % (SUCC, rp, rp)),
            ("Successful => each of the nev returned pairs is flagged and has a (cached) residual norm < tol",
             "!(%s && 0 <= g_i && g_i < %s) || (%s.m_root_converged[g_i] && %s.g_norms[g_i] < tol)" % (SUCC, nev, rp, rp)),
            ("unless the small eigenproblem failed, the returned pairs are ordered by the selection rule", "self->m_info == CompInfo_NumericalIssue || %s.g_sorted_sel == selection" % rp),
            ("NotConverging only when the iteration limit is reached", "self->m_info != CompInfo_NotConverging || self->niter_ == maxit - 1"),
            ("number of iterations within the limit", "0 <= self->niter_ && self->niter_ <= maxit - 1"),
            ("at least nev Ritz pairs exist, so eigenvalues() / eigenvectors() are index-safe",
             "VEC_SIZE(%s.m_values) >= %s && %s.m_vectors.cols >= %s && %s.m_vectors.rows == self->op_n && VEC_SIZE(%s.m_root_converged) >= %s" % (rp, nev, rp, nev, rp, rp, nev)),
            ("class invariant preserved", JD_INV)]
    return FSpec("compute_with_guess", "Index", [("JDS *", "self"), ("Mat", "initial_space"), ("SortRule", "selection"), ("Index", "maxit"), ("Scalar", "tol")],
                 pre=pre, post=post,
                 exc_post=[("only the user's operator or an unsupported selection rule throw", "verif_exc == EXC_user || verif_exc == EXC_invalid_argument"), ("class invariant preserved", JD_INV)],
                 frame=["self->niter_", "self->m_info", "g_ops", "g_clock", "g_ia", "g_ib", "g_va", "g_vb", "g_w"] + CWG_SCALARS, frame_objs=CWG_OBJS,
                 may_throw=[1, 7], real=JD + ":compute_with_guess")


CWG_DEFS = r"""
/* converged_eigenvalues().cast<Index>().head(n).sum(): number of set flags among the first n (definitional facts of a count, instantiated at the Skolem index, and
 * the counting lemma `all of the first n flags set <=> count == n`, which check_convergence's contract states for n = nev) */
/* ASSUMPTION (listed in the evidence): the small eigenproblem of the FIRST iteration of a call works on the caller's finite initial space and the finite operator, so
 * Eigen's solver succeeds there; failures are modelled from the second iteration on (non-finite values can only come out of a correction step) */
#define FIRST_SMALL_PROBLEM_SUCCEEDS(it, info) do { if ((it) == 0) __CPROVER_assume((info) == 0); } while (0)
static Index HEAD_COUNT(const RP *rp, Index n)
{ __CPROVER_assert(0 <= n && n <= NFLAGS(rp), "Eigen block assertion: head(n) within the flag array");
  Index c = nondet_Index(); __CPROVER_assume(0 <= c && c <= n);
  if (0 <= g_i && g_i < n) __CPROVER_assume((c < n || rp->m_root_converged[g_i]) && (c > 0 || !rp->m_root_converged[g_i]));
  if (rp->g_cc_nev == n && rp->st_conv == rp->st_pairs && n <= rp->m_residues.cols) __CPROVER_assume((c == n) == (rp->g_cc_ret != 0));
  return c; }
"""


def f_compute_with_guess(report, specs):
    f = X.locate(JD, "compute_with_guess", cls="JDSymEigsBase")
    spec = capify(cwg_spec())
    rp = "self->m_ritz_pairs"
    ssp = "self->m_search_space"
    SHAPE_INV = ("%(ss)s.m_basis_vectors.rows == self->op_n && %(ss)s.m_op_basis_product.rows == self->op_n && 0 <= %(ss)s.m_op_basis_product.cols && "
                 "%(ss)s.m_op_basis_product.cols <= %(ss)s.m_basis_vectors.cols && %(ss)s.m_basis_vectors.cols <= NMAX && "
                 "self->m_initial_search_space_size <= %(ss)s.m_basis_vectors.cols") % {"ss": ssp}
    RP_INV = RP_SHAPES.replace("self->", rp + ".") + (" && VEC_SIZE(%(rp)s.m_values) == %(ss)s.m_op_basis_product.cols && %(rp)s.m_vectors.rows == self->op_n && "
                                                      "self->m_initial_search_space_size <= VEC_SIZE(%(rp)s.m_values) && VEC_SIZE(%(rp)s.m_root_converged) == VEC_SIZE(%(rp)s.m_values)") % {"rp": rp, "ss": ssp}
    RP_INV = capify_text(RP_INV)
    inv = ("__CPROVER_assigns(self->niter_, self->m_info, verif_exc, g_ops, g_clock, g_ia, g_ib, g_va, g_vb, g_w, " + ", ".join(CWG_SCALARS) + ", " +
           ", ".join("__CPROVER_object_whole(%s)" % o for o in CWG_OBJS) + ") "
           "__CPROVER_loop_invariant(0 <= self->niter_ && self->niter_ <= maxit - 1 && verif_exc == 0) "   # the body of iteration maxit - 1 always leaves through a break
           "__CPROVER_loop_invariant(0 <= g_clock && g_clock <= old_clock_l + self->niter_ && 0 <= g_ops && g_ops <= old_ops_l + self->niter_) "
           "__CPROVER_loop_invariant(%s) "
           "__CPROVER_loop_invariant(self->niter_ != 0 || (%s.m_basis_vectors.cols <= self->m_max_search_space_size && %s.m_op_basis_product.cols == 0)) "
           "__CPROVER_loop_invariant(self->niter_ == 0 || (%s)) "
           "__CPROVER_decreases(maxit - self->niter_)") % (SHAPE_INV, ssp, ssp, RP_INV)
    t, R = cgen.emit(f, "compute_with_guess", ret_c="Index", self_type="JDS", members=JD_MEMBERS,
                     param_types={"initial_space": "Mat", "tol": "Scalar"},
                     extra_rules=[("ss.size", r"self->m_search_space\.size\(\)", "self->m_search_space.m_basis_vectors.cols", {"min": 1}),
                                  ("ss.restart", r"self->m_search_space\.restart\(self->m_ritz_pairs, ([^;]+)\);", r"ss_restart(&self->m_search_space, &self->m_ritz_pairs, \1);", {"max": 1}),
                                  ("ss.update", r"self->m_search_space\.update_operator_basis_product\(self->m_matrix_operator\);", "ss_update_operator_basis_product(&self->m_search_space, self->op);", {"max": 1}),
                                  ("ss.init", r"self->m_search_space\.initialize_search_space\((\w+)\);", r"ss_initialize_search_space(&self->m_search_space, \1);", {"max": 1}),
                                  ("ss.extend", r"self->m_search_space\.extend_basis\((\w+)\);", r"ss_extend_basis(&self->m_search_space, \1);", {"max": 1}),
                                  ("rp.cep", r"Eigen::ComputationInfo (\w+) = self->m_ritz_pairs\.compute_eigen_pairs\(self->m_search_space\);",
                                   r"int \1 = rp_compute_eigen_pairs(&self->m_ritz_pairs, &self->m_search_space); self->m_ritz_pairs.g_sorted_sel = -1; FIRST_SMALL_PROBLEM_SUCCEEDS(self->niter_, \1);", {"max": 1}),
                                  ("eig-success", r"Eigen::ComputationInfo::Success|Eigen::Success", "0", {"min": 1}),
                                  ("rp.sort", r"self->m_ritz_pairs\.sort\((\w+)\);", r"rp_sort(&self->m_ritz_pairs, \1); self->m_ritz_pairs.g_sorted_sel = \1;", {"max": 1}),
                                  ("rp.cc", r"self->m_ritz_pairs\.check_convergence\(", "check_convergence(&self->m_ritz_pairs, ", {"max": 1}),
                                  ("bool", r"\bbool\b", "_Bool", {"min": 0}),
                                  ("derived", r"Derived& derived = (?:static_cast<Derived&>|\(Derived&\))\(\*this\);", "", {"min": 0}),
                                  ("ccv", r"Matrix (\w+) = derived\.calculate_correction_vector\(\);", r"Mat \1 = calculate_correction_vector(self);", {"max": 1}),
                                  ("count", r"return \(self->m_ritz_pairs\.converged_eigenvalues\(\)\)\.template cast<Index>\(\)\.head\(([^()]+)\)\.sum\(\);", r"return HEAD_COUNT(&self->m_ritz_pairs, \1);", {"max": 1})],
                     loop_contracts={0: inv}, contract=spec.frame_contract(),
                     maythrow=["ss_update_operator_basis_product", "rp_sort"],
                     pre_body=" const Index old_clock_l = g_clock; const Index old_ops_l = g_ops;")
    report["JDSymEigsBase::compute_with_guess"] = R.fired
    return CWG_DEFS + t, spec



# --------------------------------------------------------------------------- constructor (+ check_argument, initialize), compute(), accessors

def f_ctor(report):
    fc = X.locate(JD, "JDSymEigsBase", cls="JDSymEigsBase", ordinal=0)
    f1 = X.locate(JD, "check_argument", cls="JDSymEigsBase")
    f2 = X.locate(JD, "initialize", cls="JDSymEigsBase")
    opd = [("op.dim", r"self->m_matrix_operator\.(rows|cols)\(\)", "self->op_n", {"min": 1})]
    t1, R1 = cgen.emit(f1, "jd_check_argument", ret_c="void", self_type="JDS", members=JD_MEMBERS, extra_rules=opd, static=True)
    t2, R2 = cgen.emit(f2, "jd_initialize", ret_c="void", self_type="JDS", members=JD_MEMBERS, extra_rules=opd, static=True)
    spec = FSpec("jd_ctor", "void", [("JDS *", "self"), ("Op *", "op"), ("Index", "nev"), ("Index", "nvec_init"), ("Index", "nvec_max")],
                 pre=[("matrix size and arguments are machine integers away from overflow", "0 <= op->n && op->n <= NMAX && -NMAX <= nev && nev <= NMAX && -NMAX <= nvec_init && nvec_init <= NMAX && -NMAX <= nvec_max && nvec_max <= NMAX")],
                 post=[("accepted <=> 1 <= nev <= n - 1", "1 <= nev && nev <= op->n - 1"),
                       (JD_INV_DOC + " - for EVERY accepted (nev, nvec_init, nvec_max), in particular the defaults (2 nev, 10 nev)", JD_INV),
                       ("nev is stored unchanged and sizes inside the quantifier of the property (nev <= initial, initial + nev <= n, initial <= maximal < n) are kept as given",
                        "self->m_number_eigenvalues == nev && (!(nev <= nvec_init && nvec_init + nev <= op->n && nvec_init <= nvec_max && nvec_max < op->n) || "
                        "(self->m_initial_search_space_size == nvec_init && self->m_correction_size == nev && self->m_max_search_space_size == nvec_max))"),
                       ("status of a new solver is NotComputed", "self->m_info == CompInfo_NotComputed && self->niter_ == 0")],
                 exc_post=[("rejected with invalid_argument <=> not (1 <= nev <= n - 1)", "verif_exc == EXC_invalid_argument && !(1 <= nev && nev <= op->n - 1)")],
                 frame=["self->op_n", "self->op", "self->niter_", "self->m_number_eigenvalues", "self->m_max_search_space_size", "self->m_initial_search_space_size", "self->m_correction_size", "self->m_info"],
                 may_throw=[1], real=JD + ":JDSymEigsBase(op, nev, nvec_init, nvec_max)")
    # default member initialisers of the class (niter_ = 0, m_info = NotComputed) are part of construction
    raw, st = X.load(JD)
    if not re.search(r"Index niter_ = 0;", st) or not re.search(r"CompInfo m_info = CompInfo::NotComputed;", st):
        raise X.ExtractionBreak("JDSymEigsBase: default member initialisers niter_ = 0 / m_info = NotComputed not found")
    t, R = cgen.emit(fc, "jd_ctor", ret_c="void", self_type="JDS", members=JD_MEMBERS, param_types={"op": "Op *"}, init_skip=["m_matrix_operator"],
                     pre_body=" self->op = op; self->op_n = op->n; self->niter_ = 0; self->m_info = CompInfo_NotComputed;",
                     extra_rules=[("op.rows", r"\bop\.(rows|cols)\(\)", "op->n", {"min": 1}),
                                  ("check_argument", r"(?<![\w>])check_argument\(\);", "jd_check_argument(self);", {"max": 1}),
                                  ("initialize", r"(?<![\w>])initialize\(\);", "jd_initialize(self);", {"max": 1})],
                     contract=spec.frame_contract(), maythrow=["jd_check_argument"])
    c2 = X.locate(JD, "JDSymEigsBase", cls="JDSymEigsBase", ordinal=1)
    if " ".join(c2.inits.split()) != "JDSymEigsBase(op, nev, 2 * nev, 10 * nev)":
        raise X.ExtractionBreak("JDSymEigsBase(op, nev) no longer delegates to (op, nev, 2 * nev, 10 * nev)")
    dc = X.locate(DV, "DavidsonSymEigsSolver", cls="DavidsonSymEigsSolver", ordinal=0)
    if "JDSymEigsBase<DavidsonSymEigsSolver<OpType>, OpType>(op, nev, nvec_init, nvec_max)" not in " ".join(dc.inits.split()):
        raise X.ExtractionBreak("DavidsonSymEigsSolver constructor no longer forwards (op, nev, nvec_init, nvec_max) to the base class")
    report["JDSymEigsBase::constructor"] = dict(R.fired, check_argument=R1.fired, initialize=R2.fired)
    return t1 + t2 + t, spec, dc


def f_davidson_ctor_body(report, dc):
    """The derived constructor's own body: m_diagonal gets n entries, entry i read from op(i, i) with i < n."""
    ml = re.search(r"for \(Index (\w+) = 0; \1 < op\.rows\(\); (?:\1\+\+|\+\+\1)\)", dc.body)
    if not ml:
        raise X.ExtractionBreak("DavidsonSymEigsSolver constructor: diagonal loop not recognised")
    I = ml.group(1)
    spec = FSpec("davidson_ctor_body", "void", [("JDS *", "self"), ("Op *", "op")],
                 pre=[("base class constructed on this operator", "self->op_n == op->n && 1 <= op->n && op->n <= NMAX")],
                 post=[("the stored diagonal has n entries", "VEC_SIZE(self->m_diagonal) == self->op_n")],
                 frame=["self->m_diagonal"], real=DV + ":DavidsonSymEigsSolver(op, nev, nvec_init, nvec_max) body")
    inv = ("__CPROVER_assigns(%(I)s, __CPROVER_object_whole(self->m_diagonal)) __CPROVER_loop_invariant(0 <= %(I)s && %(I)s <= op->n) __CPROVER_decreases(op->n - %(I)s)") % {"I": I}
    import copy
    f = copy.copy(dc)
    f.inits = ""
    t, R = cgen.emit(f, "davidson_ctor_body", ret_c="void", self_type="JDS", members=JD_MEMBERS + ["m_diagonal"], param_types={"op": "Op *", "nev": "Index", "nvec_init": "Index", "nvec_max": "Index"},
                     pre_rules=[THIS_RULE],
                     extra_rules=OPDIM_RULES + [("resize", r"self->m_diagonal\.resize\(([^;]+)\);", r"self->m_diagonal = VEC_NEW(\1);", {"max": 1}),
                                                ("diag", r"self->m_diagonal\((\w+)\) = op\((\w+), (\w+)\);",
                                                 r"__CPROVER_assert(0 <= \2 && \2 < op->n && 0 <= \3 && \3 < op->n, @Q@operator coefficient (i, j) within the matrix@Q@); self->m_diagonal[\1] = nondet_Scalar();", {"max": 1})],
                     loop_contracts={0: inv}, contract=spec.frame_contract())
    t = t.replace("(JDS *self, Op * op, Index nev, Index nvec_init, Index nvec_max)", "(JDS *self, Op * op)")
    report["DavidsonSymEigsSolver::constructor body"] = R.fired
    return t, spec


def f_compute(report, s_si, s_cw):
    f = X.locate(JD, "compute", cls="JDSymEigsBase")
    spec = FSpec("jd_compute", "Index", [("JDS *", "self"), ("SortRule", "selection"), ("Index", "maxit"), ("Scalar", "tol")],
                 pre=[p_ for p_ in s_cw.pre if "initial space" not in p_[0]],
                 post=list(s_cw.post), exc_post=list(s_cw.exc_post), frame=list(s_cw.frame), frame_objs=list(s_cw.frame_objs), may_throw=[1, 7], real=JD + ":compute")
    t, R = cgen.emit(f, "jd_compute", ret_c="Index", self_type="JDS", members=JD_MEMBERS, param_types={"tol": "Scalar"},
                     extra_rules=[("derived", r"Derived& derived = (?:static_cast<Derived&>|\(Derived&\))\(\*this\);", "", {"min": 0}),
                                  ("setup", r"Matrix (\w+) = derived\.setup_initial_search_space\((\w+)\);", r"Mat \1 = setup_initial_search_space(self, \2);", {"max": 1}),
                                  ("cwg", r"return compute_with_guess\(", "return compute_with_guess(self, ", {"max": 1})],
                     contract=spec.frame_contract(), maythrow=["setup_initial_search_space"])
    report["JDSymEigsBase::compute"] = R.fired
    return t, spec


def f_accessors(report):
    """eigenvalues() = ritz_values().head(nev); eigenvectors() = ritz_vectors().leftCols(nev): index-safe given the exit state of compute()."""
    out = []
    for nm, member, chk in (("eigenvalues", "m_values", "head"), ("eigenvectors", "m_vectors", "leftCols")):
        f = X.locate(JD, nm, cls="JDSymEigsBase")
        body = " ".join(f.body.split())
        acc = {"eigenvalues": "ritz_values", "eigenvectors": "ritz_vectors"}[nm]
        m = re.match(r"^return m_ritz_pairs\.%s\(\)\.%s\((\w+)\);$" % (acc, chk), body)
        if not m:
            raise X.ExtractionBreak("JDSymEigsBase::%s() is no longer `return m_ritz_pairs.%s().%s(n);`" % (nm, acc, chk))
        out.append((nm, m.group(1)))
    report["JDSymEigsBase accessors"] = dict(out)
    c = ("#line 1 \"harness/accessors\"\nvoid h(void) {\n" + ALLOC_JD +
         "  __CPROVER_assume(VEC_SIZE(self->m_ritz_pairs.m_values) >= self->m_number_eigenvalues && self->m_ritz_pairs.m_vectors.cols >= self->m_number_eigenvalues && self->m_number_eigenvalues >= 1);   /* exit state of compute(), proved in jd.compute_with_guess */\n"
         "  SEG_CHECK(self->m_ritz_pairs.m_values, self->%s);   /* eigenvalues() */\n  NCOLS_CHECK(self->m_ritz_pairs.m_vectors, self->%s);   /* eigenvectors() */\n  CANARY();\n}\n" % (out[0][1], out[1][1]))
    return c


# --------------------------------------------------------------------------- LinAlg/Orthogonalization.h (twice_is_enough / JensWehner / subspace / QR)

ORTHO_DEFS = r"""
static Mat MAT_RIGHTCOLS(Mat M, Index c)
{ __CPROVER_assert(0 <= c && c <= M.cols, "Eigen block assertion: rightCols(n) within the matrix"); Mat V = M; V.cols = c; return V; }
"""


def f_orthogonalisation(report):
    """The routines extend_basis relies on, as real callees of each other: every block selector and product inside them is within the matrix for EVERY shape
    (more columns than rows included) once the routine's own asserted precondition 0 <= left_cols_to_skip < cols holds.  Matrices are passed by value in the
    data-less model (contents are not modelled, the routines never resize - checked)."""
    OH = "LinAlg/Orthogonalization.h"
    out = []
    mats = ["in_output", "right_cols", "I"]
    common = DIM_RULES + [
        ("assert", r"\bassert\(((?:[^()]|\([^()]*\))*?) && \"[^\"]*\"\);", r"__CPROVER_assert(\1, @Q@precondition asserted by the orthogonalisation routine@Q@);", {"min": 0}),
        ("ref-view", r"Eigen::Ref<Matrix> (\w+) = (\w+)\.rightCols\(([^;]+)\);", r"Mat \1 = MAT_RIGHTCOLS(\2, \3);", {"min": 0}),
        ("ident", r"InternalMatrix (\w+) = InternalMatrix::Identity\(([^;]+)\);", r"Mat \1 = MAT_NEW(\2);", {"min": 0}),
        ("qr", r"Eigen::HouseholderQR<Matrix> (\w+)\((\w+)\);", r"const Index \1_rows = \2.rows;", {"min": 0}),
        ("qr-apply", r"(\w+)\.leftCols\((\w+)\)\.noalias\(\) = (\w+)\.householderQ\(\) \* (\w+);",
         r"NCOLS_CHECK(\1, \2); __CPROVER_assert(\3_rows == \4.rows && \4.cols == (\2) && \1.rows == \3_rows, @Q@Eigen: Q * I conforms with the block it is assigned to@Q@); MAT_TOUCH(\1);", {"min": 0}),
        ("normalize", r"(\w+)\.col\(([^;()]+)\)\.normalize\(\);", r"COL_CHECK(\1, \2); MAT_TOUCH(\1);", {"min": 0}),
        assign_rule(mats, {})]
    common[-1] = common[-1][:3] + ({"min": 0},)
    for nm in ("assert_left_cols_to_skip", "QR_orthogonalisation", "subspace_orthogonalisation", "JensWehner_orthogonalisation", "twice_is_enough_orthogonalisation"):
        f = X.locate(OH, nm)
        if re.search(r"\bresize|conservativeResize", f.body):
            raise X.ExtractionBreak("%s resizes its argument: the by-value shape model does not apply" % nm)
        ptypes = {"in_output": "Mat", "left_cols_to_skip": "Index"}
        t, R = cgen.emit(f, nm, ret_c="void", param_types=ptypes, extra_rules=[("eigen-index", r"\bEigen::Index\b", "Index", {"min": 0})] + common,
                         static=(nm != "twice_is_enough_orthogonalisation"))
        report["Orthogonalization.h:" + nm] = R.fired
        out.append(t)
    h = r"""
#line 1 "harness/orthogonalisation"
void h(void) {
  Mat M = MAT_NEW(ND_SIZE(), ND_SIZE()); Index left_cols_to_skip = nondet_Index();
  __CPROVER_assume(0 <= left_cols_to_skip && left_cols_to_skip < M.cols);      /* the precondition the routine asserts, proved at its call site in extend_basis */
  g_i = nondet_Index(); g_j = nondet_Index();
  twice_is_enough_orthogonalisation(M, left_cols_to_skip);
  CANARY();
}
"""
    return ORTHO_DEFS + "".join(out) + h


def base_text():
    return TYPES.replace('#include "skel.h"', '#include "skel.h"\n' + eigabs.SKEL_MACROS) + \
        common.enum_defines("Util/SelectionRule.h", "SortRule") + common.enum_defines("Util/CompInfo.h", "CompInfo")


def build(tier):
    report = {}
    check_members(report)
    base = base_text()
    groups = []

    def G(name, text, enforce, fns, expect=(), timeout=300, note=""):
        groups.append(Group("jd." + name, text, "h", enforce=enforce, solver="cadical", defines=["SCALAR_DOUBLE"], timeout=timeout,
                            functions=fns, expect_classes=list(expect) or ["assigns"], note=note))

    t_cc, s_cc = f_check_convergence(report)
    G("check_convergence", base + t_cc + s_cc.harness("h", ALLOC_RP + "  Scalar tol = nondet_Scalar(); Index number_eigenvalues = nondet_Index();", "self, tol, number_eigenvalues"),
      "check_convergence", [RPH + ":check_convergence"], expect=["loop_invariant_step", "assigns"])
    t_so, s_so, so_weak = f_sort(report)
    G("sort", base + skel.stub_argsort() + t_so + s_so.harness("h", ALLOC_RP + "  SortRule selection = nondet_int();", "self, selection"),
      "rp_sort", [RPH + ":sort"], expect=["assigns"] if so_weak else ["loop_invariant_step", "assigns"],
      note=("WEAKENED extraction: " + so_weak) if so_weak else "argsort replaced by its contract (proved in C18)")
    if so_weak:
        groups[-1].weak = so_weak

    ss_t, ss_s = f_search_space(report)
    sbase = base + SHAPE_DEFS
    G("ss.initialize_search_space", sbase + ss_t["initialize_search_space"] + ss_s["initialize_search_space"].harness("h", ALLOC_SS + "  Mat initial_vectors = MAT_NEW(ND_SIZE(), ND_SIZE());", "self, initial_vectors"),
      "ss_initialize_search_space", [SSH + ":initialize_search_space"])
    G("ss.update_operator_basis_product", sbase + ss_t["update_operator_basis_product"] + ss_s["update_operator_basis_product"].harness("h", ALLOC_SS + "  Op opv; Op *op = &opv; op->n = nondet_Index();", "self, op"),
      "ss_update_operator_basis_product", [SSH + ":update_operator_basis_product"], expect=["assigns", "Eigen block assertion", "operator argument"])
    G("ss.restart", sbase + ss_t["restart"] + ss_s["restart"].harness("h", ALLOC_SS + ALLOC_RPC + "  Index size = nondet_Index();", "self, ritz_pairs, size"),
      "ss_restart", [SSH + ":restart"], expect=["assigns", "Eigen block assertion", "product dimensions agree"])
    G("ss.extend_basis", sbase + ss_t["extend_basis"] + ss_s["extend_basis"].harness("h", ALLOC_SS + "  Mat new_vect = MAT_NEW(ND_SIZE(), ND_SIZE());", "self, new_vect"),
      "ss_extend_basis", [SSH + ":extend_basis", SSH + ":append_new_vectors_to_basis"], expect=["assigns", "Eigen block assertion"])

    t_ce, s_ce = f_compute_eigen_pairs(report)
    G("compute_eigen_pairs", sbase + t_ce + s_ce.harness("h", ALLOC_RP + ALLOC_SS.replace("SS Sv; SS *self = &Sv;", "SS Sv; SS *search_space = &Sv;").replace("self->", "search_space->") + "  g_clock = nondet_Index();", "self, search_space"),
      "rp_compute_eigen_pairs", [RPH + ":compute_eigen_pairs"], expect=["assigns", "product dimensions agree"],
      note="Eigen::SelfAdjointEigenSolver assumed: n values, n x n vectors, column j belongs to value j, info() in {Success, NumericalIssue, NoConvergence}")
    t_cv, s_cv = f_calc_correction(report)
    G("calculate_correction_vector", sbase + t_cv + s_cv.harness("h", ALLOC_JD, "self"), "calculate_correction_vector", [DV + ":calculate_correction_vector"],
      expect=["loop_invariant_step", "Eigen index assertion", "DPR correction"])
    t_si, s_si = f_setup_initial(report)
    G("setup_initial_search_space", sbase + skel.stub_argsort() + t_si + s_si.harness("h", ALLOC_JD + "  SortRule selection = nondet_int();", "self, selection"), "setup_initial_search_space",
      [DV + ":setup_initial_search_space"], expect=["loop_invariant_step", "Eigen index assertion"], note="argsort replaced by its contract (C18)")
    t_cw, s_cw = f_compute_with_guess(report, None)
    stubs = "".join(cap_stub(sp, CAP_MATS) for sp in (ss_s["initialize_search_space"], ss_s["update_operator_basis_product"], ss_s["restart"], ss_s["extend_basis"], s_ce, s_so, s_cc)) + \
        cap_stub(s_cv, CAP_MATS, extra="ret.coltag = g_corr_coltag; ret.colbuf = NULL; ret.cell = (Scalar)0;")
    G("compute_with_guess", sbase.replace('#include "skel.h"', '#define CAPMODE 1\n#include "skel.h"', 1) + CAP_GLOBALS + sort_order_defs() + stubs + t_cw + s_cw.harness("h", ALLOC_JD_CAP + "  Mat initial_space = MAT_NEW(ND_SIZE(), ND_SIZE()); SortRule selection = nondet_int(); Index maxit = nondet_Index(); Scalar tol = nondet_Scalar();",
                                                          "self, initial_space, selection, maxit, tol"),
      "compute_with_guess", [JD + ":compute_with_guess"], expect=["loop_invariant_step", "assigns"], timeout=900,
      note="all eight callees replaced by their contracts (each proved in its own group, SelfAdjointEigenSolver and the orthogonalisation assumed)")

    t_cp, s_cp = f_compute(report, s_si, s_cw)
    G("compute", sbase.replace('#include "skel.h"', '#define CAPMODE 1\n#include "skel.h"', 1) + CAP_GLOBALS + sort_order_defs() + cap_stub(s_si, CAP_MATS, extra="ret.coltag = g_corr_coltag; ret.colbuf = NULL; ret.cell = (Scalar)0;") +
      cap_stub(s_cw, CAP_MATS) + t_cp + s_cp.harness("h", ALLOC_JD_CAP + "  SortRule selection = nondet_int(); Index maxit = nondet_Index(); Scalar tol = nondet_Scalar();", "self, selection, maxit, tol"),
      "jd_compute", [JD + ":compute"], note="setup_initial_search_space and compute_with_guess replaced by their contracts: the constructor's invariant is all compute() needs")
    t_ct, s_ct, dc = f_ctor(report)
    G("ctor", sbase + t_ct + s_ct.harness("h", "  JDS Jv; JDS *self = &Jv; Op opv; Op *op = &opv; op->n = nondet_Index(); Index nev = nondet_Index(), nvec_init = nondet_Index(), nvec_max = nondet_Index();", "self, op, nev, nvec_init, nvec_max"),
      "jd_ctor", [JD + ":JDSymEigsBase", JD + ":check_argument", JD + ":initialize"], note="check_argument() and initialize() are the real callees")
    t_db, s_db = f_davidson_ctor_body(report, dc)
    G("davidson.ctor.body", sbase + t_db + s_db.harness("h", ALLOC_JD, "self, op"), "davidson_ctor_body", [DV + ":DavidsonSymEigsSolver"], expect=["loop_invariant_step", "operator coefficient"])
    groups.append(Group("jd.accessors", sbase + f_accessors(report), "h", loop_contracts=False, solver="cadical", defines=["SCALAR_DOUBLE"], functions=[JD + ":eigenvalues", JD + ":eigenvectors"],
                        expect_classes=["Eigen block assertion"], note="head(nev) / leftCols(nev) against the exit state of compute()"))

    groups.append(Group("jd.orthogonalisation", sbase + f_orthogonalisation(report), "h", loop_contracts=False, solver="cadical", defines=["SCALAR_DOUBLE"],
                        functions=["LinAlg/Orthogonalization.h:" + n_ for n_ in ("twice_is_enough_orthogonalisation", "JensWehner_orthogonalisation", "subspace_orthogonalisation", "QR_orthogonalisation", "assert_left_cols_to_skip")],
                        expect_classes=["Eigen block assertion", "product dimensions agree", "precondition asserted"],
                        note="the orthogonalisation routines behind extend_basis, for every shape: block selectors and products inside the matrix (Householder QR assumed: Q is rows x rows)"))

    meta = {"level": "proof", "trusted_base": ["cbmc 6.11.0 dfcc", "cadical", "extractor"],
            "assumptions": ["Eigen expression values are not modelled: column norms, the small eigenproblem and all products are nondeterministic; shapes, index expressions and per-column provenance tags are kept",
                            "argsort satisfies the contract proved in C18; std::sort assumed",
                            "Eigen::SelfAdjointEigenSolver (assumed, external): needs a square matrix, returns n eigenvalues and an n x n eigenvector matrix whose column j belongs to value j, info() in {Success, NumericalIssue, NoConvergence}; "
                            "the small eigenproblem of the FIRST iteration of a call succeeds (finite initial space, finite operator) - failures are modelled from the second iteration on",
                            "twice_is_enough_orthogonalisation (LinAlg/Orthogonalization.h): shape-preserving (the routines never resize - checked on the text); its asserted precondition 0 <= left_cols_to_skip < cols is proved at the call site and its internal block selectors / products are proved in jd.orthogonalisation; Eigen::HouseholderQR assumed (Q is rows x rows)",
                            "the counting lemma `all of the first n flags set <=> head(n).sum() == n` and the definitional facts of a count are mathematics (HEAD_COUNT)",
                            "capacity mode of compute_with_guess / compute: arrays pre-allocated with an arbitrary capacity g_cap <= NMAX, every Eigen size that occurs is assumed <= g_cap (the instance g_cap = NMAX covers every run below the machine-integer cap)",
                            "setters (set_max_search_space_size, set_correction_size, set_initial_search_space_size) can break the size invariant; they are outside the claim (the caller's responsibility)",
                            "maxit >= 1 (with maxit <= 0 the loop does not run and status/flags of an earlier call are returned - outside the property's quantifier)",
                            "forall-instantiation meta-rule: a postcondition proved for unconstrained Skolem indices is assumed at use-site indices (INSTANTIATE_RANGE, counted)"],
            "not_covered": ["||A x - theta x|| < tol against the user's matrix (numerical drift of the cached products)", "orthonormality of the returned vectors",
                            "finiteness of Eigen-expression arithmetic as a whole"],
            "extraction": report, "explanation": "structural clauses of C15 only; pairing of (value, vector, residual) is carried by the contracts of compute_eigen_pairs (aligned) and sort (permuted together) - no other callee has the pair arrays in its frame"}
    return groups, meta



def replay(g, o, assigns, path):
    from vlib import replay as RP
    txt = (o.get("desc") or "") + " " + g.name
    if "DPR" in txt:
        mode = 2
    elif g.name in ("jd.ctor",) or "class invariant" in txt:
        mode = 1
    else:
        mode = 4
    return RP.run_native(PROP, RP.src("C15_davidson_replay.cpp"), args=[mode], cxxflags="-O1 -std=c++11")


MANIFEST = {
    "category": "proof",
    "text": "Proof of the contract-expressible part of C15 on the extracted Davidson skeleton (all n, nev, search-space / correction sizes, maxit >= 1, every rule, every history of calls): "
            "info() == Successful => compute() returns nev, every one of the nev returned pairs is flagged and has a cached residual norm < tol, and the flags describe the returned pairs "
            "(not an earlier set); flag j <=> ||r_j|| < tol element-wise; check_convergence is true exactly when all of the first nev pairs pass; the status after compute() is Successful, "
            "NotConverging (only at the iteration limit) or NumericalIssue; RitzPairs::sort permutes value, Ritz vector, residual and small eigenvector TOGETHER, is a permutation, and orders by the "
            "selection rule (argsort's contract from C18); the returned pairs are the sorted ones; the constructor establishes the size invariant (nev <= initial size, 1 <= correction <= initial, "
            "initial + correction <= n, initial <= maximal <= n) for EVERY accepted argument triple, and under it every block / head / column / coefficient selector and every product in "
            "compute(), compute_with_guess(), the SearchSpace and RitzPairs bookkeeping, the DPR correction and the accessors is inside its matrix (Eigen's own index assertions); the cached "
            "operator products follow the basis through restart and extension column for column. NOT decided: the residual against the user's matrix (drift of the cached products), "
            "orthonormality, finiteness of the Eigen arithmetic. One open finding is recorded (known_findings.json): the DPR correction divides by theta_k - a_ii, which is exactly zero for a "
            "decoupled coordinate and turns the iteration into NaN.",
    "note": "floating-point values of Eigen expressions are not modelled (shapes, provenance tags and index expressions are); Eigen::SelfAdjointEigenSolver and the orthogonalisation routine are "
            "assumed contracts (shape-preserving; the first small eigenproblem of a call succeeds); argsort's contract is the one proved in C18; compute_with_guess is verified against callee contracts in "
            "capacity mode (arrays pre-allocated, Eigen sizes as ghost fields) because dfcc forbids allocation inside a loop with a loop contract",
    "technique": "CBMC dfcc frame + loop contracts with Skolem indices, provenance tags and harness-asserted postconditions on mechanically extracted C (cadical)",
}
