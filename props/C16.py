"""C16 - partial SVD: structural clauses (tall/wide operator choice, column counts, cache freshness, ownership)."""
import re

from vlib import extract as X
from vlib import cgen
from vlib.runner import Group
from vlib.spec import FSpec
from vlib import z3lemma

PROP = "C16"
H = "contrib/PartialSVDSolver.h"

TYPES = r'''
#include "skel.h"
#include "eigabs_macros.h"
typedef struct {
  Index m_m, m_n;              /* shape of the user's matrix */
  int op_kind;                 /* ghost: 1 = SVDTallMatOp (A'A), 2 = SVDWideMatOp (AA') */
  Index op_dim;                /* rows() of the operator object */
  void *m_op, *m_eigs;
  Index m_nconv;
  Mat m_evecs;
  /* ghost view of the owned SymEigsSolver (its contract is C05/C12) */
  Index eigs_nev, eigs_cnt;    /* nev of the solver; number of flagged pairs = eigenvalues().size() = eigenvectors().cols() */
  Index eigs_epoch;            /* bumped by every m_eigs->compute() */
  Index evecs_epoch;           /* epoch at which m_evecs was filled */
} SVD;
Index live_allocs;             /* ghost: objects obtained with new and not yet deleted / owned by a constructed object */
#define MIN2(a, b) ((b) < (a) ? (b) : (a))
'''


def op_facts(report):
    """Dimension and mapped lengths of the two operator classes, cut from the header."""
    out = {}
    for cls in ("SVDTallMatOp", "SVDWideMatOp"):
        f = X.locate(H, cls, cls=cls)
        m = re.search(r"m_dim\((.*?)\),\s*m_cache", " ".join(f.inits.split()))
        p = X.locate(H, "perform_op", cls=cls)
        mx = re.search(r"MapConstVec x\(x_in, ([^;]+)\);", p.body)
        my = re.search(r"MapVec y\(y_out, ([^;]+)\);", p.body)
        r = X.locate(H, "rows", cls=cls)
        if not (m and mx and my) or " ".join(r.body.split()) != "return m_dim;":
            raise X.ExtractionBreak("%s: m_dim initialiser / mapped lengths / rows() not found" % cls)
        conv = lambda e: e.replace("(std::min)", "MIN2").replace("m_mat.rows()", "m").replace("m_mat.cols()", "n").replace("mat.rows()", "m").replace("mat.cols()", "n")
        out[cls] = {"dim": conv(m.group(1)), "xlen": conv(mx.group(1)), "ylen": conv(my.group(1))}
    report["operator classes"] = out
    return out


META = {"level": "proof", "trusted_base": ["cbmc 6.11.0 dfcc", "cadical", "extractor"],
        "assumptions": ["the owned SymEigsSolver satisfies its contracts from C05/C12 (constructor range check, compute() return == number of flagged pairs == eigenvectors().cols()); "
                        "its accessor contracts (eigenvalues()/eigenvectors(nvec) return the flagged pairs in the same order) are proved here too (Herm.eigenvalues, Herm.eigenvectors)",
                        "a new-expression whose constructor throws releases its own storage (C++ semantics)",
                        "Eigen expression values are not modelled"],
        "not_covered": ["U'U = I, V'V = I, A V = U S, A'U = V S (numerical)", "non-negativity/finiteness of sqrt of computed eigenvalues on rank-deficient input (F10, numerical)"],
        "explanation": "structural clauses of C16 only"}


def build(tier):
    report = {}
    ops = op_facts(report)
    mem_all = X.members(H, "PartialSVDSolver")
    mem = ["m_mat", "m_m", "m_n", "m_op", "m_eigs", "m_nconv", "m_evecs"]
    if [m for m in mem_all if m in mem] != mem:
        raise X.ExtractionBreak("PartialSVDSolver members changed: %r" % mem_all)
    groups = [cache_coverage(report)]
    if mem_all != mem:
        # members were ADDED: the contracts below know nothing about them.  The static cache-coverage obligation above still decides; the skeleton part is
        # extracted as far as the rules still apply and is UNDECIDED otherwise.
        report["added members"] = [m for m in mem_all if m not in mem]
    try:
        groups += _skeleton_groups(tier, report, ops, mem)
    except X.ExtractionBreak as e:
        if mem_all == mem and not groups[0].ok is False:
            raise
        groups.append(z3lemma.StaticGroup("svd.extraction", ok=False, detail=str(e), obligation="extraction of PartialSVDSolver", undecided_on_fail=True))
    meta = dict(META)
    meta["extraction"] = report
    return groups, meta


def cache_coverage(report):
    """Static obligation on the real text (supporting fact, WEAK: counts only if the native replay shows results of an earlier run): every data member that a
    method other than the constructor and compute() writes - i.e. a cache filled lazily by the accessors - is re-initialised by compute() itself."""
    raw, st = X.load(H)
    b0, b1 = X.class_body(st, "PartialSVDSolver")
    body = st[b0:b1]
    mem_all = X.members(H, "PartialSVDSolver")
    # member functions at nesting depth 0 of the class body
    fns, i, depth = [], 0, 0
    for m in re.finditer(r"([~\w]+)\s*\(([^(){};]*)\)\s*(?:const\s*)?(?::[^{;]*)?\{", body):
        if body[:m.start()].count("{") - body[:m.start()].count("}") != 0:
            continue
        j = m.end() - 1
        k = X.match_close(body, j)
        fns.append((m.group(1), body[j:k + 1]))
    wr = lambda txt, mb: bool(re.search(r"(?<![\w.>])%s(?:\.noalias\(\))?\s*(?:=(?!=)|\+=|-=)|(?<![\w.>])%s\.(?:resize|conservativeResize|swap|setZero|setConstant|noalias)\(" % (mb, mb), txt))
    lazy, missing = {}, []
    for mb in mem_all:
        writers = [nm for nm, txt in fns if wr(txt, mb)]
        outside = [nm for nm in writers if nm not in ("PartialSVDSolver", "compute")]
        if outside:
            lazy[mb] = writers
            if "compute" not in writers:
                missing.append("%s (written by %s, never by compute())" % (mb, ", ".join(sorted(set(outside)))))
    report["lazily filled members"] = lazy
    if "m_evecs" not in lazy and not missing:
        raise X.ExtractionBreak("cache_coverage: the scan no longer sees the lazily filled eigenvector cache m_evecs (methods found: %s)" % [f[0] for f in fns])
    g = z3lemma.StaticGroup("svd.cache.coverage", ok=not missing,
                            detail=("not re-initialised by compute(): " + "; ".join(missing)) if missing else
                                   "lazily filled by accessors and re-initialised by compute(): %s" % ", ".join(sorted(lazy)),
                            obligation="every member that the accessors fill lazily is re-initialised by compute() (no result of an earlier run can be returned)")
    if missing:
        g.weak = "a cache may also be invalidated indirectly; only results of an earlier run returned by the real accessors count"
    return g


def _skeleton_groups(tier, report, ops, mem):
    groups = []
    stubs = r'''
static void *NEW_OBJ(void) { void *p = malloc(1); __CPROVER_assume(p != NULL); live_allocs++; return p; }
static void DELETE_OBJ(void *p) { if (p) live_allocs--; }
/* new SymEigsSolver<SVDMatOp>(*m_op, ncomp, ncv): constructor contract of HermEigsBase (proved in C12/C05): throws invalid_argument
 * <=> not (1 <= nev <= n-1 && nev < ncv <= n); a new-expression whose constructor throws releases its own storage */
static void *NEW_EIGS(SVD *S, Index ncomp, Index ncv)
{
  __CPROVER_assert(S->m_op != NULL, "solver constructed on an existing operator object");
  if (!(1 <= ncomp && ncomp <= S->op_dim - 1 && ncomp < ncv && ncv <= S->op_dim)) { verif_exc = EXC_invalid_argument; return NULL; }
  S->eigs_nev = ncomp; S->eigs_cnt = 0; S->eigs_epoch = 0;
  return NEW_OBJ();
}
static void EIGS_init(SVD *S) { if (nondet_bool()) verif_exc = EXC_user; }
static Index EIGS_compute(SVD *S, SortRule selection, Index maxit, Scalar tol)
{
  __CPROVER_assert(selection == SortRule_LargestAlge, "largest eigenvalues of A'A / AA' requested (sorting defaults to LargestAlge: non-increasing singular values)");
  if (nondet_bool()) { verif_exc = EXC_user; return 0; }
  Index r = nondet_Index(); __CPROVER_assume(0 <= r && r <= S->eigs_nev);
  S->eigs_cnt = r; S->eigs_epoch++;     /* contract of compute(): return value == eigenvalues().size() == eigenvectors().cols() */
  return r;
}
/* contract of eigenvectors(nvec) (C05): n rows, min(nvec, number of flagged pairs) columns; eigenvectors() == eigenvectors(nev) */
static Mat EIGS_eigenvectors(SVD *S, Index nvec)
{ __CPROVER_assert(nvec >= 0, "eigenvectors(nvec): nvec >= 0 (documented domain)"); Mat M = MAT_NEW(S->op_dim, VMIN(nvec, S->eigs_cnt)); return M; }
'''
    enumdefs = __import__("vlib.common", fromlist=["x"]).enum_defines("Util/SelectionRule.h", "SortRule")
    base = TYPES.replace('#include "eigabs_macros.h"', __import__("vlib.eigabs", fromlist=["x"]).SKEL_MACROS) + enumdefs + stubs
    members = mem + ["op_kind"]

    # ---- constructor
    f = X.locate(H, "PartialSVDSolver", cls="PartialSVDSolver")
    if " ".join(f.inits.split()) != "m_mat(mat), m_m(mat.rows()), m_n(mat.cols()), m_evecs(0, 0)":
        raise X.ExtractionBreak("PartialSVDSolver initialiser list changed: %r" % f.inits)
    f.inits = ""
    spec = FSpec("svd_ctor", "void", [("SVD *", "S"), ("Index", "rows"), ("Index", "cols"), ("Index", "ncomp"), ("Index", "ncv")],
                 pre=[("matrix shape", "0 <= rows && rows <= NMAX && 0 <= cols && cols <= NMAX"), ("no object owned yet", "live_allocs == 0"),
                      ("arguments away from overflow", "-NMAX <= ncomp && ncomp <= NMAX && -NMAX <= ncv && ncv <= NMAX")],
                 post=[("tall (m > n): operator A'A of dimension n; otherwise AA' of dimension m", "S->op_kind == (rows > cols ? 1 : 2) && S->op_dim == (rows > cols ? cols : rows)"),
                       ("the operator's rows() equals the vector length its perform_op maps (solver hands it length-rows() vectors)",
                        "(S->op_kind == 1) ? (TALL_DIM(rows, cols) == TALL_X(rows, cols) && TALL_DIM(rows, cols) == TALL_Y(rows, cols) && S->op_dim == TALL_DIM(rows, cols)) : "
                        "(WIDE_DIM(rows, cols) == WIDE_X(rows, cols) && WIDE_DIM(rows, cols) == WIDE_Y(rows, cols) && S->op_dim == WIDE_DIM(rows, cols))"),
                       ("the constructed object owns exactly its operator and its solver", "live_allocs == 2 && S->m_op != NULL && S->m_eigs != NULL"),
                       ("no cached vectors yet", "S->m_evecs.cols == 0")],
                 exc_post=[("invalid (ncomp, ncv) is rejected with invalid_argument", "verif_exc == EXC_invalid_argument"),
                           ("a rejected constructor call leaks nothing", "live_allocs == 0")],
                 frame=["S->m_m", "S->m_n", "S->op_kind", "S->op_dim", "S->m_op", "S->m_eigs", "S->m_evecs", "S->eigs_nev", "S->eigs_cnt", "S->eigs_epoch", "S->evecs_epoch", "live_allocs"],
                 may_throw=[1], real=H + ":PartialSVDSolver::PartialSVDSolver")
    t, R = cgen.emit(f, "svd_ctor", ret_c="void", self_type="SVD", self_name="S", members=members,
                     param_types={"mat": "Index", "ncomp": "Index", "ncv": "Index"},
                     pre_body=" S->m_m = rows; S->m_n = cols; S->m_evecs = MAT_NEW(0, 0); S->evecs_epoch = -1; S->m_op = NULL; S->m_eigs = NULL;",
                     extra_rules=[("new-tall", r"S->m_op = new SVDTallMatOp<Scalar, MatrixType>\(mat\);", "S->m_op = NEW_OBJ(); S->op_kind = 1; S->op_dim = TALL_DIM(rows, cols);", {"max": 1}),
                                  ("new-wide", r"S->m_op = new SVDWideMatOp<Scalar, MatrixType>\(mat\);", "S->m_op = NEW_OBJ(); S->op_kind = 2; S->op_dim = WIDE_DIM(rows, cols);", {"max": 1}),
                                  ("new-eigs", r"S->m_eigs = new SymEigsSolver<SVDMatOp<Scalar>>\(\*S->m_op, ncomp, ncv\);", "S->m_eigs = NEW_EIGS(S, ncomp, ncv);", {"max": 1}),
                                  ],
                     pre_rules=[("try-catch-delete-rethrow",
                                 r"\btry\s*\{\s*(m_eigs = new SymEigsSolver<SVDMatOp<Scalar>>\(\*m_op, ncomp, ncv\);)\s*\}\s*catch \(\.\.\.\)\s*\{\s*delete m_op;\s*throw;\s*\}",
                                 r"\1 if (verif_exc) { DELETE_OBJ(m_op); return; }", {"min": 0, "max": 1})],
                     contract=spec.frame_contract(), maythrow=[])
    t = t.replace("Index mat, Index ncomp", "Index rows, Index cols, Index ncomp")
    if "if (verif_exc) { DELETE_OBJ(S->m_op)" not in t:
        t = t.replace("S->m_eigs = NEW_EIGS(S, ncomp, ncv);", "S->m_eigs = NEW_EIGS(S, ncomp, ncv); if (verif_exc) { return; }")
    report["PartialSVDSolver::ctor"] = R.fired
    dims = "".join("#define %s_%s(m, n) (%s)\n" % (k, nm.upper() if nm != "dim" else "DIM", v.replace("xlen", "")) for k, d in (("TALL", ops["SVDTallMatOp"]), ("WIDE", ops["SVDWideMatOp"]))
                   for nm, v in (("dim", d["dim"]), ("X", d["xlen"]), ("Y", d["ylen"])))
    h = spec.harness("h", "  SVD Sv; SVD *S = &Sv; Index rows = nondet_Index(), cols = nondet_Index(), ncomp = nondet_Index(), ncv = nondet_Index(); live_allocs = 0;", "S, rows, cols, ncomp, ncv")
    groups.append(Group("svd.ctor", base + dims + t + h, "h", enforce="svd_ctor", solver="cadical", defines=["SCALAR_DOUBLE"],
                        functions=[H + ":PartialSVDSolver::PartialSVDSolver", H + ":SVDTallMatOp", H + ":SVDWideMatOp"], expect_classes=["assigns"],
                        note="ownership ghost counter: a rejected constructor call must leave nothing allocated"))

    # ---- destructor releases both
    fd = X.locate(H, "~PartialSVDSolver", cls="PartialSVDSolver") if False else None
    raw, st = X.load(H)
    if not re.search(r"~PartialSVDSolver\(\)\s*\{\s*delete m_eigs;\s*delete m_op;\s*\}", st):
        raise X.ExtractionBreak("PartialSVDSolver destructor no longer deletes m_eigs and m_op")
    report["destructor"] = "deletes m_eigs and m_op (text checked)"

    # ---- compute
    SVD_INV = [("object constructed", "S->m_op != NULL && S->m_eigs != NULL && 0 <= S->m_m && S->m_m <= NMAX && 0 <= S->m_n && S->m_n <= NMAX && "
                "S->op_dim == (S->m_m > S->m_n ? S->m_n : S->m_m) && 1 <= S->eigs_nev && S->eigs_nev <= S->op_dim && 0 <= S->eigs_cnt && S->eigs_cnt <= S->eigs_nev && "
                "0 <= S->eigs_epoch && S->eigs_epoch <= 1000000 && S->m_evecs.rows >= 0 && S->m_evecs.cols >= 0")]
    fc = X.locate(H, "compute", cls="PartialSVDSolver")
    sc = FSpec("svd_compute", "Index", [("SVD *", "S"), ("Index", "maxit"), ("Scalar", "tol")], pre=SVD_INV,
               post=[("returns the solver's count of converged values", "ret == S->eigs_cnt && S->m_nconv == ret && 0 <= ret && ret <= S->eigs_nev"),
                     ("a new run was made", "S->eigs_epoch == old_epoch + 1"),
                     ("cached singular vectors of an earlier run are not kept: matrix_U/matrix_V describe the most recent compute()", "S->m_evecs.cols == 0 || S->evecs_epoch == S->eigs_epoch")],
               exc_post=[("operator exception propagates", "verif_exc == EXC_user")],
               frame=["S->m_nconv", "S->eigs_cnt", "S->eigs_epoch", "S->m_evecs", "S->evecs_epoch"], may_throw=[7],
               olds=[("Index", "old_epoch", "S->eigs_epoch")], real=H + ":compute")
    tc, R = cgen.emit(fc, "svd_compute", ret_c="Index", self_type="SVD", self_name="S", members=members, param_types={"tol": "Scalar"},
                      extra_rules=[("init", r"S->m_eigs->init\(\);", "EIGS_init(S);", {"max": 1}),
                                   ("compute", r"S->m_eigs->compute\(([^;]+)\);", r"EIGS_compute(S, \1);", {"max": 1}),
                                   ("invalidate", r"S->m_evecs\.resize\(0, 0\);", "S->m_evecs = MAT_NEW(0, 0);", {"min": 0, "max": 1}),
                                   ("cols", r"S->m_evecs\.cols\(\)", "S->m_evecs.cols", {"min": 0})],
                      contract=sc.frame_contract(), maythrow=["EIGS_init", "EIGS_compute"])
    report["PartialSVDSolver::compute"] = R.fired
    alloc = ("  SVD Sv; SVD *S = &Sv; S->m_m = nondet_Index(); S->m_n = nondet_Index(); S->op_dim = nondet_Index(); S->op_kind = nondet_int(); char o1, o2; S->m_op = nondet_bool() ? &o1 : NULL; S->m_eigs = nondet_bool() ? &o2 : NULL;\n"
             "  S->m_nconv = nondet_Index(); S->eigs_nev = nondet_Index(); S->eigs_cnt = nondet_Index(); S->eigs_epoch = nondet_Index(); S->evecs_epoch = nondet_Index();\n"
             "  S->m_evecs.rows = nondet_Index(); S->m_evecs.cols = nondet_Index(); __CPROVER_assume(0 <= S->m_evecs.rows && S->m_evecs.rows <= NMAX && 0 <= S->m_evecs.cols && S->m_evecs.cols <= NMAX);\n"
             "  S->m_evecs.coltag = IVEC_NEW(S->m_evecs.cols); S->m_evecs.colbuf = VEC_NEW(S->m_evecs.rows);\n")
    groups.append(Group("svd.compute", base + tc + sc.harness("h", alloc + "  Index maxit = nondet_Index(); Scalar tol = nondet_Scalar();", "S, maxit, tol"), "h", enforce="svd_compute",
                        solver="cadical", defines=["SCALAR_DOUBLE"], functions=[H + ":compute"], expect_classes=["assigns"],
                        note="owned SymEigsSolver replaced by its contract (C05): return value == number of flagged pairs"))

    # ---- matrix_U / matrix_V
    for nm, arg, direct in (("matrix_U", "nu", "S->m_m <= S->m_n"), ("matrix_V", "nv", "S->m_m > S->m_n")):
        fm = X.locate(H, nm, cls="PartialSVDSolver")
        fm, inl = X.inline_value_helpers(fm, H, "PartialSVDSolver")      # the lazy fetch + clamp factored into a private helper is followed
        if inl:
            report["PartialSVDSolver::%s inlined helpers" % nm] = inl
        rows = "S->m_m" if nm == "matrix_U" else "S->m_n"
        sm = FSpec(nm, "Mat", [("SVD *", "S"), ("Index", arg)],
                   pre=SVD_INV + [("requested number of vectors is non-negative (documented domain)", "0 <= %s && %s <= NMAX" % (arg, arg)),
                                  ("m_nconv is the count of the latest compute()", "S->m_nconv == S->eigs_cnt"),
                                  ("class invariant (established by the constructor and by compute(), preserved here): the cache is empty or holds the eigenvectors of the latest run",
                                   "S->m_evecs.cols == 0 || (S->m_evecs.rows == S->op_dim && S->evecs_epoch == S->eigs_epoch && S->m_evecs.cols == S->eigs_cnt)")],
                   post=[("min(k, nconv) columns", "ret.cols == VMIN(%s, S->m_nconv)" % arg), ("rows of the factor", "ret.rows == %s" % rows),
                         ("describes the most recent compute(): the vectors used were obtained from the latest run", "ret.cols == 0 || S->evecs_epoch == S->eigs_epoch"),
                         ("class invariant preserved", "S->m_evecs.cols == 0 || (S->m_evecs.rows == S->op_dim && S->evecs_epoch == S->eigs_epoch && S->m_evecs.cols == S->eigs_cnt)")],
                   frame=["S->m_evecs", "S->evecs_epoch"], real=H + ":" + nm)
        tm, R = cgen.emit(fm, nm, ret_c="Mat", self_type="SVD", self_name="S", members=members,
                          extra_rules=[("fill", r"S->m_evecs = S->m_eigs->eigenvectors\(([^;]*)\);",
                                        lambda m: "S->m_evecs = EIGS_eigenvectors(S, %s); S->evecs_epoch = S->eigs_epoch;" % (m.group(1).strip() or "S->eigs_nev"), {"max": 1}),
                                       ("cols", r"S->m_evecs\.cols\(\)", "S->m_evecs.cols", {"min": 1}),
                                       ("direct", r"return S->m_evecs\.leftCols\((\w+)\);", r"NCOLS_CHECK(S->m_evecs, \1); { Mat R_ = MAT_NEW(S->m_evecs.rows, \1); return R_; }", {"max": 1}),
                                       ("product", r"return S->m_mat(\.transpose\(\))? \* \(S->m_evecs\.leftCols\((\w+)\)\.array\(\)\.rowwise\(\) / S->m_eigs->eigenvalues\(\)\.head\((\w+)\)\.transpose\(\)\.array\(\)\.sqrt\(\)\)\.matrix\(\);",
                                        lambda m: ("NCOLS_CHECK(S->m_evecs, %s); __CPROVER_assert(0 <= (%s) && (%s) <= S->eigs_cnt, @Q@Eigen block assertion: head(n) within eigenvalues()@Q@); "
                                                   "__CPROVER_assert((%s) == (%s), @Q@Eigen: rowwise division needs as many divisors as columns@Q@); "
                                                   "__CPROVER_assert(S->m_evecs.rows == %s, @Q@Eigen: product dimensions agree@Q@); { Mat R_ = MAT_NEW(%s, %s); return R_; }")
                                        % (m.group(2), m.group(3), m.group(3), m.group(2), m.group(3), ("S->m_m" if m.group(1) else "S->m_n"), ("S->m_n" if m.group(1) else "S->m_m"), m.group(2)), {"max": 1})],
                          contract=sm.frame_contract())
        report["PartialSVDSolver::" + nm] = R.fired
        groups.append(Group("svd." + nm, base + tm + sm.harness("h", alloc + "  Index %s = nondet_Index();" % arg, "S, " + arg), "h", enforce=nm, solver="cadical", defines=["SCALAR_DOUBLE"],
                            functions=[H + ":" + nm], expect_classes=["assigns", "Eigen block assertion"]))
    # sorting default of the symmetric solver: LargestAlge (non-increasing singular values)
    cf = X.locate("HermEigsBase.h", "compute", cls="HermEigsBase")
    okd = bool(re.search(r"SortRule\s+sorting\s*=\s*SortRule::LargestAlge", cf.params))
    groups.append(z3lemma.StaticGroup("svd.sorting-default", ok=okd, detail="HermEigsBase::compute(..., SortRule sorting = SortRule::LargestAlge)" if okd else cf.params,
                                      obligation="default sorting of the symmetric solver is LargestAlge, so singular values come out in non-increasing order (with C05/C18)"))
    # the contracts of the owned symmetric solver that the SVD wrapper relies on for pairing: eigenvalues() / eigenvectors(nvec) return the flagged
    # pairs in the same stored order (groups shared with C05/C01)
    from props import skelgroups as SG
    srep = {}
    groups += [g for g in SG.select("C05", ["herm"], srep) if g.name in ("Herm.eigenvalues", "Herm.eigenvectors")]
    report["solver accessors"] = {k: v for k, v in srep.items() if "eigenv" in k}
    return groups


MANIFEST = {
    "category": "proof",
    "text": "Proof of the structural clauses on the extracted PartialSVDSolver: tall matrices use A'A (dimension n) and matrix_V returns the solver's vectors, wide/square ones AA' (dimension m) and matrix_U does; each operator's rows() equals the length its perform_op maps; matrix_U(k)/matrix_V(k) return min(k, nconv) columns with index-safe block expressions; the vectors used always come from the most recent compute(); a rejected constructor call leaks nothing; LargestAlge is requested and is the sorting default. Orthonormality and the factor identities are numerical and NOT decided. The accessor contracts of the owned symmetric solver that the pairing relies on (eigenvalues() / eigenvectors(nvec) return the flagged pairs in the same stored order) are proved in the same check. Third session: a static obligation on the class text (every member that the accessors fill lazily is re-initialised by compute()) covers caches added later; it is weak - it counts only when the native replay returns results of an earlier run.",
    "note": "owned SymEigsSolver replaced by its contract (C05/C12); ownership tracked by a ghost allocation counter; Eigen values not modelled",
    "technique": "CBMC dfcc frame contracts + harness-asserted postconditions on mechanically extracted C (cadical)",
}


def replay(g, o, assigns, path):
    from vlib import replay as RP
    return RP.run_native(PROP, RP.src("C16_svd_replay.cpp"), args=[2 if "ctor" in g.name else 1])
