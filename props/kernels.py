"""Bounded stand-ins for the raw-pointer dense kernels (concrete n, full unwinding, --unwinding-assertions)."""


def qr_groups(tier, report, pre, rot):
    return []


def bkldlt_groups(tier, report):
    return []


def eigen_groups(tier, report):
    return []
