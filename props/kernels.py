"""Matrix kernels of the QR / eigen / LDLT helper classes.
 * TridiagQR works on 1-D arrays: proved UNBOUNDED (loop contracts, Skolem indices).
 * UpperHessenbergQR, tridiagonal_qr_step and the BKLDLT pivoting kernels walk raw pointers over flattened 2-D storage:
   BOUNDED stand-ins at concrete n with full unwinding and --unwinding-assertions (symbolic-n flattened indexing does not
   terminate in CBMC, DESIGN 2.1); labelled bounded, never counted as proved."""
import re

from vlib import extract as X
from vlib import cgen
from vlib import eigabs
from vlib import common
from vlib.runner import Group
from vlib.spec import FSpec

QH = "LinAlg/UpperHessenbergQR.h"
TQ_MEM = ["m_n", "m_shift", "m_rot_cos", "m_rot_sin", "m_computed", "m_T_diag", "m_T_subd", "m_R_diag", "m_R_supd", "m_R_supd2", "m_mat_R"]

TQ_TYPES = '#include "skel.h"\n' + eigabs.SKEL_MACROS + r'''
typedef struct { Index m_n; Scalar m_shift; Scalar *m_rot_cos, *m_rot_sin; _Bool m_computed;
                 Scalar *m_T_diag, *m_T_subd, *m_R_diag, *m_R_supd, *m_R_supd2; } TQ;
Index g_q;
/* compute_rotation(x, y, r, c, s): contract proved over the full finite domain in rotation.* (writes r, c, s only) */
static void compute_rotation(Scalar x, Scalar y, Scalar *r, Scalar *c, Scalar *s) { (void)x; (void)y; *r = nondet_Scalar(); *c = nondet_Scalar(); *s = nondet_Scalar(); }
_Bool g_off_band;     /* ghost: a cell outside the diagonal / first sub-diagonal of dest was written by the sweep */
static Scalar *DEST(Mat *M, Index r, Index c, _Bool write)
{ __CPROVER_assert(0 <= r && r < M->rows && 0 <= c && c < M->cols, "Eigen index assertion: dest(row, col) in range");
  if (write && !(r - c == 0 || r - c == 1)) g_off_band = 1; M->cell = nondet_Scalar(); return &M->cell; }
'''


def tridiagqr_groups(report):
    mem = X.members(QH, "TridiagQR")
    if mem != ["m_T_diag", "m_T_subd", "m_R_diag", "m_R_supd", "m_R_supd2"]:
        raise X.ExtractionBreak("TridiagQR members changed: %r" % mem)
    groups = []
    # ---- compute
    f = X.locate(QH, "compute", cls="TridiagQR")
    spec = FSpec("tq_compute", "void", [("TQ *", "Q"), ("Index", "rows"), ("Index", "cols"), ("Scalar", "shift")],
                 pre=[("size >= 2 (the solvers use ncv >= 2; m_R_supd2 has n - 2 entries)", "2 <= rows && rows <= NMAX && 0 <= cols && cols <= NMAX")],
                 post=[("computed; one rotation per sub-diagonal entry; band arrays sized n, n-1, n-2",
                        "Q->m_computed && Q->m_n == rows && VEC_SIZE(Q->m_rot_cos) == rows - 1 && VEC_SIZE(Q->m_rot_sin) == rows - 1 && VEC_SIZE(Q->m_T_diag) == rows && "
                        "VEC_SIZE(Q->m_T_subd) == rows - 1 && VEC_SIZE(Q->m_R_diag) == rows && VEC_SIZE(Q->m_R_supd) == rows - 1 && VEC_SIZE(Q->m_R_supd2) == rows - 2")],
                 exc_post=[("non-square -> invalid_argument", "rows != cols && verif_exc == EXC_invalid_argument")],
                 frame=["Q->m_n", "Q->m_shift", "Q->m_rot_cos", "Q->m_rot_sin", "Q->m_computed", "Q->m_T_diag", "Q->m_T_subd", "Q->m_R_diag", "Q->m_R_supd", "Q->m_R_supd2"],
                 may_throw=[1], real=QH + ":TridiagQR::compute")
    pre = [("rows", r"m_n = mat\.rows\(\);", "m_n = rows;", {"max": 1}), ("cols", r"mat\.cols\(\)", "cols", {"max": 1}),
           ("resize", r"\b(m_rot_cos|m_rot_sin|m_T_diag|m_T_subd|m_R_diag|m_R_supd|m_R_supd2)\.resize\(([^;]+)\);", r"\1 = VEC_NEW(\2);", {"min": 7, "max": 7}),
           ("copy-diag", r"m_T_diag\.noalias\(\) = mat\.diagonal\(\);", "HAVOC_VEC(m_T_diag);", {"max": 1}),
           ("copy-subd", r"m_T_subd\.noalias\(\) = mat\.diagonal\(-1\);", "HAVOC_VEC(m_T_subd);", {"max": 1}),
           ("shift-copy", r"m_R_diag\.array\(\) = m_T_diag\.array\(\) - m_shift;", "HAVOC_VEC(m_R_diag);", {"max": 1}),
           ("supd-copy", r"m_R_supd\.noalias\(\) = m_T_subd;", "__CPROVER_assert(VEC_SIZE(m_R_supd) == VEC_SIZE(m_T_subd), @Q@Eigen: assignment needs equal sizes@Q@); HAVOC_VEC(m_R_supd);", {"max": 1}),
           ("data", r"\b(m_rot_cos|m_rot_sin)\.data\(\)", r"\1", {"min": 2, "max": 2}),
           # the walking pointers c, s are loop-assigned: CBMC cannot dereference them after the loop havoc, so every use goes through PTRI, which
           # asserts `p == base + i` (provable from the loop invariant) and yields base + i
           ("this", r"this->compute_rotation\(m_R_diag\.coeff\(i\), m_T_subd\.coeff\(i\), r, \*c, \*s\);",
            "compute_rotation(m_R_diag[i], m_T_subd[i], &r, PTRI(c, m_rot_cos, i), PTRI(s, m_rot_sin, i));", {"max": 1}),
           ("deref-c", r"\(\*c\)", "(*PTRI(c, m_rot_cos, i))", {"min": 3, "max": 3}), ("deref-s", r"\(\*s\)", "(*PTRI(s, m_rot_sin, i))", {"min": 3, "max": 3}),
           ("coeff", r"\b(m_R_diag|m_R_supd|m_R_supd2|m_T_subd|m_T_diag)\.coeff(?:Ref)?\(([^()]+)\)", r"\1[\2]", {"min": 8})]
    loops = {0: "__CPROVER_assigns(i, __CPROVER_object_whole(Q->m_T_subd)) __CPROVER_loop_invariant(0 <= i && i <= Q->m_n - 1) __CPROVER_decreases(Q->m_n - 1 - i)",
             1: "__CPROVER_assigns(i, r, c, s, __CPROVER_object_whole(Q->m_rot_cos), __CPROVER_object_whole(Q->m_rot_sin), __CPROVER_object_whole(Q->m_R_diag), "
                "__CPROVER_object_whole(Q->m_R_supd), __CPROVER_object_whole(Q->m_R_supd2)) "
                "__CPROVER_loop_invariant(0 <= i && i <= n1 && __CPROVER_same_object(c, Q->m_rot_cos) && __CPROVER_same_object(s, Q->m_rot_sin) && "
                "__CPROVER_POINTER_OFFSET(c) == i * sizeof(Scalar) && __CPROVER_POINTER_OFFSET(s) == i * sizeof(Scalar)) __CPROVER_decreases(n1 - i)"}
    t, R = cgen.emit(f, "tq_compute", ret_c="void", self_type="TQ", self_name="Q", members=TQ_MEM, param_types={"mat": "Index", "shift": "Scalar"},
                     pre_rules=pre, loop_contracts=loops, contract=spec.frame_contract())
    t = t.replace("TQ *Q, Index mat, Scalar shift", "TQ *Q, Index rows, Index cols, Scalar shift")
    report["TridiagQR::compute"] = R.fired
    alloc = ("  TQ Qv; TQ *Q = &Qv; Q->m_n = nondet_Index(); Q->m_rot_cos = VEC_NEW(0); Q->m_rot_sin = VEC_NEW(0); Q->m_T_diag = VEC_NEW(0); Q->m_T_subd = VEC_NEW(0); "
             "Q->m_R_diag = VEC_NEW(0); Q->m_R_supd = VEC_NEW(0); Q->m_R_supd2 = VEC_NEW(0); Q->m_computed = nondet_bool(); Q->m_shift = nondet_Scalar();\n")
    ptri = ("static Scalar *PTRI(Scalar *p, Scalar *base, Index i) { __CPROVER_assert(p == base + i, \"walking pointer addresses element i of its array (justifies reading it as base + i)\"); return base + i; }\n")
    groups.append(Group("tridiagqr.compute", TQ_TYPES + ptri + t + spec.harness("h", alloc + "  Index rows = nondet_Index(), cols = nondet_Index(); Scalar shift = nondet_Scalar();", "Q, rows, cols, shift"),
                        "h", enforce="tq_compute", solver="cadical", defines=["SCALAR_DOUBLE"], timeout=900, functions=[QH + ":TridiagQR::compute"],
                        expect_classes=["loop_invariant_step", "walking pointer"],
                        note="UNBOUNDED in n: band arrays and the c/s pointer walks stay inside their arrays (loop contracts; the walking pointers are read through an asserted equality with base + i)"))
    # ---- matrix_QtHQ(Matrix&)
    f = X.locate(QH, "matrix_QtHQ", cls="TridiagQR", params_re=r"^\s*Matrix&")
    spec2 = FSpec("tq_QtHQ", "void", [("TQ *", "Q"), ("Mat *", "dest")],
                  pre=[("object as left by compute()", "2 <= Q->m_n && Q->m_n <= NMAX && VEC_SIZE(Q->m_rot_cos) == Q->m_n - 1 && VEC_SIZE(Q->m_rot_sin) == Q->m_n - 1 && VEC_SIZE(Q->m_T_diag) == Q->m_n && VEC_SIZE(Q->m_T_subd) == Q->m_n - 1"),
                       ("destination is some matrix", "0 <= dest->rows && dest->rows <= NMAX && 0 <= dest->cols && dest->cols <= NMAX")],
                  post=[("dest is n x n", "dest->rows == Q->m_n && dest->cols == Q->m_n"),
                        ("Q'TQ keeps the tridiagonal shape EXACTLY: after the zero fill only diagonal and first sub-diagonal cells are written, and the super-diagonal is a copy of the sub-diagonal (exact symmetry)",
                         "!g_off_band && g_mirrored")],
                  exc_post=[("not computed -> logic_error", "!Q->m_computed && verif_exc == EXC_logic_error")],
                  frame=["*dest", "g_off_band", "g_mirrored"], may_throw=[3], real=QH + ":TridiagQR::matrix_QtHQ")
    pre2 = [("shape", r"\bdest\.(rows|cols)\(\)", r"dest->\1", {"min": 0}),
            ("resize", r"dest\.resize\(m_n, m_n\);\s*dest\.setZero\(\);", "(*dest) = MAT_NEW(m_n, m_n); g_off_band = 0; g_mirrored = 0;", {"max": 1}),
            ("diag", r"dest\.diagonal\(\)\.noalias\(\) = m_T_diag;", "__CPROVER_assert(VEC_SIZE(m_T_diag) == dest->rows, @Q@Eigen: diagonal() assignment needs n entries@Q@);", {"max": 1}),
            ("subd", r"dest\.diagonal\(-1\)\.noalias\(\) = m_T_subd;", "__CPROVER_assert(VEC_SIZE(m_T_subd) == dest->rows - 1, @Q@Eigen: diagonal(-1) assignment needs n-1 entries@Q@);", {"max": 1}),
            ("mirror", r"dest\.diagonal\(1\)\.noalias\(\) = dest\.diagonal\(-1\);", "g_mirrored = 1;", {"max": 1}),
            ("write", r"dest\.coeffRef\(([^;=]+?)\)\s*(\*?=)", r"(*DEST(dest, \1, 1)) \2", {"min": 6}),
            ("read", r"dest\.coeff\(([^;]+?)\)(?=[\s,;)*+-])", r"(*DEST(dest, \1, 0))", {"min": 6}),
            ("coeff", r"\b(m_rot_cos|m_rot_sin|m_T_subd)\.coeff\(([^()]+)\)", r"\1[\2]", {"min": 5})]
    loops2 = {0: "__CPROVER_assigns(i, dest->cell, g_off_band) __CPROVER_loop_invariant(0 <= i && i <= n1 && !g_off_band) __CPROVER_decreases(n1 - i)",
              1: "__CPROVER_assigns(i, dest->cell, g_off_band) __CPROVER_loop_invariant(0 <= i && i <= n1 && !g_off_band) __CPROVER_decreases(n1 - i)"}
    t2, R = cgen.emit(f, "tq_QtHQ", ret_c="void", self_type="TQ", self_name="Q", members=TQ_MEM, param_types={"dest": "Mat *"},
                      pre_rules=pre2, loop_contracts=loops2, contract=spec2.frame_contract())
    report["TridiagQR::matrix_QtHQ"] = R.fired
    alloc2 = ("  TQ Qv; TQ *Q = &Qv; Q->m_n = nondet_Index(); __CPROVER_assume(0 <= Q->m_n && Q->m_n <= NMAX); Q->m_rot_cos = VEC_NEW(ND0(Q->m_n - 1)); Q->m_rot_sin = VEC_NEW(ND0(Q->m_n - 1)); "
              "Q->m_T_diag = VEC_NEW(Q->m_n); Q->m_T_subd = VEC_NEW(ND0(Q->m_n - 1)); Q->m_R_diag = VEC_NEW(0); Q->m_R_supd = VEC_NEW(0); Q->m_R_supd2 = VEC_NEW(0); Q->m_computed = nondet_bool();\n"
              "  Mat D = MAT_NEW(ND0(nondet_Index()), ND0(nondet_Index())); Mat *dest = &D;\n"
              "  g_off_band = nondet_bool(); g_mirrored = nondet_bool();   /* dest arrives with ARBITRARY contents (possibly non-zeros outside the band) */\n")
    nd0 = "static Index ND0(Index v) { if (v < 0) return 0; if (v > NMAX) return NMAX; return v; }\n_Bool g_mirrored;\n"
    groups.append(Group("tridiagqr.matrix_QtHQ", TQ_TYPES + nd0 + t2 + spec2.harness("h", alloc2, "Q, dest"), "h", enforce="tq_QtHQ", solver="cadical", defines=["SCALAR_DOUBLE"], timeout=600,
                        functions=[QH + ":TridiagQR::matrix_QtHQ"], expect_classes=["loop_invariant_step", "Eigen index assertion"],
                        note="unbounded in n: shape is a frame fact (which cells are written), independent of floating-point values"))
    return groups


HQ_TYPES = '#include "skel.h"\n' + eigabs.SKEL_MACROS + r'''
typedef struct { Index m_n; Scalar m_shift; Scalar *m_rot_cos, *m_rot_sin; _Bool m_computed; Scalar *m_mat_R; /* n x n, column-major */ } HQ;
Index g_r, g_c;     /* Skolem cell */
static void compute_rotation(Scalar x, Scalar y, Scalar *r, Scalar *c, Scalar *s) { (void)x; (void)y; *r = nondet_Scalar(); *c = nondet_Scalar(); *s = nondet_Scalar(); }
/* commutative uninterpreted product (operands ordered by their bit patterns) */
Scalar __CPROVER_uninterpreted_fmulc(Scalar, Scalar);
#ifdef SCALAR_FLOAT
typedef unsigned int verif_bits_t;
#else
typedef unsigned long long verif_bits_t;
#endif
static verif_bits_t VBITS(Scalar x) { union { Scalar f; verif_bits_t u; } v; v.f = x; return v.u; }
static Scalar FMULC(Scalar a, Scalar b) { return VBITS(a) <= VBITS(b) ? __CPROVER_uninterpreted_fmulc(a, b) : __CPROVER_uninterpreted_fmulc(b, a); }
Scalar __CPROVER_uninterpreted_faddc(Scalar, Scalar);
Scalar __CPROVER_uninterpreted_fsubk(Scalar, Scalar);
static Scalar FADDC(Scalar a, Scalar b) { return VBITS(a) <= VBITS(b) ? __CPROVER_uninterpreted_faddc(a, b) : __CPROVER_uninterpreted_faddc(b, a); }
#define FSUBK(a, b) __CPROVER_uninterpreted_fsubk(a, b)
'''


def hessqr_groups(tier, report):
    """UpperHessenbergQR::compute + matrix_QtHQ: raw pointer walks over the flattened n x n storage - BOUNDED at concrete n."""
    groups = []
    f = X.locate(QH, "compute", cls="UpperHessenbergQR")
    pre = [("rows", r"m_n = mat\.rows\(\);", "m_n = NN;", {"max": 1}), ("cols", r"mat\.cols\(\)", "cols", {"max": 1}),
           ("resize-R", r"m_mat_R\.resize\(m_n, m_n\);", "m_mat_R = VEC_NEW(m_n * m_n);", {"max": 1}),
           ("resize-cs", r"\b(m_rot_cos|m_rot_sin)\.resize\(([^;]+)\);", r"\1 = VEC_NEW(\2);", {"min": 2, "max": 2}),
           ("copy", r"m_mat_R\.noalias\(\) = mat;", "for (Index k_ = 0; k_ < m_n * m_n; k_++) m_mat_R[k_] = mat[k_];", {"max": 1}),
           ("shift", r"m_mat_R\.diagonal\(\)\.array\(\) -= m_shift;", "for (Index d_ = 0; d_ < m_n; d_++) m_mat_R[d_ + d_ * m_n] -= m_shift;", {"max": 1}),
           ("Rii", r"&m_mat_R\.coeffRef\(i, i\)", "&m_mat_R[i + i * m_n]", {"max": 1}),
           ("fill", r"std::fill\(([^,]+), ([^,]+), Scalar\(0\)\);", r"for (Scalar *p_ = (\1); p_ < (\2); p_++) *p_ = (Scalar)0;", {"max": 1}),
           ("rot", r"(?<![\w>])compute_rotation\(xi, xj, r, c, s\);", "compute_rotation(xi, xj, &r, &c, &s);", {"max": 1}),
           ("cs", r"\b(m_rot_cos|m_rot_sin)\.coeffRef\(i\)", r"\1[i]", {"min": 2, "max": 2})]
    t1, R = cgen.emit(f, "hq_compute", ret_c="void", self_type="HQ", self_name="Q", members=["m_n", "m_shift", "m_rot_cos", "m_rot_sin", "m_computed", "m_mat_R"],
                      param_types={"mat": "const Scalar *", "shift": "Scalar"}, pre_rules=pre)
    t1 = t1.replace("HQ *Q, const Scalar * mat, Scalar shift", "HQ *Q, const Scalar *mat, Index cols, Scalar shift")
    report["UpperHessenbergQR::compute"] = R.fired
    g = X.locate(QH, "matrix_QtHQ", cls="UpperHessenbergQR")
    pre2 = [("resize", r"dest\.resize\(m_n, m_n\);", "Scalar *dest = VEC_NEW(m_n * m_n);", {"max": 1}),
            ("copy", r"dest\.noalias\(\) = m_mat_R;", "for (Index k_ = 0; k_ < m_n * m_n; k_++) dest[k_] = m_mat_R[k_];", {"max": 1}),
            ("cs", r"\b(m_rot_cos|m_rot_sin)\.coeff\(i\)", r"\1[i]", {"min": 2, "max": 2}),
            ("Yi", r"&dest\.coeffRef\(0, i\)", "&dest[0 + i * m_n]", {"max": 1}),
            ("shift", r"dest\.diagonal\(\)\.array\(\) \+= m_shift;", "for (Index d_ = 0; d_ < m_n; d_++) dest[d_ + d_ * m_n] += m_shift; return dest;", {"max": 1})]
    t2, R = cgen.emit(g, "hq_QtHQ", ret_c="Scalar *", self_type="HQ", self_name="Q", members=["m_n", "m_shift", "m_rot_cos", "m_rot_sin", "m_computed", "m_mat_R"],
                      param_types={"dest": "int"}, pre_rules=pre2)
    t2 = t2.replace("HQ *Q, int dest", "HQ *Q")
    report["UpperHessenbergQR::matrix_QtHQ"] = R.fired
    harness = r'''
#line 1 "harness/kernels.hessqr"
void h(void) {
  HQ Qv; HQ *Q = &Qv; Q->m_n = nondet_Index(); Q->m_rot_cos = VEC_NEW(0); Q->m_rot_sin = VEC_NEW(0); Q->m_mat_R = VEC_NEW(0); Q->m_computed = 0;
  const Scalar *mat = VEC_NEW(NN * NN); Scalar shift = nondet_Scalar();
  __CPROVER_assume(0 <= g_r && g_r < NN && 0 <= g_c && g_c < NN);
  verif_exc = 0;
  hq_compute(Q, mat, NN, shift);
  __CPROVER_assert(verif_exc == 0 && Q->m_computed && Q->m_n == NN, "hessqr.compute: computed");
  __CPROVER_assert(!(g_r > g_c) || Q->m_mat_R[g_r + g_c * NN] == (Scalar)0, "hessqr.compute: R is EXACTLY upper triangular (every cell below the diagonal is a literal zero)");
  Scalar *D = hq_QtHQ(Q);
  __CPROVER_assert(verif_exc == 0, "hessqr.matrix_QtHQ: no exception after compute()");
  __CPROVER_assert(!(g_r > g_c + 1) || D[g_r + g_c * NN] == (Scalar)0, "hessqr.matrix_QtHQ: Q'HQ = RQ + sI is EXACTLY upper Hessenberg");
  CANARY();
}
'''
    # ---- apply_YQ (the raw-pointer variant the solvers' restart() calls; inherited by TridiagQR): exactly Y * G_0 * ... * G_{n-2}
    fa = X.locate(QH, "apply_YQ", cls="UpperHessenbergQR")
    # every scalar product `a * b` (identifier times identifier-or-element) becomes a commutative uninterpreted function: the same
    # arithmetic on both sides of the contract; generic pattern, so an edited formula still extracts and is then compared
    pre3 = [("fmul", r"\b(\w+) \* (\w+(?:\[\w+\])?)", r"FMULC(\1, \2)", {"min": 1, "max": 12}),
            ("fadd", r"FMULC\(([^()]*)\) \+ FMULC\(([^()]*)\)", r"FADDC(FMULC(\1), FMULC(\2))", {"min": 0, "max": 6}),
            ("fsub", r"FMULC\(([^()]*)\) - FMULC\(([^()]*)\)", r"FSUBK(FMULC(\1), FMULC(\2))", {"min": 0, "max": 6}),
            ("rows", r"Y\.rows\(\)", "Yrows", {"max": 1}), ("cs", r"\b(m_rot_cos|m_rot_sin)\.coeff\(i\)", r"\1[i]", {"min": 2, "max": 2}),
            ("col", r"&Y\.coeffRef\(0, ([^()]+)\)", r"&Y[0 + (\1) * Yrows]", {"min": 2, "max": 2})]
    t3, R = cgen.emit(fa, "hq_apply_YQ", ret_c="void", self_type="HQ", self_name="Q", members=["m_n", "m_shift", "m_rot_cos", "m_rot_sin", "m_computed", "m_mat_R"],
                      param_types={"Y": "Scalar *"}, pre_rules=pre3)
    t3 = t3.replace("HQ *Q, Scalar * Y", "HQ *Q, Scalar *Y, Index Yrows")
    if "Index Yrows" not in t3:
        raise X.ExtractionBreak("apply_YQ signature rewrite did not fire")
    report["UpperHessenbergQR::apply_YQ"] = R.fired
    h3 = r'''
#line 1 "harness/kernels.hessqr.apply_YQ"
#ifdef SCALAR_FLOAT
#define SIGNBIT(x) __CPROVER_signf(x)
#else
#define SIGNBIT(x) __CPROVER_signd(x)
#endif
#define BITSAME(a, b) (((b) != (b)) ? ((a) != (a)) : ((a) == (b) && SIGNBIT(a) == SIGNBIT(b)))
void h(void) {
  HQ Qv; HQ *Q = &Qv; Q->m_n = NN; Q->m_rot_cos = VEC_NEW(NN - 1); Q->m_rot_sin = VEC_NEW(NN - 1); Q->m_mat_R = VEC_NEW(NN * NN); Q->m_computed = nondet_bool();
  Scalar *Y = VEC_NEW(NR * NN); Scalar E[NR * NN]; Scalar C0[NN], S0[NN];
  for (Index t = 0; t < NR * NN; t++) E[t] = Y[t];
  for (Index t = 0; t < NN - 1; t++) { C0[t] = Q->m_rot_cos[t]; S0[t] = Q->m_rot_sin[t]; }
  _Bool was = Q->m_computed;
  verif_exc = 0;
  hq_apply_YQ(Q, Y, NR);
  __CPROVER_assert((verif_exc != 0) == !was, "hessqr.apply_YQ: throws exactly when compute() has not been called");
  /* the stated product, written with 2x2 blocks: for i ascending, Y[, i:i+1] <- Y[, i:i+1] * [c_i s_i; -s_i c_i] */
  if (was) {
    for (Index i = 0; i < NN - 1; i++)
      for (Index r = 0; r < NR; r++) {
        Scalar a = E[r + i * NR], b = E[r + (i + 1) * NR];
        E[r + i * NR] = FSUBK(FMULC(C0[i], a), FMULC(S0[i], b));
        E[r + (i + 1) * NR] = FADDC(FMULC(S0[i], a), FMULC(C0[i], b)); }
  }
  for (Index t = 0; t < NR * NN; t++) __CPROVER_assert(BITSAME(Y[t], E[t]), "hessqr.apply_YQ: Y becomes exactly Y * G_0 * ... * G_{n-2} (each G_i = [c s; -s c] on columns i, i+1, ascending i); untouched when it throws");
  for (Index t = 0; t < NN - 1; t++) __CPROVER_assert(BITSAME(Q->m_rot_cos[t], C0[t]) && BITSAME(Q->m_rot_sin[t], S0[t]), "hessqr.apply_YQ: the stored rotations are not modified");
  CANARY();
}
'''
    for n, nr in ([(2, 2), (3, 1), (3, 2), (4, 1), (5, 1)] if tier == "quick" else [(2, 2), (3, 1), (3, 2), (4, 1), (5, 1), (4, 2), (6, 1)]):
        groups.append(Group("hessqr.apply_YQ.n%d.rows%d" % (n, nr), HQ_TYPES + t3 + h3, "h", loop_contracts=False, solver="cadical",
                            defines=["SCALAR_FLOAT", "NN=%d" % n, "NR=%d" % nr], unwind=n * nr + 2, timeout=900, mem_gb=16,
                            bounded="n = %d, rows = %d (concrete), full unwinding with unwinding assertions" % (n, nr),
                            functions=[QH + ":UpperHessenbergQR::apply_YQ"], expect_classes=["hessqr.apply_YQ"],
                            note="bitwise equality with the stated product of plane rotations (same IEEE operations, so no rounding slack is needed); also the variant TridiagQR inherits"))
    sizes = [2, 3, 4, 6] if tier == "quick" else [2, 3, 4, 5, 6, 7, 8, 10]
    for n in sizes:
        groups.append(Group("hessqr.compute+QtHQ.n%d" % n, HQ_TYPES + t1 + t2 + harness, "h", loop_contracts=False, solver="cadical", defines=["SCALAR_FLOAT" if tier == "quick" else "SCALAR_DOUBLE", "NN=%d" % n],
                            unwind=n * n + 2, timeout=900, mem_gb=12, bounded="n = %d (concrete), full unwinding with unwinding assertions" % n,
                            functions=[QH + ":UpperHessenbergQR::compute", QH + ":UpperHessenbergQR::matrix_QtHQ"], expect_classes=["hessqr.", "unwind"],
                            note="raw pointer walks over flattened storage; shape facts are frame facts (literal zeros), memory safety by pointer/bounds checks"))
    return groups


HQS_TYPES = '#include "skel.h"\n' + eigabs.SKEL_MACROS + r'''
/* Cursor model of a raw pointer into a column-major n x n matrix whose leading dimension is m_n: p <-> (row, col);
 * p + k (small k) stays in the column, p + m_n is the same row of the next column.  Values are not modelled; the ghost g_zero
 * records whether the arbitrary-but-fixed cell (g_r, g_c) of the matrix under construction holds a LITERAL zero. */
typedef struct { Index r, c; } Cur;
typedef struct { Index m_n; Scalar m_shift; Scalar *m_rot_cos, *m_rot_sin; _Bool m_computed; Mat m_mat_R; } HQS;
Index g_r, g_c; _Bool g_zero;
static void compute_rotation(Scalar x, Scalar y, Scalar *r, Scalar *c, Scalar *s) { (void)x; (void)y; *r = nondet_Scalar(); *c = nondet_Scalar(); *s = nondet_Scalar(); }
static Cur CUR(Mat *M, Index r, Index c)
{ __CPROVER_assert(0 <= r && r < M->rows && 0 <= c && c < M->cols, "Eigen index assertion: matrix coefficient (row, col) in range"); Cur k; k.r = r; k.c = c; return k; }
static Cur CUR_COLS(Cur k, Index d) { k.c += d; return k; }
/* wr: 0 read, 1 write of a computed value, 2 write of the literal 0 */
static Scalar *CUR_AT(Mat *M, Cur k, Index off, int wr)
{ __CPROVER_assert(0 <= off && k.r + off < M->rows && 0 <= k.c && k.c < M->cols, "cursor access: p[k] stays inside the column p points into");
  if (wr && k.r + off == g_r && k.c == g_c) g_zero = (wr == 2);
  M->cell = nondet_Scalar(); return &M->cell; }
static void CUR_FILL0(Mat *M, Cur k, Index lo, Index hi)
{ __CPROVER_assert(0 <= lo && lo <= hi && k.r + hi <= M->rows && 0 <= k.c && k.c < M->cols, "std::fill(p + lo, p + hi, 0): a valid range inside the column p points into");
  if (k.c == g_c && k.r + lo <= g_r && g_r < k.r + hi) g_zero = 1; }
'''


def hessqr_shape_groups(report):
    """UpperHessenbergQR::compute / matrix_QtHQ: R exactly upper triangular and Q'HQ exactly upper Hessenberg for EVERY n (cursor model
    of the pointer walks; the raw-pointer memory safety itself is the bounded hessqr.compute+QtHQ.n<N> groups)."""
    mem = ["m_n", "m_shift", "m_rot_cos", "m_rot_sin", "m_computed", "m_mat_R"]
    cur_rules = [("write0", r"\b(Rii|ptr|Yi1?)\[(\w+)\] = 0;", r"(void)CUR_AT(MM, \1, \2, 2);", {"min": 0}),
                 ("write", r"\b(Rii|ptr|Yi1?)\[(\w+)\] = ([^;]+);", r"*CUR_AT(MM, \1, \2, 1) = \3;", {"min": 2}),
                 ("read", r"\b(Rii|ptr|Yi1?)\[(\w+)\]", r"(*CUR_AT(MM, \1, \2, 0))", {"min": 2}),
                 ("nextcol", r"\b(\w+) = (\w+) \+ m_n;", r"\1 = CUR_COLS(\2, 1);", {"min": 1, "max": 1}),
                 ("decl", r"Scalar\s*\*(\w+), \*(\w+);", r"Cur \1, \2;", {"max": 1})]
    groups = []
    f = X.locate(QH, "compute", cls="UpperHessenbergQR")
    SK = "0 <= g_r && g_r <= NMAX && 0 <= g_c && g_c <= NMAX"
    spec = FSpec("hqs_compute", "void", [("HQS *", "Q"), ("Index", "rows"), ("Index", "cols"), ("Scalar", "shift")],
                 pre=[("size >= 1", "1 <= rows && rows <= NMAX && 0 <= cols && cols <= NMAX"), ("Skolem cell", SK)],
                 post=[("computed, R is n x n, one rotation per sub-diagonal entry", "Q->m_computed && Q->m_n == rows && Q->m_mat_R.rows == rows && Q->m_mat_R.cols == rows && VEC_SIZE(Q->m_rot_cos) == rows - 1 && VEC_SIZE(Q->m_rot_sin) == rows - 1"),
                       ("R is EXACTLY upper triangular: every cell below the diagonal holds a literal zero", "!(g_c < g_r && g_r < rows) || g_zero")],
                 exc_post=[("non-square -> invalid_argument", "rows != cols && verif_exc == EXC_invalid_argument")],
                 frame=["Q->m_n", "Q->m_shift", "Q->m_rot_cos", "Q->m_rot_sin", "Q->m_computed", "Q->m_mat_R", "g_zero"], may_throw=[1], real=QH + ":UpperHessenbergQR::compute")
    pre = [("rows", r"m_n = mat\.rows\(\);", "m_n = rows;", {"max": 1}), ("cols", r"mat\.cols\(\)", "cols", {"max": 1}),
           ("resize-R", r"m_mat_R\.resize\(m_n, m_n\);", "m_mat_R = MAT_NEW(m_n, m_n);", {"max": 1}),
           ("resize-cs", r"\b(m_rot_cos|m_rot_sin)\.resize\(([^;]+)\);", r"\1 = VEC_NEW(\2);", {"min": 2, "max": 2}),
           ("copy", r"m_mat_R\.noalias\(\) = mat;", "g_zero = 0; MAT_TOUCH(Q->m_mat_R);", {"max": 1}),
           ("shift", r"m_mat_R\.diagonal\(\)\.array\(\) -= m_shift;", "if (g_r == g_c) g_zero = 0; MAT_TOUCH(Q->m_mat_R);", {"max": 1}),
           ("Rii", r"(\w+) = &m_mat_R\.coeffRef\(([^,()]+), ([^,()]+)\);", r"\1 = CUR(MM, \2, \3);", {"max": 1}),
           ("fill", r"std::fill\((\w+) \+ ([^,]+), \1 \+ ([^,]+), Scalar\(0\)\);", r"CUR_FILL0(MM, \1, \2, \3);", {"max": 1}),
           ("rot", r"(?<![\w>])compute_rotation\(xi, xj, r, c, s\);", "compute_rotation(xi, xj, &r, &c, &s);", {"max": 1}),
           ("cs", r"\b(m_rot_cos|m_rot_sin)\.coeffRef\(i\)", r"\1[i]", {"min": 2, "max": 2}),
           ("stepcol", r"\bptr \+= m_n\b", "ptr = CUR_COLS(ptr, 1)", {"max": 1})] + cur_rules
    below = lambda lim: "(!(0 <= g_c && g_c < g_r && g_r < Q->m_n && g_c < (%s)) || g_zero)" % lim
    loops = {0: "__CPROVER_assigns(i, xi, xj, r, c, s, Rii, ptr, Q->m_mat_R.cell, g_zero, __CPROVER_object_whole(Q->m_rot_cos), __CPROVER_object_whole(Q->m_rot_sin)) "
                "__CPROVER_loop_invariant(0 <= i && i <= n1 && %s) __CPROVER_decreases(n1 - i)" % below("i"),
             1: "__CPROVER_assigns(j, ptr, Q->m_mat_R.cell, g_zero) "
                "__CPROVER_loop_invariant(i + 1 <= j && j <= Q->m_n && ptr.r == i && ptr.c == j && %s) __CPROVER_decreases(Q->m_n - j)" % below("i + 1")}
    t1, R = cgen.emit(f, "hqs_compute", ret_c="void", self_type="HQS", self_name="Q", members=mem, param_types={"mat": "Index", "shift": "Scalar"},
                      pre_rules=pre, loop_contracts=loops, contract=spec.frame_contract())
    t1 = t1.replace("HQS *Q, Index mat, Scalar shift", "HQS *Q, Index rows, Index cols, Scalar shift").replace("MM", "(&Q->m_mat_R)")
    report["UpperHessenbergQR::compute(shape)"] = R.fired
    alloc = "  HQS Qv; HQS *Q = &Qv; Q->m_n = nondet_Index(); Q->m_rot_cos = VEC_NEW(0); Q->m_rot_sin = VEC_NEW(0); Q->m_mat_R = MAT_NEW(0, 0); Q->m_computed = nondet_bool(); g_zero = nondet_bool();\n"
    groups.append(Group("hessqr.shape.compute", HQS_TYPES + t1 + spec.harness("h", alloc + "  Index rows = nondet_Index(), cols = nondet_Index(); Scalar shift = nondet_Scalar();", "Q, rows, cols, shift"),
                        "h", enforce="hqs_compute", solver="cadical", defines=["SCALAR_DOUBLE"], timeout=900, functions=[QH + ":UpperHessenbergQR::compute"],
                        expect_classes=["loop_invariant_step", "cursor access", "std::fill"],
                        note="UNBOUNDED in n: cursor model of the Rii / ptr walks (p + m_n = next column); shape facts are frame facts about which cells receive a literal zero"))
    g = X.locate(QH, "matrix_QtHQ", cls="UpperHessenbergQR")
    spec2 = FSpec("hqs_QtHQ", "void", [("HQS *", "Q"), ("Mat *", "dest")],
                  pre=[("object as left by compute()", "1 <= Q->m_n && Q->m_n <= NMAX && Q->m_mat_R.rows == Q->m_n && Q->m_mat_R.cols == Q->m_n && VEC_SIZE(Q->m_rot_cos) == Q->m_n - 1 && VEC_SIZE(Q->m_rot_sin) == Q->m_n - 1"),
                       ("destination is some matrix", "0 <= dest->rows && dest->rows <= NMAX && 0 <= dest->cols && dest->cols <= NMAX"), ("Skolem cell", SK),
                       ("R is exactly upper triangular (postcondition of compute, at the Skolem cell)", "!(g_c < g_r && g_r < Q->m_n) || g_zero")],
                  post=[("dest is n x n", "dest->rows == Q->m_n && dest->cols == Q->m_n"),
                        ("Q'HQ = RQ + sI is EXACTLY upper Hessenberg: every cell below the first sub-diagonal still holds the literal zero copied from R", "!(g_c + 1 < g_r && g_r < Q->m_n) || g_zero")],
                  exc_post=[("not computed -> logic_error", "!Q->m_computed && verif_exc == EXC_logic_error")],
                  frame=["*dest", "g_zero"], may_throw=[3], real=QH + ":UpperHessenbergQR::matrix_QtHQ")
    pre2 = [("resize", r"dest\.resize\(m_n, m_n\);", "(*dest) = MAT_NEW(m_n, m_n);", {"max": 1}),
            ("copy", r"dest\.noalias\(\) = m_mat_R;", "__CPROVER_assert(Q->m_mat_R.rows == dest->rows && Q->m_mat_R.cols == dest->cols, @Q@Eigen: assignment needs equal shapes@Q@); /* copy: the Skolem cell keeps its literal-zero status */ MAT_TOUCH(*dest);", {"max": 1}),
            ("cs", r"\b(m_rot_cos|m_rot_sin)\.coeff\(i\)", r"\1[i]", {"min": 2, "max": 2}),
            ("Yi", r"(\w+) = &dest\.coeffRef\(([^,()]+), ([^,()]+)\);", r"\1 = CUR(MM, \2, \3);", {"max": 1}),
            ("shift", r"dest\.diagonal\(\)\.array\(\) \+= m_shift;", "if (g_r == g_c) g_zero = 0; MAT_TOUCH(*dest);", {"max": 1})] + cur_rules
    hz = "(!(0 <= g_c && g_c + 1 < g_r && g_r < Q->m_n) || g_zero)"
    loops2 = {0: "__CPROVER_assigns(i, dest->cell, g_zero) __CPROVER_loop_invariant(0 <= i && i <= n1 && %s) __CPROVER_decreases(n1 - i)" % hz,
              1: "__CPROVER_assigns(j, dest->cell, g_zero) __CPROVER_loop_invariant(0 <= j && j <= i2 && %s) __CPROVER_decreases(i2 - j)" % hz}
    t2, R = cgen.emit(g, "hqs_QtHQ", ret_c="void", self_type="HQS", self_name="Q", members=mem, param_types={"dest": "Mat *"}, pre_rules=pre2, loop_contracts=loops2, contract=spec2.frame_contract())
    t2 = t2.replace("MM", "dest")
    report["UpperHessenbergQR::matrix_QtHQ(shape)"] = R.fired
    alloc2 = ("  HQS Qv; HQS *Q = &Qv; Q->m_n = nondet_Index(); __CPROVER_assume(0 <= Q->m_n && Q->m_n <= NMAX); Q->m_rot_cos = VEC_NEW(Q->m_n > 0 ? Q->m_n - 1 : 0); Q->m_rot_sin = VEC_NEW(Q->m_n > 0 ? Q->m_n - 1 : 0); "
              "Q->m_mat_R = MAT_NEW(Q->m_n, Q->m_n); Q->m_computed = nondet_bool(); g_zero = nondet_bool();\n  Index dr = nondet_Index(), dc = nondet_Index(); __CPROVER_assume(0 <= dr && dr <= NMAX && 0 <= dc && dc <= NMAX); Mat D = MAT_NEW(dr, dc); Mat *dest = &D;\n")
    groups.append(Group("hessqr.shape.matrix_QtHQ", HQS_TYPES + t2 + spec2.harness("h", alloc2, "Q, dest"), "h", enforce="hqs_QtHQ", solver="cadical", defines=["SCALAR_DOUBLE"], timeout=900,
                        functions=[QH + ":UpperHessenbergQR::matrix_QtHQ"], expect_classes=["loop_invariant_step", "cursor access"],
                        note="UNBOUNDED in n: the column sweeps write only cells with row <= col + 1; the diagonal shift only diagonal cells"))
    from props import kernels2
    groups += kernels2.hessqr_apply_YQ_unbounded(report)
    return groups


DS_TYPES = '#include "skel.h"\n' + r'''
typedef struct { Scalar *data; Index rows, cols; } Block;      /* Eigen::Ref<Matrix> of a block: pointer, shape (outer stride passed separately) */
typedef struct { Index m_n; Scalar *m_mat_H; Scalar m_shift_s, m_shift_t; Scalar *m_ref_u; unsigned char *m_ref_nr; _Bool m_computed; Scalar m_near_0, m_eps; } DS;
static Block BLOCK(Scalar *M, Index mrows, Index mcols, Index r0, Index c0, Index nr, Index nc)
{ __CPROVER_assert(0 <= r0 && 0 <= c0 && 0 <= nr && 0 <= nc && r0 + nr <= mrows && c0 + nc <= mcols, "Eigen block assertion: block(r0, c0, nr, nc) within the matrix");
  Block b; b.data = &M[r0 + c0 * mrows]; b.rows = nr; b.cols = nc; return b; }
#define SWAP_S(a, b) do { Scalar t_ = (a); (a) = (b); (b) = t_; } while (0)
/* Eigen::numext::hypot: assumed library function: non-negative, not smaller than either |operand| (CBMC has no model of hypot) */
static Scalar FHYPOT(Scalar a, Scalar b) { Scalar r = nondet_Scalar(); __CPROVER_assume(r >= FABS(a) && r >= FABS(b)); return r; }
'''


def dsqr_groups(tier, report):
    """DoubleShiftQR: compute (block splitting, 3x3 Householder bulge chase), apply_YQ - BOUNDED at concrete n.
    Claims: memory safety of every pointer walk / block expression, reflector well-formedness i + nr[i] <= n with nr in {1,2,3}
    (what makes apply_QtY / apply_YQ safe), blocks partition 0..n-1.  The Hessenberg shape of Q'HQ holds only to rounding - not claimed."""
    DH = "LinAlg/DoubleShiftQR.h"
    from props import skel
    mem = ["m_near_0", "m_eps", "m_n", "m_mat_H", "m_shift_s", "m_shift_t", "m_ref_u", "m_ref_nr", "m_computed"]
    got = X.members(DH, "DoubleShiftQR")
    if got != mem:
        raise X.ExtractionBreak("DoubleShiftQR members changed: %r" % got)
    defs = []

    def cut(m):
        vals = skel.native_pow_consts(" ".join(m.group(1).split()))
        k = len(defs)
        defs.append("".join("#if defined(%s)\n#define VERIF_DSCUT_%d ((Scalar)%s%s)\n#endif\n" % (t, k, v, {"SCALAR_FLOAT": "f", "SCALAR_DOUBLE": "", "SCALAR_LDOUBLE": "L"}[t]) for t, v in vals.items()))
        return "VERIF_DSCUT_%d" % k
    cutoff = ("cutoff-init", r"(?<=cutoff = )([^;]+)(?=;)", cut, {"min": 1, "max": 1})

    def std_calls(b, R):
        b = R.call_rewrite("swap", r"std::swap(?=\()", lambda m, a: "SWAP_S(%s, %s)" % tuple(a) if len(a) == 2 else None, b)
        b = R.call_rewrite("block", r"\bD->m_mat_H\.block(?=\()", lambda m, a: "BLOCK(D->m_mat_H, D->m_n, D->m_n, %s)" % ", ".join(a) if len(a) == 4 else None, b)
        b = R.call_rewrite("yblock", r"\bY\.block(?=\()", lambda m, a: "BLOCK(Y.data, Y.rows, Y.cols, %s)" % ", ".join(a) if len(a) == 4 else None, b)
        b = R.sub("Hcoeff", r"\bD->m_mat_H\.coeff(?:Ref)?\(([^(),]+), ([^(),]+)\)", r"D->m_mat_H[(\1) + (\2) * D->m_n]", b)
        b = R.sub("ucoeff", r"\bD->m_ref_u\.coeff(?:Ref)?\(([^(),]+), ([^(),]+)\)", r"D->m_ref_u[(\1) + 3 * (\2)]", b)
        b = R.sub("nrcoeff", r"\bD->m_ref_nr\.coeff(?:Ref)?\(([^()]+)\)", r"D->m_ref_nr[\1]", b)
        b = R.sub("nrdata", r"\bD->m_ref_nr\.data\(\)", "D->m_ref_nr", b)
        b = R.sub("Hdata", r"\bD->m_mat_H\.data\(\)", "D->m_mat_H", b)
        b = R.sub("xrows", r"\b([XY])\.(rows|cols|data)\(\)", r"\1.\2", b)
        b = R.sub("hypot", r"Eigen::numext::hypot\(", "FHYPOT(", b)
        b = R.sub("selfcalls", r"(?<![\w>.])(compute_reflector|apply_PX|apply_XP|update_block)\(", r"\1(D, ", b)
        return b
    parts = []
    kinds = [("stable_norm3", dict(ret_c="Scalar", static=True, pre_rules=[cutoff], param_types={"x1": "Scalar", "x2": "Scalar", "x3": "Scalar"})),
             ("stable_scaling", dict(ret_c="void", static=True, pre_rules=[cutoff], param_types={"x1": "REF", "x2": "REF", "x3": "REF"})),
             ("compute_reflector", dict(ret_c="void", self_type="DS", params_re=r"x1", cname="compute_reflector3",
                                        extra_rules=[("scal", r"stable_scaling\(u\[(\d)\], u\[(\d)\], u\[(\d)\]\);", r"stable_scaling(&u[\1], &u[\2], &u[\3]);", {"min": 3, "max": 3}),
                                                     ("uptr", r"&D->m_ref_u\[\(0\) \+ 3 \* \(ind\)\]", "&D->m_ref_u[0 + 3 * ind]", {"min": 0})])),
             ("compute_reflector", dict(ret_c="void", self_type="DS", params_re=r"const Scalar\* x", cname="compute_reflectorp", param_types={"x": "const Scalar *"},
                                        extra_rules=[("fwd", r"compute_reflector\(D, x\[0\], x\[1\], x\[2\], ind\);", "compute_reflector3(D, x[0], x[1], x[2], ind);", {"max": 1})])),
             ("apply_PX", dict(ret_c="void", self_type="DS", params_re=r"GenericMatrix", param_types={"X": "Block"})),
             ("apply_XP", dict(ret_c="void", self_type="DS", params_re=r"GenericMatrix", param_types={"X": "Block"})),
             ("update_block", dict(ret_c="void", self_type="DS",
                                   extra_rules=[("cr3", r"compute_reflector\(D, (m00, m10, (?:0|m20)), il\);", r"compute_reflector3(D, \1, il);", {"min": 2, "max": 2}),
                                                ("crp", r"compute_reflector\(D, &D->m_mat_H\[", "compute_reflectorp(D, &D->m_mat_H[", {"max": 1}),
                                                ("crl", r"compute_reflector\(D, (D->m_mat_H\[[^;]*?), 0, iu - 1\);", r"compute_reflector3(D, \1, 0, iu - 1);", {"max": 1})])),
             ("compute", dict(ret_c="void", self_type="DS", param_types={"mat": "const Scalar *", "s": "Scalar", "t": "Scalar"},
                              pre_rules=[("rows", r"m_n = mat\.rows\(\);", "m_n = NN;", {"max": 1}), ("cols", r"mat\.cols\(\)", "cols", {"max": 1}),
                                         ("resize-H", r"m_mat_H\.resize\(m_n, m_n\);", "m_mat_H = VEC_NEW(m_n * m_n);", {"max": 1}),
                                         ("resize-u", r"m_ref_u\.resize\(3, m_n\);", "m_ref_u = VEC_NEW(3 * m_n);", {"max": 1}),
                                         ("resize-nr", r"m_ref_nr\.resize\(m_n\);", "m_ref_nr = malloc(m_n); __CPROVER_assume(D->m_ref_nr != NULL);", {"max": 1}),
                                         ("copy", r"m_mat_H\.noalias\(\) = mat;", "(void)mat; /* H = mat: the freshly allocated H already holds arbitrary (nondeterministic) entries */", {"max": 1}),
                                         ("zi-decl", r"std::vector<int> zero_ind;\s*zero_ind\.reserve\(m_n - 1\);", "int zero_ind[NN + 2]; Index zero_n = 0;", {"max": 1}),
                                         ("zi-push", r"zero_ind\.push_back\(([^;]+)\);", r"{ __CPROVER_assert(zero_n < NN + 2, @Q@std::vector push_back within modelled capacity@Q@); zero_ind[zero_n++] = (int)(\1); }", {"min": 3, "max": 3}),
                                         ("zi-size", r"zero_ind\.size\(\)", "zero_n", {"max": 1}),
                                         ("fill", r"std::fill\(([^,]+), ([^,]+), Scalar\(0\)\);", r"for (Scalar *p_ = (\1); p_ < (\2); p_++) *p_ = (Scalar)0;", {"max": 1})],
                              extra_rules=[("ub", r"update_block\(D, start, end\);", "__CPROVER_assert(0 <= start && start <= end && end < D->m_n, @Q@blocks partition 0..n-1: 0 <= start <= end < n@Q@); "
                                                                                         "__CPROVER_assert(i == 0 || start == zero_ind[i - 1 + 1], @Q@consecutive blocks@Q@); update_block(D, start, end);", {"max": 1})])),
             ("apply_YQ", dict(ret_c="void", self_type="DS", param_types={"Y": "Block"})),
             ("apply_PX", dict(ret_c="void", self_type="DS", params_re=r"Scalar\*\s*x", cname="apply_PXv", param_types={"x": "Scalar *"})),
             ("apply_QtY", dict(ret_c="void", self_type="DS", param_types={"y": "Scalar *"},
                                pre_rules=[("ydata", r"y\.data\(\)", "y", {"max": 1})],
                                extra_rules=[("pxv", r"apply_PX\(D, y_ptr, i\);", "INSTANTIATE_REC(D, i); __CPROVER_assert(y_ptr == y + i, @Q@dsqr.apply_QtY: y_ptr addresses y[i] (justifies reading the argument as y + i: CBMC cannot dereference a loop-havocked pointer)@Q@); apply_PXv(D, y + i, i);", {"max": 1})],
                                loop_contracts={0: "__CPROVER_assigns(i, y_ptr, __CPROVER_object_whole(y)) "
                                                   "__CPROVER_loop_invariant(0 <= i && (i <= n1 || n1 < 0) && __CPROVER_same_object(y_ptr, y) && __CPROVER_POINTER_OFFSET(y_ptr) == i * (Index)sizeof(Scalar)) "
                                                   "__CPROVER_decreases(n1 - i)"}))]
    for name, kw in kinds:
        cname = kw.pop("cname", name)
        late = kw.pop("extra_rules", [])

        def pf(b, R, late=late):
            b = std_calls(b, R)
            for r in late:
                o = r[3] if len(r) > 3 else {}
                b = R.sub("late:" + r[0], r[1], r[2], b, flags=re.S, min_fires=o.get("min", 1), max_fires=o.get("max"))
            return b
        f = X.locate(DH, name, cls="DoubleShiftQR", params_re=kw.pop("params_re", None))
        t, R = cgen.emit(f, cname, self_name="D", members=mem if kw.get("self_type") else (), post_fn=pf, **kw)
        report["DoubleShiftQR::" + cname] = R.fired
        parts.append(t)
    names = [k[1].get("cname", k[0]) if False else None for k in kinds]
    byname = {}
    order = ["stable_norm3", "stable_scaling", "compute_reflector3", "compute_reflectorp", "apply_PX", "apply_XP", "update_block", "compute", "apply_YQ", "apply_PXv", "apply_QtY"]
    for nm, t in zip(order, parts):
        byname[nm] = t.replace("DS *D, const Scalar * mat, Scalar s, Scalar t", "DS *D, const Scalar *mat, Index cols, Scalar s, Scalar t")
    base = DS_TYPES + "".join(defs)
    WF = "(D->m_ref_nr[q] == 1 || D->m_ref_nr[q] == 2 || D->m_ref_nr[q] == 3)"
    groups = []
    dsf = lambda xs: [DH + ":" + x for x in xs]
    # (0) scalar kernels of the reflector computation: loop-free, full finite domain
    h_s = r'''
#line 1 "harness/kernels.dsqr.scalar"
#define DOM(v) ((v) == (v) && FABS(v) <= SCALAR_MAX / (Scalar)4)
void h(void) {
  Scalar x1 = nondet_Scalar(), x2 = nondet_Scalar(), x3 = nondet_Scalar();
  __CPROVER_assume(DOM(x1) && DOM(x2) && DOM(x3));
#if CLAUSE == 1
  Scalar r = stable_norm3(x1, x2, x3);
  __CPROVER_assert(r == r && r >= (Scalar)0, "dsqr.stable_norm3: finite inputs give a non-negative, non-NaN norm");
  Scalar a = FABS(x1) > FABS(x2) ? FABS(x1) : FABS(x2); a = a > FABS(x3) ? a : FABS(x3);
  __CPROVER_assert(a < SCALAR_MIN * (Scalar)10 ? r == (Scalar)0 : (r >= a && r <= a + a), "dsqr.stable_norm3: max|x_i| <= norm <= 2 max|x_i| (exact 0 below the underflow guard)");
#elif CLAUSE == 2
  DS Dv; DS *D = &Dv; D->m_n = 4; D->m_ref_u = VEC_NEW(12); D->m_ref_nr = malloc(4); __CPROVER_assume(D->m_ref_nr != NULL); D->m_near_0 = SCALAR_MIN * (Scalar)10; D->m_eps = SCALAR_EPS;
  Index ind = nondet_Index(); __CPROVER_assume(0 <= ind && ind < 4);
  compute_reflector3(D, x1, x2, x3, ind);
  unsigned char nr = D->m_ref_nr[ind];
  __CPROVER_assert(nr == ((FABS(x2) < D->m_near_0 && FABS(x3) < D->m_near_0) ? 1 : (FABS(x3) < D->m_near_0 ? 2 : 3)),
                   "dsqr.compute_reflector: nr = 1 <=> both trailing entries negligible, 2 <=> only the third, 3 otherwise (documented meaning)");
#endif
  CANARY();
}
'''
    # (0b) apply_QtY + the vector apply_PX: 1-D pointer walk, proved UNBOUNDED in n for any reflector record with the property
    # that dsqr.compute establishes (nr[i] in {1,2,3}, i + nr[i] <= n), instantiated at the index read
    h_q = r'''
#define NMAXS 4096
#define INSTANTIATE_REC(D, e) __CPROVER_assume((D->m_ref_nr[e] == 1 || D->m_ref_nr[e] == 2 || D->m_ref_nr[e] == 3) && (e) + D->m_ref_nr[e] <= D->m_n)
'''
    h_q2 = r'''
#line 1 "harness/kernels.dsqr.apply_QtY"
void h(void) {
  DS Dv; DS *D = &Dv; D->m_n = nondet_Index(); __CPROVER_assume(0 <= D->m_n && D->m_n <= NMAXS);
  D->m_ref_u = VEC_NEW(3 * D->m_n); D->m_ref_nr = malloc(D->m_n); __CPROVER_assume(D->m_ref_nr != NULL); D->m_computed = nondet_bool();
  Scalar *y = VEC_NEW(D->m_n);
  Index q = nondet_Index(); __CPROVER_assume(0 <= q && q < D->m_n);
  unsigned char nr_q = D->m_ref_nr[q]; Scalar u_q = D->m_ref_u[3 * q]; Scalar y_q = y[q];
  _Bool was = D->m_computed;
  verif_exc = 0;
  apply_QtY(D, y);
  __CPROVER_assert((verif_exc != 0) == !was, "dsqr.apply_QtY: throws exactly when compute() has not been called");
  __CPROVER_assert(D->m_ref_nr[q] == nr_q && (D->m_ref_u[3 * q] == u_q || u_q != u_q), "dsqr.apply_QtY: the reflector record is not modified");
  if (!was) __CPROVER_assert(y[q] == y_q || y_q != y_q, "dsqr.apply_QtY: y untouched when it throws");
  CANARY();
}
'''
    groups.append(Group("dsqr.apply_QtY", base + h_q + byname["apply_PXv"] + byname["apply_QtY"] + h_q2, "h", enforce=None, loop_contracts=True, solver="cadical",
                        defines=["SCALAR_FLOAT"], timeout=600, functions=dsf(["apply_QtY", "apply_PX(Scalar*)"]), expect_classes=["loop_invariant_step", "dsqr.apply_QtY"],
                        note="UNBOUNDED in n (loop contract on the y_ptr walk); every x[0..nr) access of the vector apply_PX is inside y given the record property proved by dsqr.compute (forall-instantiation at the index read)"))
    from props import kernels2
    groups += kernels2.dsqr_unbounded(report) + kernels2.dsqr_compute_unbounded(report)
    sc_text = base + byname["stable_norm3"] + byname["stable_scaling"] + byname["compute_reflector3"] + h_s
    for k, nm in ((1, "stable_norm3"), (2, "compute_reflector.nr")):
        groups.append(Group("dsqr.scalar.%s" % nm, sc_text, "h", loop_contracts=False, solver="kissat", defines=["SCALAR_FLOAT", "CLAUSE=%d" % k], timeout=900,
                            functions=dsf(["stable_norm3", "compute_reflector"]), expect_classes=["dsqr."], flags=["--bounds-check", "--pointer-check"],
                            note="loop-free, full finite domain |x_i| <= MAX/4 (binary32); hypot assumed >= max|operand|"))
    # (1) update_block at every concrete (n, il, iu): the real bulge chase with all float values symbolic
    h_ub = r'''
#line 1 "harness/kernels.dsqr.update_block"
void h(void) {
  DS Dv; DS *D = &Dv; D->m_n = NN; D->m_mat_H = VEC_NEW(NN * NN); D->m_ref_u = VEC_NEW(3 * NN); D->m_ref_nr = malloc(NN); __CPROVER_assume(D->m_ref_nr != NULL);
  D->m_near_0 = SCALAR_MIN * (Scalar)10; D->m_eps = SCALAR_EPS; D->m_shift_s = nondet_Scalar(); D->m_shift_t = nondet_Scalar(); D->m_computed = 0;
  update_block(D, IL, IU);
  Index q = nondet_Index(); __CPROVER_assume(IL <= q && q <= IU);
  __CPROVER_assert(WFQ, "dsqr.update_block: every reflector of the block is marked 1 (identity), 2 (Givens) or 3 (general)");
  __CPROVER_assert(q + D->m_ref_nr[q] <= IU + 1, "dsqr.update_block: reflector q touches rows q .. q + nr[q] - 1 inside its block (i + nr[i] <= iu + 1 <= n)");
  CANARY();
}
'''.replace("WFQ", WF)
    ub_text = base + byname["stable_norm3"] + byname["stable_scaling"] + byname["compute_reflector3"] + byname["compute_reflectorp"] + byname["apply_PX"] + byname["apply_XP"] + byname["update_block"] + h_ub
    sizes = [3, 4] if tier == "quick" else [3, 4, 5, 6]
    for n in sizes:
        for il in range(n):
            for iu in range(il, n):
                groups.append(Group("dsqr.update_block.n%d.%d-%d" % (n, il, iu), ub_text, "h", loop_contracts=False, solver="cadical",
                                    defines=["SCALAR_FLOAT", "NN=%d" % n, "IL=%d" % il, "IU=%d" % iu], unwind=n + 2, timeout=900, mem_gb=10,
                                    bounded="n = %d, block [%d, %d] (concrete), full unwinding with unwinding assertions" % (n, il, iu),
                                    functions=dsf(["update_block", "compute_reflector", "apply_PX", "apply_XP", "stable_norm3", "stable_scaling"]),
                                    expect_classes=["dsqr.update_block", "Eigen block assertion"], note="all float values symbolic"))
    # (2) compute: block splitting, with update_block replaced by the contract proved in (1)
    stub_ub = r'''
/* contract of update_block(il, iu) proved in dsqr.update_block.* : marks every position of the block, i + nr[i] <= iu + 1; writes H and the reflectors */
void update_block(DS *D, Index il, Index iu)
{
  __CPROVER_assert(0 <= il && il <= iu && iu < D->m_n, "precondition of update_block at call site: 0 <= il <= iu < n");
  __CPROVER_havoc_object(D->m_mat_H); __CPROVER_havoc_object(D->m_ref_u);
  for (Index i_ = il; i_ <= iu; i_++) { unsigned char v = nondet_uchar(); __CPROVER_assume((v == 1 || v == 2 || v == 3) && i_ + v <= iu + 1); D->m_ref_nr[i_] = v; }
}
'''
    h_c = r'''
#line 1 "harness/kernels.dsqr.compute"
void h(void) {
  DS Dv; DS *D = &Dv; D->m_n = nondet_Index(); D->m_mat_H = VEC_NEW(0); D->m_ref_u = VEC_NEW(0); D->m_ref_nr = malloc(1); D->m_computed = 0;
  D->m_near_0 = SCALAR_MIN * (Scalar)10; D->m_eps = SCALAR_EPS;
  const Scalar *mat = VEC_NEW(NN * NN); Scalar s = nondet_Scalar(), t = nondet_Scalar();
  verif_exc = 0;
  compute(D, mat, NN, s, t);
  __CPROVER_assert(verif_exc == 0 && D->m_computed && D->m_n == NN, "dsqr.compute: computed");
  Index q = nondet_Index(); __CPROVER_assume(0 <= q && q < NN);
  __CPROVER_assert(WFQ, "dsqr.compute: every position 0..n-1 belongs to exactly one block and carries a reflector mark");
  __CPROVER_assert(q + D->m_ref_nr[q] <= NN, "dsqr.compute: i + nr[i] <= n for every reflector (apply_QtY / apply_YQ stay in bounds)");
  CANARY();
}
'''.replace("WFQ", WF)
    for n in ([3, 4, 6] if tier == "quick" else [3, 4, 5, 6, 8]):
        groups.append(Group("dsqr.compute.n%d" % n, base + "unsigned char nondet_uchar(void);\n" + stub_ub + byname["compute"] + h_c, "h", loop_contracts=False, solver="cadical",
                            defines=["SCALAR_FLOAT", "NN=%d" % n], unwind=n + 3, timeout=900, mem_gb=10, bounded="n = %d (concrete), full unwinding" % n,
                            functions=dsf(["compute"]), expect_classes=["dsqr.compute", "precondition of update_block"],
                            note="every deflation pattern of the sub-diagonal explored; update_block replaced by its contract"))
    # (3) apply_YQ / apply_XP for any well-formed reflector record
    h_y = r'''
#line 1 "harness/kernels.dsqr.apply_YQ"
void h(void) {
  DS Dv; DS *D = &Dv; D->m_n = NN; D->m_mat_H = VEC_NEW(NN * NN); D->m_ref_u = VEC_NEW(3 * NN); D->m_ref_nr = malloc(NN); __CPROVER_assume(D->m_ref_nr != NULL); D->m_computed = nondet_bool();
  for (Index q = 0; q < NN; q++) __CPROVER_assume(WFQ && q + D->m_ref_nr[q] <= NN);
  Block Y; Y.data = VEC_NEW(YR * NN); Y.rows = YR; Y.cols = NN;
  verif_exc = 0;
  apply_YQ(D, Y);
  __CPROVER_assert((verif_exc == EXC_logic_error) == !D->m_computed, "dsqr.apply_YQ: logic_error <=> compute() was not called");
  CANARY();
}
'''.replace("WFQ", WF)
    for n, yr in ([(3, 3), (4, 2), (4, 4), (5, 5)] if tier == "quick" else [(3, 3), (4, 2), (4, 4), (5, 5), (6, 6), (8, 3), (8, 8)]):
        groups.append(Group("dsqr.apply_YQ.n%d.rows%d" % (n, yr), base + byname["apply_XP"] + byname["apply_YQ"] + h_y, "h", loop_contracts=False, solver="cadical",
                            defines=["SCALAR_FLOAT", "NN=%d" % n, "YR=%d" % yr], unwind=n + 3, timeout=900, mem_gb=10, bounded="Y is %d x %d (concrete), full unwinding" % (yr, n),
                            functions=dsf(["apply_YQ", "apply_XP"]), expect_classes=["dsqr.apply_YQ", "Eigen block assertion"],
                            note="for ANY reflector record satisfying the well-formedness proved for compute()"))
    return groups


def qr_groups(tier, report, pre, rot):
    return tridiagqr_groups(report) + hessqr_shape_groups(report) + hessqr_groups(tier, report) + dsqr_groups(tier, report)


PK_TYPES = '#include "skel.h"\n' + r'''
/* Packed-cursor model of the lower-triangular storage: column c holds rows c..n-1; a pointer into it is (column, offset from the column
 * head); the one-past-the-end address of column c is the head of column c+1.  Values are not modelled (one scratch cell). */
typedef struct { Index c, o; } PCur;
typedef struct { Index m_n; Index *m_perm; Scalar cell; } BKP;
#define SWAP_S(a, b) do { Scalar t_ = (a); (a) = (b); (b) = t_; } while (0)
static PCur PCOL(BKP *B, Index k)
{ __CPROVER_assert(0 <= k && k < B->m_n, "packed storage: col_pointer(k) needs 0 <= k < n (m_colptr has n entries)"); PCur p; p.c = k; p.o = 0; return p; }
static PCur PADDR(BKP *B, Index i, Index j)      /* &coeff(i, j): the element or the one-past-the-end address of column j */
{ __CPROVER_assert(0 <= j && j < B->m_n && j <= i && i <= B->m_n, "packed storage: &coeff(i, j) needs 0 <= j <= i <= n, j < n"); PCur p; p.c = j; p.o = i - j; return p; }
static Scalar *PELEM(BKP *B, Index i, Index j)
{ __CPROVER_assert(0 <= j && j <= i && i < B->m_n, "packed storage: coeff(i, j) needs 0 <= j <= i < n"); B->cell = nondet_Scalar(); return &B->cell; }
static Scalar *PDEREF_AT(BKP *B, PCur p, Index k)
{ __CPROVER_assert(0 <= p.c && p.c < B->m_n && 0 <= p.o + k && p.o + k < B->m_n - p.c, "packed storage: pointer dereference stays inside the column it points into"); B->cell = nondet_Scalar(); return &B->cell; }
static Scalar *PDEREF(BKP *B, PCur p) { return PDEREF_AT(B, p, 0); }
static PCur PADD(PCur p, Index k) { p.o += k; return p; }
static Index PDIFF(BKP *B, PCur b, PCur a)        /* b - a for pointers into the same column (b may be the head of the next column) */
{ if (b.c == a.c) return b.o - a.o;
  __CPROVER_assert(b.c == a.c + 1 && b.o == 0, "packed storage: pointer difference / comparison within one column (or against its one-past-the-end address)");
  return (B->m_n - a.c) - a.o; }
static _Bool PLT(BKP *B, PCur a, PCur b) { return PDIFF(B, b, a) > 0; }
static void PSWAP_RANGES(BKP *B, PCur f1, PCur l1, PCur f2)
{ Index len = PDIFF(B, l1, f1);
  __CPROVER_assert(len >= 0, "std::swap_ranges: first <= last");
  __CPROVER_assert(0 <= f1.c && f1.c < B->m_n && 0 <= f1.o && f1.o + len <= B->m_n - f1.c, "std::swap_ranges: first range inside its column");
  __CPROVER_assert(0 <= f2.c && f2.c < B->m_n && 0 <= f2.o && f2.o + len <= B->m_n - f2.c, "std::swap_ranges: second range inside its column");
  __CPROVER_assert(f1.c != f2.c || len == 0, "std::swap_ranges: ranges do not overlap");
  B->cell = nondet_Scalar(); }
#define NMAXP 1000000
'''


def bkldlt_pivoting_unbounded(report):
    """The pivot search and the symmetric interchanges of BKLDLT on the packed-cursor model: UNBOUNDED in n.  Proves the contract that
    bk.compute assumes for permutate_mat, the preconditions of every callee at its call sites, and that every packed-storage access is
    inside its column."""
    BH = "LinAlg/BKLDLT.h"
    mem = ["m_n", "m_perm"]
    INV = "2 <= B->m_n && B->m_n <= NMAXP && VEC_SIZE(B->m_perm) == B->m_n"

    def pf(b, R):
        b = R.sub("is_same", r"std::is_same<Scalar, RealScalar>::value", "1", b, min_fires=0)
        b = R.call_rewrite("conj", r"ScalarOp<Scalar>::conj(?=\()", lambda m, a: "(%s)" % a[0] if len(a) == 1 else None, b)
        b = R.sub("swap_ranges", r"std::swap_ranges\(&coeff\(([^,]+), ([^()]+)\), col_pointer\(([^()]+)\), &coeff\(([^,]+), ([^()]+)\)\);",
                  r"PSWAP_RANGES(B, PADDR(B, \1, \2), PCOL(B, \3), PADDR(B, \4, \5));", b, min_fires=0)
        b = R.sub("src-decl", r"Scalar\* src = &coeff\(([^,]+), ([^()]+)\);", r"PCur src = PADDR(B, \1, \2);", b, min_fires=0)
        b = R.sub("src-inc", r"\bsrc\+\+", "src.o++", b, min_fires=0)
        b = R.sub("src-deref", r"\*src\b", "(*PDEREF(B, src))", b, min_fires=0)
        b = R.sub("head", r"const Scalar\* head = col_pointer\(([^()]+)\);", r"PCur head = PCOL(B, \1);", b, min_fires=0)
        b = R.sub("end", r"const Scalar\* end = col_pointer\(([^()]+)\);", r"PCur end = PCOL(B, \1);", b, min_fires=0)
        b = R.sub("head1", r"\bhead\[(\d)\]", r"(*PDEREF_AT(B, head, \1))", b, min_fires=0)
        b = R.sub("ptr-for", r"const Scalar\* ptr = head \+ (\d); ptr < end; ptr\+\+", r"PCur ptr = PADD(head, \1); PLT(B, ptr, end); ptr.o++", b, min_fires=0)
        b = R.sub("ptr-deref", r"\*ptr\b", "(*PDEREF(B, ptr))", b, min_fires=0)
        b = R.sub("ptr-diff", r"\bptr - head\b", "PDIFF(B, ptr, head)", b, min_fires=0)
        b = R.call_rewrite("swap", r"std::swap(?=\()", lambda m, a: "SWAP_S(%s, %s)" % tuple(a) if len(a) == 2 else None, b)
        b = R.call_rewrite("coeff", r"(?<![\w&])coeff(?=\()", lambda m, a: "(*PELEM(B, %s, %s))" % tuple(a) if len(a) == 2 else None, b)
        b = R.call_rewrite("diag", r"(?<![\w&])diag_coeff(?=\()", lambda m, a: "(*PELEM(B, %s, %s))" % (a[0], a[0]) if len(a) == 1 else None, b)
        if re.search(r"col_pointer\(|&coeff\(|std::", b):
            raise X.ExtractionBreak("BKLDLT pivoting kernel: an unrecognised pointer idiom remains: %r" % re.search(r".{30}(col_pointer\(|&coeff\(|std::).{30}", b, re.S).group(0))
        return b
    parts = []
    pre_of = {
        "interchange_rows": "c1 == 0 && -1 <= c2 && c2 <= r1 && c2 <= r2 && 0 <= r1 && r1 < B->m_n && 0 <= r2 && r2 < B->m_n",
        "pivoting_1x1": "0 <= k && k <= r && r < B->m_n",
        "pivoting_2x2": "0 <= k && k + 1 <= r && r < B->m_n && k <= p && p < B->m_n",
        "find_lambda": "0 <= k && k <= B->m_n - 2",
        "find_sigma": "0 <= k && k < r && r < B->m_n && (*p) == k",
        "permutate_mat": "0 <= k && k < B->m_n - 1",
    }
    lc = {
        "interchange_rows": {0: "__CPROVER_assigns(j, B->cell) __CPROVER_loop_invariant(c1 <= j && j <= c2 + 1) __CPROVER_decreases(c2 + 1 - j)"},
        "pivoting_1x1": {k_: "__CPROVER_assigns(j, src, B->cell) __CPROVER_loop_invariant(k + 1 <= j && j <= r && src.c == k && src.o == j - k) __CPROVER_decreases(r - j)" for k_ in (0, 1)},
        "find_lambda": {0: "__CPROVER_assigns(ptr, lambda, *r, B->cell) __CPROVER_loop_invariant(ptr.c == k && 2 <= ptr.o && ptr.o <= B->m_n - k && k + 1 <= (*r) && (*r) <= B->m_n - 1) __CPROVER_decreases(B->m_n - k - ptr.o)"},
        "find_sigma": {0: "__CPROVER_assigns(j, sigma, *p, B->cell) __CPROVER_loop_invariant(k <= j && j <= r && k <= (*p) && (*p) < B->m_n && (*p) != r) __CPROVER_decreases(r - j)"},
    }
    for name, kw in (("interchange_rows", {}), ("pivoting_1x1", {}),
                     ("pivoting_2x2", dict(extra_rules=[("p1", r"(?<![\w>])pivoting_1x1\(", "pivoting_1x1(B, ", {"min": 2, "max": 2})])),
                     ("find_lambda", dict(param_types={"r": "REF"}, ret_c="Scalar")),
                     ("find_sigma", dict(param_types={"p": "REF"}, ret_c="Scalar", extra_rules=[("fl", r"find_lambda\(r, \(\*p\)\)", "find_lambda(B, r, p)", {"max": 1})])),
                     ("permutate_mat", dict(ret_c="_Bool", param_types={"alpha": "Scalar"},
                                            extra_rules=[("fl", r"find_lambda\(k, r\)", "find_lambda(B, k, &r)", {"max": 1}), ("fs", r"find_sigma\(k, r, p\)", "find_sigma(B, k, r, &p)", {"max": 1}),
                                                         ("p1", r"(?<![\w>])pivoting_1x1\(k, r\);", "pivoting_1x1(B, k, r);", {"max": 1}), ("p2", r"(?<![\w>])pivoting_2x2\(k, r, p\);", "pivoting_2x2(B, k, r, p);", {"max": 1}),
                                                         ("ir", r"(?<![\w>])interchange_rows\(", "interchange_rows(B, ", {"min": 3, "max": 3})]))):
        f = X.locate(BH, name, cls="BKLDLT")
        t, R = cgen.emit(f, name, self_type="BKP", self_name="B", members=mem, post_fn=pf, loop_contracts=lc.get(name, {}),
                         pre_body=' __CPROVER_assert(%s, "precondition of %s at its call site");' % (pre_of[name], name), **kw)
        report["BKLDLT::" + name + "(packed-cursor)"] = R.fired
        parts.append(t)
    h = r'''
#line 1 "harness/kernels.bkldlt.pivoting"
void h(void) {
  BKP Bv; BKP *B = &Bv; B->m_n = nondet_Index(); __CPROVER_assume(2 <= B->m_n && B->m_n <= NMAXP); B->m_perm = IVEC_NEW(B->m_n);
  Index k = nondet_Index(); __CPROVER_assume(0 <= k && k < B->m_n - 1);
  Index q = nondet_Index(); __CPROVER_assume(0 <= q && q < B->m_n);
  /* precondition (asserted at the call site in bk.compute): positions not yet processed still hold the identity record */
  __CPROVER_assume(B->m_perm[k] == k);
  Index old_q = B->m_perm[q];
  _Bool one = permutate_mat(B, k, (Scalar)0.6403882032022076);
  if (one) __CPROVER_assert(k <= B->m_perm[k] && B->m_perm[k] < B->m_n, "bkldlt.permutate_mat: a 1x1 pivot records a row in [k, n) (the identity record is kept when no interchange is needed)");
  else __CPROVER_assert(B->m_perm[k] < 0 && B->m_perm[k + 1] < 0 && -B->m_perm[k] - 1 >= k && -B->m_perm[k] - 1 < B->m_n && -B->m_perm[k + 1] - 1 >= k + 1 && -B->m_perm[k + 1] - 1 < B->m_n,
                        "bkldlt.permutate_mat: a 2x2 pivot records two negative entries with targets in range (the contract assumed by bk.compute)");
  if (q != k && !(q == k + 1 && !one)) __CPROVER_assert(B->m_perm[q] == old_q, "bkldlt.permutate_mat: no other entry of the pivot record is written");
  CANARY();
}
'''
    return [Group("bkldlt.pivoting.unbounded", PK_TYPES + "".join(parts) + h, "h", loop_contracts=True, solver="cadical", defines=["SCALAR_FLOAT"], timeout=900,
                  functions=[BH + ":" + x for x in ("find_lambda", "find_sigma", "pivoting_1x1", "pivoting_2x2", "interchange_rows", "permutate_mat")],
                  expect_classes=["loop_invariant_step", "packed storage", "precondition of", "bkldlt.permutate_mat"],
                  note="UNBOUNDED in n on the packed-cursor model (column, offset); the real pointer arithmetic of the same bodies is the bounded bkldlt.kernels.n<N> groups")]


def bkldlt_groups(tier, report):
    """BKLDLT pivoting kernels on the packed lower-triangular storage: BOUNDED (concrete n).  Checks the contract that C10's
    bk.compute assumes for permutate_mat on the REAL bodies (compute_pointer, find_lambda, find_sigma, pivoting_1x1/2x2,
    interchange_rows) together with memory safety of every pointer walk."""
    BH = "LinAlg/BKLDLT.h"
    raw, st = X.load(BH)
    for pat in (r"Scalar\* col_pointer\(Index k\) \{ return m_colptr\[k\]; \}", r"Scalar& coeff\(Index i, Index j\) \{ return m_colptr\[j\]\[i - j\]; \}",
                r"Scalar& diag_coeff\(Index i\) \{ return m_colptr\[i\]\[0\]; \}"):
        if not re.search(pat, st):
            raise X.ExtractionBreak("BKLDLT accessor changed: %s" % pat)
    types = '#include "skel.h"\n' + r'''
typedef struct { Index m_n; Scalar *m_data; Scalar **m_colptr; Index colptr_n; Index *m_perm; } BKK;
#define col_pointer(k) (B->m_colptr[k])
#define coeff(i, j) (B->m_colptr[j][(i) - (j)])
#define diag_coeff(i) (B->m_colptr[i][0])
#define SWAP_S(a, b) do { Scalar t_ = (a); (a) = (b); (b) = t_; } while (0)
'''
    mem = ["m_n", "m_data", "m_colptr", "m_perm"]
    common_pre = [("is_same", r"std::is_same<Scalar, RealScalar>::value", "1", {"min": 0})]

    def std_calls(b, R):
        b = R.call_rewrite("conj", r"ScalarOp<Scalar>::conj(?=\()", lambda m, a: "(%s)" % a[0] if len(a) == 1 else None, b)
        b = R.call_rewrite("swap_ranges", r"std::swap_ranges(?=\()",
                           lambda m, a: "{ Scalar *a_ = (%s), *e_ = (%s), *b_ = (%s); for (; a_ < e_; a_++, b_++) SWAP_S(*a_, *b_); }" % tuple(a) if len(a) == 3 else None, b)
        b = R.call_rewrite("swap", r"std::swap(?=\()", lambda m, a: "SWAP_S(%s, %s)" % tuple(a) if len(a) == 2 else None, b)
        return b
    parts = []
    for name, kw in (("compute_pointer", dict(pre_rules=[("clear", r"m_colptr\.clear\(\);\s*m_colptr\.reserve\(m_n\);", "B->m_colptr = malloc(m_n * sizeof(Scalar *)); __CPROVER_assume(B->m_colptr != NULL); B->colptr_n = 0;", {"max": 1}),
                                                         ("data", r"m_data\.data\(\)", "m_data", {"max": 1}),
                                                         ("push", r"m_colptr\.push_back\(head\);", "B->m_colptr[B->colptr_n++] = head;", {"max": 1})])),
                     ("interchange_rows", {}), ("pivoting_1x1", {}),
                     ("pivoting_2x2", dict(extra_rules=[("p1", r"(?<![\w>])pivoting_1x1\(", "pivoting_1x1(B, ", {"min": 2, "max": 2})])),
                     ("find_lambda", dict(param_types={"r": "REF"}, ret_c="Scalar")),
                     ("find_sigma", dict(param_types={"p": "REF"}, ret_c="Scalar", extra_rules=[("fl", r"find_lambda\(r, \(\*p\)\)", "find_lambda(B, r, p)", {"max": 1})])),
                     ("permutate_mat", dict(ret_c="_Bool", param_types={"alpha": "Scalar"},
                                            extra_rules=[("fl", r"find_lambda\(k, r\)", "find_lambda(B, k, &r)", {"max": 1}), ("fs", r"find_sigma\(k, r, p\)", "find_sigma(B, k, r, &p)", {"max": 1}),
                                                         ("p1", r"(?<![\w>])pivoting_1x1\(k, r\);", "pivoting_1x1(B, k, r);", {"max": 1}), ("p2", r"(?<![\w>])pivoting_2x2\(k, r, p\);", "pivoting_2x2(B, k, r, p);", {"max": 1}),
                                                         ("ir", r"(?<![\w>])interchange_rows\(", "interchange_rows(B, ", {"min": 3, "max": 3})]))):
        f = X.locate(BH, name, cls="BKLDLT")
        pr = list(common_pre) + list(kw.pop("pre_rules", []))
        t, R = cgen.emit(f, name, self_type="BKK", self_name="B", members=mem, pre_rules=pr, post_fn=std_calls, **kw)
        report["BKLDLT::" + name] = R.fired
        parts.append(t)
    harness = r'''
#line 1 "harness/kernels.bkldlt"
void h(void) {
  BKK Bv; BKK *B = &Bv; B->m_n = NN; B->m_data = VEC_NEW(NN * (NN + 1) / 2); B->m_perm = IVEC_NEW(NN);
  compute_pointer(B);
  __CPROVER_assert(B->colptr_n == NN, "bkldlt.compute_pointer: one pointer per column");
  for (Index j = 0; j < NN; j++) {
    __CPROVER_assert(__CPROVER_same_object(B->m_colptr[j], B->m_data) && __CPROVER_POINTER_OFFSET(B->m_colptr[j]) == (j * NN - j * (j - 1) / 2) * sizeof(Scalar),
                     "bkldlt.compute_pointer: column j starts at offset j*n - j(j-1)/2 (disjoint segments of length n - j inside m_data)");
    B->m_perm[j] = j; }
  Index k = nondet_Index(); __CPROVER_assume(0 <= k && k < NN - 1);
  _Bool one = permutate_mat(B, k, (Scalar)0.6403882032022076);
  if (one) __CPROVER_assert(k <= B->m_perm[k] && B->m_perm[k] < NN, "bkldlt.permutate_mat: 1x1 pivot records a row in [k, n)");
  else __CPROVER_assert(B->m_perm[k] < 0 && B->m_perm[k + 1] < 0 && -B->m_perm[k] - 1 >= k && -B->m_perm[k] - 1 < NN && -B->m_perm[k + 1] - 1 >= k + 1 && -B->m_perm[k + 1] - 1 < NN,
                        "bkldlt.permutate_mat: 2x2 pivot records two negative entries with targets in range (the contract assumed by bk.compute)");
  Index q = nondet_Index(); __CPROVER_assume(0 <= q && q < NN && q != k && !(q == k + 1 && !one));
  __CPROVER_assert(B->m_perm[q] == q, "bkldlt.permutate_mat: no other entry of the pivot record is written");
  CANARY();
}
'''
    groups = []
    groups += bkldlt_pivoting_unbounded(report)
    from props import kernels2
    groups += kernels2.ge_unbounded(report) + kernels2.copy_data_unbounded(report)
    # ---- copy_data: which entry of the user's matrix lands where in the packed storage, for both triangles and both
    # storage orders.  conj() is an uninterpreted function, so the generic (complex Hermitian capable) statement is proved:
    # packed(i, j) = A(i, j) from the lower triangle, conj(A(j, i)) from the upper one, minus the shift on the diagonal.
    fcd = X.locate(BH, "copy_data", cls="BKLDLT")
    cd_pre = [("ref", r"const Eigen::Ref<const typename Derived::PlainObject>& src\(mat\);", "", {"max": 1}),
              ("rowmajor", r"Derived::PlainObject::IsRowMajor", "IS_ROWMAJOR", {"max": 3}),
              ("lower", r"Eigen::Lower", "EIGEN_LOWER", {"max": 4}), ("upper", r"Eigen::Upper", "EIGEN_UPPER", {"min": 0, "max": 4}),
              ("coeffRef", r"&src\.coeffRef\(", "&SRC(", {"min": 0, "max": 2}), ("coeff", r"src\.coeff\(", "SRC(", {"min": 1, "max": 4}),
              ("data", r"m_data\.data\(\)", "m_data", {"max": 1}),
              ("shift", r"Scalar\(shift\)", "shift", {"min": 1, "max": 3})]

    def cd_calls(b, R):
        b = R.call_rewrite("conj", r"ScalarOp<Scalar>::conj(?=\()", lambda m, a: "SCONJ(%s)" % a[0] if len(a) == 1 else None, b)
        b = R.call_rewrite("copy", r"std::copy(?=\()",
                           lambda m, a: "{ const Scalar *a_ = (%s), *e_ = (%s); Scalar *b_ = (%s); for (; a_ < e_; a_++, b_++) *b_ = *a_; }" % tuple(a) if len(a) == 3 else None, b)
        return b
    tcd, Rcd = cgen.emit(fcd, "copy_data", self_type="BKK", self_name="B", members=mem, pre_rules=cd_pre, post_fn=cd_calls,
                         param_types={"mat": "const Scalar *", "shift": "Scalar"})
    report["BKLDLT::copy_data"] = Rcd.fired
    cd_types = types + r'''
#define EIGEN_LOWER 1
#define EIGEN_UPPER 2
Scalar __CPROVER_uninterpreted_sconj(Scalar);
#define SCONJ(x) __CPROVER_uninterpreted_sconj(x)
#define SRC(r, c) mat[IS_ROWMAJOR ? (r) * NN + (c) : (r) + (c) * NN]
#define BITSAME(a, b) (((b) != (b)) ? ((a) != (a)) : ((a) == (b) && __CPROVER_signf(a) == __CPROVER_signf(b)))
'''
    cd_h = r'''
#line 1 "harness/kernels.bkldlt.copy_data"
void h(void) {
  BKK Bv; BKK *B = &Bv; B->m_n = NN; B->m_data = VEC_NEW(NN * (NN + 1) / 2); B->m_perm = IVEC_NEW(NN);
  compute_pointer(B);
  Scalar *mat = VEC_NEW(NN * NN);
  int uplo = nondet_int(); __CPROVER_assume(uplo == EIGEN_LOWER || uplo == EIGEN_UPPER);
  Scalar shift = nondet_Scalar();
  Index i = nondet_Index(), j = nondet_Index(); __CPROVER_assume(0 <= j && j <= i && i < NN);
  Scalar a_ij = SRC(i, j), a_ji = SRC(j, i);
  copy_data(B, mat, uplo, shift);
  Scalar want = uplo == EIGEN_LOWER ? a_ij : SCONJ(a_ji);
  Scalar got = coeff(i, j);
  if (i != j) __CPROVER_assert(BITSAME(got, want), "bkldlt.copy_data: packed(i, j) is A(i, j) read from the lower triangle, conj(A(j, i)) read from the upper triangle - both storage orders");
  else __CPROVER_assert(BITSAME(got, want - shift), "bkldlt.copy_data: packed(j, j) is the diagonal entry of the requested triangle minus the shift");
  __CPROVER_assert(SRC(i, j) == a_ij || a_ij != a_ij, "bkldlt.copy_data: the user's matrix is not modified");
  CANARY();
}
'''
    for n in ([2, 3, 4] if tier == "quick" else [2, 3, 4, 5, 6]):
        for rm in (0, 1):
            groups.append(Group("bkldlt.copy_data.n%d.%s" % (n, "rowmajor" if rm else "colmajor"), cd_types + parts[0] + tcd + cd_h, "h", loop_contracts=False, solver="cadical",
                                defines=["SCALAR_FLOAT", "NN=%d" % n, "IS_ROWMAJOR=%d" % rm], unwind=n * (n + 1) // 2 + 3, timeout=600, mem_gb=8,
                                bounded="n = %d (concrete), full unwinding with unwinding assertions" % n,
                                functions=[BH + ":copy_data", BH + ":compute_pointer"], expect_classes=["bkldlt.copy_data"],
                                note="conj() uninterpreted (generic scalar); uplo symbolic; the lower/upper agreement of C10 follows for A(i, j) = conj(A(j, i))"))
    # ---- gaussian_elimination_1x1 / _2x2: the exact-singularity decision and the extent of every trailing update.
    # Mapped-vector statements lose their values (range checked against the column they address, then havocked).
    ge_types = types + common.enum_defines("Util/CompInfo.h", "CompInfo") + r'''
#define BITSAME(a, b) (((b) != (b)) ? ((a) != (a)) : ((a) == (b) && __CPROVER_signf(a) == __CPROVER_signf(b)))
/* a mapped vector [p, p + len) must lie inside ONE packed column (column c holds rows c..n-1) */
static void MAPVEC_RANGE(BKK *B, Scalar *p, Index len, _Bool write)
{
  __CPROVER_assert(len >= 0, "Eigen: mapped vector length >= 0");
  if (len == 0) return;
  _Bool found = 0;
  for (Index c = 0; c < NN; c++)
    if (__CPROVER_same_object(p, B->m_data) && B->m_colptr[c] <= p && p < B->m_colptr[c] + (NN - c)) {
      found = 1;
      __CPROVER_assert((p - B->m_colptr[c]) + len <= NN - c, "packed storage: a mapped vector stays inside the column it starts in");
    }
  __CPROVER_assert(found, "packed storage: a mapped vector of positive length starts inside a column");
  if (write) for (Index t = 0; t < len; t++) p[t] = nondet_Scalar();
}
#define TAIL_CHECK(len, m) __CPROVER_assert(0 <= (m) && (m) <= (len), "Eigen block assertion: tail(m) within the vector")
/* the two products of the 2x2 determinant test: an uninterpreted function on both sides (same arithmetic in code and contract) */
Scalar __CPROVER_uninterpreted_fmulk(Scalar, Scalar);
#define FMULK(a, b) __CPROVER_uninterpreted_fmulk(a, b)
'''
    ge_common = [("real", r"ScalarOp<Scalar>::real\(([^()]*(?:\([^()]*\))?)\)", r"(\1)", {"min": 1, "max": 3})]
    f1 = X.locate(BH, "gaussian_elimination_1x1", cls="BKLDLT")
    t1, R1 = cgen.emit(f1, "gaussian_elimination_1x1", ret_c="CompInfo", self_type="BKK", self_name="B", members=mem, post_fn=std_calls,
                       pre_rules=common_pre + ge_common + [
                           ("mapl", r"MapVec l\(lptr, ldim\);", "MAPVEC_RANGE(B, lptr, ldim, 0);", {"max": 1}),
                           ("upd", r"MapVec\(col_pointer\(j \+ k \+ 1\), ldim - j\)\.noalias\(\) -= \(l_conj / akk\) \* l\.tail\(ldim - j\);",
                            "{ TAIL_CHECK(ldim, ldim - j); MAPVEC_RANGE(B, col_pointer(j + k + 1), ldim - j, 1); (void)l_conj; }", {"max": 1}),
                           ("scale", r"l /= akk;", "MAPVEC_RANGE(B, lptr, ldim, 1);", {"max": 1})])
    report["BKLDLT::gaussian_elimination_1x1"] = R1.fired
    f2 = X.locate(BH, "gaussian_elimination_2x2", cls="BKLDLT")
    t2, R2 = cgen.emit(f2, "gaussian_elimination_2x2", ret_c="CompInfo", self_type="BKK", self_name="B", members=mem, post_fn=std_calls,
                       pre_rules=common_pre + [
                           ("refs", r"Scalar& e11 = diag_coeff\(k\);\s*Scalar& e21 = coeff\(k \+ 1, k\);\s*Scalar& e22 = diag_coeff\(k \+ 1\);",
                            "Scalar *verif_e11 = &diag_coeff(k); Scalar *verif_e21 = &coeff(k + 1, k); Scalar *verif_e22 = &diag_coeff(k + 1);", {"max": 1}),
                           ("real11", r"e11 = ScalarOp<Scalar>::real\(e11\);", "(*verif_e11) = (*verif_e11);", {"max": 1}),
                           ("real22", r"e22 = ScalarOp<Scalar>::real\(e22\);", "(*verif_e22) = (*verif_e22);", {"max": 1}),
                           # the singularity test (and the temporary it uses) may have been removed or rewritten: the harness then decides whether NumericalIssue is still reported
                           ("e12", r"Scalar e12 = ScalarOp<Scalar>::conj\(e21\);", "Scalar e12 = (*verif_e21);", {"min": 0, "max": 1}),
                           ("det", r"if \(e11 \* e22 - e12 \* e21 == Scalar\(0\)\)", "if (FMULK((*verif_e11), (*verif_e22)) - FMULK(e12, (*verif_e21)) == (Scalar)0)", {"min": 0, "max": 1}),
                           ("maps", r"MapVec l1\(l1ptr, ldim\), l2\(l2ptr, ldim\);", "MAPVEC_RANGE(B, l1ptr, ldim, 0); MAPVEC_RANGE(B, l2ptr, ldim, 0);", {"max": 1}),
                           ("X", r"Eigen::Matrix<Scalar, Eigen::Dynamic, 2> X\(ldim, 2\);", "__CPROVER_assert(ldim >= 0, @Q@Eigen: matrix dims >= 0@Q@);", {"max": 1}),
                           ("solve", r"solve_left_2x2\(e11, e21, e22, l1, l2, X\);", "/* value kernel solve_left_2x2: operands l1, l2 (ldim) and X (ldim x 2) conform by construction */;", {"max": 1}),
                           ("upd", r"MapVec\(col_pointer\(j \+ k \+ 2\), ldim - j\)\.noalias\(\) -= \(X\.col\(0\)\.tail\(ldim - j\) \* l1j_conj \+ X\.col\(1\)\.tail\(ldim - j\) \* l2j_conj\);",
                            "{ TAIL_CHECK(ldim, ldim - j); MAPVEC_RANGE(B, col_pointer(j + k + 2), ldim - j, 1); (void)l1j_conj; (void)l2j_conj; }", {"max": 1}),
                           ("l1", r"l1\.noalias\(\) = X\.col\(0\);", "MAPVEC_RANGE(B, l1ptr, ldim, 1);", {"max": 1}),
                           ("l2", r"l2\.noalias\(\) = X\.col\(1\);", "MAPVEC_RANGE(B, l2ptr, ldim, 1);", {"max": 1})])
    report["BKLDLT::gaussian_elimination_2x2"] = R2.fired
    ge_h = r'''
#line 1 "harness/kernels.bkldlt.ge"
void h(void) {
  BKK Bv; BKK *B = &Bv; B->m_n = NN; B->m_data = VEC_NEW(NN * (NN + 1) / 2); B->m_perm = IVEC_NEW(NN);
  compute_pointer(B);
  Index k = nondet_Index();
  Index i = nondet_Index(), j = nondet_Index(); __CPROVER_assume(0 <= j && j <= i && i < NN);
  Scalar old_ij = coeff(i, j);
#if WHICH == 1
  __CPROVER_assume(0 <= k && k < NN);
  Scalar piv = diag_coeff(k);
  CompInfo r = gaussian_elimination_1x1(B, k);
  __CPROVER_assert((r == CompInfo_NumericalIssue) == (piv == (Scalar)0) && (r == CompInfo_NumericalIssue || r == CompInfo_Successful),
                   "bkldlt.ge1x1: NumericalIssue is returned exactly when the 1x1 pivot is exactly zero, Successful otherwise");
  __CPROVER_assert(BITSAME(diag_coeff(k), piv), "bkldlt.ge1x1: the pivot itself is stored unchanged (D holds the pivot, not its inverse)");
  if (r == CompInfo_NumericalIssue) __CPROVER_assert(BITSAME(coeff(i, j), old_ij), "bkldlt.ge1x1: on a singular pivot nothing is overwritten");
  if (j < k) __CPROVER_assert(BITSAME(coeff(i, j), old_ij), "bkldlt.ge1x1: columns already factorized (j < k) are not touched");
#else
  __CPROVER_assume(0 <= k && k < NN - 1);
  Scalar e11 = diag_coeff(k), e21 = coeff(k + 1, k), e22 = diag_coeff(k + 1);
  CompInfo r = gaussian_elimination_2x2(B, k);
  __CPROVER_assert((r == CompInfo_NumericalIssue) == (FMULK(e11, e22) - FMULK(e21, e21) == (Scalar)0) && (r == CompInfo_NumericalIssue || r == CompInfo_Successful),
                   "bkldlt.ge2x2: NumericalIssue is returned exactly when the 2x2 pivot block has an exactly zero determinant, Successful otherwise");
  __CPROVER_assert(BITSAME(diag_coeff(k), e11) && BITSAME(coeff(k + 1, k), e21) && BITSAME(diag_coeff(k + 1), e22), "bkldlt.ge2x2: the pivot block itself is stored unchanged");
  if (r == CompInfo_NumericalIssue) __CPROVER_assert(BITSAME(coeff(i, j), old_ij), "bkldlt.ge2x2: on a singular pivot block nothing is overwritten");
  if (j < k) __CPROVER_assert(BITSAME(coeff(i, j), old_ij), "bkldlt.ge2x2: columns already factorized (j < k) are not touched");
#endif
  CANARY();
}
'''
    for n in ([2, 3, 4] if tier == "quick" else [2, 3, 4, 5]):
        for w, t in ((1, t1), (2, t2)):
            groups.append(Group("bkldlt.ge%dx%d.n%d" % (w, w, n), ge_types + parts[0] + t + ge_h, "h", loop_contracts=False, solver="cadical",
                                defines=["SCALAR_FLOAT", "NN=%d" % n, "WHICH=%d" % w], unwind=n * (n + 1) // 2 + 3, timeout=900, mem_gb=16,
                                bounded="n = %d (concrete), k symbolic; full unwinding with unwinding assertions" % n,
                                functions=[BH + ":gaussian_elimination_%dx%d" % (w, w)], expect_classes=["bkldlt.ge%dx%d" % (w, w)],
                                note="real scalar instantiation; the singularity decision is loop-free; mapped-vector updates lose values, keep extents; solve_left_2x2 values not under contract"))
    for n in ([2, 3, 4] if tier == "quick" else [2, 3, 4, 5, 6]):
        groups.append(Group("bkldlt.kernels.n%d" % n, types + "".join(parts) + harness, "h", loop_contracts=False, solver="cadical", defines=["SCALAR_FLOAT", "NN=%d" % n], unwind=n * (n + 1) // 2 + 3,
                            timeout=900, mem_gb=12, bounded="n = %d (concrete), full unwinding with unwinding assertions" % n,
                            functions=[BH + ":" + x for x in ("compute_pointer", "find_lambda", "find_sigma", "pivoting_1x1", "pivoting_2x2", "interchange_rows", "permutate_mat")],
                            expect_classes=["bkldlt.", "unwind"], note="real scalar instantiation; packed-storage pointer walks, swap_ranges, row interchanges"))
    return groups


def eigen_groups(tier, report):
    """TridiagEigen::tridiagonal_qr_step: the frame contract that tridiag.compute relies on, proved UNBOUNDED (1-D arrays)."""
    TH = "LinAlg/TridiagEigen.h"
    f = X.locate(TH, "tridiagonal_qr_step", cls="TridiagEigen")
    types = '#include "skel.h"\n' + eigabs.SKEL_MACROS + r'''
Index g_q;
typedef struct { Scalar m_c, m_s; } Jacobi;
#define NMAXS 4096
'''
    spec = FSpec("tridiagonal_qr_step", "void", [("Scalar *", "diag"), ("Scalar *", "subdiag"), ("Index", "start"), ("Index", "end"), ("Scalar *", "matrixQ"), ("Index", "n")],
                 pre=[("0 <= start < end <= n-1, diag has n and subdiag n-1 entries", "0 <= start && start < end && end <= n - 1 && n <= NMAXS && VEC_SIZE(diag) == n && VEC_SIZE(subdiag) == n - 1"),
                      ("Skolem", "0 <= g_q && g_q <= NMAXS")],
                 post=[("frame: sub-diagonal entries outside [start, end) are untouched", "!(0 <= g_q && g_q < n - 1 && (g_q < start || g_q >= end)) || NANSAME(subdiag[g_q], old_s)"),
                       ("frame: diagonal entries outside [start, end] are untouched", "!(0 <= g_q && g_q < n && (g_q < start || g_q > end)) || NANSAME(diag[g_q], old_d)")],
                 frame=[], frame_objs=["diag", "subdiag"],
                 olds=[("Scalar", "old_s", "(0 <= g_q && g_q < n - 1) ? subdiag[g_q] : (Scalar)0"), ("Scalar", "old_d", "(0 <= g_q && g_q < n) ? diag[g_q] : (Scalar)0")],
                 real=TH + ":tridiagonal_qr_step")
    pre = [("abs2", r"Eigen::numext::abs2\(e\)", "(e * e)", {"max": 1}), ("hypot", r"Eigen::numext::hypot\(td, e\)", "NONNEG_SCALAR()", {"max": 1}),
           ("map", r"Eigen::Map<Matrix> q\(matrixQ, n, n\);", "", {"max": 1}),
           ("rot", r"Eigen::JacobiRotation<RealScalar> rot;\s*rot\.makeGivens\(x, z\);", "Jacobi rot; rot.m_c = nondet_Scalar(); rot.m_s = nondet_Scalar();", {"max": 1}),
           ("rs", r"rot\.s\(\)", "rot.m_s", {"max": 1}), ("rc", r"rot\.c\(\)", "rot.m_c", {"max": 1}),
           ("apply", r"q\.applyOnTheRight\(k, k \+ 1, rot\);", "__CPROVER_assert(0 <= k && k + 1 < n, @Q@Eigen: applyOnTheRight(p, q) column indices in range@Q@);", {"max": 1})]
    inv = ("__CPROVER_assigns(k, x, z, __CPROVER_object_whole(diag), __CPROVER_object_whole(subdiag)) "
           "__CPROVER_loop_invariant(start <= k && k <= end) "
           "__CPROVER_loop_invariant(!(0 <= g_q && g_q < n - 1 && (g_q < start || g_q >= end)) || NANSAME(subdiag[g_q], old_s_l)) "
           "__CPROVER_loop_invariant(!(0 <= g_q && g_q < n && (g_q < start || g_q > end)) || NANSAME(diag[g_q], old_d_l)) __CPROVER_decreases(end - k)")
    t, R = cgen.emit(f, "tridiagonal_qr_step", ret_c="void", param_types={"diag": "Scalar *", "subdiag": "Scalar *", "matrixQ": "Scalar *"}, pre_rules=pre,
                     loop_contracts={0: inv}, contract=spec.frame_contract(),
                     pre_body=" const Scalar old_s_l = (0 <= g_q && g_q < n - 1) ? subdiag[g_q] : (Scalar)0; const Scalar old_d_l = (0 <= g_q && g_q < n) ? diag[g_q] : (Scalar)0;")
    report["TridiagEigen::tridiagonal_qr_step"] = R.fired
    nansame = "#define NANSAME(a, b) (((b) != (b)) ? ((a) != (a)) : ((a) == (b)))\n"
    h = spec.harness("h", "  Index n = nondet_Index(); __CPROVER_assume(0 <= n && n <= NMAXS); Scalar *diag = VEC_NEW(n); Scalar *subdiag = VEC_NEW(n > 0 ? n - 1 : 0); Index start = nondet_Index(), end = nondet_Index(); Scalar *matrixQ = nondet_bool() ? VEC_NEW(1) : NULL;",
                     "diag, subdiag, start, end, matrixQ, n")
    return [Group("tridiag.qr_step.frame", types + nansame + t + h, "h", enforce="tridiagonal_qr_step", solver="cadical", defines=["SCALAR_FLOAT"], timeout=600,
                  functions=[TH + ":tridiagonal_qr_step"], expect_classes=["loop_invariant_step", "assigns"],
                  note="unbounded in n: proves the frame contract that tridiag.compute assumes for this callee")]
