"""More unbounded groups on the packed-cursor model of BKLDLT (see kernels.PK_TYPES): the two elimination kernels and copy_data."""
import re

from vlib import extract as X
from vlib import cgen
from vlib import common
from vlib.runner import Group
from props import kernels

BH = "LinAlg/BKLDLT.h"

PK_RANGE = r'''
/* a mapped vector [p, p + len) must lie inside the packed column p points into */
static void PRANGE(BKP *B, PCur p, Index len)
{
  __CPROVER_assert(len >= 0, "Eigen: mapped vector length >= 0");
  __CPROVER_assert(0 <= p.c && p.c <= B->m_n && 0 <= p.o, "packed storage: mapped vector starts at a column head or inside a column");
  __CPROVER_assert(len == 0 || (p.c < B->m_n && p.o + len <= B->m_n - p.c), "packed storage: a mapped vector stays inside the column it starts in");
  B->cell = nondet_Scalar();
}
/* col_pointer(k) + d: may be the one-past-the-end address of the column (then only an empty vector is mapped there) */
static PCur PCOL1(BKP *B, Index k, Index d)
{ __CPROVER_assert(0 <= k && k < B->m_n && 0 <= d && d <= B->m_n - k, "packed storage: col_pointer(k) + d stays within column k (one past the end allowed)"); PCur p; p.c = k; p.o = d; return p; }
#define TAIL_CHECK(len, m) __CPROVER_assert(0 <= (m) && (m) <= (len), "Eigen block assertion: tail(m) within the vector")
'''


def ge_unbounded(report):
    """gaussian_elimination_1x1 / _2x2 on the packed-cursor model: every mapped vector / coefficient access inside its column, for EVERY n and k.
    (The exact-singularity decision needs values: bounded groups bkldlt.ge*.n<N>.)"""
    mem = ["m_n", "m_perm"]
    enum = common.enum_defines("Util/CompInfo.h", "CompInfo")

    def pf(b, R):
        b = R.call_rewrite("conj", r"ScalarOp<Scalar>::conj(?=\()", lambda m, a: "(%s)" % a[0] if len(a) == 1 else None, b)
        b = R.call_rewrite("real", r"ScalarOp<Scalar>::real(?=\()", lambda m, a: "(%s)" % a[0] if len(a) == 1 else None, b)
        b = R.sub("lptr", r"Scalar\* lptr = col_pointer\(([^()]+)\) \+ (\d+);", r"PCur lptr = PCOL1(B, \1, \2);", b, min_fires=0)
        b = R.sub("mapl", r"MapVec l\(lptr, ldim\);", "PRANGE(B, lptr, ldim);", b, min_fires=0)
        b = R.sub("upd1", r"MapVec\(col_pointer\(([^()]+)\), ([^;]+?)\)\.noalias\(\) -= \(l_conj / akk\) \* l\.tail\(([^;()]+)\);",
                  r"{ TAIL_CHECK(ldim, \3); PRANGE(B, PCOL(B, \1), \2); (void)l_conj; }", b, min_fires=0)
        b = R.sub("scale", r"\bl /= akk;", "PRANGE(B, lptr, ldim);", b, min_fires=0)
        b = R.sub("ptr-elem", r"\b(lptr|l1ptr|l2ptr)\[(\w+)\]", r"(*PDEREF_AT(B, \1, \2))", b, min_fires=0)
        b = R.sub("refs", r"Scalar& (e\d\d) = ", r"Scalar \1 = ", b, min_fires=0)           # values are not modelled: a reference read is a read
        b = R.sub("lxptr", r"Scalar\* (l[12]ptr) = &coeff\(([^,]+), ([^()]+)\);", r"PCur \1 = PADDR(B, \2, \3);", b, min_fires=0)
        b = R.sub("maps", r"MapVec l1\(l1ptr, ldim\), l2\(l2ptr, ldim\);", "PRANGE(B, l1ptr, ldim); PRANGE(B, l2ptr, ldim);", b, min_fires=0)
        b = R.sub("X", r"Eigen::Matrix<Scalar, Eigen::Dynamic, 2> X\(ldim, 2\);", "__CPROVER_assert(ldim >= 0, @Q@Eigen: matrix dims >= 0@Q@);", b, min_fires=0)
        b = R.sub("solve", r"solve_left_2x2\(e11, e21, e22, l1, l2, X\);", "/* value kernel solve_left_2x2: operands l1, l2 (ldim) and X (ldim x 2) conform by construction */;", b, min_fires=0)
        b = R.sub("upd2", r"MapVec\(col_pointer\(([^()]+)\), ([^;]+?)\)\.noalias\(\) -= \(X\.col\(0\)\.tail\(([^;()]+)\) \* l1j_conj \+ X\.col\(1\)\.tail\(([^;()]+)\) \* l2j_conj\);",
                  r"{ TAIL_CHECK(ldim, \3); TAIL_CHECK(ldim, \4); PRANGE(B, PCOL(B, \1), \2); (void)l1j_conj; (void)l2j_conj; }", b, min_fires=0)
        b = R.sub("lX", r"\b(l[12])\.noalias\(\) = X\.col\(\d\);", r"PRANGE(B, \1ptr, ldim);", b, min_fires=0)
        b = R.call_rewrite("coeff", r"(?<![\w&])coeff(?=\()", lambda m, a: "(*PELEM(B, %s, %s))" % tuple(a) if len(a) == 2 else None, b)
        b = R.call_rewrite("diag", r"(?<![\w&])diag_coeff(?=\()", lambda m, a: "(*PELEM(B, %s, %s))" % (a[0], a[0]) if len(a) == 1 else None, b)
        bad = re.search(r"col_pointer\(|&coeff\(|MapVec|\.noalias\(\)|\.tail\(", b)
        if bad:
            raise X.ExtractionBreak("BKLDLT elimination kernel: an unrecognised pointer / mapped-vector idiom remains near %r" % b[max(0, bad.start() - 40):bad.end() + 40])
        return b
    parts = []
    lcs = {"gaussian_elimination_1x1": {0: "__CPROVER_assigns(j, B->cell) __CPROVER_loop_invariant(0 <= j && (j <= ldim || ldim < 0)) __CPROVER_decreases(ldim - j)"},
           "gaussian_elimination_2x2": {0: "__CPROVER_assigns(j, B->cell) __CPROVER_loop_invariant(0 <= j && (j <= ldim || ldim < 0)) __CPROVER_decreases(ldim - j)"}}
    pres = {"gaussian_elimination_1x1": "0 <= k && k < B->m_n", "gaussian_elimination_2x2": "0 <= k && k < B->m_n - 1"}
    for name in ("gaussian_elimination_1x1", "gaussian_elimination_2x2"):
        f = X.locate(BH, name, cls="BKLDLT")
        t, R = cgen.emit(f, name, ret_c="CompInfo", self_type="BKP", self_name="B", members=mem, post_fn=pf, loop_contracts=lcs[name],
                         pre_body=' __CPROVER_assert(%s, "precondition of %s at its call site");' % (pres[name], name))
        report["BKLDLT::" + name + "(packed-cursor)"] = R.fired
        parts.append(t)
    h = r'''
#line 1 "harness/kernels.bkldlt.ge.unbounded"
void h(void) {
  BKP Bv; BKP *B = &Bv; B->m_n = nondet_Index(); __CPROVER_assume(1 <= B->m_n && B->m_n <= NMAXP); B->m_perm = IVEC_NEW(B->m_n);
  Index k = nondet_Index();
#if WHICH == 1
  __CPROVER_assume(0 <= k && k < B->m_n);
  CompInfo r = gaussian_elimination_1x1(B, k);
#else
  __CPROVER_assume(0 <= k && k < B->m_n - 1);
  CompInfo r = gaussian_elimination_2x2(B, k);
#endif
  __CPROVER_assert(r == CompInfo_Successful || r == CompInfo_NumericalIssue, "bkldlt.ge (all n): the status returned is Successful or NumericalIssue");
  CANARY();
}
'''
    groups = []
    for w, t in ((1, parts[0]), (2, parts[1])):
        groups.append(Group("bkldlt.ge%dx%d.unbounded" % (w, w), kernels.PK_TYPES + enum + PK_RANGE + t + h, "h", loop_contracts=True, solver="cadical",
                            defines=["SCALAR_FLOAT", "WHICH=%d" % w], timeout=900, functions=[BH + ":gaussian_elimination_%dx%d" % (w, w)],
                            expect_classes=["loop_invariant_step", "packed storage", "bkldlt.ge (all n)"],
                            note="UNBOUNDED in n and k on the packed-cursor model: every mapped-vector update and coefficient access stays inside its packed column; values not modelled"))
    return groups


CD_GHOST = r'''
#define EIGEN_LOWER 1
#define EIGEN_UPPER 2
/* ghost record for the arbitrary-but-fixed packed entry (g_i, g_j), g_j <= g_i: which entry of the user's matrix was copied there, whether it
 * was conjugated, how often it was written, how often the shift was subtracted from it */
Index g_i, g_j, g_sr, g_sc, g_writes, g_shifted; _Bool g_cj; int g_uplo;
typedef struct { Index r, c; } SCur;                 /* pointer into the user's n x n matrix */
static SCur SADDR(BKP *B, Index r, Index c)
{ __CPROVER_assert(0 <= r && r < B->m_n && 0 <= c && c < B->m_n, "Eigen index assertion: src(row, col) in range"); SCur s; s.r = r; s.c = c; return s; }
static void RECORD(BKP *B, PCur d, Index sr, Index sc, _Bool cj)
{ if (d.c == g_j && d.o == g_i - g_j) { g_writes++; g_sr = sr; g_sc = sc; g_cj = cj; } }
static void PSTORE(BKP *B, PCur d, Index sr, Index sc, _Bool cj)
{ __CPROVER_assert(0 <= d.c && d.c < B->m_n && 0 <= d.o && d.o < B->m_n - d.c, "packed storage: *dest addresses an element of the packed array");
  __CPROVER_assert(0 <= sr && sr < B->m_n && 0 <= sc && sc < B->m_n, "Eigen index assertion: src(row, col) in range");
  RECORD(B, d, sr, sc, cj); }
static PCur PINC(BKP *B, PCur d)                       /* dest++ over the contiguous packed array: the end of a column is the head of the next */
{ __CPROVER_assert(0 <= d.c && d.c < B->m_n && d.o < B->m_n - d.c, "packed storage: dest++ from an element of the packed array");
  d.o++; if (d.o == B->m_n - d.c) { d.c++; d.o = 0; } return d; }
static void PCOPY(BKP *B, SCur s, Index len, PCur d)   /* std::copy(begin, begin + len, out): a contiguous run of the user's matrix */
{ __CPROVER_assert(len >= 0 && (IS_ROWMAJOR ? s.c + len <= B->m_n : s.r + len <= B->m_n), "std::copy: the source run stays inside one row (row-major) / column (column-major) of the user's matrix");
  __CPROVER_assert(0 <= d.c && d.c < B->m_n && 0 <= d.o && d.o + len <= B->m_n - d.c, "std::copy: the destination run stays inside its packed column");
  if (d.c == g_j && d.o <= g_i - g_j && g_i - g_j < d.o + len) { Index t = g_i - g_j - d.o; RECORD(B, PADD(d, t), IS_ROWMAJOR ? s.r : s.r + t, IS_ROWMAJOR ? s.c + t : s.c, 0); } }
static void PSHIFT(BKP *B, Index j)
{ __CPROVER_assert(0 <= j && j < B->m_n, "packed storage: diag_coeff(j) needs 0 <= j < n");
  if (g_i == j && g_j == j) { __CPROVER_assert(g_writes == 1, "bkldlt.copy_data (all n): the shift is subtracted after the diagonal entry has been copied"); g_shifted++; } }
#define SRC_OK ((g_uplo == EIGEN_LOWER) ? (g_sr == g_i && g_sc == g_j && !g_cj) : (g_sr == g_j && g_sc == g_i && g_cj))
#define DONE (g_writes == 1 && SRC_OK)
#define NOTYET (g_writes == 0 && g_shifted == 0)
#define SHIFTED_OK (g_shifted == ((g_i == g_j) ? 1 : 0))
'''


def copy_data_unbounded(report):
    """BKLDLT::copy_data on the packed-cursor model, for EVERY n: packed(i, j) receives A(i, j) from the lower triangle and conj(A(j, i)) from the upper one,
    exactly once, the shift is subtracted exactly once from each diagonal entry after it was copied - both storage orders, symbolic uplo."""
    f = X.locate(BH, "copy_data", cls="BKLDLT")
    pre = [("ref", r"const Eigen::Ref<const typename Derived::PlainObject>& src\(mat\);", "g_uplo = uplo;", {"max": 1}),
           ("rowmajor", r"Derived::PlainObject::IsRowMajor", "IS_ROWMAJOR", {"max": 3}),
           ("lower", r"Eigen::Lower", "EIGEN_LOWER", {"max": 4}), ("upper", r"Eigen::Upper", "EIGEN_UPPER", {"min": 0, "max": 4}),
           ("begin", r"const Scalar\* begin = &src\.coeffRef\(([^,]+), ([^()]+)\);", r"SCur begin = SADDR(B, \1, \2);", {"min": 0, "max": 1}),
           ("copy", r"std::copy\(begin, begin \+ ([^,]+), col_pointer\(([^()]+)\)\);", r"PCOPY(B, begin, \1, PCOL(B, \2));", {"min": 0, "max": 1}),
           ("dest", r"Scalar\* dest = m_data\.data\(\);", "PCur dest = PCOL(B, 0);", {"min": 0, "max": 1}),
           ("store-conj", r"\*dest = ScalarOp<Scalar>::conj\(src\.coeff\(([^,]+), ([^()]+)\)\);", r"PSTORE(B, dest, \1, \2, 1);", {"min": 0, "max": 2}),
           ("store", r"\*dest = src\.coeff\(([^,]+), ([^()]+)\);", r"PSTORE(B, dest, \1, \2, 0);", {"min": 0, "max": 2}),
           ("inc", r"\bdest\+\+", "dest = PINC(B, dest)", {"min": 0, "max": 1}),
           ("shift", r"diag_coeff\(([^()]+)\) -= Scalar\(shift\);", r"PSHIFT(B, \1);", {"min": 1, "max": 3})]

    def pf(b, R):
        bad = re.search(r"col_pointer\(|\bsrc\.|std::|\*dest|m_data|diag_coeff", b)
        if bad:
            raise X.ExtractionBreak("copy_data: an unrecognised copy idiom remains near %r" % b[max(0, bad.start() - 40):bad.end() + 40])
        return b
    nloops = len(re.findall(r"\bfor\s*\(", f.body))
    if nloops != 3:
        raise X.ExtractionBreak("copy_data: expected 3 loops (fast path, packed outer, packed inner), found %d" % nloops)
    col_done = "((g_j < j) ? (DONE && SHIFTED_OK) : NOTYET)"
    lc = {0: "__CPROVER_assigns(j, B->cell, g_writes, g_shifted, g_sr, g_sc, g_cj) __CPROVER_loop_invariant(0 <= j && j <= B->m_n && %s) __CPROVER_decreases(B->m_n - j)" % col_done,
          1: "__CPROVER_assigns(j, dest, B->cell, g_writes, g_shifted, g_sr, g_sc, g_cj) "
             "__CPROVER_loop_invariant(0 <= j && j <= B->m_n && dest.c == j && dest.o == 0 && %s) __CPROVER_decreases(B->m_n - j)" % col_done,
          2: "__CPROVER_assigns(i, dest, B->cell, g_writes, g_shifted, g_sr, g_sc, g_cj) "
             "__CPROVER_loop_invariant(j <= i && i <= B->m_n && ((i < B->m_n) ? (dest.c == j && dest.o == i - j) : (dest.c == j + 1 && dest.o == 0)) && "
             "((g_j < j) ? (DONE && SHIFTED_OK) : ((g_j > j) ? NOTYET : ((g_i < i) ? (DONE && g_shifted == 0) : NOTYET)))) __CPROVER_decreases(B->m_n - i)"}
    t, R = cgen.emit(f, "copy_data", ret_c="void", self_type="BKP", self_name="B", members=["m_n", "m_perm"], pre_rules=pre, post_fn=pf, loop_contracts=lc,
                     param_types={"mat": "Index", "shift": "Scalar"})
    report["BKLDLT::copy_data(packed-cursor)"] = R.fired
    h = r'''
#line 1 "harness/kernels.bkldlt.copy_data.unbounded"
void h(void) {
  BKP Bv; BKP *B = &Bv; B->m_n = nondet_Index(); __CPROVER_assume(1 <= B->m_n && B->m_n <= NMAXP); B->m_perm = IVEC_NEW(B->m_n);
  int uplo = nondet_int(); __CPROVER_assume(uplo == EIGEN_LOWER || uplo == EIGEN_UPPER);
  g_i = nondet_Index(); g_j = nondet_Index(); __CPROVER_assume(0 <= g_j && g_j <= g_i && g_i < B->m_n);
  g_writes = 0; g_shifted = 0; g_sr = -1; g_sc = -1; g_cj = 0;
  copy_data(B, 0, uplo, nondet_Scalar());
  __CPROVER_assert(g_writes == 1, "bkldlt.copy_data (all n): every packed entry (i, j), j <= i, is written exactly once");
  __CPROVER_assert(SRC_OK, "bkldlt.copy_data (all n): packed(i, j) is A(i, j) read from the lower triangle, conj(A(j, i)) read from the upper triangle");
  __CPROVER_assert(SHIFTED_OK, "bkldlt.copy_data (all n): the shift is subtracted exactly once from every diagonal entry and from nothing else");
  CANARY();
}
'''
    groups = []
    for rm in (0, 1):
        groups.append(Group("bkldlt.copy_data.unbounded.%s" % ("rowmajor" if rm else "colmajor"), kernels.PK_TYPES + CD_GHOST + t + h, "h", loop_contracts=True, solver="cadical",
                            defines=["SCALAR_FLOAT", "IS_ROWMAJOR=%d" % rm], timeout=900, functions=[BH + ":copy_data"],
                            expect_classes=["loop_invariant_step", "bkldlt.copy_data (all n)"],
                            note="UNBOUNDED in n on the packed-cursor model with a ghost provenance record (source entry, conjugation flag, write and shift counts) for an arbitrary packed entry; uplo symbolic"))
    return groups
