"""More unbounded groups on the packed-cursor model of BKLDLT (see kernels.PK_TYPES): the two elimination kernels and copy_data."""
import re

from vlib import extract as X
from vlib import cgen
from vlib import common
from vlib.runner import Group
from props import kernels

BH = "LinAlg/BKLDLT.h"

PK_RANGE = r'''
/* a mapped vector [p, p + len) must lie inside the packed column p points into */
static void PRANGE(BKP *B, PCur p, Index len)
{
  __CPROVER_assert(len >= 0, "Eigen: mapped vector length >= 0");
  __CPROVER_assert(0 <= p.c && p.c <= B->m_n && 0 <= p.o, "packed storage: mapped vector starts at a column head or inside a column");
  __CPROVER_assert(len == 0 || (p.c < B->m_n && p.o + len <= B->m_n - p.c), "packed storage: a mapped vector stays inside the column it starts in");
  B->cell = nondet_Scalar();
}
/* col_pointer(k) + d: may be the one-past-the-end address of the column (then only an empty vector is mapped there) */
static PCur PCOL1(BKP *B, Index k, Index d)
{ __CPROVER_assert(0 <= k && k < B->m_n && 0 <= d && d <= B->m_n - k, "packed storage: col_pointer(k) + d stays within column k (one past the end allowed)"); PCur p; p.c = k; p.o = d; return p; }
#define TAIL_CHECK(len, m) __CPROVER_assert(0 <= (m) && (m) <= (len), "Eigen block assertion: tail(m) within the vector")
'''


def ge_unbounded(report):
    """gaussian_elimination_1x1 / _2x2 on the packed-cursor model: every mapped vector / coefficient access inside its column, for EVERY n and k.
    (The exact-singularity decision needs values: bounded groups bkldlt.ge*.n<N>.)"""
    mem = ["m_n", "m_perm"]
    enum = common.enum_defines("Util/CompInfo.h", "CompInfo")

    def pf(b, R):
        b = R.call_rewrite("conj", r"ScalarOp<Scalar>::conj(?=\()", lambda m, a: "(%s)" % a[0] if len(a) == 1 else None, b)
        b = R.call_rewrite("real", r"ScalarOp<Scalar>::real(?=\()", lambda m, a: "(%s)" % a[0] if len(a) == 1 else None, b)
        b = R.sub("lptr", r"Scalar\* lptr = col_pointer\(([^()]+)\) \+ (\d+);", r"PCur lptr = PCOL1(B, \1, \2);", b, min_fires=0)
        b = R.sub("mapl", r"MapVec l\(lptr, ldim\);", "PRANGE(B, lptr, ldim);", b, min_fires=0)
        b = R.sub("upd1", r"MapVec\(col_pointer\(([^()]+)\), ([^;]+?)\)\.noalias\(\) -= \(l_conj / akk\) \* l\.tail\(([^;()]+)\);",
                  r"{ TAIL_CHECK(ldim, \3); PRANGE(B, PCOL(B, \1), \2); (void)l_conj; }", b, min_fires=0)
        b = R.sub("scale", r"\bl /= akk;", "PRANGE(B, lptr, ldim);", b, min_fires=0)
        b = R.sub("ptr-elem", r"\b(lptr|l1ptr|l2ptr)\[(\w+)\]", r"(*PDEREF_AT(B, \1, \2))", b, min_fires=0)
        b = R.sub("refs", r"Scalar& (e\d\d) = ", r"Scalar \1 = ", b, min_fires=0)           # values are not modelled: a reference read is a read
        b = R.sub("lxptr", r"Scalar\* (l[12]ptr) = &coeff\(([^,]+), ([^()]+)\);", r"PCur \1 = PADDR(B, \2, \3);", b, min_fires=0)
        b = R.sub("maps", r"MapVec l1\(l1ptr, ldim\), l2\(l2ptr, ldim\);", "PRANGE(B, l1ptr, ldim); PRANGE(B, l2ptr, ldim);", b, min_fires=0)
        b = R.sub("X", r"Eigen::Matrix<Scalar, Eigen::Dynamic, 2> X\(ldim, 2\);", "__CPROVER_assert(ldim >= 0, @Q@Eigen: matrix dims >= 0@Q@);", b, min_fires=0)
        b = R.sub("solve", r"solve_left_2x2\(e11, e21, e22, l1, l2, X\);", "/* value kernel solve_left_2x2: operands l1, l2 (ldim) and X (ldim x 2) conform by construction */;", b, min_fires=0)
        b = R.sub("upd2", r"MapVec\(col_pointer\(([^()]+)\), ([^;]+?)\)\.noalias\(\) -= \(X\.col\(0\)\.tail\(([^;()]+)\) \* l1j_conj \+ X\.col\(1\)\.tail\(([^;()]+)\) \* l2j_conj\);",
                  r"{ TAIL_CHECK(ldim, \3); TAIL_CHECK(ldim, \4); PRANGE(B, PCOL(B, \1), \2); (void)l1j_conj; (void)l2j_conj; }", b, min_fires=0)
        b = R.sub("lX", r"\b(l[12])\.noalias\(\) = X\.col\(\d\);", r"PRANGE(B, \1ptr, ldim);", b, min_fires=0)
        b = R.call_rewrite("coeff", r"(?<![\w&])coeff(?=\()", lambda m, a: "(*PELEM(B, %s, %s))" % tuple(a) if len(a) == 2 else None, b)
        b = R.call_rewrite("diag", r"(?<![\w&])diag_coeff(?=\()", lambda m, a: "(*PELEM(B, %s, %s))" % (a[0], a[0]) if len(a) == 1 else None, b)
        bad = re.search(r"col_pointer\(|&coeff\(|MapVec|\.noalias\(\)|\.tail\(", b)
        if bad:
            raise X.ExtractionBreak("BKLDLT elimination kernel: an unrecognised pointer / mapped-vector idiom remains near %r" % b[max(0, bad.start() - 40):bad.end() + 40])
        return b
    parts = []
    lcs = {"gaussian_elimination_1x1": {0: "__CPROVER_assigns(j, B->cell) __CPROVER_loop_invariant(0 <= j && (j <= ldim || ldim < 0)) __CPROVER_decreases(ldim - j)"},
           "gaussian_elimination_2x2": {0: "__CPROVER_assigns(j, B->cell) __CPROVER_loop_invariant(0 <= j && (j <= ldim || ldim < 0)) __CPROVER_decreases(ldim - j)"}}
    pres = {"gaussian_elimination_1x1": "0 <= k && k < B->m_n", "gaussian_elimination_2x2": "0 <= k && k < B->m_n - 1"}
    for name in ("gaussian_elimination_1x1", "gaussian_elimination_2x2"):
        f = X.locate(BH, name, cls="BKLDLT")
        t, R = cgen.emit(f, name, ret_c="CompInfo", self_type="BKP", self_name="B", members=mem, post_fn=pf, loop_contracts=lcs[name],
                         pre_body=' __CPROVER_assert(%s, "precondition of %s at its call site");' % (pres[name], name))
        report["BKLDLT::" + name + "(packed-cursor)"] = R.fired
        parts.append(t)
    h = r'''
#line 1 "harness/kernels.bkldlt.ge.unbounded"
void h(void) {
  BKP Bv; BKP *B = &Bv; B->m_n = nondet_Index(); __CPROVER_assume(1 <= B->m_n && B->m_n <= NMAXP); B->m_perm = IVEC_NEW(B->m_n);
  Index k = nondet_Index();
#if WHICH == 1
  __CPROVER_assume(0 <= k && k < B->m_n);
  CompInfo r = gaussian_elimination_1x1(B, k);
#else
  __CPROVER_assume(0 <= k && k < B->m_n - 1);
  CompInfo r = gaussian_elimination_2x2(B, k);
#endif
  __CPROVER_assert(r == CompInfo_Successful || r == CompInfo_NumericalIssue, "bkldlt.ge (all n): the status returned is Successful or NumericalIssue");
  CANARY();
}
'''
    groups = []
    for w, t in ((1, parts[0]), (2, parts[1])):
        groups.append(Group("bkldlt.ge%dx%d.unbounded" % (w, w), kernels.PK_TYPES + enum + PK_RANGE + t + h, "h", loop_contracts=True, solver="cadical",
                            defines=["SCALAR_FLOAT", "WHICH=%d" % w], timeout=900, functions=[BH + ":gaussian_elimination_%dx%d" % (w, w)],
                            expect_classes=["loop_invariant_step", "packed storage", "bkldlt.ge (all n)"],
                            note="UNBOUNDED in n and k on the packed-cursor model: every mapped-vector update and coefficient access stays inside its packed column; values not modelled"))
    return groups


CD_GHOST = r'''
#define EIGEN_LOWER 1
#define EIGEN_UPPER 2
/* ghost record for the arbitrary-but-fixed packed entry (g_i, g_j), g_j <= g_i: which entry of the user's matrix was copied there, whether it
 * was conjugated, how often it was written, how often the shift was subtracted from it */
Index g_i, g_j, g_sr, g_sc, g_writes, g_shifted; _Bool g_cj; int g_uplo;
typedef struct { Index r, c; } SCur;                 /* pointer into the user's n x n matrix */
static SCur SADDR(BKP *B, Index r, Index c)
{ __CPROVER_assert(0 <= r && r < B->m_n && 0 <= c && c < B->m_n, "Eigen index assertion: src(row, col) in range"); SCur s; s.r = r; s.c = c; return s; }
static void RECORD(BKP *B, PCur d, Index sr, Index sc, _Bool cj)
{ if (d.c == g_j && d.o == g_i - g_j) { g_writes++; g_sr = sr; g_sc = sc; g_cj = cj; } }
static void PSTORE(BKP *B, PCur d, Index sr, Index sc, _Bool cj)
{ __CPROVER_assert(0 <= d.c && d.c < B->m_n && 0 <= d.o && d.o < B->m_n - d.c, "packed storage: *dest addresses an element of the packed array");
  __CPROVER_assert(0 <= sr && sr < B->m_n && 0 <= sc && sc < B->m_n, "Eigen index assertion: src(row, col) in range");
  RECORD(B, d, sr, sc, cj); }
static PCur PINC(BKP *B, PCur d)                       /* dest++ over the contiguous packed array: the end of a column is the head of the next */
{ __CPROVER_assert(0 <= d.c && d.c < B->m_n && d.o < B->m_n - d.c, "packed storage: dest++ from an element of the packed array");
  d.o++; if (d.o == B->m_n - d.c) { d.c++; d.o = 0; } return d; }
static void PCOPY(BKP *B, SCur s, Index len, PCur d)   /* std::copy(begin, begin + len, out): a contiguous run of the user's matrix */
{ __CPROVER_assert(len >= 0 && (IS_ROWMAJOR ? s.c + len <= B->m_n : s.r + len <= B->m_n), "std::copy: the source run stays inside one row (row-major) / column (column-major) of the user's matrix");
  __CPROVER_assert(0 <= d.c && d.c < B->m_n && 0 <= d.o && d.o + len <= B->m_n - d.c, "std::copy: the destination run stays inside its packed column");
  if (d.c == g_j && d.o <= g_i - g_j && g_i - g_j < d.o + len) { Index t = g_i - g_j - d.o; RECORD(B, PADD(d, t), IS_ROWMAJOR ? s.r : s.r + t, IS_ROWMAJOR ? s.c + t : s.c, 0); } }
static void PSHIFT(BKP *B, Index j)
{ __CPROVER_assert(0 <= j && j < B->m_n, "packed storage: diag_coeff(j) needs 0 <= j < n");
  if (g_i == j && g_j == j) { __CPROVER_assert(g_writes == 1, "bkldlt.copy_data (all n): the shift is subtracted after the diagonal entry has been copied"); g_shifted++; } }
#define SRC_OK ((g_uplo == EIGEN_LOWER) ? (g_sr == g_i && g_sc == g_j && !g_cj) : (g_sr == g_j && g_sc == g_i && g_cj))
#define DONE (g_writes == 1 && SRC_OK)
#define NOTYET (g_writes == 0 && g_shifted == 0)
#define SHIFTED_OK (g_shifted == ((g_i == g_j) ? 1 : 0))
'''


def copy_data_unbounded(report):
    """BKLDLT::copy_data on the packed-cursor model, for EVERY n: packed(i, j) receives A(i, j) from the lower triangle and conj(A(j, i)) from the upper one,
    exactly once, the shift is subtracted exactly once from each diagonal entry after it was copied - both storage orders, symbolic uplo."""
    f = X.locate(BH, "copy_data", cls="BKLDLT")
    pre = [("ref", r"const Eigen::Ref<const typename Derived::PlainObject>& src\(mat\);", "g_uplo = uplo;", {"max": 1}),
           ("rowmajor", r"Derived::PlainObject::IsRowMajor", "IS_ROWMAJOR", {"max": 3}),
           ("lower", r"Eigen::Lower", "EIGEN_LOWER", {"max": 4}), ("upper", r"Eigen::Upper", "EIGEN_UPPER", {"min": 0, "max": 4}),
           ("begin", r"const Scalar\* begin = &src\.coeffRef\(([^,]+), ([^()]+)\);", r"SCur begin = SADDR(B, \1, \2);", {"min": 0, "max": 1}),
           ("copy", r"std::copy\(begin, begin \+ ([^,]+), col_pointer\(([^()]+)\)\);", r"PCOPY(B, begin, \1, PCOL(B, \2));", {"min": 0, "max": 1}),
           ("dest", r"Scalar\* dest = m_data\.data\(\);", "PCur dest = PCOL(B, 0);", {"min": 0, "max": 1}),
           ("store-conj", r"\*dest = ScalarOp<Scalar>::conj\(src\.coeff\(([^,]+), ([^()]+)\)\);", r"PSTORE(B, dest, \1, \2, 1);", {"min": 0, "max": 2}),
           ("store", r"\*dest = src\.coeff\(([^,]+), ([^()]+)\);", r"PSTORE(B, dest, \1, \2, 0);", {"min": 0, "max": 2}),
           ("inc", r"\bdest\+\+", "dest = PINC(B, dest)", {"min": 0, "max": 1}),
           ("shift", r"diag_coeff\(([^()]+)\) -= Scalar\(shift\);", r"PSHIFT(B, \1);", {"min": 1, "max": 3})]

    def pf(b, R):
        bad = re.search(r"col_pointer\(|\bsrc\.|std::|\*dest|m_data|diag_coeff", b)
        if bad:
            raise X.ExtractionBreak("copy_data: an unrecognised copy idiom remains near %r" % b[max(0, bad.start() - 40):bad.end() + 40])
        return b
    nloops = len(re.findall(r"\bfor\s*\(", f.body))
    if nloops != 3:
        raise X.ExtractionBreak("copy_data: expected 3 loops (fast path, packed outer, packed inner), found %d" % nloops)
    col_done = "((g_j < j) ? (DONE && SHIFTED_OK) : NOTYET)"
    lc = {0: "__CPROVER_assigns(j, B->cell, g_writes, g_shifted, g_sr, g_sc, g_cj) __CPROVER_loop_invariant(0 <= j && j <= B->m_n && %s) __CPROVER_decreases(B->m_n - j)" % col_done,
          1: "__CPROVER_assigns(j, dest, B->cell, g_writes, g_shifted, g_sr, g_sc, g_cj) "
             "__CPROVER_loop_invariant(0 <= j && j <= B->m_n && dest.c == j && dest.o == 0 && %s) __CPROVER_decreases(B->m_n - j)" % col_done,
          2: "__CPROVER_assigns(i, dest, B->cell, g_writes, g_shifted, g_sr, g_sc, g_cj) "
             "__CPROVER_loop_invariant(j <= i && i <= B->m_n && ((i < B->m_n) ? (dest.c == j && dest.o == i - j) : (dest.c == j + 1 && dest.o == 0)) && "
             "((g_j < j) ? (DONE && SHIFTED_OK) : ((g_j > j) ? NOTYET : ((g_i < i) ? (DONE && g_shifted == 0) : NOTYET)))) __CPROVER_decreases(B->m_n - i)"}
    t, R = cgen.emit(f, "copy_data", ret_c="void", self_type="BKP", self_name="B", members=["m_n", "m_perm"], pre_rules=pre, post_fn=pf, loop_contracts=lc,
                     param_types={"mat": "Index", "shift": "Scalar"})
    report["BKLDLT::copy_data(packed-cursor)"] = R.fired
    h = r'''
#line 1 "harness/kernels.bkldlt.copy_data.unbounded"
void h(void) {
  BKP Bv; BKP *B = &Bv; B->m_n = nondet_Index(); __CPROVER_assume(1 <= B->m_n && B->m_n <= NMAXP); B->m_perm = IVEC_NEW(B->m_n);
  int uplo = nondet_int(); __CPROVER_assume(uplo == EIGEN_LOWER || uplo == EIGEN_UPPER);
  g_i = nondet_Index(); g_j = nondet_Index(); __CPROVER_assume(0 <= g_j && g_j <= g_i && g_i < B->m_n);
  g_writes = 0; g_shifted = 0; g_sr = -1; g_sc = -1; g_cj = 0;
  copy_data(B, 0, uplo, nondet_Scalar());
  __CPROVER_assert(g_writes == 1, "bkldlt.copy_data (all n): every packed entry (i, j), j <= i, is written exactly once");
  __CPROVER_assert(SRC_OK, "bkldlt.copy_data (all n): packed(i, j) is A(i, j) read from the lower triangle, conj(A(j, i)) read from the upper triangle");
  __CPROVER_assert(SHIFTED_OK, "bkldlt.copy_data (all n): the shift is subtracted exactly once from every diagonal entry and from nothing else");
  CANARY();
}
'''
    groups = []
    for rm in (0, 1):
        groups.append(Group("bkldlt.copy_data.unbounded.%s" % ("rowmajor" if rm else "colmajor"), kernels.PK_TYPES + CD_GHOST + t + h, "h", loop_contracts=True, solver="cadical",
                            defines=["SCALAR_FLOAT", "IS_ROWMAJOR=%d" % rm], timeout=900, functions=[BH + ":copy_data"],
                            expect_classes=["loop_invariant_step", "bkldlt.copy_data (all n)"],
                            note="UNBOUNDED in n on the packed-cursor model with a ghost provenance record (source entry, conjugation flag, write and shift counts) for an arbitrary packed entry; uplo symbolic"))
    return groups


# =========================================================================== DoubleShiftQR on the cursor model: unbounded in n
DH = "LinAlg/DoubleShiftQR.h"

DSC_TYPES = r'''
typedef struct { Mat *M; Index r0, c0, rows, cols; } BlockC;     /* Eigen::Ref of M.block(r0, c0, rows, cols) */
typedef struct { Index m_n; Mat m_mat_H; Scalar m_shift_s, m_shift_t; Index m_ref_u_cols; Scalar ucol[3]; unsigned char *m_ref_nr; _Bool m_computed; Scalar m_near_0, m_eps; } DSC;
/* the 3 x n reflector store is data-less: column index checked, values in a 3-entry scratch column */
static Scalar *UCOL(DSC *D, Index c) { __CPROVER_assert(0 <= c && c < D->m_ref_u_cols, "Eigen index assertion: m_ref_u(0, col) in range"); D->ucol[0] = nondet_Scalar(); D->ucol[1] = nondet_Scalar(); D->ucol[2] = nondet_Scalar(); return D->ucol; }
static Scalar *UELEM(DSC *D, Index r, Index c) { __CPROVER_assert(0 <= r && r < 3 && 0 <= c && c < D->m_ref_u_cols, "Eigen index assertion: m_ref_u(row, col) in range"); D->ucol[r] = nondet_Scalar(); return &D->ucol[r]; }
static BlockC BLOCKC(Mat *M, Index r0, Index c0, Index nr, Index nc)
{ __CPROVER_assert(0 <= r0 && 0 <= c0 && 0 <= nr && 0 <= nc && r0 + nr <= M->rows && c0 + nc <= M->cols, "Eigen block assertion: block(r0, c0, nr, nc) within the matrix");
  BlockC b; b.M = M; b.r0 = r0; b.c0 = c0; b.rows = nr; b.cols = nc; return b; }
static Cur BDATA(BlockC X) { Cur k; k.r = X.r0; k.c = X.c0; return k; }           /* X.data(): the block's first element */
static Cur BSTEP(BlockC X, Cur k, Index stride)                                    /* p + stride: same row, next column - only if the stride is the leading dimension */
{ __CPROVER_assert(stride == X.M->rows, "outer stride passed to apply_PX / apply_XP is the leading dimension of the matrix"); k.c++; return k; }
static Scalar *BAT(BlockC X, Cur k, Index off)                                      /* p[off]: must address an element of the block */
{ __CPROVER_assert(0 <= off && X.r0 <= k.r && k.r + off < X.r0 + X.rows && X.c0 <= k.c && k.c < X.c0 + X.cols, "block access: p[k] addresses an element of the block p walks");
  X.M->cell = nondet_Scalar(); return &X.M->cell; }
/* value kernels: replaced by their frames (values do not matter for any claim made here; stable_norm3 >= 0 is proved in dsqr.scalar.*) */
static Scalar stable_norm3(Scalar a, Scalar b, Scalar c) { (void)a; (void)b; (void)c; Scalar r = nondet_Scalar(); __CPROVER_assume(r >= (Scalar)0); return r; }
static void stable_scaling(Scalar *a, Scalar *b, Scalar *c) { *a = nondet_Scalar(); *b = nondet_Scalar(); *c = nondet_Scalar(); }
static Scalar FHYPOT(Scalar a, Scalar b) { Scalar r = nondet_Scalar(); __CPROVER_assume(r >= (Scalar)0); (void)a; (void)b; return r; }
Index g_q;
#define NR_OK(D, q, hi) (((D)->m_ref_nr[q] == 1 || (D)->m_ref_nr[q] == 2 || (D)->m_ref_nr[q] == 3) && (q) + (D)->m_ref_nr[q] <= (hi))
#define DS_INV(D) (1 <= (D)->m_n && (D)->m_n <= NMAXD && (D)->m_mat_H.rows == (D)->m_n && (D)->m_mat_H.cols == (D)->m_n && \
                   (D)->m_ref_u_cols == (D)->m_n && __CPROVER_OBJECT_SIZE((D)->m_ref_nr) == (D)->m_n && (D)->m_near_0 > (Scalar)0)
#define NMAXD 100000
'''


def dsqr_unbounded(report):
    """DoubleShiftQR: update_block (bulge chase) and compute (block splitting) for EVERY n on the cursor model: every block expression, coefficient and
    pointer access is inside the matrix / the block it walks, every reflector mark nr[q] is in {1,2,3} with q + nr[q] <= end-of-block + 1 (what makes
    apply_QtY / apply_YQ safe), blocks partition 0..n-1."""
    mem = ["m_near_0", "m_eps", "m_n", "m_mat_H", "m_shift_s", "m_shift_t", "m_ref_u", "m_ref_nr", "m_computed"]
    if X.members(DH, "DoubleShiftQR") != mem:
        raise X.ExtractionBreak("DoubleShiftQR members changed")
    HM = "(&D->m_mat_H)"

    def pf(b, R):
        b = R.call_rewrite("block", r"\bD->m_mat_H\.block(?=\()", lambda m, a: "BLOCKC(%s, %s)" % (HM, ", ".join(a)) if len(a) == 4 else None, b)
        b = R.sub("Hptr", r"&D->m_mat_H\.coeffRef\(([^(),]+), ([^(),]+)\)", r"CUR(%s, \1, \2)" % HM, b)
        b = R.sub("Hcoeff", r"\bD->m_mat_H\.coeff(?:Ref)?\(([^(),]+), ([^(),]+)\)", r"(*MAT_ELEM(%s, \1, \2))" % HM, b)
        b = R.sub("ucoeffp", r"&D->m_ref_u\.coeffRef\(0, ([^(),]+)\)", r"UCOL(D, \1)", b)
        b = R.sub("ucoeff", r"\bD->m_ref_u\.coeff(?:Ref)?\(([^(),]+), ([^(),]+)\)", r"(*UELEM(D, \1, \2))", b)
        b = R.sub("nrcoeff", r"\bD->m_ref_nr\.coeff(?:Ref)?\(([^()]+)\)", r"D->m_ref_nr[\1]", b)
        b = R.sub("nrdata", r"\bD->m_ref_nr\.data\(\)", "D->m_ref_nr", b)
        b = R.sub("xshape", r"\bX\.(rows|cols)\(\)", r"X.\1", b)
        b = R.sub("hypot", r"Eigen::numext::hypot\(", "FHYPOT(", b)
        b = R.sub("selfcalls", r"(?<![\w>.])(compute_reflector|apply_PX|apply_XP|update_block)\(", r"\1(D, ", b)
        return b
    parts = {}
    # compute_reflector (scalars), compute_reflector (pointer), apply_PX / apply_XP (matrix blocks), update_block, compute
    f = X.locate(DH, "compute_reflector", cls="DoubleShiftQR", params_re=r"x1")
    t, R = cgen.emit(f, "compute_reflector3", ret_c="void", self_type="DSC", self_name="D", members=mem, post_fn=lambda b, R: R.sub(
        "scal", r"stable_scaling\(u\[(\d)\], u\[(\d)\], u\[(\d)\]\);", r"stable_scaling(&u[\1], &u[\2], &u[\3]);", pf(b, R), min_fires=3, max_fires=3))
    report["DoubleShiftQR::compute_reflector(cursor)"] = R.fired
    parts["cr3"] = t
    f = X.locate(DH, "compute_reflector", cls="DoubleShiftQR", params_re=r"const Scalar\* x")
    t, R = cgen.emit(f, "compute_reflectorp", ret_c="void", self_type="DSC", self_name="D", members=mem, param_types={"x": "Cur"},
                     post_fn=lambda b, R: R.sub("fwd", r"compute_reflector\(D, x\[0\], x\[1\], x\[2\], ind\);",
                                                "compute_reflector3(D, *CUR_AT(%s, x, 0, 0), *CUR_AT(%s, x, 1, 0), *CUR_AT(%s, x, 2, 0), ind);" % (HM, HM, HM), pf(b, R), min_fires=1, max_fires=1))
    parts["crp"] = t
    px_rules = [("data", r"Scalar\* xptr = X\.data\(\);", "Cur xptr = BDATA(X);", {"max": 1}),
                ("step", r"\bxptr \+= stride\b", "xptr = BSTEP(X, xptr, stride)", {"min": 2, "max": 2}),
                ("elem", r"\bxptr\[(\d)\]", r"(*BAT(X, xptr, \1))", {"min": 6})]
    f = X.locate(DH, "apply_PX", cls="DoubleShiftQR", params_re=r"GenericMatrix")
    lc_px = {k: "__CPROVER_assigns(i, xptr, X.M->cell) __CPROVER_loop_invariant(0 <= i && i <= ncol && xptr.r == X.r0 && xptr.c == X.c0 + i) __CPROVER_decreases(ncol - i)" for k in (0, 1)}
    t, R = cgen.emit(f, "apply_PX", ret_c="void", self_type="DSC", self_name="D", members=mem, param_types={"X": "BlockC"}, pre_rules=px_rules, post_fn=pf, loop_contracts=lc_px,
                     pre_body=' __CPROVER_assert(0 <= u_ind && u_ind < D->m_n && X.rows >= 2 && X.cols >= 0, "precondition of apply_PX at its call site: reflector index in range, block has >= 2 rows");')
    report["DoubleShiftQR::apply_PX(cursor)"] = R.fired
    parts["px"] = t
    xp_rules = [("heads", r"Scalar \*X0 = X\.data\(\), \*X1 = X0 \+ stride;", "Cur X0 = BDATA(X); Cur X1 = BSTEP(X, X0, stride);", {"max": 1}),
                ("head2", r"Scalar\* X2 = X1 \+ stride;", "Cur X2 = BSTEP(X, X1, stride);", {"max": 1}),
                ("elem", r"\b(X[012])\[i\]", r"(*BAT(X, \1, i))", {"min": 6})]
    f = X.locate(DH, "apply_XP", cls="DoubleShiftQR", params_re=r"GenericMatrix")
    lc_xp = {k: "__CPROVER_assigns(i, X.M->cell) __CPROVER_loop_invariant(0 <= i && i <= nrow) __CPROVER_decreases(nrow - i)" for k in (0, 1)}
    t, R = cgen.emit(f, "apply_XP", ret_c="void", self_type="DSC", self_name="D", members=mem, param_types={"X": "BlockC"}, pre_rules=xp_rules, post_fn=pf, loop_contracts=lc_xp,
                     pre_body=' __CPROVER_assert(0 <= u_ind && u_ind < D->m_n && X.cols >= 2 && X.rows >= 0, "precondition of apply_XP at its call site: reflector index in range, block has >= 2 columns");')
    report["DoubleShiftQR::apply_XP(cursor)"] = R.fired
    parts["xp"] = t
    f = X.locate(DH, "update_block", cls="DoubleShiftQR")
    ub_late = lambda b, R: R.sub("crl", r"compute_reflector\(D, (\(\*MAT_ELEM[^;]*?), 0, iu - 1\);", r"compute_reflector3(D, \1, 0, iu - 1);", R.sub(
        "crp", r"compute_reflector\(D, CUR\(", "compute_reflectorp(D, CUR(", R.sub(
            "cr3", r"compute_reflector\(D, (m00, m10, (?:0|m20)), il\);", r"compute_reflector3(D, \1, il);", pf(b, R), min_fires=2, max_fires=2), min_fires=1, max_fires=1), min_fires=1, max_fires=1)
    lc_ub = {0: "__CPROVER_assigns(i, D->m_mat_H.cell, D->ucol[0], D->ucol[1], D->ucol[2], __CPROVER_object_whole(D->m_ref_nr)) "
                "__CPROVER_loop_invariant(1 <= i && i <= bsize - 2 && (!(il <= g_q && g_q < il + i) || NR_OK(D, g_q, iu + 1)) && (!(0 <= g_q && g_q < D->m_n && (g_q < il || g_q > iu)) || D->m_ref_nr[g_q] == verif_old_nr)) "
                "__CPROVER_decreases(bsize - 2 - i)"}
    t, R = cgen.emit(f, "update_block", ret_c="void", self_type="DSC", self_name="D", members=mem, post_fn=ub_late, loop_contracts=lc_ub,
                     pre_body=' __CPROVER_assert(0 <= il && il <= iu && iu < D->m_n, "precondition of update_block at its call site: 0 <= il <= iu < n"); '
                              'const unsigned char verif_old_nr = (0 <= g_q && g_q < D->m_n) ? D->m_ref_nr[g_q] : 0;')
    report["DoubleShiftQR::update_block(cursor)"] = R.fired
    parts["ub"] = t
    h_ub = r'''
#line 1 "harness/kernels.dsqr.update_block.unbounded"
void h(void) {
  DSC Dv; DSC *D = &Dv; D->m_n = nondet_Index(); __CPROVER_assume(1 <= D->m_n && D->m_n <= NMAXD); D->m_mat_H = MAT_NEW(D->m_n, D->m_n);
  D->m_ref_u_cols = D->m_n; D->m_ref_nr = malloc(D->m_n); __CPROVER_assume(D->m_ref_nr != NULL); D->m_near_0 = nondet_Scalar(); D->m_eps = nondet_Scalar(); __CPROVER_assume(D->m_near_0 > (Scalar)0);
  Index il = nondet_Index(), iu = nondet_Index(); __CPROVER_assume(0 <= il && il <= iu && iu < D->m_n);
  g_q = nondet_Index(); __CPROVER_assume(0 <= g_q && g_q < D->m_n);
  unsigned char old = D->m_ref_nr[g_q];
  update_block(D, il, iu);
  if (il <= g_q && g_q <= iu) __CPROVER_assert(NR_OK(D, g_q, iu + 1), "dsqr.update_block (all n): every position of the block carries a reflector mark nr in {1,2,3} with q + nr[q] <= iu + 1");
  else __CPROVER_assert(D->m_ref_nr[g_q] == old, "dsqr.update_block (all n): reflector marks outside the block are not touched");
  CANARY();
}
'''
    groups = [Group("dsqr.update_block.unbounded", kernels.HQS_TYPES + DSC_TYPES + parts["cr3"] + parts["crp"] + parts["px"] + parts["xp"] + parts["ub"] + h_ub, "h", loop_contracts=True,
                    solver="cadical", defines=["SCALAR_FLOAT"], timeout=900, functions=[DH + ":" + x for x in ("update_block", "compute_reflector", "apply_PX", "apply_XP")],
                    expect_classes=["loop_invariant_step", "Eigen block assertion", "block access", "dsqr.update_block (all n)"],
                    note="UNBOUNDED in n and in the block [il, iu] on the cursor model; stable_norm3 / stable_scaling / hypot replaced by their frames (values do not enter any claim)")]
    # apply_YQ: Y * P0 * P1 * ... on the cursor model, every row count and every n >= 2
    f = X.locate(DH, "apply_YQ", cls="DoubleShiftQR")

    def pf_yq(b, R):
        b = R.call_rewrite("yblock", r"\bY\.block(?=\()", lambda m, a: "BLOCKC(Y, %s)" % ", ".join(a) if len(a) == 4 else None, b, min_fires=2)
        b = R.sub("yrows", r"\bY\.rows\(\)", "Y->rows", b, min_fires=1)
        return pf(b, R)
    t, R = cgen.emit(f, "apply_YQ", ret_c="void", self_type="DSC", self_name="D", members=mem, param_types={"Y": "Mat *"}, post_fn=pf_yq,
                     loop_contracts={0: "__CPROVER_assigns(i, Y->cell, D->ucol[0], D->ucol[1], D->ucol[2]) __CPROVER_loop_invariant(0 <= i && (i <= n2 || n2 < 0)) __CPROVER_decreases(n2 - i)"})
    report["DoubleShiftQR::apply_YQ(cursor)"] = R.fired
    h_yq = r'''
#line 1 "harness/kernels.dsqr.apply_YQ.unbounded"
void h(void) {
  DSC Dv; DSC *D = &Dv; D->m_n = nondet_Index(); __CPROVER_assume(2 <= D->m_n && D->m_n <= NMAXD); D->m_mat_H = MAT_NEW(D->m_n, D->m_n);
  D->m_ref_u_cols = D->m_n; D->m_ref_nr = malloc(D->m_n); __CPROVER_assume(D->m_ref_nr != NULL); D->m_computed = nondet_bool();
  Index nrow = nondet_Index(); __CPROVER_assume(0 <= nrow && nrow <= NMAXD); Mat Yv = MAT_NEW(nrow, D->m_n); Mat *Y = &Yv;
  _Bool was = D->m_computed; verif_exc = 0;
  apply_YQ(D, Y);
  __CPROVER_assert((verif_exc != 0) == !was, "dsqr.apply_YQ (all n): throws exactly when compute() has not been called");
  CANARY();
}
'''
    groups.append(Group("dsqr.apply_YQ.unbounded", kernels.HQS_TYPES + DSC_TYPES + parts["xp"] + t + h_yq, "h", loop_contracts=True, solver="cadical", defines=["SCALAR_FLOAT"], timeout=900,
                        functions=[DH + ":apply_YQ", DH + ":apply_XP"], expect_classes=["loop_invariant_step", "Eigen block assertion", "block access", "dsqr.apply_YQ (all n)"],
                        note="UNBOUNDED in n (>= 2) and in the number of rows of Y, for ANY reflector record (apply_XP guards every third-column access by nr / ncol itself)"))
    return groups


def dsqr_compute_unbounded(report):
    """DoubleShiftQR::compute for EVERY n on the cursor model: the deflation scan (diagonal cursor walk, std::fill of the entries below the sub-diagonal),
    the block list zero_ind (strictly increasing, from 0 to n), one update_block per block with its precondition 0 <= start <= end < n, and the resulting
    reflector record: nr[q] in {1,2,3} and q + nr[q] <= n at EVERY position (what apply_QtY / apply_YQ rely on).  update_block is replaced by its contract
    (proved for every n in dsqr.update_block.unbounded)."""
    mem = ["m_near_0", "m_eps", "m_n", "m_mat_H", "m_shift_s", "m_shift_t", "m_ref_u", "m_ref_nr", "m_computed"]
    HM = "(&D->m_mat_H)"
    f = X.locate(DH, "compute", cls="DoubleShiftQR")
    pre = [("rows", r"m_n = mat\.rows\(\);", "m_n = rows;", {"max": 1}), ("cols", r"mat\.cols\(\)", "cols", {"max": 1}),
           ("resize-H", r"m_mat_H\.resize\(m_n, m_n\);", "m_mat_H = MAT_NEW(m_n, m_n);", {"max": 1}),
           ("resize-u", r"m_ref_u\.resize\(3, m_n\);", "m_ref_u_cols = m_n;", {"max": 1}),
           ("resize-nr", r"m_ref_nr\.resize\(m_n\);", "m_ref_nr = malloc(m_n); __CPROVER_assume(D->m_ref_nr != NULL);", {"max": 1}),
           ("copy", r"m_mat_H\.noalias\(\) = mat;", "MAT_TOUCH(D->m_mat_H);", {"max": 1}),
           ("zi-decl", r"std::vector<int> zero_ind;\s*zero_ind\.reserve\(m_n - 1\);", "int *zero_ind = malloc((m_n + 1) * sizeof(int)); __CPROVER_assume(zero_ind != NULL); Index zero_n = 0;", {"max": 1}),
           ("zi-push", r"zero_ind\.push_back\(([^;]+)\);", r"{ __CPROVER_assert(zero_n < D->m_n + 1, @Q@std::vector push_back: at most n + 1 block boundaries@Q@); zero_ind[zero_n++] = (int)(\1); }", {"min": 3, "max": 3}),
           ("zi-size", r"zero_ind\.size\(\)", "zero_n", {"max": 1}),
           ("Hii-decl", r"Scalar\* Hii = m_mat_H\.data\(\);", "Cur Hii = CUR(%s, 0, 0);" % HM, {"max": 1}),
           ("Hii-reset", r"\bHii = m_mat_H\.data\(\);", "Hii = CUR(%s, 0, 0);" % HM, {"max": 1}),
           ("Hii-step", r"\bHii \+= \(m_n \+ 1\)", "Hii = CUR_DIAG(Hii)", {"min": 2, "max": 2}),
           ("Hii-next", r"\bHii\[m_n \+ 1\]", "(*CUR_AT(%s, CUR_COLS(Hii, 1), 1, 0))" % HM, {"min": 2, "max": 2}),
           ("Hii-w0", r"\bHii\[(\d)\] = 0;", r"(void)CUR_AT(%s, Hii, \1, 2);" % HM, {"min": 2, "max": 2}),
           ("Hii-read", r"\bHii\[(\d)\]", r"(*CUR_AT(%s, Hii, \1, 0))" % HM, {"min": 4}),
           ("fill", r"std::fill\(Hii \+ ([^,]+), Hii \+ ([^,]+), Scalar\(0\)\);", r"CUR_FILL0(%s, Hii, \1, \2);" % HM, {"max": 1}),
           ("inst", r"const Index start = zero_ind\[i\];", "INSTANTIATE_MONO(i); const Index start = zero_ind[i];", {"max": 1}),
           ("ub", r"(?<![\w>.])update_block\(start, end\);", "update_block(D, start, end);", {"max": 1})]
    MONO = "(!(0 <= g_s && g_s + 1 < zero_n) || zero_ind[g_s] < zero_ind[g_s + 1])"
    RANGE = "(!(0 <= g_s && g_s < zero_n) || (0 <= zero_ind[g_s] && zero_ind[g_s] <= %s))"
    lc = {0: "__CPROVER_assigns(i, Hii, D->m_mat_H.cell, g_zero, zero_n, __CPROVER_object_whole(zero_ind)) "
             "__CPROVER_loop_invariant(0 <= i && i <= D->m_n - 1 && Hii.r == i && Hii.c == i && 1 <= zero_n && zero_n <= i + 1 && zero_ind[0] == 0 && zero_ind[zero_n - 1] <= i && %s && %s) "
             "__CPROVER_decreases(D->m_n - 1 - i)" % (MONO, RANGE % "i"),
          1: "__CPROVER_assigns(i, D->m_mat_H.cell, D->ucol[0], D->ucol[1], D->ucol[2], __CPROVER_object_whole(D->m_ref_nr)) "
             "__CPROVER_loop_invariant(0 <= i && i <= len && (!(0 <= g_q && g_q < zero_ind[i] && g_q < D->m_n) || NR_OK(D, g_q, D->m_n))) __CPROVER_decreases(len - i)",
          2: "__CPROVER_assigns(i, Hii, D->m_mat_H.cell, g_zero) __CPROVER_loop_invariant(0 <= i && i <= D->m_n - 1 && Hii.r == i && Hii.c == i) __CPROVER_decreases(D->m_n - 1 - i)"}
    late = [("after-last-push", r"(\{ __CPROVER_assert\(zero_n < D->m_n \+ 1[^}]*\(int\)\(D->m_n\); \})",
             r"\1 __CPROVER_assert(%s, @Q@dsqr.compute (all n): block boundaries strictly increasing@Q@); __CPROVER_assert(%s, @Q@dsqr.compute (all n): block boundaries within 0..n@Q@); "
             r"__CPROVER_assert(zero_ind[0] == 0 && zero_ind[zero_n - 1] == D->m_n && zero_n >= 2, @Q@dsqr.compute (all n): the blocks partition 0..n-1 (first starts at 0, last ends at n-1, consecutive)@Q@);" % (MONO, RANGE % "D->m_n"), {"max": 1})]

    def pf(b, R):
        for r in late:
            b = R.sub("late:" + r[0], r[1], r[2], b, flags=re.S, min_fires=1, max_fires=1)
        return b
    spec_pre = "1 <= rows && rows <= NMAXD && 0 <= cols && cols <= NMAXD && D->m_near_0 > (Scalar)0 && D->m_eps > (Scalar)0 && 0 <= g_q && g_q <= NMAXD && 0 <= g_s && g_s <= NMAXD"
    t, R = cgen.emit(f, "ds_compute", ret_c="void", self_type="DSC", self_name="D", members=mem + ["m_ref_u_cols"], param_types={"mat": "Index", "s": "Scalar", "t": "Scalar"},
                     pre_rules=pre, post_fn=pf, loop_contracts=lc)
    t = t.replace("DSC *D, Index mat, Scalar s, Scalar t", "DSC *D, Index rows, Index cols, Scalar s, Scalar t")
    report["DoubleShiftQR::compute(cursor)"] = R.fired
    stub = r'''
Index g_s;
static Cur CUR_DIAG(Cur k) { k.r++; k.c++; return k; }
/* forall-elimination of the proved block-boundary facts (asserted for the Skolem position g_s right after the list is complete) at index e */
#define INSTANTIATE_MONO(e) __CPROVER_assume(0 <= zero_ind[e] && zero_ind[e] < zero_ind[(e) + 1] && zero_ind[(e) + 1] <= D->m_n)
/* contract of update_block, proved for every n in dsqr.update_block.unbounded */
static void update_block(DSC *D, Index il, Index iu)
{
  __CPROVER_assert(0 <= il && il <= iu && iu < D->m_n, "precondition of update_block at its call site: 0 <= il <= iu < n");
  __CPROVER_assert(DS_INV(D), "precondition of update_block: object invariant (n x n matrix, n reflector slots, near_0 > 0)");
  unsigned char keep = (0 <= g_q && g_q < D->m_n) ? D->m_ref_nr[g_q] : 0;
  __CPROVER_havoc_object(D->m_ref_nr); D->m_mat_H.cell = nondet_Scalar();
  if (0 <= g_q && g_q < D->m_n) { if (il <= g_q && g_q <= iu) __CPROVER_assume(NR_OK(D, g_q, iu + 1)); else D->m_ref_nr[g_q] = keep; }
}
'''
    h = r'''
#line 1 "harness/kernels.dsqr.compute.unbounded"
void h(void) {
  DSC Dv; DSC *D = &Dv; D->m_n = nondet_Index(); D->m_mat_H = MAT_NEW(0, 0); D->m_ref_u_cols = 0; D->m_ref_nr = malloc(1); D->m_computed = 0;
  D->m_near_0 = nondet_Scalar(); D->m_eps = nondet_Scalar();
  Index rows = nondet_Index(), cols = nondet_Index(); Scalar s = nondet_Scalar(), t = nondet_Scalar();
  g_q = nondet_Index(); g_s = nondet_Index();
  __CPROVER_assume(SPEC_PRE);
  verif_exc = 0;
  ds_compute(D, rows, cols, s, t);
  if (rows != cols) __CPROVER_assert(verif_exc == EXC_invalid_argument && !D->m_computed, "dsqr.compute (all n): non-square input -> invalid_argument, nothing marked computed");
  else {
    __CPROVER_assert(verif_exc == 0 && D->m_computed && D->m_n == rows, "dsqr.compute (all n): computed");
    __CPROVER_assert(!(0 <= g_q && g_q < rows) || NR_OK(D, g_q, rows), "dsqr.compute (all n): every position carries a reflector mark nr in {1,2,3} with q + nr[q] <= n (apply_QtY / apply_YQ stay in bounds)");
  }
  CANARY();
}
'''.replace("SPEC_PRE", spec_pre)
    return [Group("dsqr.compute.unbounded", kernels.HQS_TYPES + DSC_TYPES + stub + t + h, "h", loop_contracts=True, solver="cadical", defines=["SCALAR_FLOAT"], timeout=900,
                  functions=[DH + ":compute"], expect_classes=["loop_invariant_step", "dsqr.compute (all n)", "precondition of update_block", "cursor access"],
                  note="UNBOUNDED in n on the cursor model; update_block replaced by its proved contract; block-boundary facts are proved for a Skolem position and instantiated at the loop index")]


def hessqr_apply_YQ_unbounded(report):
    """UpperHessenbergQR::apply_YQ (the variant restart() calls; inherited by TridiagQR) on the cursor model: memory safety and frame for EVERY n and every
    number of rows of Y.  (That the values are exactly Y * G_0 * ... * G_{n-2} is the bounded hessqr.apply_YQ.n<N>.rows<R> groups.)"""
    QH = kernels.QH
    mem = ["m_n", "m_shift", "m_rot_cos", "m_rot_sin", "m_computed", "m_mat_R"]
    f = X.locate(QH, "apply_YQ", cls="UpperHessenbergQR")
    pre = [("rows", r"Y\.rows\(\)", "Y->rows", {"max": 1}), ("cs", r"\b(m_rot_cos|m_rot_sin)\.coeff\(i\)", r"\1[i]", {"min": 2, "max": 2}),
           ("decl", r"Scalar \*Y_col_i, \*Y_col_i1;", "Cur Y_col_i, Y_col_i1;", {"max": 1}),
           ("col", r"&Y\.coeffRef\(([^,()]+), ([^()]+)\)", r"CUR(Y, \1, \2)", {"min": 2, "max": 2}),
           ("write", r"\b(Y_col_i1?)\[(\w+)\] = ([^;]+);", r"*CUR_AT(Y, \1, \2, 1) = \3;", {"min": 2, "max": 2}),
           ("read", r"\b(Y_col_i1?)\[(\w+)\]", r"(*CUR_AT(Y, \1, \2, 0))", {"min": 3})]
    lc = {0: "__CPROVER_assigns(i, Y_col_i, Y_col_i1, Y->cell, g_zero) __CPROVER_loop_invariant(0 <= i && (i <= n1 || n1 < 0)) __CPROVER_decreases(n1 - i)",
          1: "__CPROVER_assigns(j, Y->cell, g_zero) __CPROVER_loop_invariant(0 <= j && j <= nrow) __CPROVER_decreases(nrow - j)"}
    t, R = cgen.emit(f, "hqs_apply_YQ", ret_c="void", self_type="HQS", self_name="Q", members=mem, param_types={"Y": "Mat *"}, pre_rules=pre, loop_contracts=lc)
    report["UpperHessenbergQR::apply_YQ(cursor)"] = R.fired
    h = r'''
#line 1 "harness/kernels.hessqr.apply_YQ.unbounded"
void h(void) {
  HQS Qv; HQS *Q = &Qv; Q->m_n = nondet_Index(); __CPROVER_assume(1 <= Q->m_n && Q->m_n <= NMAX); Q->m_rot_cos = VEC_NEW(Q->m_n - 1); Q->m_rot_sin = VEC_NEW(Q->m_n - 1);
  Q->m_mat_R = MAT_NEW(Q->m_n, Q->m_n); Q->m_computed = nondet_bool();
  Index nrow = nondet_Index(); __CPROVER_assume(1 <= nrow && nrow <= NMAX);   /* Y has at least one row: &Y.coeffRef(0, i) is formed unconditionally (Eigen index assertion for an empty Y) */
  Mat Yv = MAT_NEW(nrow, Q->m_n); Mat *Y = &Yv;
  Index q = nondet_Index(); __CPROVER_assume(0 <= q && q < Q->m_n - 1); Scalar c_q = Q->m_rot_cos[q], s_q = Q->m_rot_sin[q];
  _Bool was = Q->m_computed; verif_exc = 0;
  hqs_apply_YQ(Q, Y);
  __CPROVER_assert((verif_exc != 0) == !was, "hessqr.apply_YQ (all n): throws exactly when compute() has not been called");
  __CPROVER_assert((Q->m_rot_cos[q] == c_q || c_q != c_q) && (Q->m_rot_sin[q] == s_q || s_q != s_q), "hessqr.apply_YQ (all n): the stored rotations are not modified");
  CANARY();
}
'''
    return [Group("hessqr.shape.apply_YQ", kernels.HQS_TYPES + t + h, "h", loop_contracts=True, solver="cadical", defines=["SCALAR_DOUBLE"], timeout=900,
                  functions=[QH + ":UpperHessenbergQR::apply_YQ"], expect_classes=["loop_invariant_step", "cursor access", "hessqr.apply_YQ (all n)"],
                  note="UNBOUNDED in n and in the rows of Y on the cursor model: every Y_col_i[j] / Y_col_i1[j] access inside columns i, i+1 of Y")]
