"""C04 - converged set is the part of the spectrum the selection rule asks for (contract-expressible part, see DESIGN.md section 3)."""
from props import skelgroups as SG

PROP = "C04"
FAMILIES = ["herm", "gen"]


def build(tier):
    report = {}
    groups = SG.select(PROP, FAMILIES, report)
    from props import shiftmodes
    groups += shiftmodes.lemmas(report)
    # head of the chain: the ordering primitive itself (argsort / SortEigenvalue / BothEnds map), shared with C18
    from props import C18
    g18, _ = C18.build(tier)
    groups += [g for g in g18 if g.name.startswith(("argsort.", "ctor.", "bothends.", "table.", "cmp.swo"))]
    meta = {"level": "proof", "trusted_base": SG.TRUSTED + ["z3 4.8.12 (five real-arithmetic identities)"], "assumptions": SG.ASSUMPTIONS, "extraction": report,
            "not_covered": ['that the restarted iteration converges to the wanted end of the spectrum (numerical)'],
            "explanation": 'plumbing of the selection rule: argsort contract -> retrieve_ritzpair -> restart shifts -> compute'}
    return groups, meta


def replay(g, o, assigns, path):
    if g.name.startswith(("argsort.", "ctor.", "bothends.", "cmp.", "table.")):
        from props import C18
        return C18.replay(g, o, assigns, path)
    from vlib import replay as RP
    r = RP.run_native(PROP, RP.src("solver_replay.cpp"), args=["selection"], timeout=900)
    if not r.get("reproduced"):
        r2 = RP.run_native(PROP, RP.src("solver_replay.cpp"), args=["history"], timeout=900, name="replay2")
        if r2.get("reproduced"):
            return r2
    return r


MANIFEST = {
    "category": "proof",
    "text": 'Unbounded proof of the rule plumbing: Ritz values are stored wanted-first in the order of the selection rule (key table from the SortRule documentation, incl. the BothEnds interleave); the restart size k satisfies nev <= k <= ncv-1; the shifts are exactly the stored positions [k, ncv), ncv-k of them, each applied once; the returned set is the first nev positions of the last retrieve. Convergence of the iteration to that set is NOT decided. Third session: the selection rule is followed from compute() to argsort also when a refactoring keeps it in a data member (ghost parameter with the call-site precondition member == requested rule).',
    "note": 'floating-point values of Eigen expressions are havocked (lossy extraction, every abstracted statement listed in the evidence); callee contracts are generated stubs sharing clause texts with the enforcing harness; std::sort/Eigen/operator contracts assumed; Skolem instantiation meta-rule',
    "technique": "CBMC dfcc frame contracts + loop contracts + harness-asserted postconditions on mechanically extracted C (cadical)",
}
