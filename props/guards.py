"""Typestate protocol of the small decomposition classes (C08 / C09 / C10): a result may only be read from an object whose compute() has succeeded.

The solver skeletons ASSUME this protocol of the objects they use (QR_STUBS / DECOMP_STUBS in props/skel.py: `matrix_QtHQ`, `apply_YQ`, `eigenvalues()`,
`eigenvectors()` throw std::logic_error unless the object has been computed).  Here it is discharged on the real text, per class:

  * guard.coverage.<Class>  (static obligation on the class text): every PUBLIC member function other than the constructors, compute() and the pure size / status
    accessors that touches a data member holding results begins with `if (!m_computed) throw std::logic_error(...)`;
  * guard.<Class>           (CBMC, loop-free, full domain): the guard statement of every such function, extracted from the header, throws logic_error exactly when
    m_computed is false and lets control reach the body exactly when it is true (the remainder of each body is dropped here - it is under contract elsewhere or
    listed as assumed); a guard that tests another flag, is inverted, or throws another type fails.
"""
import re

from vlib import extract as X
from vlib import cgen, z3lemma
from vlib.runner import Group

NEUTRAL = ("m_n", "m_computed", "m_info", "m_near_0", "m_eps", "m_eps_rel", "m_eps_abs", "m_safe_min")
CLASSES = {
    "C09": [("LinAlg/TridiagEigen.h", "TridiagEigen"), ("LinAlg/UpperHessenbergEigen.h", "UpperHessenbergEigen"), ("LinAlg/UpperHessenbergSchur.h", "UpperHessenbergSchur")],
    "C08": [("LinAlg/UpperHessenbergQR.h", "UpperHessenbergQR"), ("LinAlg/UpperHessenbergQR.h", "TridiagQR"), ("LinAlg/DoubleShiftQR.h", "DoubleShiftQR")],
    "C10": [("LinAlg/BKLDLT.h", "BKLDLT")],
}
GUARD_RX = r"^\s*(?:using [\w:]+;\s*)*if \(!m_computed\)\s*throw std::logic_error\((?:[^;]*)\);"


def public_methods(hdr, cls):
    """[(name, params, body)] of the member functions defined in public sections of the class (brace depth 0 of the class body)."""
    raw, st = X.load(hdr)
    b0, b1 = X.class_body(st, cls)
    body = st[b0:b1]
    out, access, depth, i = [], "private", 0, 0
    fn_rx = re.compile(r"([~\w]+)\s*\(((?:[^(){};]|\([^()]*\))*)\)\s*(?:const\s*)?(?:override\s*)?(?::[^{;]*)?\{")
    pos = 0
    while pos < len(body):
        ma = re.compile(r"\b(public|private|protected)\s*:").search(body, pos)
        mf = fn_rx.search(body, pos)
        if not mf:
            break
        if ma and ma.start() < mf.start():
            if body[:ma.start()].count("{") == body[:ma.start()].count("}"):
                access = ma.group(1)
            pos = ma.end()
            continue
        j = mf.end() - 1
        k = X.match_close(body, j)
        if body[:mf.start()].count("{") == body[:mf.start()].count("}") and mf.group(1) not in ("if", "for", "while", "switch", "catch"):
            if access == "public":
                out.append((mf.group(1), mf.group(2), body[j + 1:k]))
        pos = k + 1
    return out


def groups(prop, report):
    out = []
    for hdr, cls in CLASSES[prop]:
        members = X.members(hdr, cls)
        if "m_computed" not in members:
            raw, st = X.load(hdr)
            mb = re.search(r"class\s+%s\s*:\s*public\s+(\w+)" % re.escape(cls), st)
            if mb:
                members = X.members(hdr, mb.group(1)) + members       # the flag and the result members live in the base class
        if "m_computed" not in members:
            raise X.ExtractionBreak("%s has no m_computed flag" % cls)
        results = [m for m in members if m not in NEUTRAL]
        meths = public_methods(hdr, cls)
        if not meths:
            raise X.ExtractionBreak("%s: no public member functions found" % cls)
        guarded, bad, exempt = [], [], []
        for nm, params, body in meths:
            if nm in (cls, "~" + cls, "compute") or nm.startswith("operator"):
                continue
            flat = " ".join(body.split())
            touches = [m for m in results if re.search(r"(?<![\w.>])%s\b" % re.escape(m), flat)]
            # calls of other member functions that need results count as touching them only through those functions' own guards
            if not touches and "m_computed" not in flat:
                continue
            if re.match(r"^(?:m_\w+\.swap\(\w+\);\s*)+$", flat):
                exempt.append("%s::%s (hands its storage over by swap; called by the owning class after a successful compute() only - not claimed)" % (cls, nm))
                continue
            if re.match(GUARD_RX, flat):
                guarded.append((nm, params, re.sub(r"^\s*(?:using [\w:]+;\s*)*", "", re.match(GUARD_RX, flat).group(0))))
            elif touches:
                bad.append("%s::%s(%s) reads %s without first checking m_computed" % (cls, nm, " ".join(params.split())[:40], ", ".join(touches[:3])))
            else:
                bad.append("%s::%s mentions m_computed but does not start with the guard" % (cls, nm))
        report["guards " + cls] = {"guarded": ["%s(%s)" % (n, " ".join(p.split())[:50]) for n, p, _ in guarded], "violations": bad, "exempt": exempt}
        if not guarded and not bad:
            raise X.ExtractionBreak("%s: the scan found no function that reads results" % cls)
        out.append(z3lemma.StaticGroup("guard.coverage." + cls, ok=not bad,
                                       detail="; ".join(bad) or "%d public functions of %s read results, each starts with the m_computed guard" % (len(guarded), cls),
                                       obligation="results of %s are only read from a computed object: every public function that touches a result member starts with `if (!m_computed) throw std::logic_error`" % cls))
        # the guard statements themselves, extracted and checked by CBMC over both values of the flag
        fns, calls = [], []
        for k, (nm, params, g) in enumerate(guarded):
            cn = "guard_%s_%d" % (re.sub(r"\W", "_", nm), k)
            m = re.match(r"^\s*if \((.*?)\)\s*throw std::(\w+)\(", g)
            fns.append("static void %s(Obj *self) { if (%s) { verif_exc = EXC_%s; return; } g_body = 1; }   /* %s::%s */" %
                       (cn, re.sub(r"\bm_computed\b", "self->m_computed", m.group(1)), m.group(2), cls, nm))
            calls.append('  verif_exc = 0; g_body = 0; %s(self);\n'
                         '  __CPROVER_assert((verif_exc == EXC_logic_error) == !self->m_computed, "guard of %s::%s: throws std::logic_error exactly when compute() has not succeeded");\n'
                         '  __CPROVER_assert(verif_exc == 0 || verif_exc == EXC_logic_error, "guard of %s::%s: no other exception type");\n'
                         '  __CPROVER_assert(g_body == self->m_computed, "guard of %s::%s: the body is reached exactly on a computed object");' % (cn, cls, nm, cls, nm, cls, nm))
        if guarded:
            text = ('#include <stdbool.h>\nint verif_exc; _Bool g_body; _Bool nondet_bool(void);\n#define EXC_logic_error 3\n#define EXC_invalid_argument 1\n#define EXC_runtime_error 2\n'
                    '#define CANARY() __CPROVER_assert(0, "CANARY reachable end of harness")\ntypedef struct { _Bool m_computed; } Obj;\n' + "\n".join(fns) +
                    '\n#line 1 "harness/guards.%s"\nvoid h(void) { Obj o; Obj *self = &o; o.m_computed = nondet_bool();\n' % cls + "\n".join(calls) + "\n  CANARY(); }\n")
            out.append(Group("guard." + cls, text, "h", loop_contracts=False, solver="cadical", functions=["%s:%s::%s" % (hdr, cls, n) for n, _, _ in guarded],
                             expect_classes=["guard of"], flags=[],
                             note="guard statements extracted from the header; the remainder of each body is dropped in this group"))
    return out
