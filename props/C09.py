"""C09 - small dense eigen-decompositions: failure protocol (iteration cap => throw, normal exit => fully reduced),
exact zero imaginary part / adjacent exact conjugates, index safety.  Backward stability is numerical and not decided."""
import re

from vlib import extract as X
from vlib import cgen
from vlib import eigabs
from vlib.runner import Group
from vlib.spec import FSpec
from vlib import z3lemma

PROP = "C09"
TH = "LinAlg/TridiagEigen.h"
SH = "LinAlg/UpperHessenbergSchur.h"
EH = "LinAlg/UpperHessenbergEigen.h"

BASE = '#include "skel.h"\n' + eigabs.SKEL_MACROS + r'''
Index g_q;
#define NMAXS 4096
'''


# ------------------------------------------------------------------ TridiagEigen::compute
def tridiag(report):
    mem = X.members(TH, "TridiagEigen")
    if mem != ["m_n", "m_main_diag", "m_sub_diag", "m_evecs", "m_computed"]:
        raise X.ExtractionBreak("TridiagEigen members changed: %r" % mem)
    f = X.locate(TH, "compute", cls="TridiagEigen")
    types = r'''
typedef struct { Index m_n; Scalar *m_main_diag; Scalar *m_sub_diag; Mat m_evecs; _Bool m_computed; _Bool g_zero_exit; _Bool g_ident; } TE;
/* tridiagonal_qr_step(diag, subdiag, start, end, Q, n): frame contract (its body is a bounded kernel):
 * writes only diag[start..end] and subdiag[start..end-1]; requires 0 <= start < end <= n-1 */
Scalar g_max[2];    /* ghost: max |.| over the diagonal / the sub-diagonal of the input (arbitrary but fixed, >= 0) */
static Scalar MAXABS_DIAG(Index n, Index k)
{ __CPROVER_assert(n - k >= 1, "Eigen: maxCoeff() needs a non-empty vector (diagonal / sub-diagonal of the input)"); __CPROVER_assume(g_max[k] >= (Scalar)0); return g_max[k]; }
/* WEAK obligation (group tridiag.scaling only): the working copy is the input divided by exactly max|T_ij| - the implementation's means of being scale invariant,
 * not the property itself, so a refutation counts only if it replays on the real code */
#ifdef CHECK_SCALING
#define SCALING_CHECK(n, sc) __CPROVER_assert((sc) == VMAX(g_max[0], ((n) > 1 ? g_max[1] : (Scalar)0)), "tridiag.scaling: the matrix is normalised by its own largest entry max|T_ij| (scale invariance of the iteration)")
#else
#define SCALING_CHECK(n, sc) ((void)0)
#endif
static void tridiagonal_qr_step(Scalar *diag, Scalar *subdiag, Index start, Index end, Scalar *matrixQ, Index n)
{
  __CPROVER_assert(0 <= start && start < end && end <= n - 1, "tridiagonal_qr_step precondition: 0 <= start < end <= n-1");
  __CPROVER_assert(VEC_SIZE(diag) == n && VEC_SIZE(subdiag) == n - 1, "tridiagonal_qr_step precondition: diag has n, subdiag n-1 entries");
  Scalar keep = (0 <= g_q && g_q < n - 1) ? subdiag[g_q] : (Scalar)0;
  __CPROVER_havoc_object(diag); __CPROVER_havoc_object(subdiag);
  if (0 <= g_q && g_q < n - 1 && (g_q < start || g_q >= end)) subdiag[g_q] = keep;      /* frame: entries outside [start, end) unchanged */
}
'''
    spec = FSpec("te_compute", "void", [("TE *", "T"), ("Index", "rows"), ("Index", "cols")],
                 pre=[("shape", "1 <= rows && rows <= NMAXS && 0 <= cols && cols <= NMAXS"), ("Skolem", "0 <= g_q && g_q <= NMAXS"),
                      ("fresh object (as constructed by the solvers for every decomposition)", "!T->m_computed")],
                 post=[("normal exit marks the object computed; n eigenvalues and an n x n eigenvector matrix (the shape the solvers rely on)",
                        "T->m_computed && T->m_n == rows && VEC_SIZE(T->m_main_diag) == rows && T->m_evecs.rows == rows && T->m_evecs.cols == rows"),
                       ("on every normal exit (also the zero-matrix early exit) the eigenvector accumulator was initialised to the identity after it was (re)allocated", "T->g_ident"),
                       ("normal exit only with T driven to diagonal form: every sub-diagonal entry is exactly zero (or the zero-matrix early exit was taken)",
                        "T->g_zero_exit || !(0 <= g_q && g_q < rows - 1) || T->m_sub_diag[g_q] == (Scalar)0")],
                 exc_post=[("non-square -> invalid_argument; iteration limit -> runtime_error", "(verif_exc == EXC_invalid_argument && rows != cols) || verif_exc == EXC_runtime_error"),
                           ("no result is marked valid when the decomposition failed", "!T->m_computed")],
                 frame=["T->m_n", "T->m_main_diag", "T->m_sub_diag", "T->m_evecs", "T->m_computed", "T->g_zero_exit", "T->g_ident"], may_throw=[1, 2], real=TH + ":compute")
    pre = [("rows", r"m_n = mat\.rows\(\);", "m_n = rows; T->g_zero_exit = 0;", {"max": 1}),
           ("cols", r"mat\.cols\(\)", "cols", {"max": 1}),
           ("resize-d", r"m_main_diag\.resize\(([^;]+)\);", r"m_main_diag = VEC_NEW(\1);", {"max": 1}),
           ("resize-s", r"m_sub_diag\.resize\(([^;]+)\);", r"m_sub_diag = VEC_NEW(\1);", {"max": 1}),
           ("resize-e", r"m_evecs\.resize\(([^;]+)\);", r"m_evecs = MAT_NEW(\1); T->g_ident = 0;", {"max": 1}),
           ("ident", r"m_evecs\.setIdentity\(\);", "{ T->g_ident = 1; MAT_TOUCH(T->m_evecs); }", {"min": 1, "max": 2}),
           # max |.| over the diagonal / the sub-diagonal: Eigen's maxCoeff() requires a NON-EMPTY vector (the sub-diagonal of a 1x1 matrix is empty)
           ("maxdiag", r"mat\.diagonal\(\)\.cwiseAbs\(\)\.maxCoeff\(\)", "MAXABS_DIAG(rows, 0)", {"max": 1}),
           ("maxsubd", r"mat\.diagonal\(-1\)\.cwiseAbs\(\)\.maxCoeff\(\)", "MAXABS_DIAG(rows, 1)", {"max": 1}),
           ("zero", r"m_main_diag\.setZero\(\);", "HAVOC_VEC(m_main_diag); T->g_zero_exit = 1;", {"max": 1}),
           ("copy-d", r"m_main_diag\.noalias\(\) = mat\.diagonal\(\) / (\w+);", r"SCALING_CHECK(rows, \1); HAVOC_VEC(m_main_diag);", {"max": 1}),
           ("copy-s", r"m_sub_diag\.noalias\(\) = mat\.diagonal\(-1\) / (\w+);", r"SCALING_CHECK(rows, \1); HAVOC_VEC(m_sub_diag);", {"max": 1}),
           ("data-d", r"m_main_diag\.data\(\)", "m_main_diag", {"max": 1}), ("data-s", r"m_sub_diag\.data\(\)", "m_sub_diag", {"max": 1}),
           ("qstep", r"tridiagonal_qr_step\(diag, subdiag, start, end, m_evecs\.data\(\), m_n\);", "tridiagonal_qr_step(diag, subdiag, start, end, m_evecs.colbuf, m_n);", {"max": 1}),
           ("precision", r"Eigen::NumTraits<Scalar>::epsilon\(\)", "SCALAR_EPS", {"max": 1}),
           ("end0", r"while \(end > 0 && subdiag\[end - 1\] == Scalar\(0\)\)", "const Index verif_end0 = end; while (end > 0 && subdiag[end - 1] == Scalar(0))", {"max": 1}),
           ("rescale", r"m_main_diag \*= scale;", "HAVOC_VEC(m_main_diag);", {"max": 1})]
    zero_tail = "(!(end <= g_q && g_q < T->m_n - 1) || subdiag[g_q] == (Scalar)0)"
    loops = {
        0: "__CPROVER_assigns(end, start, iter, info, __CPROVER_object_whole(diag), __CPROVER_object_whole(subdiag)) "
           "__CPROVER_loop_invariant(0 <= end && end <= T->m_n - 1 && 0 <= start && start <= T->m_n - 1 && 0 <= iter && iter <= 30 * T->m_n && info == 0 && %s) "
           "__CPROVER_decreases(30 * T->m_n + 1 - iter + end)" % zero_tail,
        1: "__CPROVER_assigns(i, __CPROVER_object_whole(subdiag)) __CPROVER_loop_invariant(start <= i && i <= end && %s) __CPROVER_decreases(end - i)" % zero_tail,
        2: "__CPROVER_assigns(end) __CPROVER_loop_invariant(0 <= end && end <= verif_end0 && end <= T->m_n - 1 && %s) __CPROVER_decreases(end)" % zero_tail,
        3: "__CPROVER_assigns(start) __CPROVER_loop_invariant(0 <= start && start <= end - 1) __CPROVER_decreases(start)",
    }
    t, R = cgen.emit(f, "te_compute", ret_c="void", self_type="TE", self_name="T", members=mem, param_types={"mat": "Index"},
                     pre_rules=pre, loop_contracts=loops, contract=spec.frame_contract())
    t = t.replace("TE *T, Index mat", "TE *T, Index rows, Index cols")
    report["TridiagEigen::compute"] = R.fired
    h = spec.harness("h", "  TE Tv; TE *T = &Tv; T->m_n = nondet_Index(); T->m_main_diag = VEC_NEW(0); T->m_sub_diag = VEC_NEW(0); T->m_evecs = MAT_NEW(0, 0); T->m_computed = nondet_bool(); Index rows = nondet_Index(), cols = nondet_Index();", "T, rows, cols")
    g1 = Group("tridiag.compute", BASE + types + t + h, "h", enforce="te_compute", solver="cadical", defines=["SCALAR_DOUBLE"], timeout=600,
               functions=[TH + ":compute"], expect_classes=["loop_invariant_step", "tridiagonal_qr_step precondition"],
               note="nested data-dependent loops under loop contracts; tridiagonal_qr_step replaced by its frame contract")
    g2 = Group("tridiag.scaling", BASE + types + t + h, "h", enforce="te_compute", solver="cadical", defines=["SCALAR_DOUBLE", "CHECK_SCALING"], timeout=600,
               functions=[TH + ":compute"], expect_classes=["tridiag.scaling"],
               note="WEAK: same text with the normalisation obligation switched on; a refutation counts only if the native replay (scaled matrix families 1e-100 .. 1e100) reproduces it")
    g2.weak = "normalisation by max|T_ij| is the implementation's means of scale invariance, not the property itself"
    return [g1, g2]


# ------------------------------------------------------------------ UpperHessenbergSchur::upper_hessenberg_l1_norm
def l1_norm(report):
    """The scale of the Schur iteration: the zero-matrix early exit (`norm != 0`) and the deflation floor `norm * eps^2` are only right if the norm covers the
    WHOLE upper Hessenberg part - diagonal, everything above it, and the sub-diagonal.  Coverage is stated for an arbitrary cell with a ghost visit counter."""
    f = X.locate(SH, "upper_hessenberg_l1_norm", cls="UpperHessenbergSchur")
    ml = re.search(r"for \(Index (\w+) = 0; \1 < (\w+); (?:\1\+\+|\+\+\1)\)", f.body)
    if not ml:
        raise X.ExtractionBreak("upper_hessenberg_l1_norm: column loop not recognised")
    J, N = ml.group(1), ml.group(2)
    defs = r'''
Index g_r, g_c, g_cover;      /* ghost: an arbitrary cell and the number of times it entered the sum */
/* x.col(j).segment(a, len).cwiseAbs().sum() (head(len) is segment(0, len)): Eigen's block assertion + coverage of the Skolem cell */
static Scalar L1_SEG(const Mat *x, Index j, Index a, Index len)
{ __CPROVER_assert(0 <= j && j < x->cols, "Eigen index assertion: column index in range");
  __CPROVER_assert(0 <= a && 0 <= len && a + len <= x->rows, "Eigen block assertion: segment(start, n) within the column");
  if (j == g_c && a <= g_r && g_r < a + len) g_cover++;
  return NONNEG_SCALAR(); }
'''
    rules = [("braces", r"(for \(Index %s = 0; %s < %s; (?:%s\+\+|\+\+%s)\))\s*([^{};]+;)" % (J, J, N, J, J), r"\1 { \2 }", {"min": 0, "max": 1}),
             ("cols", r"\bx\.cols\(\)", "x->cols", {"min": 1}),
             ("init", r"Scalar norm\(0\);", "Scalar norm = (Scalar)0;", {"max": 1}),
             ("segment", r"x\.col\((\w+)\)\.segment\(((?:[^()]|\([^()]*\)|\((?:[^()]|\([^()]*\))*\))*)\)\.cwiseAbs\(\)\.sum\(\)",
              lambda m: "L1_SEG(x, %s, %s)" % (m.group(1), m.group(2)), {"min": 0, "max": 1}),
             ("head", r"x\.col\((\w+)\)\.head\(((?:[^()]|\([^()]*\))*)\)\.cwiseAbs\(\)\.sum\(\)", r"L1_SEG(x, \1, 0, \2)", {"min": 0, "max": 1})]
    inv = ("__CPROVER_assigns(%(J)s, norm, g_cover) __CPROVER_loop_invariant(0 <= %(J)s && %(J)s <= %(N)s && norm >= (Scalar)0 && "
           "g_cover == ((g_c < %(J)s && g_r <= g_c + 1) ? 1 : 0)) __CPROVER_decreases(%(N)s - %(J)s)") % {"J": J, "N": N}
    t, R = cgen.emit(f, "upper_hessenberg_l1_norm_real", ret_c="Scalar", static=True, param_types={"x": "const Mat *"}, pre_rules=rules, loop_contracts={0: inv})
    if R.fired.get("pre:segment", 0) + R.fired.get("pre:head", 0) != 1:
        raise X.ExtractionBreak("upper_hessenberg_l1_norm: the column sum `x.col(j).segment(0, k).cwiseAbs().sum()` not recognised")
    report["UpperHessenbergSchur::upper_hessenberg_l1_norm"] = R.fired
    h = r'''
#line 1 "harness/schur.l1_norm"
void h(void) {
  Index n = nondet_Index(); __CPROVER_assume(0 <= n && n <= NMAXS); Mat X_ = MAT_NEW(n, n);
  g_r = nondet_Index(); g_c = nondet_Index(); __CPROVER_assume(0 <= g_r && g_r < n && 0 <= g_c && g_c < n); g_cover = 0;
  Scalar r = upper_hessenberg_l1_norm_real(&X_);
  __CPROVER_assert(g_cover == ((g_r <= g_c + 1) ? 1 : 0), "l1 norm: every entry of the upper Hessenberg part (diagonal, above it, and the sub-diagonal) enters the norm exactly once, nothing below it does");
  __CPROVER_assert(r >= (Scalar)0, "l1 norm: non-negative");
  CANARY();
}
'''
    return [Group("schur.l1_norm", BASE + defs + t + h, "h", solver="cadical", defines=["SCALAR_DOUBLE"], timeout=300, functions=[SH + ":upper_hessenberg_l1_norm"],
                  expect_classes=["loop_invariant_step", "l1 norm", "Eigen block assertion"],
                  note="UNBOUNDED in n: coverage of the Hessenberg part by the norm that decides the zero-matrix exit and the deflation floor")]


# ------------------------------------------------------------------ UpperHessenbergEigen::doComputeEigenvectors
def eigenvectors_backsubst(report):
    """The back substitution that turns the quasi-triangular T into eigenvectors (port of EISPACK hqr2): every coefficient, row/column segment, tail, block
    and product in it is inside the size x size matrices for EVERY eigenvalue pattern (including NaN and unpaired imaginary parts - index safety does not rest
    on the pairing invariant), the scale `norm` covers the whole upper Hessenberg part, the loops terminate.  Values are not modelled."""
    f = X.locate(EH, "doComputeEigenvectors", cls="UpperHessenbergEigen")
    defs = r"""
typedef struct { Mat m_matT, m_eivec; Complex *m_eivalues; } HV;
Index g_r, g_c, g_cover;
static Complex nondet_Complex(void) { Complex c; c.re = nondet_Scalar(); c.im = nondet_Scalar(); return c; }
static Complex CMK(Scalar re, Scalar im) { Complex c; c.re = re; c.im = im; return c; }
static Complex CDIV(Complex a, Complex b) { (void)a; (void)b; return nondet_Complex(); }     /* value of a complex quotient: not modelled */
/* M.row(i).segment(a, len) / M.col(j).segment(a, len) / M.col(j).tail(len): Eigen's block assertions; returns the length */
static Index ROWSEG(const Mat *M, Index i, Index a, Index len)
{ __CPROVER_assert(0 <= i && i < M->rows, "Eigen index assertion: row index in range");
  __CPROVER_assert(0 <= a && 0 <= len && a + len <= M->cols, "Eigen block assertion: segment(start, n) within the row"); return len; }
static Index COLSEG(const Mat *M, Index j, Index a, Index len)
{ __CPROVER_assert(0 <= j && j < M->cols, "Eigen index assertion: column index in range");
  __CPROVER_assert(0 <= a && 0 <= len && a + len <= M->rows, "Eigen block assertion: segment(start, n) within the column"); return len; }
#define DOT_CHECK(l1, l2) __CPROVER_assert((l1) == (l2), "Eigen: dot product needs equal lengths")
"""
    def segs(b, R):
        # statement-level rewrites of the row/column segment expressions (balanced arguments)
        def seg_call(txt):
            m = re.match(r"^m_matT\.(row|col)\(((?:[^()]|\([^()]*\))*)\)\.(segment|tail)\(", txt)
            if not m:
                raise X.ExtractionBreak("doComputeEigenvectors: cannot parse segment expression %r" % txt[:80])
            pc = X.match_close(txt, m.end() - 1)
            args = [a.strip() for a in X.split_top(txt[m.end():pc])]
            kind, idx, sel = m.group(1), m.group(2), m.group(3)
            if sel == "tail":
                a, ln = "(E->m_matT.%s - (%s))" % ("rows" if kind == "col" else "cols", args[0]), args[0]
            else:
                a, ln = args
            return "%sSEG(&E->m_matT, %s, %s, %s)" % ("ROW" if kind == "row" else "COL", idx, a, ln), txt[pc + 1:]
        n = 0
        # (a) norm += m_matT.row(j).segment(a, len).cwiseAbs().sum();
        while True:
            m1 = re.search(r"(\w+) \+= (?=m_matT\.row\()", b)
            if not m1:
                break
            call, rest = seg_call(b[m1.end():])
            if not rest.startswith(".cwiseAbs().sum();"):
                raise X.ExtractionBreak("doComputeEigenvectors: norm statement not of the form `norm += row.segment(..).cwiseAbs().sum();`")
            args = call[call.index("(") + 1:-1].split(", ", 1)[1]
            new_st = "{ (void)%s; %s += NORM_ROW(&E->m_matT, %s); }" % (call, m1.group(1), args)
            old_len = m1.end() - m1.start() + (len(b) - m1.end() - len(rest)) + len(".cwiseAbs().sum();")
            old_txt = b[m1.start():m1.start() + old_len]
            b = b[:m1.start()] + new_st + "\n" * old_txt.count("\n") + b[m1.start() + old_len:]
            n += 1
        # (b) Scalar r = m_matT.row(i).segment(..).dot(m_matT.col(n).segment(..));
        while True:
            m2 = re.search(r"Scalar (\w+) = (?=m_matT\.row\()", b)
            if not m2:
                break
            c1, rest = seg_call(b[m2.end():])
            if not rest.startswith(".dot("):
                raise X.ExtractionBreak("doComputeEigenvectors: expected a dot product after the row segment")
            c2, rest2 = seg_call(rest[len(".dot("):])
            if not rest2.startswith(");"):
                raise X.ExtractionBreak("doComputeEigenvectors: dot product statement tail")
            end = len(b) - len(rest2) + 2
            old_txt = b[m2.start():end]
            b = b[:m2.start()] + "DOT_CHECK(%s, %s); Scalar %s = nondet_Scalar();" % (c1, c2, m2.group(1)) + "\n" * old_txt.count("\n") + b[end:]
            n += 1
        # (c) m_matT.col(n).tail(len) /= t;
        while True:
            m3 = re.search(r"(?<![\w.>(])(?=m_matT\.col\((?:[^()]|\([^()]*\))*\)\.tail\()", b)
            if not m3:
                break
            c1, rest = seg_call(b[m3.start():])
            mm = re.match(r"^ /= (\w+);", rest)
            if not mm:
                raise X.ExtractionBreak("doComputeEigenvectors: tail statement is not a scaling `/= t;`")
            end = len(b) - len(rest) + mm.end()
            old_txt = b[m3.start():end]
            b = b[:m3.start()] + "(void)%s; (void)%s; MAT_TOUCH(E->m_matT);" % (c1, mm.group(1)) + "\n" * old_txt.count("\n") + b[end:]
            n += 1
        R.fired["segment-statements"] = n
        if n < 5:
            raise X.ExtractionBreak("doComputeEigenvectors: only %d row/column segment statements recognised (expected the norm, three dot products, one tail scaling)" % n)
        return b

    def cplx(b, R):
        # Complex(a, b) -> CMK(a, b);  CMK(..) / CMK(..) -> CDIV(CMK(..), CMK(..))
        b = R.call_rewrite("complex-ctor", r"(?<![\w.>:])Complex(?=\()", lambda m, a: "CMK(%s)" % ", ".join(a) if len(a) == 2 else None, b)
        pos, n = 0, 0
        while True:
            k = b.find(") / CMK(", pos)
            if k < 0:
                break
            # left operand: the CMK( call that ends at k
            depth, j = 0, k
            while j >= 0:
                if b[j] == ")":
                    depth += 1
                elif b[j] == "(":
                    depth -= 1
                    if depth == 0:
                        break
                j -= 1
            if j < 3 or b[j - 3:j] != "CMK":
                raise X.ExtractionBreak("doComputeEigenvectors: complex quotient with an unexpected left operand")
            r0 = k + 4
            r1 = X.match_close(b, r0 + 3)
            b = b[:j - 3] + "CDIV(" + b[j - 3:k + 1] + ", " + b[r0:r1 + 1] + ")" + b[r1 + 1:]
            pos = j + 8
            n += 1
        R.fired["complex-quotient"] = n
        return b

    def post(b, R):
        return cplx(b, R)
    pre = [("eps", r"Eigen::NumTraits<Scalar>::epsilon\(\)", "SCALAR_EPS", {"max": 1}),
           ("scalar-inits", r"\bScalar ((?:\w+\(0\)(?:,\s*)?)+);", lambda m: "Scalar " + ", ".join("%s = (Scalar)0" % x for x in re.findall(r"(\w+)\(0\)", m.group(1))) + ";", {"min": 3}),
           ("segs", r"\A(.*)\Z", None, {})]
    # the generic rule engine applies regex rules; the statement-level segment rewrite runs as the first step of post_fn instead
    pre = pre[:2]
    rules_after = [("vec-decl", r"Vector (\w+)\((\w+)\);", r"Scalar *\1 = VEC_NEW(\2);", {"max": 1}),
                   ("backtransform", r"(\w+)\.noalias\(\) = E->m_eivec\.leftCols\(([^;]+?)\) \* COLSEG\(([^;]+)\);",
                    r"NCOLS_CHECK(E->m_eivec, \2); __CPROVER_assert((\2) == COLSEG(\3) && VEC_SIZE(\1) == E->m_eivec.rows, @Q@Eigen: product dimensions agree@Q@); HAVOC_VEC(\1);", {"max": 1}),
                   ("col-assign", r"E->m_eivec\.col\((\w+)\) = (\w+);", r"COL_CHECK(E->m_eivec, \1); __CPROVER_assert(VEC_SIZE(\2) == E->m_eivec.rows, @Q@Eigen: column assignment needs equal lengths@Q@); MAT_TOUCH(E->m_eivec);", {"max": 1}),
                   ("block", r"E->m_matT\.block\(([^;]+?)\) /= (\w+);", r"BLOCK_CHECK(E->m_matT, \1); (void)\2; MAT_TOUCH(E->m_matT);", {"max": 1}),
                   ("cols()", r"E->m_eivec\.cols\(\)", "E->m_eivec.cols", {"max": 1}),
                   ("ev-real", r"E->m_eivalues\.coeff\(([^()]+)\)\.real\(\)", r"E->m_eivalues[\1].re", {"min": 1}),
                   ("ev-imag", r"E->m_eivalues\.coeff\(([^()]+)\)\.imag\(\)", r"E->m_eivalues[\1].im", {"min": 1}),
                   ("numext-real", r"Eigen::numext::real\((\w+)\)", r"(\1).re", {"min": 1}), ("numext-imag", r"Eigen::numext::imag\((\w+)\)", r"(\1).im", {"min": 1}),
                   ("norm-cover", r"if \(norm == \(\(Scalar\)\(0\)\)\)",
                    "__CPROVER_assert(g_cover == ((g_c >= g_r - 1) ? 1 : 0), @Q@eigenvector scale: every entry of the upper Hessenberg part of T enters the norm exactly once, nothing below it does@Q@); if (norm == ((Scalar)(0)))", {"max": 1})]

    def post_all(b, R):
        b = cplx(b, R)
        b = R.call_rewrite("coeff", r"E->m_matT\.coeff(?:Ref)?(?=\()", lambda m, a: "(*MAT_ELEM(&E->m_matT, %s))" % ", ".join(a) if len(a) == 2 else None, b, min_fires=20)
        return b
    import copy
    f2 = copy.copy(f)
    Rtmp = X.Rules()
    f2.body = segs(f.body, Rtmp)
    # the backtransformation statement keeps a column segment as an operand: rewrite it to the COLSEG form before the generic rules
    f2.body = re.sub(r"m_matT\.col\((\w+)\)\.segment\(((?:[^()]|\([^()]*\))*)\)", r"COLSEG(&E->m_matT, \1, \2)", f2.body)
    loops = {0: "__CPROVER_assigns(j, norm, g_cover) __CPROVER_loop_invariant(0 <= j && j <= size && g_cover == ((g_r < j && g_c >= g_r - 1) ? 1 : 0)) __CPROVER_decreases(size - j)",
             1: "__CPROVER_assigns(n, E->m_matT.cell) __CPROVER_loop_invariant(-1 <= n && n <= size - 1) __CPROVER_decreases(n + 1)",
             2: "__CPROVER_assigns(i, l, lastr, lastw, E->m_matT.cell) __CPROVER_loop_invariant(-1 <= i && i <= n - 1 && 0 <= l && l <= n) __CPROVER_decreases(i + 1)",
             3: "__CPROVER_assigns(i, l, lastra, lastsa, lastw, E->m_matT.cell) __CPROVER_loop_invariant(-1 <= i && i <= n - 2 && 0 <= l && l <= n) __CPROVER_decreases(i + 1)",
             4: "__CPROVER_assigns(j, E->m_eivec.cell, __CPROVER_object_whole(m_tmp)) __CPROVER_loop_invariant(-1 <= j && j <= size - 1) __CPROVER_decreases(j + 1)"}
    t, R = cgen.emit(f2, "doComputeEigenvectors", ret_c="void", self_type="HV", self_name="E", members=["m_matT", "m_eivec", "m_eivalues"],
                     pre_rules=pre, extra_rules=rules_after, post_fn=post_all, loop_contracts=loops,
                     contract="__CPROVER_assigns(E->m_matT.cell, E->m_eivec.cell, g_cover)")
    R.fired.update(Rtmp.fired)
    report["UpperHessenbergEigen::doComputeEigenvectors"] = R.fired
    norm_row = r"""
/* |row i| summed over the segment [a, a + len): coverage of the Skolem cell */
static Scalar NORM_ROW(const Mat *M, Index i, Index a, Index len) { (void)M; if (i == g_r && a <= g_c && g_c < a + len) g_cover++; return NONNEG_SCALAR(); }
"""
    h = r"""
#line 1 "harness/hesseigen.backsubst"
void h(void) {
  HV Ev; HV *E = &Ev; Index n = nondet_Index(); __CPROVER_assume(0 <= n && n <= NMAXS);
  E->m_matT = MAT_NEW(n, n); E->m_eivec = MAT_NEW(n, n); E->m_eivalues = malloc(n * sizeof(Complex)); __CPROVER_assume(E->m_eivalues != NULL);
  g_r = nondet_Index(); g_c = nondet_Index(); __CPROVER_assume(0 <= g_r && g_r < n && 0 <= g_c && g_c < n); g_cover = 0;
  doComputeEigenvectors(E);
  __CPROVER_assert(E->m_matT.rows == n && E->m_matT.cols == n && E->m_eivec.rows == n && E->m_eivec.cols == n, "back substitution: shapes unchanged");
  CANARY();
}
"""
    return [Group("hesseigen.backsubst", BASE + defs + norm_row + t + h, "h", enforce="doComputeEigenvectors", solver="cadical", defines=["SCALAR_FLOAT"], timeout=900,
                  functions=[EH + ":doComputeEigenvectors"], expect_classes=["loop_invariant_step", "Eigen index assertion", "Eigen block assertion", "eigenvector scale"],
                  note="UNBOUNDED in n, for every eigenvalue pattern: index safety and termination of the eigenvector back substitution; coverage of its scale")]


# ------------------------------------------------------------------ UpperHessenbergSchur::compute
def schur(report):
    f = X.locate(SH, "compute", cls="UpperHessenbergSchur")
    types = r'''
typedef struct { Index m_n; Mat m_T, m_U; _Bool m_computed; } SC;
static Scalar upper_hessenberg_l1_norm(Mat *T) { (void)T; return NONNEG_SCALAR(); }
/* contracts of the Francis-step helpers (bodies: bounded kernels) */
static Index find_small_subdiag(SC *S, Index iu, Scalar near_0)
{ __CPROVER_assert(0 <= iu && iu < S->m_n, "find_small_subdiag precondition: 0 <= iu < n"); Index r = nondet_Index(); __CPROVER_assume(0 <= r && r <= iu); return r; }
static void split_off_two_rows(SC *S, Index iu, Scalar *ex_shift) { __CPROVER_assert(1 <= iu && iu < S->m_n, "split_off_two_rows precondition: 1 <= iu < n"); S->m_T.cell = nondet_Scalar(); }
static void compute_shift(SC *S, Index iu, Index iter, Scalar *ex_shift, Scalar *shift_info)
{ __CPROVER_assert(2 <= iu && iu < S->m_n, "compute_shift precondition: 2 <= iu < n (reads T(iu-1, iu-2))"); *ex_shift = nondet_Scalar(); }
static void init_francis_qr_step(SC *S, Index il, Index iu, Scalar *shift_info, Index *im, Scalar *first)
{ __CPROVER_assert(0 <= il && il <= iu - 2 && iu < S->m_n, "init_francis_qr_step precondition: il <= iu - 2"); Index r = nondet_Index(); __CPROVER_assume(il <= r && r <= iu - 2); *im = r; }
static void perform_francis_qr_step(SC *S, Index il, Index im, Index iu, Scalar *first, Scalar near_0)
{ __CPROVER_assert(0 <= il && il <= im && im <= iu - 2 && iu < S->m_n, "perform_francis_qr_step precondition: il <= im <= iu - 2"); S->m_T.cell = nondet_Scalar(); }
'''
    spec = FSpec("sc_compute", "void", [("SC *", "S"), ("Index", "rows"), ("Index", "cols")],
                 pre=[("shape", "0 <= rows && rows <= NMAXS && 0 <= cols && cols <= NMAXS"), ("fresh object", "!S->m_computed")],
                 post=[("normal exit marks the object computed, T and U are n x n", "S->m_computed && S->m_n == rows && S->m_T.rows == rows && S->m_T.cols == rows && S->m_U.rows == rows && S->m_U.cols == rows"),
                       ("normal exit only when every row has been split off (active window empty) or the matrix is zero", "g_all_reduced")],
                 exc_post=[("non-square -> invalid_argument; iteration limit -> runtime_error", "(verif_exc == EXC_invalid_argument && rows != cols) || verif_exc == EXC_runtime_error"),
                           ("no result is marked valid when the decomposition failed", "!S->m_computed")],
                 frame=["S->m_n", "S->m_T", "S->m_U", "S->m_computed", "g_all_reduced"], may_throw=[1, 2], real=SH + ":compute")
    pre = [("rows", r"m_n = mat\.rows\(\);", "m_n = rows; g_all_reduced = 0;", {"max": 1}),
           ("rowscols", r"mat\.rows\(\) != mat\.cols\(\)", "rows != cols", {"max": 1}),
           ("resize-T", r"m_T\.resize\(([^;]+)\);", r"m_T = MAT_NEW(\1);", {"max": 1}),
           ("resize-U", r"m_U\.resize\(([^;]+)\);", r"m_U = MAT_NEW(\1);", {"max": 1}),
           ("copy", r"m_T\.noalias\(\) = mat;", "MAT_TOUCH(S->m_T);", {"max": 1}), ("ident", r"m_U\.setIdentity\(\);", "MAT_TOUCH(S->m_U);", {"max": 1}),
           ("exshift", r"Scalar ex_shift\(0\);", "Scalar ex_shift = (Scalar)0;", {"max": 1}),
           ("norm", r"upper_hessenberg_l1_norm\(m_T\)", "upper_hessenberg_l1_norm(&S->m_T)", {"max": 1}),
           ("eps", r"Eigen::NumTraits<Scalar>::epsilon\(\)", "SCALAR_EPS", {"max": 1}),
           ("maxi", r"Eigen::numext::maxi<Scalar>\(", "VMAX(", {"max": 1}),
           ("fss", r"find_small_subdiag\(iu, near_0\)", "find_small_subdiag(S, iu, near_0)", {"max": 1}),
           ("diag", r"m_T\.coeffRef\(iu, iu\) \+= ex_shift;", "(void)MAT_ELEM(&S->m_T, iu, iu);", {"max": 1}),
           ("sub", r"m_T\.coeffRef\(iu, iu - 1\) = Scalar\(0\);", "(void)MAT_ELEM(&S->m_T, iu, iu - 1);", {"max": 1}),
           ("split", r"split_off_two_rows\(iu, ex_shift\);", "split_off_two_rows(S, iu, &ex_shift);", {"max": 1}),
           ("vec3", r"Vector3s first_householder_vec = Vector3s::Zero\(\), shift_info;", "Scalar first_householder_vec[3] = {0, 0, 0}, shift_info[3];", {"max": 1}),
           ("cshift", r"compute_shift\((?:\w+, )*iu, iter, ex_shift, shift_info\);", "compute_shift(S, iu, iter, &ex_shift, shift_info);", {"max": 1}),
           ("init", r"init_francis_qr_step\(il, iu, shift_info, im, first_householder_vec\);", "init_francis_qr_step(S, il, iu, shift_info, &im, first_householder_vec);", {"max": 1}),
           ("perform", r"perform_francis_qr_step\(il, im, iu, first_householder_vec, near_0\);", "perform_francis_qr_step(S, il, im, iu, first_householder_vec, near_0);", {"max": 1}),
           ("done", r"m_computed = true;", "g_all_reduced = (norm == (Scalar)0) || (iu < 0); m_computed = true;", {"max": 1})]
    loops = {0: "__CPROVER_assigns(iu, iter, total_iter, ex_shift, S->m_T.cell) "
                "__CPROVER_loop_invariant(-1 <= iu && iu <= S->m_n - 1 && 0 <= iter && 0 <= total_iter && total_iter <= max_iter && iter <= total_iter) "
                "__CPROVER_decreases(3 * (max_iter - total_iter) + iu + 2)"}
    t, R = cgen.emit(f, "sc_compute", ret_c="void", self_type="SC", self_name="S", members=["m_n", "m_T", "m_U", "m_computed"], param_types={"mat": "Index"},
                     pre_rules=pre, loop_contracts=loops, contract=spec.frame_contract())
    t = t.replace("SC *S, Index mat", "SC *S, Index rows, Index cols")
    report["UpperHessenbergSchur::compute"] = R.fired
    h = spec.harness("h", "  SC Sv; SC *S = &Sv; S->m_n = nondet_Index(); S->m_T = MAT_NEW(0, 0); S->m_U = MAT_NEW(0, 0); S->m_computed = nondet_bool(); Index rows = nondet_Index(), cols = nondet_Index();", "S, rows, cols")
    return Group("schur.compute", BASE + "_Bool g_all_reduced;\n" + types + t + h, "h", enforce="sc_compute", solver="cadical", defines=["SCALAR_DOUBLE"], timeout=600,
                 functions=[SH + ":compute"], expect_classes=["loop_invariant_step", "compute_shift precondition"],
                 note="Francis-step helpers replaced by their index contracts; termination measure over the iteration cap")


# ------------------------------------------------------------------ UpperHessenbergEigen: eigenvalue extraction
def hesseigen(report):
    f = X.locate(EH, "compute", cls="UpperHessenbergEigen")
    types = r'''
typedef struct { Index m_n; Mat m_matT, m_eivec; Complex *m_eivalues; _Bool m_computed; Index *kind; /* ghost: 0 real, 1 first of a pair, 2 second */ } HE;
/* T(i, j) of the real Schur form: an unknown but FIXED matrix (uninterpreted function of the indices) */
Scalar __CPROVER_uninterpreted_Tentry(Index i, Index j);
static Scalar TCOEFF(HE *E, Index i, Index j)
{ __CPROVER_assert(0 <= i && i < E->m_matT.rows && 0 <= j && j < E->m_matT.cols, "Eigen index assertion: T.coeff(i, j) in range"); return __CPROVER_uninterpreted_Tentry(i, j); }
static Complex CMAKE(Scalar re, Scalar im) { Complex z; z.re = re; z.im = im; return z; }
static Complex CREAL(Scalar re) { Complex z; z.re = re; z.im = (Scalar)0; return z; }
/* coefficient-wise product of a complex vector with a real scalar; multiplication as an uninterpreted function with the IEEE
 * sign-symmetry (-a)*s == -(a*s) instantiated where used (lemma group `lemma.mul-sign-symmetry`) */
Scalar __CPROVER_uninterpreted_fmul(Scalar a, Scalar b);
static Scalar FMULS(Scalar a, Scalar s)
{ Scalar r = __CPROVER_uninterpreted_fmul(a, s); Scalar rn = __CPROVER_uninterpreted_fmul(-a, s);
  __CPROVER_assume((r != r) ? (rn != rn) : (rn == -r && FSIGNB(rn) != FSIGNB(r)));      /* instance of lemma.mul-sign-symmetry */
  __CPROVER_assume(!(a != a) || (r != r));                                               /* NaN * s is NaN */
  __CPROVER_assume(!(a == (Scalar)0 && s == s && FABS(s) <= SCALAR_MAX) || r == (Scalar)0);   /* 0 * finite is (signed) zero */
  __CPROVER_assume(!(a >= (Scalar)0 && s >= (Scalar)0) || r >= (Scalar)0 || r != r);       /* product of non-negatives is non-negative (or NaN) */
  return r; }
#define BITEQ(x, y) (((x) != (x)) ? ((y) != (y)) : ((x) == (y) && FSIGNB(x) == FSIGNB(y)))      /* same value incl. zero sign; NaN matches NaN */
#define CONJ_EXACT(a, b) (BITEQ((a).re, (b).re) && (((a).im != (a).im) ? ((b).im != (b).im) : ((a).im == -(b).im && FSIGNB((a).im) != FSIGNB((b).im))))
#define PAIR_AT(E, e) ( !(0 <= (e) && (e) < (E)->m_n) || ( \
   ((E)->kind[e] == 0 ? ((E)->m_eivalues[e].im == (Scalar)0) : \
    ((E)->kind[e] == 1 ? ((e) + 1 < (E)->m_n && (E)->kind[(e) + 1] == 2 && CONJ_EXACT((E)->m_eivalues[e], (E)->m_eivalues[(e) + 1]) && ((E)->m_eivalues[e].im >= (Scalar)0 || (E)->m_eivalues[e].im != (E)->m_eivalues[e].im)) : \
     ((E)->kind[e] == 2 && (e) >= 1 && (E)->kind[(e) - 1] == 1))) ) )
'''
    spec = FSpec("he_values", "void", [("HE *", "E")],
                 pre=[("real Schur form and workspace are n x n", "1 <= E->m_n && E->m_n <= NMAXS && E->m_matT.rows == E->m_n && E->m_matT.cols == E->m_n && VEC_SIZE(E->kind) == E->m_n"), ("Skolem", "0 <= g_q && g_q <= NMAXS")],
                 post=[("every eigenvalue is either real with an exactly zero imaginary part, or one of two ADJACENT EXACT conjugates with the non-negative imaginary part first",
                        "PAIR_AT(E, g_q)"),
                       ("exactly n eigenvalues are stored", "__CPROVER_OBJECT_SIZE(E->m_eivalues) == E->m_n * sizeof(Complex)")],
                 frame=["E->m_eivalues", "E->m_computed"], frame_objs=["E->kind"], real=EH + ":compute (eigenvalue extraction + scaling)")
    # cut the eigenvalue loop and the scaling statement out of compute()
    body = f.body
    a = body.index("const Scalar scale")
    b = body.index("doComputeEigenvectors();")
    c = body.index("m_eivalues *= scale;")
    if not (a < b < c):
        raise X.ExtractionBreak("UpperHessenbergEigen::compute: eigenvalue loop / eigenvector step / scaling not in the expected order")
    import copy
    g = copy.copy(f)
    g.body = "\n" * body[:a].count("\n") + body[a:b] + "\n" * body[b:c].count("\n") + body[c:c + len("m_eivalues *= scale;")] + "\n"
    pre = [("scale", r"const Scalar scale = mat\.cwiseAbs\(\)\.maxCoeff\(\);", "const Scalar scale = NONNEG_SCALAR(); __CPROVER_assume(scale <= SCALAR_MAX); /* max |H_ij| of a finite matrix: >= 0, and 0 exactly for the zero matrix */", {"max": 1}),
           ("divide", r"m_schur\.compute\(mat / scale\);", "__CPROVER_assert(scale > (Scalar)0, @Q@hesseigen: the matrix is divided by max|H_ij| only when that is positive (the zero matrix must not produce NaN)@Q@);", {"max": 1}),
           ("swaps", r"m_schur\.swap_[TU]\(m_(?:matT|eivec)\);", "", {"min": 2, "max": 2}),
           # zero-matrix early exit (if present): shapes only; all eigenvalues are the real number zero
           ("zero-mats", r"m_(?:matT|eivec)\.(?:resize\(m_n, m_n\)|setZero\(\)|setIdentity\(\));", "", {"min": 0, "max": 4}),
           ("zero-ev", r"m_eivalues\.setZero\(\);", "{ __CPROVER_havoc_object(E->m_eivalues); if (0 <= g_q && g_q < E->m_n) { E->m_eivalues[g_q] = CREAL((Scalar)0); E->kind[g_q] = 0; } if (0 <= g_q + 1 && g_q + 1 < E->m_n) E->kind[g_q + 1] = 0; if (1 <= g_q && g_q - 1 < E->m_n) E->kind[g_q - 1] = 0; }", {"min": 0, "max": 1}),
           ("resize", r"m_eivalues\.resize\(m_n\);", "E->m_eivalues = malloc(E->m_n * sizeof(Complex)); __CPROVER_assume(E->m_eivalues != NULL);", {"min": 1, "max": 2}),
           ("T", r"m_matT\.coeff\(", "TCOEFF(E, ", {"min": 8}),
           ("real-ev", r"m_eivalues\.coeffRef\(i\) = TCOEFF\(E, i, i\);", "E->m_eivalues[i] = CREAL(TCOEFF(E, i, i)); E->kind[i] = 0;", {"max": 1}),
           ("pair-1", r"m_eivalues\.coeffRef\(i\) = Complex\(([^;]+), z\);", r"E->m_eivalues[i] = CMAKE(\1, z); E->kind[i] = 1;", {"max": 1}),
           ("pair-2", r"m_eivalues\.coeffRef\(i \+ 1\) = Complex\(([^;]+), -z\);", r"E->m_eivalues[i + 1] = CMAKE(\1, -z); E->kind[i + 1] = 2;", {"max": 1}),
           ("scale", r"m_eivalues \*= scale;",
            "{ /* coefficient-wise `complex *= real`, rendered at the Skolem positions g_q-1, g_q, g_q+1 (all other entries havocked) */ "
            "Complex a_ = (1 <= g_q && g_q - 1 < E->m_n) ? E->m_eivalues[g_q - 1] : CREAL(0), b_ = (0 <= g_q && g_q < E->m_n) ? E->m_eivalues[g_q] : CREAL(0), c_ = (0 <= g_q + 1 && g_q + 1 < E->m_n) ? E->m_eivalues[g_q + 1] : CREAL(0); "
            "__CPROVER_havoc_object(E->m_eivalues); "
            "if (1 <= g_q && g_q - 1 < E->m_n) E->m_eivalues[g_q - 1] = CMAKE(FMULS(a_.re, scale), FMULS(a_.im, scale)); "
            "if (0 <= g_q && g_q < E->m_n) E->m_eivalues[g_q] = CMAKE(FMULS(b_.re, scale), FMULS(b_.im, scale)); "
            "if (0 <= g_q + 1 && g_q + 1 < E->m_n) E->m_eivalues[g_q + 1] = CMAKE(FMULS(c_.re, scale), FMULS(c_.im, scale)); }", {"max": 1})]
    loops = {0: "__CPROVER_assigns(i, __CPROVER_object_whole(E->m_eivalues), __CPROVER_object_whole(E->kind)) "
                "__CPROVER_loop_invariant(0 <= i && i <= E->m_n && (!(0 <= g_q && g_q < i) || PAIR_AT_PRE(E, g_q)) && (!(0 <= g_q && g_q < i && g_q + 1 == i) || E->kind[g_q] != 1)) __CPROVER_decreases(E->m_n - i)",
             }
    t, R = cgen.emit(g, "he_values", ret_c="void", self_type="HE", self_name="E", members=["m_n", "m_computed"], param_types={"mat": "Index"},
                     pre_rules=pre, loop_contracts=loops, contract=spec.frame_contract())
    t = t.replace("HE *E, Index mat", "HE *E")
    report["UpperHessenbergEigen::compute(eigenvalue part)"] = R.fired
    return types, t, spec


HE_INV = r'''
/* before scaling: same shape, the unscaled pair (x, z), (x, -z) */
#define PAIR_AT_PRE(E, e) PAIR_AT(E, e)
/* during the scaling loop at position e_: entries < e_ scaled, others not; the pair relation holds in every mixed state because the
 * two members are scaled by the same s and (-a)*s == -(a*s) */
#define SCALED_INV(E, q, e_) ( !(0 <= (q) && (q) < (E)->m_n) || ( \
   ((E)->kind[q] == 0 ? (((q) < (e_)) ? 1 : ((E)->m_eivalues[q].im == (Scalar)0)) : \
    ((E)->kind[q] == 1 ? ((q) + 1 < (E)->m_n && (E)->kind[(q) + 1] == 2 && (((q) + 1 < (e_) || (q) >= (e_)) ? CONJ_EXACT((E)->m_eivalues[q], (E)->m_eivalues[(q) + 1]) : \
        (BITEQ((E)->m_eivalues[q].re, __CPROVER_uninterpreted_fmul((E)->m_eivalues[(q) + 1].re, scale)) && BITEQ((E)->m_eivalues[q].im, __CPROVER_uninterpreted_fmul(-(E)->m_eivalues[(q) + 1].im, scale))))) : \
     ((E)->kind[q] == 2 && (q) >= 1 && (E)->kind[(q) - 1] == 1))) ) )
'''


# ------------------------------------------------------------------ Schur helpers: the index contracts the driver assumes
def schur_helpers(report):
    types = r'''
typedef struct { Index m_n; Mat m_T, m_U; _Bool m_computed; } SC;
typedef struct { Scalar m_c, m_s; } Jacobi;
#define T_(i, j) (*MAT_ELEM(&S->m_T, (i), (j)))
'''
    mem = ["m_n", "m_T", "m_U", "m_computed"]
    inv = [("T and U are n x n", "1 <= S->m_n && S->m_n <= NMAXS && S->m_T.rows == S->m_n && S->m_T.cols == S->m_n && S->m_U.rows == S->m_n && S->m_U.cols == S->m_n")]
    coeff = ("Tcoeff", r"\bm_T\.coeff(?:Ref)?\(", "T_(", {"min": 1})
    epsr = ("eps", r"Eigen::NumTraits<Scalar>::epsilon\(\)", "SCALAR_EPS", {"min": 0})
    out = []
    alloc = "  SC Sv; SC *S = &Sv; S->m_n = nondet_Index(); __CPROVER_assume(0 <= S->m_n && S->m_n <= NMAXS); S->m_T = MAT_NEW(S->m_n, S->m_n); S->m_U = MAT_NEW(S->m_n, S->m_n); S->m_computed = 0;\n"
    # find_small_subdiag
    f = X.locate(SH, "find_small_subdiag", cls="UpperHessenbergSchur")
    sp = FSpec("find_small_subdiag", "Index", [("SC *", "S"), ("Index", "iu"), ("Scalar", "near_0")], pre=inv + [("0 <= iu < n", "0 <= iu && iu < S->m_n")],
               post=[("returns a row index of the active window: 0 <= il <= iu", "0 <= ret && ret <= iu")], frame=["S->m_T.cell"], real=SH + ":find_small_subdiag")
    t, R = cgen.emit(f, "find_small_subdiag", ret_c="Index", self_type="SC", self_name="S", members=mem, param_types={"near_0": "Scalar"},
                     pre_rules=[coeff, epsr, ("maxi", r"Eigen::numext::maxi<Scalar>\(", "VMAX(", {"max": 1})],
                     loop_contracts={0: "__CPROVER_assigns(res, S->m_T.cell) __CPROVER_loop_invariant(0 <= res && res <= iu) __CPROVER_decreases(res)"}, contract=sp.frame_contract())
    report["UpperHessenbergSchur::find_small_subdiag"] = R.fired
    out.append(("schur.find_small_subdiag", types + t + sp.harness("h", alloc + "  Index iu = nondet_Index(); Scalar near_0 = nondet_Scalar();", "S, iu, near_0"), "find_small_subdiag", ["loop_invariant_step", "Eigen index assertion"]))
    # split_off_two_rows
    f = X.locate(SH, "split_off_two_rows", cls="UpperHessenbergSchur")
    sp = FSpec("split_off_two_rows", "void", [("SC *", "S"), ("Index", "iu"), ("Scalar", "ex_shift")], pre=inv + [("1 <= iu < n", "1 <= iu && iu < S->m_n")], post=[],
               frame=["S->m_T.cell", "S->m_U.cell"], real=SH + ":split_off_two_rows")
    t, R = cgen.emit(f, "split_off_two_rows", ret_c="void", self_type="SC", self_name="S", members=mem, param_types={"ex_shift": "Scalar"},
                     pre_rules=[coeff, ("rot", r"Eigen::JacobiRotation<Scalar> rot;", "Jacobi rot; rot.m_c = nondet_Scalar(); rot.m_s = nondet_Scalar();", {"max": 1}),
                                ("givens", r"rot\.makeGivens\(([^;]+)\);", r"(void)(T_(iu, iu - 1));", {"max": 1}),
                                ("left", r"m_T\.rightCols\(([^;()]+)\)\.applyOnTheLeft\(([^;,]+), ([^;,]+), rot\.adjoint\(\)\);",
                                 r"NCOLS_CHECK(S->m_T, \1); __CPROVER_assert(0 <= (\2) && (\2) < S->m_T.rows && 0 <= (\3) && (\3) < S->m_T.rows, @Q@Eigen: applyOnTheLeft(p, q) row indices in range@Q@); MAT_TOUCH(S->m_T);", {"max": 1}),
                                ("right", r"m_T\.topRows\(([^;()]+)\)\.applyOnTheRight\(([^;,]+), ([^;,]+), rot\);",
                                 r"__CPROVER_assert(0 <= (\1) && (\1) <= S->m_T.rows, @Q@Eigen block assertion: topRows(n) within the matrix@Q@); __CPROVER_assert(0 <= (\2) && (\2) < S->m_T.cols && 0 <= (\3) && (\3) < S->m_T.cols, @Q@Eigen: applyOnTheRight(p, q) column indices in range@Q@); MAT_TOUCH(S->m_T);", {"max": 1}),
                                ("rightU", r"m_U\.applyOnTheRight\(([^;,]+), ([^;,]+), rot\);",
                                 r"__CPROVER_assert(0 <= (\1) && (\1) < S->m_U.cols && 0 <= (\2) && (\2) < S->m_U.cols, @Q@Eigen: applyOnTheRight(p, q) column indices in range@Q@); MAT_TOUCH(S->m_U);", {"max": 1})],
                     contract=sp.frame_contract())
    report["UpperHessenbergSchur::split_off_two_rows"] = R.fired
    out.append(("schur.split_off_two_rows", types + t + sp.harness("h", alloc + "  Index iu = nondet_Index(); Scalar ex_shift = nondet_Scalar();", "S, iu, ex_shift"), "split_off_two_rows", ["Eigen index assertion", "applyOnThe"]))
    # compute_shift
    f = X.locate(SH, "compute_shift", cls="UpperHessenbergSchur")
    # window parameters added in front of iu (e.g. the lower end il of the active window): accepted, arbitrary in 0..iu; the group is then WEAK
    pnames = [a.split()[-1].lstrip("&") for a in X.split_top(f.params)]
    if pnames[-4:] != ["iu", "iter", "ex_shift", "shift_info"] or any(not re.match(r"^\s*(?:const\s+)?Index\s+\w+$", a) for a in X.split_top(f.params)[:-4]):
        raise X.ExtractionBreak("compute_shift: parameter list changed: %r" % f.params)
    cs_extra = pnames[:-4]
    sp = FSpec("compute_shift", "void", [("SC *", "S")] + [("Index", e) for e in cs_extra] + [("Index", "iu"), ("Index", "iter"), ("Scalar *", "ex_shift"), ("Scalar *", "shift_info")],
               pre=inv + [("2 <= iu < n (the window has at least three rows: T(iu-1, iu-2) is read)", "2 <= iu && iu < S->m_n"), ("three-entry shift vector", "VEC_SIZE(shift_info) == 3"), ("Skolem", "0 <= g_q && g_q <= NMAXS")],
               post=[("an exceptional shift is subtracted from EVERY diagonal entry of rows 0..iu (the whole leading block), or from none",
                      "g_shifted_n == 0 || g_shifted_n == iu + 1")],
               frame=["S->m_T.cell", "*ex_shift", "g_shifted_n"], frame_objs=["shift_info"], real=SH + ":compute_shift")
    t, R = cgen.emit(f, "compute_shift", ret_c="void", self_type="SC", self_name="S", members=mem, param_types={"ex_shift": "REF", "shift_info": "Scalar *"},
                     pre_rules=[("diag-sub", r"m_T\.coeffRef\(i, i\) -= ([^;]+);", r"{ T_(i, i) -= \1; g_shifted_n++; }", {"min": 0, "max": 2}),
                                # the same update written as an Eigen expression over the leading diagonal entries
                                ("diag-sub-eigen", r"m_T\.diagonal\(\)\.head\(([^;()]+)\)(?:\.array\(\))? -= ([^;]+);",
                                 r"{ __CPROVER_assert(0 <= (\1) && (\1) <= S->m_T.rows, @Q@Eigen block assertion: diagonal().head(n) within the diagonal@Q@); g_shifted_n += (\1); MAT_TOUCH(S->m_T); }", {"min": 0, "max": 2}),
                                ("diag-sub-segment", r"m_T\.diagonal\(\)\.segment\(([^;()]+), ([^;()]+)\)(?:\.array\(\))? -= ([^;]+);",
                                 r"{ __CPROVER_assert(0 <= (\1) && 0 <= (\2) && (\1) + (\2) <= S->m_T.rows, @Q@Eigen block assertion: diagonal().segment(i, n) within the diagonal@Q@); "
                                 r"__CPROVER_assert((\1) == 0, @Q@an exceptional shift is subtracted from EVERY diagonal entry of rows 0..iu: the update starts at row 0@Q@); g_shifted_n += (\2); MAT_TOUCH(S->m_T); }", {"min": 0, "max": 2}), coeff,
                                ("si", r"shift_info\.coeff(?:Ref)?\((\d)\)", r"shift_info[\1]", {"min": 6}),
                                ("setc", r"shift_info\.setConstant\(([^;]+)\);", r"shift_info[0] = (\1); shift_info[1] = (\1); shift_info[2] = (\1);", {"max": 1})],
                     loop_contracts={k: v for k, v in {0: "__CPROVER_assigns(i, S->m_T.cell, g_shifted_n) __CPROVER_loop_invariant(0 <= i && i <= iu + 1 && g_shifted_n == i) __CPROVER_decreases(iu + 1 - i)",
                                     1: "__CPROVER_assigns(i, S->m_T.cell, g_shifted_n) __CPROVER_loop_invariant(0 <= i && i <= iu + 1 && g_shifted_n == base_n + i) __CPROVER_decreases(iu + 1 - i)"}.items()
                                     if k < len(re.findall(r"\bfor\s*\(", f.body))},
                     contract=sp.frame_contract(["iter != 10 || 1"]), pre_body=" g_shifted_n = 0;")
    n_upd = R.fired.get("pre:diag-sub", 0) + R.fired.get("pre:diag-sub-eigen", 0) + R.fired.get("pre:diag-sub-segment", 0)
    if n_upd != 2:
        raise X.ExtractionBreak("compute_shift: expected two exceptional-shift updates of the diagonal, found %d" % n_upd)
    t = t.replace("if (iter == 30)", "const Index base_n = g_shifted_n; if (iter == 30)")
    report["UpperHessenbergSchur::compute_shift"] = R.fired
    out.append(("schur.compute_shift", "Index g_shifted_n;\n" + types + t + sp.harness("h", alloc + "  Index iu = nondet_Index(), iter = nondet_Index(); Scalar ex = nondet_Scalar(); Scalar *ex_shift = &ex; Scalar *shift_info = VEC_NEW(3);" +
                                                                              "".join(" Index %s = nondet_Index();" % e for e in cs_extra),
                                                                              "S, " + "".join(e + ", " for e in cs_extra) + "iu, iter, ex_shift, shift_info",
                                                                              pre_assume=["iter != 10 || iter != 30"] + ["0 <= %s && %s <= iu" % (e, e) for e in cs_extra]), "compute_shift", ["Eigen index assertion", "exceptional shift"]))
    cs_weak = ("compute_shift has extra window parameter(s) %s, taken as arbitrary in 0..iu: a refutation counts only if it replays on the real code" % ", ".join(cs_extra)) if cs_extra else None
    # init_francis_qr_step
    f = X.locate(SH, "init_francis_qr_step", cls="UpperHessenbergSchur")
    sp = FSpec("init_francis_qr_step", "void", [("SC *", "S"), ("Index", "il"), ("Index", "iu"), ("const Scalar *", "shift_info"), ("Index *", "im"), ("Scalar *", "first_householder_vec")],
               pre=inv + [("0 <= il <= iu - 2, iu < n", "2 <= iu && iu < S->m_n && 0 <= il && il <= iu - 2"), ("three-entry vectors", "VEC_SIZE(shift_info) == 3 && VEC_SIZE(first_householder_vec) == 3")],
               post=[("the Francis step starts inside the window: il <= im <= iu - 2", "il <= (*im) && (*im) <= iu - 2")],
               frame=["S->m_T.cell", "*im"], frame_objs=["first_householder_vec"], real=SH + ":init_francis_qr_step")
    t, R = cgen.emit(f, "init_francis_qr_step", ret_c="void", self_type="SC", self_name="S", members=mem,
                     param_types={"shift_info": "const Scalar *", "im": "REF", "first_householder_vec": "Scalar *"},
                     pre_rules=[coeff, epsr, ("alias", r"Vector3s& v = first_householder_vec;", "Scalar *v = first_householder_vec;", {"max": 1}),
                                ("si", r"shift_info\.coeff\((\d)\)", r"shift_info[\1]", {"min": 3}), ("v", r"\bv\.coeff(?:Ref)?\((\d)\)", r"v[\1]", {"min": 5})],
                     loop_contracts={0: "__CPROVER_assigns(*im, S->m_T.cell, __CPROVER_object_whole(first_householder_vec)) __CPROVER_loop_invariant(il <= (*im) && (*im) <= iu - 2) __CPROVER_decreases((*im) - il + 1)"},
                     contract=sp.frame_contract())
    report["UpperHessenbergSchur::init_francis_qr_step"] = R.fired
    out.append(("schur.init_francis_qr_step", types + t + sp.harness("h", alloc + "  Index il = nondet_Index(), iu = nondet_Index(); const Scalar *shift_info = VEC_NEW(3); Index imv = nondet_Index(); Index *im = &imv; Scalar *first_householder_vec = VEC_NEW(3);",
                                                                     "S, il, iu, shift_info, im, first_householder_vec"), "init_francis_qr_step", ["loop_invariant_step", "Eigen index assertion"]))
    # perform_francis_qr_step: the bulge chase.  The three Householder kernels are replaced by their contracts in the logical
    # n x n column-major model (their bodies: schur.householder_* groups); block / coefficient selectors keep their Eigen index assertions.
    f = X.locate(SH, "perform_francis_qr_step", cls="UpperHessenbergSchur")
    sp = FSpec("perform_francis_qr_step", "void", [("SC *", "S"), ("Index", "il"), ("Index", "im"), ("Index", "iu"), ("const Scalar *", "first_householder_vec"), ("Scalar", "near_0")],
               pre=inv + [("0 <= il <= im <= iu - 2, iu < n (result of init_francis_qr_step)", "2 <= iu && iu < S->m_n && 0 <= il && il <= im && im <= iu - 2"),
                          ("three-entry vector", "VEC_SIZE(first_householder_vec) == 3")],
               post=[], frame=["S->m_T.cell", "S->m_U.cell"], real=SH + ":perform_francis_qr_step")
    hh = r'''
/* contracts of the raw-pointer Householder kernels, stated on (matrix, first row, first column): the pointer passed is &M(r0, c0) and the stride is M.rows */
static void HH_LEFT(Mat *M, Index r0, Index c0, Index ncol, Index stride)
{ __CPROVER_assert(stride == M->rows && 0 <= r0 && r0 + 3 <= M->rows && 0 <= c0 && 0 <= ncol && c0 + ncol <= M->cols,
                   "apply_householder_left precondition: rows r0..r0+2 and columns c0..c0+ncol-1 lie inside the matrix, stride = rows"); M->cell = nondet_Scalar(); }
static void HH_RIGHT(Mat *M, Index r0, Index c0, Index nrow, Index stride)
{ __CPROVER_assert(stride == M->rows && r0 == 0 && 0 <= nrow && nrow <= M->rows && 0 <= c0 && c0 + 3 <= M->cols,
                   "apply_householder_right_simd precondition: rows 0..nrow-1 of columns c0..c0+2 lie inside the matrix, stride = rows"); M->cell = nondet_Scalar(); }
'''
    rot_rules = [("rot", r"Eigen::JacobiRotation<Scalar> rot;", "Jacobi rot; rot.m_c = nondet_Scalar(); rot.m_s = nondet_Scalar();", {"max": 1}),
                 ("givens", r"rot\.makeGivens\(T_\(([^;]+?)\), T_\(([^;]+?)\), &beta\);", r"(void)(T_(\1)); (void)(T_(\2)); beta = nondet_Scalar();", {"max": 1}),
                 ("left", r"m_T\.rightCols\(([^;()]+)\)\.applyOnTheLeft\(([^;,]+), ([^;,]+), rot\.adjoint\(\)\);",
                  r"NCOLS_CHECK(S->m_T, \1); __CPROVER_assert(0 <= (\2) && (\2) < S->m_T.rows && 0 <= (\3) && (\3) < S->m_T.rows, @Q@Eigen: applyOnTheLeft(p, q) row indices in range@Q@); MAT_TOUCH(S->m_T);", {"max": 1}),
                 ("right", r"m_T\.topRows\(([^;()]+)\)\.applyOnTheRight\(([^;,]+), ([^;,]+), rot\);",
                  r"__CPROVER_assert(0 <= (\1) && (\1) <= S->m_T.rows, @Q@Eigen block assertion: topRows(n) within the matrix@Q@); __CPROVER_assert(0 <= (\2) && (\2) < S->m_T.cols && 0 <= (\3) && (\3) < S->m_T.cols, @Q@Eigen: applyOnTheRight(p, q) column indices in range@Q@); MAT_TOUCH(S->m_T);", {"max": 1}),
                 ("rightU", r"m_U\.applyOnTheRight\(([^;,]+), ([^;,]+), rot\);",
                  r"__CPROVER_assert(0 <= (\1) && (\1) < S->m_U.cols && 0 <= (\2) && (\2) < S->m_U.cols, @Q@Eigen: applyOnTheRight(p, q) column indices in range@Q@); MAT_TOUCH(S->m_U);", {"max": 1})]
    t, R = cgen.emit(f, "perform_francis_qr_step", ret_c="void", self_type="SC", self_name="S", members=mem,
                     param_types={"first_householder_vec": "const Scalar *", "near_0": "Scalar"},
                     pre_rules=[("hleft", r"apply_householder_left\(ess, tau, &(m_[TU])\.coeffRef\(([^,()]+), ([^,()]+)\), ([^;]+?), ([^,;]+)\);", r"HH_LEFT(&S->\1, \2, \3, \4, \5);", {"max": 1}),
                                ("hright", r"apply_householder_right_simd\(ess, tau, &(m_[TU])\.coeffRef\(([^,()]+), ([^,()]+)\), ([^;]+?), ([^,;]+)\);", r"HH_RIGHT(&S->\1, \2, \3, \4, \5);", {"min": 2, "max": 2}),
                                ("vdecl", r"Vector3s v;", "", {"max": 1}),
                                ("vfirst", r"v = first_householder_vec;", "(void)first_householder_vec[2];", {"max": 1}),
                                ("vblock", r"v = m_T\.template block<3, 1>\(([^;]+)\);", r"BLOCK_CHECK(S->m_T, \1, 3, 1);", {"max": 1}),
                                ("ess", r"Vector2s ess;", "", {"max": 1}),
                                ("house", r"v\.makeHouseholder\(ess, tau, beta\);", "tau = nondet_Scalar(); beta = nondet_Scalar();", {"max": 1}),
                                coeff] + rot_rules,
                     loop_contracts={0: "__CPROVER_assigns(k, S->m_T.cell, S->m_U.cell) __CPROVER_loop_invariant(im <= k && k <= iu - 1) __CPROVER_decreases(iu - k)",
                                     1: "__CPROVER_assigns(i, S->m_T.cell) __CPROVER_loop_invariant(im + 2 <= i && i <= iu + 1) __CPROVER_decreases(iu + 1 - i)"},
                     contract=sp.frame_contract())
    report["UpperHessenbergSchur::perform_francis_qr_step"] = R.fired
    out.append(("schur.perform_francis_qr_step", types + hh + t + sp.harness("h", alloc + "  Index il = nondet_Index(), im = nondet_Index(), iu = nondet_Index(); const Scalar *first_householder_vec = VEC_NEW(3); Scalar near_0 = nondet_Scalar();",
                                                                         "S, il, im, iu, first_householder_vec, near_0"), "perform_francis_qr_step",
                ["loop_invariant_step", "apply_householder_left precondition", "apply_householder_right_simd precondition", "Eigen block assertion"]))
    groups = []
    for name, text, enf, exp in out:
        groups.append(Group(name, BASE + text, "h", enforce=enf, solver="cadical", defines=["SCALAR_DOUBLE"], timeout=600, functions=[SH + ":" + enf], expect_classes=exp,
                            note="unbounded in n: proves the index contract that schur.compute assumes for this helper (matrix entries nondeterministic)"))
        if name == "schur.compute_shift" and cs_weak:
            groups[-1].weak = cs_weak
    return groups


# ------------------------------------------------------------------ Householder kernels of the Francis step (raw pointers, SIMD peeling)
HH_GHOST = r'''
/* ghost model of the three addressed columns: one buffer M, column c starts at M + c * g_stride, rows 0..g_nrow-1 are in play.
 * g_row is an arbitrary but fixed row; g_cnt[c] counts how often row g_row of column c has been stored to. */
typedef struct { unsigned char dummy; } Packet;
Scalar *g_M; Index g_stride, g_nrow, g_row; Index g_cnt[3];
Packet nondet_Packet(void);
static Packet PSET1(Scalar v) { (void)v; return nondet_Packet(); }
static Packet padd(Packet a, Packet b) { (void)a; (void)b; return nondet_Packet(); }
static Packet psub(Packet a, Packet b) { (void)a; (void)b; return nondet_Packet(); }
static Packet pmul(Packet a, Packet b) { (void)a; (void)b; return nondet_Packet(); }
static void GHOST_ACCESS(const Scalar *p, Index len, _Bool store)
{
  __CPROVER_assert(__CPROVER_same_object(p, g_M), "householder kernel: access inside the matrix buffer");
  Index off = (Index)(__CPROVER_POINTER_OFFSET(p) / sizeof(Scalar)) - (Index)(__CPROVER_POINTER_OFFSET(g_M) / sizeof(Scalar));
  __CPROVER_assert(0 <= off && off < 3 * g_stride, "householder kernel: access starts inside the three addressed columns");
  Index col = off < g_stride ? 0 : (off < 2 * g_stride ? 1 : 2);
  Index row = off - col * g_stride;
  __CPROVER_assert(row + len <= g_nrow, "householder kernel: a (packet) access stays inside rows 0..nrow-1 of its column");
  if (row <= g_row && g_row < row + len) {
    if (store) g_cnt[col]++;
    else __CPROVER_assert(g_cnt[col] == 0, "householder kernel: every row is read before it is updated (no row is transformed twice)");
  }
}
static Packet PLOADU(const Scalar *p) { GHOST_ACCESS(p, PACKET_SIZE, 0); return nondet_Packet(); }
static void PSTOREU(Scalar *p, Packet v) { (void)v; GHOST_ACCESS(p, PACKET_SIZE, 1); }
#define CNT_IS(c, done_below) (g_cnt[c] == ((g_row < (done_below)) ? 1 : 0))
#define PTR_AT(p, base, i) (__CPROVER_same_object(p, base) && __CPROVER_POINTER_OFFSET(p) == __CPROVER_POINTER_OFFSET(base) + (i) * (Index)sizeof(Scalar))
'''


def householder_kernels(tier, report):
    groups = []
    harness = r'''
#line 1 "harness/schur.householder"
void h(void) {
  Index stride = nondet_Index(), nrow = nondet_Index(); __CPROVER_assume(0 <= nrow && nrow <= stride && stride <= NMAXS);
  Scalar *M = VEC_NEW(3 * stride); Scalar *ess = VEC_NEW(2); Scalar tau = nondet_Scalar();
  g_M = M; g_stride = stride; g_nrow = nrow; g_row = nondet_Index(); __CPROVER_assume(0 <= g_row && g_row < nrow); g_cnt[0] = 0; g_cnt[1] = 0; g_cnt[2] = 0;
  KERNEL(ess, tau, M, nrow, stride);
  __CPROVER_assert(g_cnt[0] == 1 && g_cnt[1] == 1 && g_cnt[2] == 1, "householder kernel: every row 0..nrow-1 of each of the three columns is updated EXACTLY once (peeled, packet and scalar parts partition the rows)");
  CANARY();
}
'''
    common = [("ess", r"\bess\.coeff\((\d)\)", r"ess[\1]", {"min": 2, "max": 2})]
    scal_rules = [("sload", r"const Scalar txv = ", "GHOST_ACCESS(x0 + i, 1, 0); GHOST_ACCESS(x1 + i, 1, 0); GHOST_ACCESS(x2 + i, 1, 0); const Scalar txv = ", {"max": 1}),
                  ("sstore", r"\b(x[012])\[i\] -= ([^;]+);", r"{ \1[i] -= \2; GHOST_ACCESS(\1 + i, 1, 1); }", {"min": 3, "max": 3})]
    # scalar variant
    f = X.locate(SH, "apply_householder_right", cls="UpperHessenbergSchur")
    t, R = cgen.emit(f, "apply_householder_right", ret_c="void", static=True, param_types={"ess": "const Scalar *", "tau": "Scalar"}, pre_rules=common + scal_rules,
                     loop_contracts={0: "__CPROVER_assigns(i, __CPROVER_object_whole(x), __CPROVER_object_whole(g_cnt)) "
                                        "__CPROVER_loop_invariant(0 <= i && i <= nrow && CNT_IS(0, i) && CNT_IS(1, i) && CNT_IS(2, i)) __CPROVER_decreases(nrow - i)"})
    report["UpperHessenbergSchur::apply_householder_right"] = R.fired
    groups.append(Group("schur.householder_right", BASE + HH_GHOST + t + harness, "h", solver="cadical", defines=["SCALAR_FLOAT", "PACKET_SIZE=1", "KERNEL=apply_householder_right"], timeout=600,
                        functions=[SH + ":apply_householder_right"], expect_classes=["loop_invariant_step", "householder kernel"],
                        note="UNBOUNDED in nrow and stride: memory safety and exactly-once row coverage of the three columns (values not modelled)"))
    # SIMD variant, one run per packet width
    f = X.locate(SH, "apply_householder_right_simd", cls="UpperHessenbergSchur")
    simd = common + [
        ("using", r"using (?:Eigen::internal::\w+|Packet = typename Eigen::internal::packet_traits<Scalar>::type);", "", {"min": 7, "max": 7}),
        ("psize", r"constexpr unsigned char PacketSize = Eigen::internal::packet_traits<Scalar>::size;", "const unsigned char PacketSize = PACKET_SIZE;", {"max": 1}),
        ("constexpr", r"\bconstexpr unsigned char\b", "const unsigned char", {"min": 2, "max": 2}),
        ("pset1", r"pset1<Packet>\(", "PSET1(", {"min": 3, "max": 3}),
        ("ploadu", r"ploadu<Packet>\(", "PLOADU(", {"min": 9, "max": 9}),
        ("pstoreu", r"\bpstoreu\(", "PSTOREU(", {"min": 9, "max": 9})] + scal_rules
    inv0 = ("__CPROVER_assigns(i, px0, px1, px2, __CPROVER_object_whole(g_cnt)) "
            "__CPROVER_loop_invariant(0 <= i && i <= peeling_end && (i & (Increment - 1)) == 0 && PTR_AT(px0, x0, i) && PTR_AT(px1, x1, i) && PTR_AT(px2, x2, i) && CNT_IS(0, i) && CNT_IS(1, i) && CNT_IS(2, i)) "
            "__CPROVER_decreases(peeling_end - i)")
    inv1 = ("__CPROVER_assigns(i, __CPROVER_object_whole(x), __CPROVER_object_whole(g_cnt)) "
            "__CPROVER_loop_invariant(aligned_end <= i && i <= nrow && CNT_IS(0, i) && CNT_IS(1, i) && CNT_IS(2, i)) __CPROVER_decreases(nrow - i)")
    # the scalar tail is a loop in the pinned code; if it has been rewritten as straight-line code there is no second loop to put a contract on, and the
    # exactly-once coverage assertion of the harness decides (per packet width) whether the rewrite still covers every remaining row
    nloops = len(cgen.LOOP_RX.findall(f.body))
    t2, R = cgen.emit(f, "apply_householder_right_simd", ret_c="void", static=True, param_types={"ess": "const Scalar *", "tau": "Scalar"}, pre_rules=simd,
                      loop_contracts={k: v for k, v in {0: inv0, 1: inv1}.items() if k < nloops})
    report["UpperHessenbergSchur::apply_householder_right_simd"] = R.fired
    for ps in (1, 2, 4, 8, 16):
        groups.append(Group("schur.householder_right_simd.packet%d" % ps, BASE + HH_GHOST + t2 + harness, "h", solver="cadical",
                            defines=["SCALAR_FLOAT", "PACKET_SIZE=%d" % ps, "KERNEL=apply_householder_right_simd"], timeout=900,
                            functions=[SH + ":apply_householder_right_simd"], expect_classes=["loop_invariant_step", "householder kernel"],
                            note="UNBOUNDED in nrow and stride for packet width %d: the peeled (2 packets), single-packet and scalar parts partition rows 0..nrow-1; every packet load/store stays inside its column; "
                                 "packet values are abstract (extents kept)" % ps))
    # left variant: pointer-stepping loop `for (; x < x_end; x += stride)` - the in-bounds argument needs "x - x0 is a multiple of stride",
    # a nonlinear fact; BOUNDED at concrete stride n (r0, c0, ncol symbolic)
    f = X.locate(SH, "apply_householder_left", cls="UpperHessenbergSchur")
    left_rules = common + [("load", r"const Scalar tvx = tau \* \((\w+)\[0\]", r"LEFT_ACCESS(\1, 0, 0); LEFT_ACCESS(\1, 1, 0); LEFT_ACCESS(\1, 2, 0); const Scalar tvx = tau * (\1[0]", {"max": 1}),
                           ("store", r"\b(\w+)\[([012])\] -= ([^;]+);", r"{ \1[\2] -= \3; LEFT_ACCESS(\1, \2, 1); }", {"min": 3, "max": 3})]
    t3, R = cgen.emit(f, "apply_householder_left", ret_c="void", static=True, param_types={"ess": "const Scalar *", "tau": "Scalar"}, pre_rules=left_rules)
    report["UpperHessenbergSchur::apply_householder_left"] = R.fired
    left_h = r'''
Scalar *g_M; Index g_r0, g_c0, g_ncol, g_col; Index g_cntl[3];
static void LEFT_ACCESS(const Scalar *x, Index k, _Bool store)
{
  __CPROVER_assert(__CPROVER_same_object(x, g_M), "householder kernel (left): access inside the matrix buffer");
  Index off = (Index)(__CPROVER_POINTER_OFFSET(x) / sizeof(Scalar)) + k;
  Index col = off / NN, row = off % NN;
  __CPROVER_assert(g_c0 <= col && col < g_c0 + g_ncol && g_r0 <= row && row < g_r0 + 3, "householder kernel (left): touches only rows r0..r0+2 of columns c0..c0+ncol-1");
  if (col == g_col) { if (store) g_cntl[row - g_r0]++; else __CPROVER_assert(g_cntl[row - g_r0] == 0, "householder kernel (left): every column is read before it is updated"); }
}
'''
    left_h2 = r'''
#line 1 "harness/schur.householder_left"
void h(void) {
  Scalar *M = VEC_NEW(NN * NN); Scalar *ess = VEC_NEW(2); Scalar tau = nondet_Scalar();
  g_M = M; g_r0 = nondet_Index(); g_c0 = nondet_Index(); g_ncol = nondet_Index(); g_col = nondet_Index();
  __CPROVER_assume(0 <= g_r0 && g_r0 <= NN - 3 && 0 <= g_c0 && g_c0 <= NN && 0 <= g_ncol && g_ncol <= NN - g_c0 && g_c0 <= g_col && g_col < g_c0 + g_ncol);
  g_cntl[0] = 0; g_cntl[1] = 0; g_cntl[2] = 0;
  apply_householder_left(ess, tau, M + g_r0 + g_c0 * NN, g_ncol, NN);
  __CPROVER_assert(g_cntl[0] == 1 && g_cntl[1] == 1 && g_cntl[2] == 1, "householder kernel (left): each of the three rows of every column c0..c0+ncol-1 is updated EXACTLY once");
  CANARY();
}
'''
    for n in ([3, 4, 6] if tier == "quick" else [3, 4, 5, 6, 8, 10]):
        groups.append(Group("schur.householder_left.n%d" % n, BASE + left_h + t3 + left_h2, "h", loop_contracts=False, solver="cadical", defines=["SCALAR_FLOAT", "NN=%d" % n], unwind=n + 2, timeout=600,
                            bounded="stride n = %d (concrete; r0, c0, ncol symbolic), full unwinding with unwinding assertions" % n,
                            functions=[SH + ":apply_householder_left"], expect_classes=["householder kernel (left)"],
                            note="pointer-stepping loop; memory safety and exactly-once coverage of the 3 x ncol block"))
    return groups


def build(tier):
    report = {}
    groups = tridiag(report) + [schur(report)] + l1_norm(report) + eigenvectors_backsubst(report) + schur_helpers(report) + householder_kernels(tier, report)
    from props import guards
    groups += guards.groups(PROP, report)
    types, t, spec = hesseigen(report)
    h = spec.harness("h", "  HE Ev; HE *E = &Ev; E->m_n = nondet_Index(); __CPROVER_assume(0 <= E->m_n && E->m_n <= NMAXS); E->m_matT = MAT_NEW(E->m_n, E->m_n); E->kind = IVEC_NEW(E->m_n); E->m_eivalues = NULL;", "E")
    from props import skel
    groups.append(Group("hesseigen.values", BASE + skel.NANEQ_DEF.replace("FSIGN(", "FSIGNB(").replace("#define NANEQ", "#define NANEQ_UNUSED") + types + HE_INV + t + h, "h", enforce="he_values",
                        solver="cadical", defines=["SCALAR_FLOAT"], timeout=900, functions=[EH + ":compute"], expect_classes=["loop_invariant_step", "Eigen index assertion"],
                        note="T as an uninterpreted matrix (fixed, unknown entries); scaling rendered coefficient-wise with multiplication as UF + sign symmetry"))
    lem = r'''
#include "verif_prelude.h"
#if defined(SCALAR_FLOAT)
#define SG(x) __CPROVER_signf(x)
#else
#define SG(x) __CPROVER_signd(x)
#endif
void h(void) { Scalar a = nondet_Scalar(), s = nondet_Scalar(); Scalar r = a * s, rn = (-a) * s;
  __CPROVER_assert((r != r) ? (rn != rn) : (rn == -r && SG(rn) != SG(r)), "IEEE sign symmetry of multiplication: (-a)*s == -(a*s) bit-exactly (NaN iff NaN)");
  __CPROVER_assert(!(a != a) || (r != r), "IEEE: NaN * s is NaN");
  __CPROVER_assert(!(a == (Scalar)0 && s == s && FABS(s) <= SCALAR_MAX) || r == (Scalar)0, "IEEE: 0 * finite is (signed) zero");
  __CPROVER_assert(!(a >= (Scalar)0 && s >= (Scalar)0) || r >= (Scalar)0 || r != r, "IEEE: product of non-negatives is non-negative (or NaN)"); CANARY(); }
'''
    groups.append(Group("lemma.mul-sign-symmetry.float", lem, "h", loop_contracts=False, solver="kissat", defines=["SCALAR_FLOAT"], timeout=600, flags=[], functions=[],
                        expect_classes=["IEEE sign symmetry"], note="justifies the FMULS instantiation used in hesseigen.values"))
    if tier == "thorough":
        groups.append(Group("lemma.mul-sign-symmetry.double", lem, "h", loop_contracts=False, solver="cvc5", defines=["SCALAR_DOUBLE"], timeout=900, flags=[], functions=[],
                            expect_classes=["IEEE sign symmetry"], canary=False, note="cvc5 back end (SAT back ends do not finish in binary64)"))
    from props import kernels
    groups += kernels.eigen_groups(tier, report)
    meta = {"level": "proof", "trusted_base": ["cbmc 6.11.0 dfcc", "cadical / kissat / cvc5", "extractor"],
            "assumptions": ["call-site stubs of tridiagonal_qr_step and of the five Francis-step helpers carry exactly the frame/index contracts proved in the tridiag.qr_step.frame / schur.<helper> groups "
                            "(hand-written stub text inside schur.compute / tridiag.compute, same clauses); the Householder kernels' contracts used by schur.perform_francis_qr_step are proved in "
                            "schur.householder_right* (unbounded) and schur.householder_left.n<N> (BOUNDED)",
                            "packet (SIMD) values and Householder coefficients are abstract: extents and visit counts only",
                            "Eigen's `complex vector *= real` is coefficient-wise real scaling", "floating-point values of the matrices are not modelled (T is an uninterpreted fixed matrix)",
                            "objects are fresh when compute() is called (as in every solver call site); a reused object that once succeeded keeps m_computed == true after a later failure - not claimed"],
            "not_covered": ["T Z = Z diag(d), U T U' = H, ||H x - lambda x|| to n*eps*norm (backward stability, numerical)"],
            "extraction": report, "explanation": "failure protocol and exact pairing conventions"}
    return groups, meta


def replay(g, o, assigns, path):
    from vlib import replay as RP
    return RP.run_native(PROP, RP.src("C09_eigen_replay.cpp"), cxxflags="-O2 -std=c++11")


MANIFEST = {
    "category": "proof",
    "text": 'Unbounded proof (any n <= 4096) on the extracted control skeletons: TridiagEigen::compute returns normally only with every sub-diagonal entry exactly zero (or the zero-matrix early exit) and throws runtime_error at the iteration cap; UpperHessenbergSchur::compute returns normally only with the active window empty and throws at its cap, calling its Francis-step helpers within their index preconditions; UpperHessenbergEigen emits each eigenvalue either with an exactly zero imaginary part or as one of two adjacent bit-exact conjugates, non-negative imaginary part first, also after the final scaling. Backward stability is numerical and NOT decided. Also proved: the index contracts of all five Francis-step helpers incl. perform_francis_qr_step (unbounded), the Householder kernels (right / SIMD-peeled: memory safety and exactly-once row coverage for every nrow, stride and packet width 1..16, unbounded; left: bounded at concrete stride), division of the input by max|H_ij| only when positive (F12), maxCoeff() only on non-empty diagonals (F13), identity initialisation of the eigenvector accumulator on every exit; one WEAK obligation (normalisation by max|T_ij|) counts only when a native replay reproduces it. Since the second session: upper_hessenberg_l1_norm covers the whole Hessenberg part exactly once (it decides the zero-matrix exit), and the eigenvector back substitution of UpperHessenbergEigen (doComputeEigenvectors) is index-safe and terminating for every n and every eigenvalue pattern, with the same coverage fact for its scale. Third session: the computed-flag typestate of the decomposition classes used by the solvers is under contract (guard.coverage.* / guard.*: every public function that touches a result member starts with the m_computed guard, and the extracted guard throws std::logic_error exactly on an uncomputed object).',
    "note": "helper kernels stubbed by frame/index contracts (bounded checks of their bodies listed separately); IEEE sign symmetry of * proved as a separate lemma and instantiated",
    "technique": "CBMC dfcc loop contracts with Skolem indices and uninterpreted matrix entries on mechanically extracted C (cadical, kissat, cvc5)",
}
