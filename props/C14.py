"""C14 - a failing user operator is contained (contract-expressible part, see DESIGN.md section 3)."""
from props import skelgroups as SG

PROP = "C14"
FAMILIES = ["herm", "gen"]


def build(tier):
    report = {}
    groups = SG.select(PROP, FAMILIES, report)
    meta = {"level": "proof", "trusted_base": SG.TRUSTED, "assumptions": SG.ASSUMPTIONS, "extraction": report,
            "not_covered": ['bit-identity of the rerun (follows from C06 under its determinism assumption)'],
            "explanation": 'the operator stub may throw at every application; extraction propagates the flag exactly as C++ unwinding (no try/catch in these classes)'}
    return groups, meta


MANIFEST = {
    "category": "proof",
    "text": "Proof on the extracted skeleton for all interruption points at once: the operator's exception leaves every function with its type unchanged, buffers keep consistent shapes at every exceptional exit, and init() is proved from an arbitrary object state - in particular from the state left by an interruption at any application k, single or repeated.",
    "note": 'floating-point values of Eigen expressions are havocked (lossy extraction, every abstracted statement listed in the evidence); callee contracts are generated stubs sharing clause texts with the enforcing harness; std::sort/Eigen/operator contracts assumed; Skolem instantiation meta-rule',
    "technique": "CBMC dfcc frame contracts + loop contracts + harness-asserted postconditions on mechanically extracted C (cadical)",
}
