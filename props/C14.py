"""C14 - a failing user operator is contained (contract-expressible part, see DESIGN.md section 3)."""
from props import skelgroups as SG

PROP = "C14"
FAMILIES = ["herm", "gen"]


def build(tier):
    report = {}
    from props import skel
    from vlib import z3lemma
    from vlib.extract import ExtractionBreak
    try:
        groups = SG.select(PROP, FAMILIES, report)
    except ExtractionBreak as e:
        # the skeleton cannot be extracted any more: that part is UNDECIDED, the static obligations below still decide
        groups = [z3lemma.StaticGroup("skeleton.extraction", ok=False, detail=str(e), obligation="extraction of the solver skeleton", undecided_on_fail=True)]
    groups.append(skel.init_coverage(report))
    groups.append(skel.catch_handlers(report))
    groups += stock_operator_groups(report)

    meta = {"level": "proof", "trusted_base": SG.TRUSTED, "assumptions": SG.ASSUMPTIONS, "extraction": report,
            "not_covered": ['bit-identity of the rerun (follows from C06 under its determinism assumption)'],
            "explanation": 'the operator stub may throw at every application; extraction propagates the flag exactly as C++ unwinding (no try/catch in these classes)'}
    return groups, meta


def stock_operator_groups(report):
    """The one stock operator that can fail at run time by itself (SparseRegularInverse: conjugate gradient may not converge): a failed solve() must not
    poison later ones - the status and the decision to throw depend on THIS solve only, whatever state an earlier failure left behind."""
    from vlib import extract as X
    from vlib import cgen
    from vlib import common
    from vlib.runner import Group
    from vlib.spec import FSpec
    RH = "MatOp/SparseRegularInverse.h"
    f = X.locate(RH, "solve", cls="SparseRegularInverse")
    types = '#include "skel.h"\n' + common.enum_defines("Util/CompInfo.h", "CompInfo") + r'''
typedef struct { Index m_n; CompInfo m_info; _Bool cg_ok; /* ghost: did the conjugate-gradient run of the CURRENT solve() converge */ } RegInv;
#define EIGEN_SUCCESS 0
#define EIGEN_NOCONV 2
static void CG_SOLVE(RegInv *R, const Scalar *x, Scalar *y)
{ __CPROVER_assert(__CPROVER_r_ok(x, R->m_n * sizeof(Scalar)) && __CPROVER_w_ok(y, R->m_n * sizeof(Scalar)), "CG solve: x_in / y_out are length-n vectors"); R->cg_ok = nondet_bool(); __CPROVER_havoc_object(y); }
'''
    spec = FSpec("reginv_solve", "void", [("RegInv *", "R"), ("const Scalar *", "x_in"), ("Scalar *", "y_out")],
                 pre=[("operator in ANY prior state (also the one left behind by an earlier failed solve)", "0 <= R->m_n && R->m_n <= NMAX && VEC_SIZE(x_in) == R->m_n && VEC_SIZE(y_out) == R->m_n")],
                 post=[("normal return only when THIS conjugate-gradient run converged; status says Successful", "R->cg_ok && R->m_info == CompInfo_Successful")],
                 exc_post=[("throws runtime_error only when THIS run did not converge (an earlier failure does not poison later solves); status says NotConverging",
                            "!R->cg_ok && verif_exc == EXC_runtime_error && R->m_info == CompInfo_NotConverging")],
                 frame=["R->m_info", "R->cg_ok"], frame_objs=["y_out"], may_throw=[2], real=RH + ":solve")
    pre = [("maps", r"MapConstVec x\(x_in, m_n\);\s*MapVec y\(y_out, m_n\);", "", {"max": 1}),
           ("cg", r"y\.noalias\(\) = m_cg\.solve\(x\);", "CG_SOLVE(R, x_in, y_out);", {"max": 1}),
           ("cginfo", r"m_cg\.info\(\)", "(R->cg_ok ? EIGEN_SUCCESS : EIGEN_NOCONV)", {"min": 1, "max": 3}),
           ("success", r"Eigen::Success", "EIGEN_SUCCESS", {"min": 1, "max": 3})]
    t, R = cgen.emit(f, "reginv_solve", ret_c="void", self_type="RegInv", self_name="R", members=["m_n", "m_info"], param_types={"x_in": "const Scalar *", "y_out": "Scalar *"},
                     pre_rules=pre, contract=spec.frame_contract())
    report["SparseRegularInverse::solve"] = R.fired
    h = spec.harness("h", "  RegInv Rv; RegInv *R = &Rv; R->m_n = nondet_Index(); __CPROVER_assume(0 <= R->m_n && R->m_n <= NMAX); R->m_info = nondet_int(); R->cg_ok = nondet_bool(); "
                          "const Scalar *x_in = VEC_NEW(R->m_n); Scalar *y_out = VEC_NEW(R->m_n);", "R, x_in, y_out")
    return [Group("stockop.SparseRegularInverse.solve", types + t + h, "h", enforce="reginv_solve", solver="cadical", defines=["SCALAR_DOUBLE"], timeout=300,
                  functions=[RH + ":SparseRegularInverse::solve"], expect_classes=["reginv_solve", "CG solve"],
                  note="the conjugate-gradient run itself is an opaque call with a nondeterministic outcome; proved from ANY prior status")]


def replay(g, o, assigns, path):
    """Skeleton counterexamples are paths, not inputs: the replay searches the structured family of real inputs/histories of
    replay_src/solver_replay.cpp (mode 'faults') on the REAL solvers."""
    from vlib import replay as RP
    if "cshift" in g.name:
        # operator fault at every application of the complex-shift solver, including the root-selection probe solves
        r0 = RP.run_native(PROP, RP.src("C14_cshift_exc_replay.cpp"), timeout=900, name="replay_cshift")
        if r0.get("reproduced"):
            return r0
    return RP.run_native(PROP, RP.src("solver_replay.cpp"), args=['faults'], timeout=900)


MANIFEST = {
    "category": "proof",
    "text": "Proof on the extracted skeleton for all interruption points at once: the operator's exception leaves every function with its type unchanged, buffers keep consistent shapes at every exceptional exit, and init() is proved from an arbitrary object state - in particular from the state left by an interruption at any application k, single or repeated. The one stock operator with a mutable status (SparseRegularInverse: conjugate gradient may not converge) is under contract too: from ANY prior status, solve() throws exactly when THIS run did not converge - an earlier failure does not poison later solves. The complex-shift solver's root-selection probe solves restore the user's shift on the exceptional path as well (found violated and fixed, F16).",
    "note": 'floating-point values of Eigen expressions are havocked (lossy extraction, every abstracted statement listed in the evidence); callee contracts are generated stubs sharing clause texts with the enforcing harness; std::sort/Eigen/operator contracts assumed; Skolem instantiation meta-rule',
    "technique": "CBMC dfcc frame contracts + loop contracts + harness-asserted postconditions on mechanically extracted C (cadical)",
}
