"""C14 - a failing user operator is contained (contract-expressible part, see DESIGN.md section 3)."""
from props import skelgroups as SG

PROP = "C14"
FAMILIES = ["herm", "gen"]


def build(tier):
    report = {}
    from props import skel
    from vlib import z3lemma
    from vlib.extract import ExtractionBreak
    try:
        groups = SG.select(PROP, FAMILIES, report)
    except ExtractionBreak as e:
        # the skeleton cannot be extracted any more: that part is UNDECIDED, the static obligations below still decide
        groups = [z3lemma.StaticGroup("skeleton.extraction", ok=False, detail=str(e), obligation="extraction of the solver skeleton", undecided_on_fail=True)]
    groups.append(skel.init_coverage(report))
    groups.append(skel.catch_handlers(report))

    meta = {"level": "proof", "trusted_base": SG.TRUSTED, "assumptions": SG.ASSUMPTIONS, "extraction": report,
            "not_covered": ['bit-identity of the rerun (follows from C06 under its determinism assumption)'],
            "explanation": 'the operator stub may throw at every application; extraction propagates the flag exactly as C++ unwinding (no try/catch in these classes)'}
    return groups, meta


def replay(g, o, assigns, path):
    """Skeleton counterexamples are paths, not inputs: the replay searches the structured family of real inputs/histories of
    replay_src/solver_replay.cpp (mode 'faults') on the REAL solvers."""
    from vlib import replay as RP
    return RP.run_native(PROP, RP.src("solver_replay.cpp"), args=['faults'], timeout=900)


MANIFEST = {
    "category": "proof",
    "text": "Proof on the extracted skeleton for all interruption points at once: the operator's exception leaves every function with its type unchanged, buffers keep consistent shapes at every exceptional exit, and init() is proved from an arbitrary object state - in particular from the state left by an interruption at any application k, single or repeated.",
    "note": 'floating-point values of Eigen expressions are havocked (lossy extraction, every abstracted statement listed in the evidence); callee contracts are generated stubs sharing clause texts with the enforcing harness; std::sort/Eigen/operator contracts assumed; Skolem instantiation meta-rule',
    "technique": "CBMC dfcc frame contracts + loop contracts + harness-asserted postconditions on mechanically extracted C (cadical)",
}
