"""C01 - symmetric solvers return only genuine eigenpairs (contract-expressible part, see DESIGN.md section 3)."""
from props import skelgroups as SG

PROP = "C01"
FAMILIES = ["herm"]


def build(tier):
    report = {}
    groups = SG.select(PROP, FAMILIES, report)
    meta = {"level": "proof", "trusted_base": SG.TRUSTED, "assumptions": SG.ASSUMPTIONS, "extraction": report,
            "not_covered": ['the numerical bound ||Ax - theta x|| <= tol*scale itself (needs the Lanczos relation to rounding level)', 'orthonormality of returned vectors'],
            "explanation": 'structural half of C01: flags are exactly the documented criterion evaluated on the returned data, pairing, history typestate'}
    return groups, meta


def replay(g, o, assigns, path):
    """Skeleton counterexamples are paths, not inputs: the replay searches the structured family of real inputs/histories of
    replay_src/solver_replay.cpp (mode 'history') on the REAL solvers."""
    from vlib import replay as RP
    r = RP.run_native(PROP, RP.src("solver_replay.cpp"), args=['history'], timeout=900)
    if not r.get("reproduced"):
        r2 = RP.run_native(PROP, RP.src("solver_replay.cpp"), args=['all'], timeout=900, name="replay2")
        if r2.get("reproduced"):
            return r2
    return r


MANIFEST = {
    "category": "proof",
    "text": 'Unbounded proof of the contract-expressible part: flag i <=> |est_i|*||f|| < tol*max(eps^(2/3),|theta_i|) element-wise; flags at exit of compute() were computed from the Ritz data that is returned (no stale flags); value/estimate/vector/flag of a pair stay together through retrieve, sort and the accessors; compute() only ever extends a factorization from the step at which it is valid (typestate, all init/compute histories). The residual bound itself and orthonormality are numerical and NOT decided. The factorization (expand_basis, Lanczos factorize_from) and accessor (eigenvalues, eigenvectors) contracts are part of this check. Third session: compute() is verified against the join of the base and shift-mode contracts of the virtual sort_ritzpair, and the convergence test is required to run on Ritz values that have not been back-transformed.',
    "note": 'floating-point values of Eigen expressions are havocked (lossy extraction, every abstracted statement listed in the evidence); callee contracts are generated stubs sharing clause texts with the enforcing harness; std::sort/Eigen/operator contracts assumed; Skolem instantiation meta-rule',
    "technique": "CBMC dfcc frame contracts + loop contracts + harness-asserted postconditions on mechanically extracted C (cadical)",
}
