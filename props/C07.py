"""C07 - Krylov factorization invariant - bookkeeping and typestate clauses (contract-expressible part, see DESIGN.md section 3)."""
from props import skelgroups as SG

PROP = "C07"
FAMILIES = ["herm", "gen"]


def build(tier):
    report = {}
    groups = SG.select(PROP, FAMILIES, report)
    from props import skel
    groups.append(skel.norm_kind(report))
    from props import kernels
    krep = {}
    groups += kernels.tridiagqr_groups(krep) + kernels.hessqr_shape_groups(krep) + kernels.hessqr_groups(tier, krep)
    report["kernels"] = krep
    meta = {"level": "proof", "trusted_base": SG.TRUSTED, "assumptions": SG.ASSUMPTIONS, "extraction": report,
            "not_covered": ["A V = V H + f e', V'BV = I, V'Bf = 0 to rounding level (numerical, not expressible as a dischargeable contract)", 'exact shape of H (bounded kernels, see C08)'],
            "explanation": 'structural clauses only'}
    return groups, meta


def replay(g, o, assigns, path):
    """Skeleton counterexamples are paths, not inputs: the replay searches the structured family of real inputs/histories of
    replay_src/solver_replay.cpp (mode 'history') on the REAL solvers."""
    from vlib import replay as RP
    r = RP.run_native(PROP, RP.src("solver_replay.cpp"), args=['history'], timeout=900)
    if not r.get("reproduced"):
        r2 = RP.run_native(PROP, RP.src("solver_replay.cpp"), args=['all'], timeout=900, name="replay2")
        if r2.get("reproduced"):
            return r2
    return r


MANIFEST = {
    "category": "proof",
    "text": "Unbounded proof of the structural clauses: advertised dimension k after init (1), after factorize_from(_, m) (m), after each compress_H (k-1 / k-2) and after restart (ncv); factorize_from is only entered at the step at which (V,H,f) is valid (typestate ghost) in every init/compute history; ncv-k shifts per restart. The numerical identities are NOT decided. H shape: Q'TQ tridiagonal and exactly symmetric (TridiagQR, unbounded), Q'HQ exactly upper Hessenberg and R exactly upper triangular (UpperHessenbergQR on the cursor model of its pointer walks, unbounded; real address arithmetic bounded at concrete n); residual norms that normalise basis vectors are B-norms (static obligation). Breakdown handling: the block handed to expand_basis consists of exactly the i columns built so far, and the sub-diagonal entry written for a column that was restarted from a random direction is the literal zero; basis vectors are never scaled by a Euclidean norm/normalisation (static obligation). Third session: V_def typestate of Lanczos::factorize_from - the column of V mapped as the local vector v is read (inner products, operator application, residual update) only after the current iteration has stored f/||f|| in it, so no basis vector of an earlier generation enters the recurrence.",
    "note": 'floating-point values of Eigen expressions are havocked (lossy extraction, every abstracted statement listed in the evidence); callee contracts are generated stubs sharing clause texts with the enforcing harness; std::sort/Eigen/operator contracts assumed; Skolem instantiation meta-rule',
    "technique": "CBMC dfcc frame contracts + loop contracts + harness-asserted postconditions on mechanically extracted C (cadical)",
}
