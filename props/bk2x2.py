"""BKLDLT::solve_inplace_2x2 / solve_left_2x2 (C10): the VALUES computed by the two 2x2 block solves, as algebraic identities over the complex field.

The four straight-line branches are taken from the header on every run (no text is kept here), translated statement by statement into polynomial
constraints over (re, im) pairs - a division `q = a / d` becomes `q * d = a` together with the assumption `d != 0` (the pivot block is non-singular and the
pivot chosen by the branch condition is non-zero; that the branch condition picks the larger pivot is a numerical-stability matter and is NOT part of the
identity) - and z3 refutes the negation of the documented meaning:

  solve_inplace_2x2 :  E x = b            with E = [e11 conj(e21); e21 e22]   (both branches)
  solve_left_2x2    :  [x1 x2] E = [c1 c2]  row by row (the Eigen statements are coefficient-wise), both branches

Machine arithmetic is treated as mathematical (real closed field) - flagged in the evidence; what this catches is a wrong formula (an exchanged entry, a lost
conjugate, the wrong right-hand side in the exchanged-rows branch), not rounding.  A branch whose text the statement grammar does not recognise is an
extraction break (exit 2)."""
import ast
import re

from vlib import extract as X
from vlib import z3lemma

BH = "LinAlg/BKLDLT.h"


class CX:
    """symbolic complex number: SMT terms for real and imaginary part"""
    def __init__(self, re_, im_):
        self.re, self.im = re_, im_


def _add(a, b):
    return CX("(+ %s %s)" % (a.re, b.re), "(+ %s %s)" % (a.im, b.im))


def _sub(a, b):
    return CX("(- %s %s)" % (a.re, b.re), "(- %s %s)" % (a.im, b.im))


def _mul(a, b):
    return CX("(- (* %s %s) (* %s %s))" % (a.re, b.re, a.im, b.im), "(+ (* %s %s) (* %s %s))" % (a.re, b.im, a.im, b.re))


def _conj(a):
    return CX(a.re, "(- %s)" % a.im)


class Ctx:
    def __init__(self):
        self.decls, self.asserts, self.env, self.nq = [], [], {}, 0

    def var(self, nm):
        if nm not in self.env:
            self.decls.append("(declare-const %s_re Real) (declare-const %s_im Real)" % (nm, nm))
            self.env[nm] = CX(nm + "_re", nm + "_im")
        return self.env[nm]

    def div(self, a, d):
        self.nq += 1
        q = self.var("verif_q%d" % self.nq)
        p = _mul(q, d)
        self.asserts.append("(assert (or (not (= %s 0.0)) (not (= %s 0.0))))" % (d.re, d.im))      # divisor != 0 (assumed: non-singular block, non-zero pivot)
        self.asserts.append("(assert (and (= %s %s) (= %s %s)))" % (p.re, a.re, p.im, a.im))
        return q

    def ev(self, node):
        if isinstance(node, ast.BinOp):
            a, b = self.ev(node.left), self.ev(node.right)
            if isinstance(node.op, ast.Add):
                return _add(a, b)
            if isinstance(node.op, ast.Sub):
                return _sub(a, b)
            if isinstance(node.op, ast.Mult):
                return _mul(a, b)
            if isinstance(node.op, ast.Div):
                return self.div(a, b)
        if isinstance(node, ast.UnaryOp) and isinstance(node.op, ast.USub):
            return _sub(CX("0.0", "0.0"), self.ev(node.operand))
        if isinstance(node, ast.Name):
            if node.id not in self.env:
                raise X.ExtractionBreak("bk2x2: %r used before it is defined" % node.id)
            return self.env[node.id]
        if isinstance(node, ast.Call) and isinstance(node.func, ast.Name) and node.func.id == "CONJ" and len(node.args) == 1:
            return _conj(self.ev(node.args[0]))
        raise X.ExtractionBreak("bk2x2: unsupported syntax %s" % ast.dump(node))


def _statements(text):
    """`[const] Scalar v = e;` / `v = e;` / `x.col(k).array() = e;` -> [(target, expr)] ; comments are already stripped by the extractor."""
    out = []
    for st in [s.strip() for s in text.split(";") if s.strip()]:
        st = " ".join(st.split())
        st = re.sub(r"ScalarOp<Scalar>::conj\(", "CONJ(", st)
        st = re.sub(r"\bx\.col\((\d)\)\.array\(\)", lambda m: "xcol%s" % m.group(1), st)
        st = re.sub(r"\bx\.col\((\d)\)", lambda m: "xcol%s" % m.group(1), st)
        st = st.replace(".array()", "")
        m = re.match(r"^(?:const )?(?:Scalar |RealScalar )?(\w+) = (.+)$", st)
        if not m:
            raise X.ExtractionBreak("bk2x2: statement not of the form `v = expr;`: %r" % st)
        out.append((m.group(1), m.group(2)))
    return out


def _branches(fn):
    f = X.locate(BH, fn, cls="BKLDLT")
    body = f.body
    i = body.find("if (")
    if i < 0:
        raise X.ExtractionBreak("bk2x2: %s has no pivot-choice branch" % fn)
    head = body[:i]
    j = body.index("{", i)
    k = X.match_close(body, j)
    m = re.match(r"\s*else\s*\{", body[k + 1:])
    if not m:
        raise X.ExtractionBreak("bk2x2: %s: no else branch" % fn)
    j2 = k + 1 + m.end() - 1
    k2 = X.match_close(body, j2)
    if body[k2 + 1:].strip():
        raise X.ExtractionBreak("bk2x2: %s: code after the two branches: %r" % (fn, body[k2 + 1:].strip()[:80]))
    cond = " ".join(body[i:j].split())
    head = re.sub(r"using std::abs;", "", head)
    hs = [(t, e) for t, e in _statements(head) if not re.search(r"\babs\(", e)]          # |e11|, |e21| only feed the branch condition
    return cond, hs, _statements(body[j + 1:k]), _statements(body[j2 + 1:k2])


def _lemma(fn, which, head, stmts, inputs, outs, goal_rows, report):
    c = Ctx()
    for v in inputs:
        c.var(v)
    for t, e in head + stmts:
        val = c.ev(ast.parse(e, mode="eval").body)
        c.env[t] = val
    for o in outs:
        if o not in c.env or o in inputs and c.env[o].re == o + "_re":
            raise X.ExtractionBreak("bk2x2: %s (%s branch) never assigns %s" % (fn, which, o))
    goals = []
    for lhs, rhs in goal_rows:
        L = c.ev(ast.parse(lhs, mode="eval").body)
        R = CX(rhs + "_re", rhs + "_im")
        goals.append("(and (= %s %s) (= %s %s))" % (L.re, R.re, L.im, R.im))
    smt = "\n".join(c.decls) + "\n" + "\n".join(c.asserts) + "\n(assert (not (and %s)))\n(check-sat)\n" % " ".join(goals)
    report["bk2x2 %s %s" % (fn, which)] = {"statements": ["%s = %s" % s for s in head + stmts], "divisions": c.nq}
    return smt


def lemmas(report):
    out = []
    # ---- solve_inplace_2x2(e11, e21, e22, b1, b2): on exit (b1, b2) = x with E x = b_old
    cond, head, br1, br2 = _branches("solve_inplace_2x2")
    report["bk2x2 solve_inplace_2x2 condition"] = cond
    for which, br in (("no-exchange", br1), ("rows-exchanged", br2)):
        # the outputs overwrite b1, b2: evaluate the goal with the ENTRY values kept under other names
        stm = [(t, e) for t, e in br]
        c_inputs = ["e11", "e21", "e22", "b1", "b2"]
        # rename the final stores so the entry values stay available
        stm2 = []
        for t, e in stm:
            if t in ("b1", "b2"):
                stm2.append(("out_" + t, e))
            else:
                stm2.append((t, e))
        if [t for t, _ in stm2 if t.startswith("out_")] != ["out_b1", "out_b2"]:
            raise X.ExtractionBreak("bk2x2: solve_inplace_2x2 (%s) does not end with `b1 = ...; b2 = ...;`" % which)
        smt = _lemma("solve_inplace_2x2", which, head, stm2, c_inputs, ["out_b1", "out_b2"],
                     [("e11 * out_b1 + CONJ(e21) * out_b2", "b1"), ("e21 * out_b1 + e22 * out_b2", "b2")], report)
        out.append(z3lemma.Z3Group("bkldlt.solve_inplace_2x2.%s" % which, smt, timeout=120,
                                   note="solve_inplace_2x2 (%s branch): the values stored in (b1, b2) solve [e11 conj(e21); e21 e22] x = b for every complex "
                                        "input with non-zero divisors (real closed field; machine arithmetic treated as mathematical)" % which))
    # ---- solve_left_2x2(e11, e21, e22, c1, c2, x): row-wise [x1 x2] E = [c1 c2]
    cond, head, br1, br2 = _branches("solve_left_2x2")
    report["bk2x2 solve_left_2x2 condition"] = cond
    for which, br in (("no-exchange", br1), ("columns-exchanged", br2)):
        smt = _lemma("solve_left_2x2", which, head, br, ["e11", "e21", "e22", "c1", "c2"], ["xcol0", "xcol1"],
                     [("xcol0 * e11 + xcol1 * e21", "c1"), ("xcol0 * CONJ(e21) + xcol1 * e22", "c2")], report)
        out.append(z3lemma.Z3Group("bkldlt.solve_left_2x2.%s" % which, smt, timeout=120,
                                   note="solve_left_2x2 (%s branch): every row of x satisfies [x1 x2] [e11 conj(e21); e21 e22] = [c1 c2] (coefficient-wise Eigen "
                                        "statements read row by row; real closed field; machine arithmetic treated as mathematical)" % which))
    return out
