/* Skeleton prelude: C view of the solver / factorization classes for the *lossy* extraction
 * (DESIGN 2.2-3).  Vectors are real C arrays whose allocated size is the Eigen size (CBMC's
 * bounds/pointer checks are Eigen's index assertions).  Dense matrices are data-less: shape, per-column
 * provenance tags, and a column buffer standing for "the column just addressed".  Floating-point values
 * of matrices and of scalars computed by Eigen expressions are nondeterministic.
 * Declarations and abstraction macros only - no function of yixuan/spectra is re-implemented here. */
#ifndef VERIF_SKEL_H
#define VERIF_SKEL_H
#include "verif_prelude.h"

#define NMAX 1048576                /* cap on n, ncv: keeps index arithmetic inside 64 bits; not an exploration bound */
#define EXC_user 7                  /* exception thrown by the user's operator */

typedef struct { Scalar re, im; } Complex;

typedef struct {
  Index rows, cols;
  Index *coltag;                    /* ghost: provenance tag per column (cols entries) */
  Scalar *colbuf;                   /* rows entries: storage standing for the column last addressed */
  Scalar cell;                      /* scratch cell for element reads/writes */
} Mat;

/* ---- ghost state ----------------------------------------------------------------------------- */
Index g_ops;                        /* number of times the user's operator was really applied */
Index g_clock;                      /* provenance clock: ticks at init / factorization / restart / eigen-decomposition */
Index g_restarts;                   /* restarts performed inside the current compute() */
Index g_budget;                     /* additive work budget: sum over factorize_from calls of 2*(to_m-from_k) */
Index g_i, g_j;                     /* Skolem indices (arbitrary but fixed) */

/* ---- allocation helpers ---------------------------------------------------------------------- */
static Scalar *VEC_NEW(Index n)
{ __CPROVER_assert(0 <= n, "Eigen: vector size >= 0"); __CPROVER_assume(n <= NMAX); Scalar *p = malloc(n * sizeof(Scalar)); __CPROVER_assume(p != NULL); return p; }
static _Bool *BVEC_NEW(Index n)
{ __CPROVER_assert(0 <= n, "Eigen: array size >= 0"); __CPROVER_assume(n <= NMAX); _Bool *p = malloc(n * sizeof(_Bool)); __CPROVER_assume(p != NULL); return p; }
static Index *IVEC_NEW(Index n)
{ __CPROVER_assert(0 <= n, "size >= 0"); __CPROVER_assume(n <= NMAX); Index *p = malloc(n * sizeof(Index)); __CPROVER_assume(p != NULL); return p; }
static Mat MAT_NEW(Index r, Index c)
{ Mat M; __CPROVER_assert(0 <= r && 0 <= c, "Eigen: matrix dims >= 0"); __CPROVER_assume(r <= NMAX && c <= NMAX);
  M.rows = r; M.cols = c; M.coltag = IVEC_NEW(c); M.colbuf = VEC_NEW(r); M.cell = nondet_Scalar(); return M; }
#define VEC_SIZE(p) ((Index)(__CPROVER_OBJECT_SIZE(p) / sizeof(*(p))))

/* Eigen coefficient access on a data-less matrix: index assertion + nondeterministic value */
static Scalar *MAT_ELEM(Mat *M, Index r, Index c)
{ __CPROVER_assert(0 <= r && r < M->rows && 0 <= c && c < M->cols, "Eigen index assertion: matrix coefficient (row, col) in range");
  M->cell = nondet_Scalar(); return &M->cell; }
/* &M(0, c): pointer to a column (length rows) */
static Scalar *MAT_COLPTR(Mat *M, Index r, Index c)
{ __CPROVER_assert(r == 0 && 0 <= c && c < M->cols, "Eigen index assertion: column pointer &M(0, c) in range");
  return M->colbuf; }
#define COL_CHECK(M, c) __CPROVER_assert(0 <= (c) && (c) < (M).cols, "Eigen index assertion: column index in range")
#define COLCOPY(A, i, B, j) do { COL_CHECK(A, i); COL_CHECK(B, j); \
    __CPROVER_assert((A).rows == (B).rows, "Eigen: column copy needs equal row counts"); (A).coltag[i] = (B).coltag[j]; } while (0)
/* an Eigen expression statement whose floating-point effect is dropped */
#define EIGEN_DROPPED(what) do { } while (0)
#define HAVOC_SCALAR(x) do { (x) = nondet_Scalar(); } while (0)
#define HAVOC_VEC(p) do { if ((p) != NULL) __CPROVER_havoc_object(p); } while (0)

/* ---- the user's operator --------------------------------------------------------------------- */
typedef struct { Index n; Scalar shift_re, shift_im; /* ghost: shift currently installed */ _Bool throws; } Op;
static void OP_perform_op(Op *op, const Scalar *x_in, Scalar *y_out)
{
  __CPROVER_assert(__CPROVER_r_ok(x_in, op->n * sizeof(Scalar)), "operator argument: x_in is a valid length-n vector");
  __CPROVER_assert(__CPROVER_w_ok(y_out, op->n * sizeof(Scalar)), "operator argument: y_out is a valid length-n vector");
  __CPROVER_assert(!__CPROVER_same_object(x_in, y_out), "operator argument: x_in and y_out are distinct buffers");
  g_ops++;
  if (nondet_bool()) { verif_exc = EXC_user; return; }   /* the user's operator may throw at any application */
  __CPROVER_havoc_object(y_out);
}
#endif
