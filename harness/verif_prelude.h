/* Common prelude of every extracted translation unit.  Declarations only: no function of
 * yixuan/spectra is re-implemented here. */
#ifndef VERIF_PRELUDE_H
#define VERIF_PRELUDE_H
#include <stddef.h>
#include <stdbool.h>
#include <stdlib.h>
#include <math.h>
#include <float.h>

typedef long Index;            /* Eigen::Index == std::ptrdiff_t */

#if defined(SCALAR_FLOAT)
typedef float Scalar;
#define SCALAR_EPS FLT_EPSILON
#define SCALAR_MIN FLT_MIN
#define SCALAR_MAX FLT_MAX
#define FABS(x) fabsf(x)
#define FSQRT(x) sqrtf(x)
#elif defined(SCALAR_LDOUBLE)
typedef long double Scalar;
#define SCALAR_EPS LDBL_EPSILON
#define SCALAR_MIN LDBL_MIN
#define SCALAR_MAX LDBL_MAX
#define FABS(x) fabsl(x)
#define FSQRT(x) sqrtl(x)
#else
typedef double Scalar;
#define SCALAR_EPS DBL_EPSILON
#define SCALAR_MIN DBL_MIN
#define SCALAR_MAX DBL_MAX
#define FABS(x) fabs(x)
#define FSQRT(x) sqrt(x)
#endif
typedef Scalar RealScalar;

#define VMIN(a, b) ((b) < (a) ? (b) : (a))   /* std::min: returns a unless b < a */
#define VMAX(a, b) ((a) < (b) ? (b) : (a))   /* std::max */

/* exception modelling: `throw std::E(..)` -> verif_exc = code; return.  Callers unwind. */
#define EXC_invalid_argument 1
#define EXC_runtime_error 2
#define EXC_logic_error 3
int verif_exc;

/* enum class SortRule (declaration order of Util/SelectionRule.h is checked by the extractor) */
typedef int SortRule;
typedef int CompInfo;

#define CANARY() __CPROVER_assert(0, "CANARY reachable end of harness")

Index nondet_Index(void);
long nondet_long(void);
unsigned long nondet_ulong(void);
int nondet_int(void);
_Bool nondet_bool(void);
float nondet_float(void);
double nondet_double(void);
long double nondet_ldouble(void);
#if defined(SCALAR_FLOAT)
#define nondet_Scalar nondet_float
#elif defined(SCALAR_LDOUBLE)
#define nondet_Scalar nondet_ldouble
#else
#define nondet_Scalar nondet_double
#endif

#endif
