#!/usr/bin/env python3
"""Generate semantics-preserving edits of /repo's headers as patches (selftest/harmless/*.diff).
The checks must answer `held` or UNDECIDED on each of them - never VIOLATION (DESIGN section 10)."""
import os, re, shutil, subprocess, tempfile

OUT = os.path.join(os.path.dirname(os.path.abspath(__file__)), "harmless")


def mk(name, edits):
    d = tempfile.mkdtemp(prefix="hm_")
    try:
        shutil.copytree("/repo/include", d + "/b/include")
        shutil.copytree("/repo/include", d + "/a/include")
        for rel, fn in edits:
            p = d + "/b/include/Spectra/" + rel
            s = open(p).read()
            t = fn(s)
            assert t != s, (name, rel)
            open(p, "w").write(t)
        out = subprocess.run(["diff", "-ruN", "a", "b"], cwd=d, capture_output=True, text=True).stdout
        os.makedirs(OUT, exist_ok=True)
        open(os.path.join(OUT, name + ".diff"), "w").write(out)
        print(name, out.count("\n@@"), "hunks")
    finally:
        shutil.rmtree(d)


def sub(pat, rep, need=1):
    def f(s):
        t, n = re.subn(pat, rep, s)
        assert n >= need, (pat, n)
        return t
    return f


def chain(*fs):
    def f(s):
        for g in fs:
            s = g(s)
        return s
    return f


top = lambda s: "// harmless: an extra comment line\n\n" + s
mk("H1-comment-shift", [(r, top) for r in ["HermEigsBase.h", "GenEigsBase.h", "LinAlg/Arnoldi.h", "LinAlg/Lanczos.h", "LinAlg/BKLDLT.h", "Util/SelectionRule.h",
                                           "Util/SimpleRandom.h", "LinAlg/TridiagEigen.h", "LinAlg/UpperHessenbergQR.h", "LinAlg/DoubleShiftQR.h",
                                           "contrib/PartialSVDSolver.h", "LinAlg/UpperHessenbergSchur.h", "LinAlg/UpperHessenbergEigen.h"]])
mk("H2-rename-local", [(r, sub(r"\bnev_adj\b", "k_adj", need=3)) for r in ["HermEigsBase.h", "GenEigsBase.h"]])
mk("H3-reorder-independent", [(r, sub(r"(        m_niter \+= i \+ 1;\n)(        m_info = [^\n]*\n)", r"\2\1")) for r in ["HermEigsBase.h", "GenEigsBase.h"]])
mk("H4-preincrement", [("HermEigsBase.h", sub(r"for \(Index i = 0; i < nshift; i\+\+\)", "for (Index i = 0; i < nshift; ++i)")),
                       ("LinAlg/BKLDLT.h", sub(r"for \(Index i = 0; i < m_n; i\+\+\)", "for (Index i = 0; i < m_n; ++i)"))])
mk("H5-equivalent-expr", [("HermEigsBase.h", chain(sub(r"return \(std::min\)\(m_nev, nconv\);", "return (std::min)(nconv, m_nev);"),
                                                   sub(r"if \(k >= m_ncv\)\n", "if (m_ncv <= k)\n")))])
mk("H6-braces", [(r, sub(r"            if \(nconv >= m_nev\)\n                break;\n", "            if (nconv >= m_nev)\n            {\n                break;\n            }\n"))
                 for r in ["HermEigsBase.h", "GenEigsBase.h"]])
mk("H7-yoda", [("LinAlg/BKLDLT.h", sub(r"if \(akk == Scalar\(0\)\)", "if (Scalar(0) == akk)", need=2))])
mk("H8-whitespace", [("Util/SimpleRandom.h", sub(r"\n    }\n", "\n    }\n\n", need=2)), ("Util/SelectionRule.h", sub(r";\n", ";  \n", need=10))])

# restructured but equivalent BothEnds interleave (generalized argsort extraction + weak policy must not raise an alarm)
mk("H9-bothends-ternary", [("Util/SelectionRule.h", sub(r"            if \(i % 2 == 0\)\n                ind\[i\] = ind_copy\[i / 2\];\n            else\n                ind\[i\] = ind_copy\[len - 1 - i / 2\];\n",
                                                      "            ind[i] = (i % 2 == 0) ? ind_copy[i / 2] : ind_copy[len - 1 - i / 2];\n"))])
mk("H10-bothends-two-copies", [("Util/SelectionRule.h", chain(sub(r"        std::vector<Index> ind_copy\(ind\);\n", "        const std::vector<Index> ind_large(ind);\n        const std::vector<Index> ind_small(ind);\n"),
                                                             sub(r"ind\[i\] = ind_copy\[i / 2\];", "ind[i] = ind_large[i / 2];"),
                                                             sub(r"ind\[i\] = ind_copy\[len - 1 - i / 2\];", "ind[i] = ind_small[len - 1 - i / 2];")))])
