"""Function contracts as data: one FSpec generates
  (a) the dfcc frame contract (requires + assigns) injected on the extracted function,
  (b) the enforcing harness (owns the memory, assumes PRE, calls the real function, asserts every POST clause),
  (c) the call-site stub (asserts PRE, havocs exactly the frame, assumes the POST clauses) used when a caller is
      verified against this contract instead of the body.
(b) and (c) are produced from the same clause texts, so the contract a caller relies on is the contract that was
proved.  Postconditions are asserted in the harness rather than written as dfcc `ensures` because dfcc's is_fresh
rebinding hides harness-owned arrays and CBMC cannot dereference a havocked pointer constrained only by an equality.
"""
import re


class FSpec:
    def __init__(self, cname, ret_c, params, pre=(), post=(), exc_post=(), frame=(), frame_objs=(),
                 may_throw=(), olds=(), real="", doc="", allocs_ret=None, stub_extra="", frame_fresh=(), frame_fresh_mat=(), frame_inplace=(), frame_inplace_mat=()):
        self.cname = cname
        self.ret_c = ret_c
        self.params = list(params)          # [(ctype, name)]
        self.pre = list(pre)                # [(label, expr)]
        self.post = list(post)              # [(label, expr)]   may use `ret`, old_* and Skolem globals
        self.exc_post = list(exc_post)      # holds when the function exits by exception
        self.frame = list(frame)            # scalar lvalues (C expressions over params) the function may assign
        self.frame_objs = list(frame_objs)  # pointer expressions whose whole object may be assigned
        self.may_throw = list(may_throw)    # exception codes
        self.olds = list(olds)              # [(ctype, name, expr)] snapshots taken at entry
        self.real = real                    # header:function this contract sits on
        self.doc = doc
        self.allocs_ret = allocs_ret
        self.stub_extra = stub_extra        # extra C in the stub before the post assumes (e.g. allocation of results)
        self.frame_fresh = list(frame_fresh)          # [(pointer lvalue, elem ctype)]: may be re-pointed to a fresh array
        self.frame_fresh_mat = list(frame_fresh_mat)  # Mat lvalues that may be replaced by a fresh matrix
        # pointer / Mat members the real function may swap with an equally-sized local buffer.  No caller holds an alias,
        # so the call-site stub models this as an in-place havoc of the pointee (dfcc forbids allocation inside loops
        # that carry a loop contract, and these callees are called from such loops).
        self.frame_inplace = list(frame_inplace)
        self.frame_inplace_mat = list(frame_inplace_mat)

    # ------------------------------------------------------------------ dfcc frame contract
    def frame_contract(self, extra_requires=()):
        c = []
        for _, e in list(self.pre) + [("", r) for r in extra_requires]:
            c.append("__CPROVER_requires(%s)" % e)
        tg = list(self.frame) + [lv for lv, _ in self.frame_fresh] + list(self.frame_fresh_mat) + \
            list(self.frame_inplace) + list(self.frame_inplace_mat) + \
            ["__CPROVER_object_whole(%s)" % p for p in list(self.frame_objs) + list(self.frame_inplace)] + \
            ["__CPROVER_object_whole(%s.coltag)" % m for m in self.frame_inplace_mat]
        if self.may_throw:
            tg.append("verif_exc")
        c.append("__CPROVER_assigns(%s)" % ", ".join(tg))
        return " ".join(c)

    def proto(self):
        return "%s %s(%s)" % (self.ret_c, self.cname, ", ".join("%s %s" % p for p in self.params) or "void")

    # ------------------------------------------------------------------ call-site stub
    def stub(self):
        L = ["/* contract stub of %s (%s): assert PRE, havoc FRAME, assume POST */" % (self.cname, self.real)]
        L.append(self.proto() + " {")
        for lab, e in self.pre:
            L.append('  __CPROVER_assert(%s, "precondition of %s at call site: %s");' % (e, self.cname, lab.replace('"', "'")))
        for ty, nm, e in self.olds:
            L.append("  %s %s = %s;" % (ty, nm, e))
        for lv in self.frame:
            L.append("  { __typeof__(%s) verif_nd; %s = verif_nd; }" % (lv, lv))
        for p in self.frame_objs:
            L.append("  __CPROVER_havoc_object(%s);" % p)
        for p in self.frame_inplace:
            L.append("  __CPROVER_havoc_object(%s);" % p)
        for m in self.frame_inplace_mat:
            L.append("  __CPROVER_havoc_object(%s.coltag); %s.cell = nondet_Scalar();" % (m, m))
        for lv, ty in self.frame_fresh:
            L.append("  { Index verif_n = nondet_Index(); __CPROVER_assume(0 <= verif_n && verif_n <= NMAX); %s = malloc(verif_n * sizeof(%s)); __CPROVER_assume(%s != NULL); }" % (lv, ty, lv))
        for lv in self.frame_fresh_mat:
            L.append("  { Index verif_r = nondet_Index(), verif_c = nondet_Index(); __CPROVER_assume(0 <= verif_r && verif_r <= NMAX && 0 <= verif_c && verif_c <= NMAX); %s = MAT_NEW(verif_r, verif_c); }" % lv)
        if self.ret_c != "void":
            L.append("  %s ret;" % self.ret_c)
        if self.stub_extra:
            L.append("  " + self.stub_extra)
        if self.may_throw:
            L.append("  if (nondet_bool()) { int verif_e = nondet_int(); __CPROVER_assume(%s); verif_exc = verif_e;" %
                     " || ".join("verif_e == %d" % c for c in self.may_throw))
            for lab, e in self.exc_post:
                L.append("    __CPROVER_assume(%s);" % e)
            L.append("    return%s; }" % ("" if self.ret_c == "void" else " ret"))
        for lab, e in self.post:
            L.append("  __CPROVER_assume(%s);" % e)
        L.append("  return%s;" % ("" if self.ret_c == "void" else " ret"))
        L.append("}")
        return "\n".join(L) + "\n"

    # ------------------------------------------------------------------ enforcing harness
    def harness(self, hname, setup, args, pre_assume=(), canary=True):
        """setup: C text that declares and allocates the arguments; args: call argument list text."""
        L = ['#line 1 "harness/%s"' % hname, "void %s(void) {" % hname, setup]
        for lab, e in list(self.pre) + [("", x) for x in pre_assume]:
            L.append("  __CPROVER_assume(%s);" % e)
        for ty, nm, e in self.olds:
            L.append("  %s %s = %s;" % (ty, nm, e))
        L.append("  verif_exc = 0;")
        if self.ret_c != "void":
            L.append("  %s ret = %s(%s);" % (self.ret_c, self.cname, args))
        else:
            L.append("  %s(%s);" % (self.cname, args))
        if self.may_throw:
            L.append("  if (verif_exc) {")
            L.append('    __CPROVER_assert(%s, "%s: only documented exception types");' %
                     (" || ".join("verif_exc == %d" % c for c in self.may_throw), self.cname))
            for lab, e in self.exc_post:
                L.append('    __CPROVER_assert(%s, "%s [exceptional exit]: %s");' % (e, self.cname, lab.replace('"', "'")))
            L.append("  } else {")
        else:
            L.append('  __CPROVER_assert(verif_exc == 0, "%s: does not throw");' % self.cname)
            L.append("  {")
        for lab, e in self.post:
            L.append('    __CPROVER_assert(%s, "%s: %s");' % (e, self.cname, lab.replace('"', "'")))
        L.append("  }")
        if canary:
            L.append("  CANARY();")
        L.append("}")
        return "\n".join(L) + "\n"
