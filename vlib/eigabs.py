"""Lexical abstraction of Eigen expression statements (DESIGN 2.2 step 3, the only lossy step).

A statement that still contains an Eigen marker after the idiom rules is replaced by
    <index/size checks for every sub-object selector in it> ; <havoc of what it defines>
What is dropped: the floating-point values.  What is kept: the statement's position in the control flow, every
index expression inside .col(e) / .head(e) / .leftCols(e) / M(i, j) (checked against the Eigen shape), the identity
of the defined object.  The list of abstracted statements is returned for the evidence."""
import re
from .extract import match_close, split_top, ExtractionBreak

MARKERS = [r"\.noalias\(\)", r"\.setZero\(\)", r"\.norm\(", r"\.inner_product\(", r"\.adjoint_product\(", r"\.cwiseAbs\(\)",
           r"\.maxCoeff\(\)", r"\.head\(", r"\.tail\(", r"\.col\(", r"\.leftCols\(", r"\.rightCols\(", r"\.block\(",
           r"\.swap\(", r"\.resize\(", r"\.array\(\)", r"\.real\(\)", r"\.dot\(", r"::Identity\(", r"\.adjoint\(\)",
           r"\.topLeftCorner\(", r"\.cols\(\)", r"\.rows\(\)"]
MARK_RX = re.compile("|".join(MARKERS))


def _stmt_span(b, pos):
    """Span of the simple statement containing pos: after previous ; { } to the next ; at paren depth 0."""
    s = pos
    depth = 0
    while s > 0:
        ch = b[s - 1]
        if ch in ")]":
            depth += 1
        elif ch in "([":
            depth -= 1
        elif ch in ";{}" and depth <= 0:
            break
        s -= 1
    e = pos
    depth = 0
    while e < len(b):
        ch = b[e]
        if ch in "([":
            depth += 1
        elif ch in ")]":
            depth -= 1
        elif ch == ";" and depth == 0:
            break
        elif ch in "{}" and depth == 0:
            raise ExtractionBreak("Eigen statement not terminated by ';': %r" % b[s:e][:80])
        e += 1
    return s, e


def _selectors(stmt, mats, vecs):
    """Index checks for every sub-object selector in the statement."""
    chk = []
    for m in re.finditer(r"([\w>.-]+?)\.(col|head|tail|leftCols|rightCols|block)\(", stmt):
        obj, sel = m.group(1), m.group(2)
        pc = match_close(stmt, m.end() - 1)
        args = [a.strip() for a in split_top(stmt[m.end():pc])]
        base = obj.split("->")[-1].split(".")[-1]
        if sel == "col":
            chk.append("COL_CHECK(%s, %s);" % (obj, args[0]))
        elif sel in ("leftCols", "rightCols"):
            chk.append("NCOLS_CHECK(%s, %s);" % (obj, args[0]))
        elif sel == "block":
            chk.append("BLOCK_CHECK(%s, %s);" % (obj, ", ".join(args)))
        elif sel in ("head", "tail"):
            if base in mats:
                raise ExtractionBreak("head/tail on a matrix: %s" % stmt)
            chk.append("SEG_CHECK(%s, %s);" % (obj, args[0]))
    return chk


def _split_assign(norm):
    depth = 0
    for k, ch in enumerate(norm):
        if ch in "([":
            depth += 1
        elif ch in ")]":
            depth -= 1
        elif ch == "=" and depth == 0:
            prev = norm[k - 1] if k else ""
            nxt = norm[k + 1] if k + 1 < len(norm) else ""
            if nxt == "=" or prev in "=!<>":
                continue
            if prev in "+-*/":
                return norm[:k - 1].strip(), prev + "=", norm[k + 1:].strip()
            return norm[:k].strip(), "=", norm[k + 1:].strip()
    return None


def abstract(body, mats, vecs, nonneg=("norm", "maxCoeff"), keep_rx=None, report=None, track_uses=()):
    """Replace every statement carrying an Eigen marker.  mats / vecs: names (without `S->` style prefixes) of matrix-
    and vector-typed objects in scope.  Returns new body; appends normalized statement texts to report."""
    pos = 0
    done = []
    while True:
        m = MARK_RX.search(body, pos)
        if not m:
            break
        s, e = _stmt_span(body, m.start())
        stmt = body[s:e]
        norm = " ".join(stmt.split())
        if keep_rx and re.search(keep_rx, norm):
            pos = e + 1
            continue
        head = ""
        mh = re.match(r"^(if|while|for)\s*\(", norm)
        if mh:
            # braceless controlled statement: keep the head (must be Eigen-free), abstract the statement
            pc = match_close(norm, mh.end() - 1)
            head, rest = norm[:pc + 1], norm[pc + 1:].strip()
            if MARK_RX.search(head) or mh.group(1) != "if" or not rest:
                raise ExtractionBreak("Eigen expression inside a control header: %r" % norm[:100])
            norm_full, norm = norm, rest
        elif re.match(r"^else\b", norm) and not re.match(r"^else\s*(if\b|\{|$)", norm):
            # braceless `else <statement>`: keep the keyword, abstract the statement inside braces
            head, rest = "else", norm[4:].strip()
            norm_full, norm = norm, rest
        elif re.match(r"^(else|return)\b", norm):
            raise ExtractionBreak("Eigen expression after else/return needs braces or a sidecar rule: %r" % norm[:100])
        chk = _selectors(norm, mats, vecs)
        # element accesses already rewritten to MAT_ELEM keep their index assertion
        for me in re.finditer(r"MAT_ELEM\(", norm):
            pc = match_close(norm, me.end() - 1)
            chk.append("(void)MAT_ELEM(%s);" % norm[me.end():pc])
        sa = _split_assign(norm)
        if track_uses:
            # typestate of tracked vectors: a statement that READS one (anywhere but as the plain target of `x[.noalias()] = ...`) carries a VUSE_<name> check
            rd = norm
            if sa and re.match(r"^(\w+)(?:\.noalias\(\))?$", sa[0]) and sa[1] == "=":
                rd = sa[2]
            for tv in track_uses:
                if re.search(r"(?<![\w.>])%s\b" % re.escape(tv), rd):
                    chk.append("VUSE_%s;" % tv)
        base_of = lambda t: re.sub(r"\.(col|head|tail|leftCols|rightCols|block|noalias|array)\(.*$", "", t).split("->")[-1].split(".")[-1]
        nn = lambda rhs: any(("." + k + "(") in rhs for k in nonneg)
        eff = None
        if sa:
            lhs, op, rhs = sa
            md = re.match(r"^(const\s+)?(?:Real)?Scalar\s+(\w+)$", lhs)
            if md:
                eff = "%sScalar %s = %s;" % (md.group(1) or "", md.group(2), "NONNEG_SCALAR()" if nn(rhs) else "nondet_Scalar()")
            elif re.match(r"^(const\s+)?(?:Real)?Vector\s+(\w+)$", lhs):
                # vector declared from an Eigen expression: same length as the first vector operand of the expression
                nm = re.match(r"^(const\s+)?(?:Real)?Vector\s+(\w+)$", lhs).group(2)
                ops = [t for t in re.findall(r"[\w>.-]+", rhs) if t.split("->")[-1].split(".")[-1] in vecs and "(" not in t]
                if not ops:
                    raise ExtractionBreak("vector declaration without a vector operand: %r" % norm[:100])
                eff = "Scalar *%s = VEC_NEW(VEC_SIZE(%s));" % (nm, ops[0])
            elif re.match(r"^(const\s+)?[A-Z]\w*\s+\w+$", lhs):
                raise ExtractionBreak("declaration of an Eigen object needs a sidecar rule: %r" % norm[:100])
            else:
                b0 = base_of(lhs)
                if b0 in mats:
                    l2 = re.sub(r"\.noalias\(\)$", "", lhs)
                    tgt = re.sub(r"\.(col|leftCols|rightCols|block|noalias)\(.*$", "", lhs)
                    kc = l2.find(".col(")
                    if kc >= 0 and match_close(l2, kc + 4) == len(l2) - 1:
                        eff = "COL_WRITTEN(%s, %s);" % (tgt, l2[kc + 5:-1])
                    else:
                        eff = "MAT_TOUCH(%s);" % tgt
                elif b0 in vecs:
                    tgt = re.sub(r"\.(head|tail|noalias|array)\(.*$", "", lhs)
                    eff = "HAVOC_VEC(%s);" % tgt
                else:
                    eff = "%s = %s;" % (lhs, "NONNEG_SCALAR()" if nn(rhs) else "nondet_Scalar()")
        else:
            mz = re.match(r"^([\w>.-]+?)((?:\.(?:rightCols|block|col|head|leftCols)\(.*\))?)\.setZero\(\)$", norm)
            mc = re.match(r"^[\w>.-]+\.(adjoint_product)\((.*)\)$", norm)
            msw = re.match(r"^([\w>.-]+)\.swap\(([\w>.-]+)\)$", norm)
            if msw and base_of(msw.group(1)) in vecs:
                eff = "{ Scalar *verif_t = %s; %s = %s; %s = verif_t; };" % (msw.group(1), msw.group(1), msw.group(2), msw.group(2))
            elif mz:
                tgt = mz.group(1)
                eff = ("MAT_TOUCH(%s);" % tgt) if base_of(tgt) in mats else ("HAVOC_VEC(%s);" % tgt)
            elif mc:
                args = [a.strip() for a in split_top(mc.group(2))]
                eff = "HAVOC_VEC(%s);" % re.sub(r"\.head\(.*\)$", "", args[-1])
            else:
                raise ExtractionBreak("cannot classify Eigen statement: %r" % norm[:120])
        if head:
            new = "/*E*/ " + head + " { " + " ".join(chk) + " " + eff + " }"
            norm = norm_full
        else:
            new = "/*E*/ " + " ".join(chk) + " " + eff[:-1]   # the final ';' stays in the body
        new += "\n" * stmt.count("\n")
        if head.startswith("if") and re.match(r";\s*else\b", body[e:]):
            body = body[:e] + " " + body[e + 1:]     # `if (c) { ... } ; else` would cut the else off: the braces already end the statement
        body = body[:s] + " " + new + body[e:]
        pos = s + len(new) + 2
        done.append(norm)
    if report is not None:
        report.extend(done)
    return body


SKEL_MACROS = r'''
#define NCOLS_CHECK(M, n) __CPROVER_assert(0 <= (n) && (n) <= (M).cols, "Eigen block assertion: leftCols/rightCols(n) within the matrix")
#define BLOCK_CHECK(M, r0, c0, nr, nc) __CPROVER_assert(0 <= (r0) && 0 <= (c0) && 0 <= (nr) && 0 <= (nc) && (r0) + (nr) <= (M).rows && (c0) + (nc) <= (M).cols, "Eigen block assertion: block(r0, c0, nr, nc) within the matrix")
#define SEG_CHECK(p, n) __CPROVER_assert(0 <= (n) && (n) <= VEC_SIZE(p), "Eigen block assertion: head/tail(n) within the vector")
#define MAT_TOUCH(M) do { (M).cell = nondet_Scalar(); } while (0)
#define COL_WRITTEN(M, c) do { COL_CHECK(M, c); (M).cell = nondet_Scalar(); } while (0)
static Scalar NONNEG_SCALAR(void) { Scalar x = nondet_Scalar(); __CPROVER_assume(x >= (Scalar)0); return x; }
'''
