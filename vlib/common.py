"""Shared helpers: enum tables cut from the headers."""
import re
from . import extract as X


def enum_values(relpath, name):
    raw, st = X.load(relpath)
    m = re.search(r"\benum\s+class\s+%s\s*\{([^}]*)\}" % name, st)
    if not m:
        raise X.ExtractionBreak("enum class %s not found in %s" % (name, relpath))
    vals = []
    for it in m.group(1).split(","):
        it = it.strip()
        if not it:
            continue
        if "=" in it:
            raise X.ExtractionBreak("enum %s has explicit values" % name)
        vals.append(it)
    return vals


def enum_defines(relpath, name):
    return "".join("#define %s_%s %d\n" % (name, v, i) for i, v in enumerate(enum_values(relpath, name)))
