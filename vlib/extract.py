"""Mechanical C++ -> C extraction of Spectra functions (re-run on every check).

No parser: comment stripping, brace/paren matching, ordered rewrite rules with
fire counters.  Every rule is newline-preserving so that `#line` directives keep
CBMC's source locations on the real header lines.

A function that cannot be located, or a rule that does not fire as often as the
sidecar demands, raises ExtractionBreak -> the check exits 2 (UNDECIDED), never
a VIOLATION and never a silent pass.
"""
import os
import re

REPO = os.environ.get("VERIF_REPO", "/repo")
INC = os.path.join(REPO, "include", "Spectra")


class ExtractionBreak(Exception):
    pass


# --------------------------------------------------------------------------- text utils

def strip_comments(text):
    """Replace // and /* */ comments and string literals' contents by blanks, keep newlines."""
    out = []
    i, n = 0, len(text)
    while i < n:
        c = text[i]
        if text.startswith("//", i):
            j = text.find("\n", i)
            if j < 0:
                j = n
            out.append(" " * (j - i))
            i = j
        elif text.startswith("/*", i):
            j = text.find("*/", i + 2)
            j = n if j < 0 else j + 2
            out.append("".join(ch if ch == "\n" else " " for ch in text[i:j]))
            i = j
        elif c == '"':
            j = i + 1
            while j < n and text[j] != '"':
                j += 2 if text[j] == "\\" else 1
            out.append('"' + "_" * (j - i - 1) + '"')
            i = j + 1
        elif c == "'" and i + 2 < n and (text[i + 2] == "'" or text[i + 1] == "\\"):
            j = text.find("'", i + 2)
            out.append(text[i:j + 1])
            i = j + 1
        else:
            out.append(c)
            i += 1
    return "".join(out)


PAIRS = {"(": ")", "[": "]", "{": "}", "<": ">"}


def match_close(text, pos):
    """text[pos] is an opener; return index of its matching closer."""
    op = text[pos]
    cl = PAIRS[op]
    depth = 0
    i = pos
    n = len(text)
    while i < n:
        c = text[i]
        if c == op:
            depth += 1
        elif c == cl:
            depth -= 1
            if depth == 0:
                return i
        i += 1
    raise ExtractionBreak("unbalanced %r at offset %d" % (op, pos))


def split_top(text, sep=",", angle=False):
    """Split at top-level separators (outside (), [], {} and, with angle=True, <>)."""
    parts, depth, cur = [], 0, []
    op = "([{<" if angle else "([{"
    cl = ")]}>" if angle else ")]}"
    for ch in text:
        if ch in op:
            depth += 1
        elif ch in cl:
            depth -= 1
        if ch == sep and depth == 0:
            parts.append("".join(cur))
            cur = []
        else:
            cur.append(ch)
    if "".join(cur).strip() or parts:
        parts.append("".join(cur))
    return parts


def lineno(text, pos):
    return text.count("\n", 0, pos) + 1


_cache = {}


def load(relpath):
    """relpath relative to include/Spectra.  Returns (raw, stripped)."""
    path = os.path.join(INC, relpath)
    if path not in _cache:
        try:
            raw = open(path).read()
        except OSError as e:
            raise ExtractionBreak("cannot read %s: %s" % (path, e))
        _cache[path] = (raw, strip_comments(raw))
    return _cache[path]


# --------------------------------------------------------------------------- locating

def class_body(stripped, cls, key=None, ordinal=0):
    """Return (start, end) offsets of the body (inside braces) of `class cls` /
    `struct cls`.  key: regex that must match the text between the class name and
    the opening brace (template specialisation arguments); ordinal among matches."""
    hits = []
    for m in re.finditer(r"\b(?:class|struct)\s+%s\b([^;{]*)\{" % re.escape(cls), stripped):
        if key is not None and not re.search(key, m.group(1)):
            continue
        if key is None and m.group(1).lstrip().startswith("<"):
            # a specialisation; only selected with a key
            continue
        hits.append(m)
    if len(hits) <= ordinal:
        raise ExtractionBreak("class %s (key=%r, ordinal=%d) not found" % (cls, key, ordinal))
    m = hits[ordinal]
    ob = m.end() - 1
    return ob + 1, match_close(stripped, ob)


class Func:
    def __init__(self):
        self.header = None     # relpath
        self.name = None
        self.ret = None        # return type text (C++), '' for ctor
        self.params = None     # raw params text
        self.inits = None      # ctor init list raw text or ''
        self.body = None       # body text without outer braces (comment-stripped)
        self.body_line = None  # line of the opening brace
        self.sig_line = None


def locate(relpath, name, cls=None, key=None, cls_ordinal=0, ordinal=0, params_re=None):
    """Locate a function definition `name(...) {...}` (at class-body depth when cls is given,
    at any depth-0/namespace position otherwise)."""
    raw, st = load(relpath)
    if cls:
        lo, hi = class_body(st, cls, key, cls_ordinal)
    else:
        lo, hi = 0, len(st)
    hits = []
    for m in re.finditer(r"(?<![\w:~.>])%s\s*\(" % re.escape(name), st[lo:hi]):
        p0 = lo + m.start()
        po = lo + m.end() - 1
        # brace depth relative to region start must be 0 (class) / namespace-level (free)
        seg = st[lo:p0]
        depth = seg.count("{") - seg.count("}")
        if cls and depth != 0:
            continue
        if not cls and depth > 1:
            continue
        pc = match_close(st, po)
        # what follows: qualifiers, init list, then '{'
        j = pc + 1
        tail_m = re.match(r"\s*(const\b)?\s*(noexcept\b)?\s*(override\b)?\s*(->\s*[\w:<> ]+)?\s*", st[j:])
        j += tail_m.end()
        inits = ""
        if st[j] == ":":
            # ctor init list up to the body brace (which follows a ')' or '}' at depth 0)
            k = j + 1
            d = 0
            while k < hi:
                ch = st[k]
                if ch in "([":
                    d += 1
                elif ch in ")]":
                    d -= 1
                elif ch == "{" and d == 0:
                    # body brace if previous non-space char is ')' or '}'
                    prev = st[j + 1:k].rstrip()
                    if prev.endswith(")") or prev.endswith("}"):
                        break
                    k = match_close(st, k)
                k += 1
            inits = st[j + 1:k]
            j = k
        if st[j] != "{":
            continue  # declaration or call, not a definition
        params = st[po + 1:pc]
        if params_re is not None and not re.search(params_re, params):
            continue
        be = match_close(st, j)
        # return type: text between previous ';', '}', '{', ':' (access spec) or '>' of template<>, and name
        k = p0 - 1
        while k > lo and st[k] not in ";{}":
            k -= 1
        pre = st[k + 1:p0]
        pre = re.sub(r"^\s*(public|private|protected)\s*:", " ", pre, flags=re.S)
        pre = re.sub(r"template\s*<[^{};]*?>\s*(?=\S)", " ", pre, count=1, flags=re.S) if "template" in pre else pre
        ret = " ".join(pre.split())
        f = Func()
        f.header, f.name, f.ret, f.params, f.inits = relpath, name, ret, params, inits
        f.body = st[j + 1:be]
        f.body_line = lineno(st, j)
        f.sig_line = lineno(st, p0)
        hits.append(f)
    if len(hits) <= ordinal:
        raise ExtractionBreak("function %s%s (ordinal %d, params_re=%r) not found in %s" %
                              ((cls + "::") if cls else "", name, ordinal, params_re, relpath))
    return hits[ordinal]


def inline_member_calls(fn, relpath, cls, skip=()):
    """Refactoring tolerance: a statement `helper();` that calls a parameterless void member function of the same class is replaced by the helper's
    body in braces (the helper must not `return`).  Returns (new Func, [names inlined])."""
    import copy
    done = []
    body = fn.body
    for _ in range(8):
        hit = None
        for m in re.finditer(r"(?<![\w.>:])(?:this->)?(\w+)\(\);", body):
            nm = m.group(1)
            if nm in skip or nm in ("return", "throw"):
                continue
            try:
                h = locate(relpath, nm, cls=cls)
            except ExtractionBreak:
                continue
            if h.params.strip() or (h.ret and not re.search(r"\bvoid\b", h.ret)):
                continue
            if re.search(r"\breturn\b", h.body):
                raise ExtractionBreak("helper %s::%s() returns early: cannot be inlined" % (cls, nm))
            hit = (m, nm, h)
            break
        if not hit:
            break
        m, nm, h = hit
        body = body[:m.start()] + "{ " + " ".join(h.body.split("\n")) + " }" + body[m.end():]
        done.append(nm)
    if not done:
        return fn, done
    g = copy.copy(fn)
    g.body = body
    return g, done


def inline_index_helpers(fn, relpath, cls):
    """Refactoring tolerance: `std::vector<Index> ind = helper(a1, a2, a3, ...);` where `helper` is a member function of the same class whose whole body is
    `std::vector<Index> ind; <statements without return>; return ind;` (e.g. the rule switch of GenEigsBase moved into a function) is replaced by the helper's body with the
    parameters substituted textually by the arguments (arguments must be side-effect-free: identifiers, member accesses, `.data()`, literals).  Returns (Func, [names])."""
    import copy
    done = []
    body = fn.body
    for m in list(re.finditer(r"std::vector<Index>\s+ind\s*=\s*(\w+)\(([^;]*)\);", body)):
        nm = m.group(1)
        try:
            h = locate(relpath, nm, cls=cls)
        except ExtractionBreak:
            continue
        hb = h.body.strip()
        if not re.match(r"^std::vector<Index>\s+ind\s*;", hb) or not re.search(r"return\s+ind\s*;\s*$", hb) or len(re.findall(r"\breturn\b", hb)) != 1:
            continue
        args = [a.strip() for a in split_top(m.group(2))]
        pars = [a.strip() for a in split_top(h.params)] if h.params.strip() else []
        if len(args) != len(pars) or any(not re.match(r"^[\w.>\-]+(?:\(\))?$|^\"[^\"]*\"$", a) for a in args):
            raise ExtractionBreak("helper %s::%s: call with arguments that cannot be substituted textually: %r" % (cls, nm, args))
        inner = re.sub(r"return\s+ind\s*;\s*$", "", hb)
        for par, a in zip(pars, args):
            pn = re.sub(r"^.*?(\w+)$", r"\1", par)
            inner = re.sub(r"(?<![\w.>])%s\b" % re.escape(pn), lambda _m, a=a: a, inner)
        body = body.replace(m.group(0), " ".join(inner.split("\n")), 1)
        done.append(nm)
    if not done:
        return fn, done
    g = copy.copy(fn)
    g.body = body
    return g, done


def inline_value_helpers(fn, relpath, cls):
    """Refactoring tolerance: a statement `x = helper(a1, ...);` where `helper` is a member function of the same class that takes scalar by-value parameters and whose body
    ends with its only `return E;` is replaced by `{ T p1 = a1; ... <body>; x = E; }` with the parameters renamed (they may be assigned in the helper, so each becomes a fresh
    local).  Arguments must be side-effect free.  Returns (Func, [names])."""
    import copy
    done = []
    body = fn.body
    for m in list(re.finditer(r"(?<![\w.>])(\w+)\s*=\s*(\w+)\(([^;()]*)\);", body)):
        tgt, nm = m.group(1), m.group(2)
        try:
            h = locate(relpath, nm, cls=cls)
        except ExtractionBreak:
            continue
        hb = h.body.strip()
        r = re.search(r"\breturn\b\s*([^;]*);\s*$", hb)
        if not r or len(re.findall(r"\breturn\b", hb)) != 1:
            continue
        args = [a.strip() for a in split_top(m.group(3))] if m.group(3).strip() else []
        pars = [a.strip() for a in split_top(h.params)] if h.params.strip() else []
        if len(args) != len(pars) or any(not re.match(r"^[\w.>\-]+$", a) for a in args):
            continue
        decl = []
        inner = hb[:r.start()]
        ret = r.group(1)
        ok = True
        for par, a in zip(pars, args):
            pm = re.match(r"^(?:const\s+)?(Index|int|Scalar|RealScalar|bool)\s+(\w+)$", par)
            if not pm:
                ok = False
                break
            fresh = "%s__%s" % (pm.group(2), nm)
            decl.append("%s %s = %s;" % (pm.group(1), fresh, a))
            pat = r"(?<![\w.>])%s\b" % re.escape(pm.group(2))
            inner = re.sub(pat, fresh, inner)
            ret = re.sub(pat, fresh, ret)
        if not ok:
            continue
        body = body.replace(m.group(0), "{ " + " ".join(decl) + " " + " ".join(inner.split("\n")) + " %s = %s; }" % (tgt, ret), 1)
        done.append(nm)
    if not done:
        return fn, done
    g = copy.copy(fn)
    g.body = body
    return g, done


def members(relpath, cls, key=None, cls_ordinal=0):
    """Names of data members declared directly in the class body (depth 0), by regex on
    declarations `Type name;` / `Type name = init;`."""
    raw, st = load(relpath)
    lo, hi = class_body(st, cls, key, cls_ordinal)
    body = st[lo:hi]
    # blank out nested braces
    out, depth = [], 0
    for ch in body:
        if ch == "{":
            depth += 1
            out.append(" ")
        elif ch == "}":
            depth -= 1
            out.append(" ")
        else:
            out.append(ch if depth == 0 or ch == "\n" else " ")
    flat = "".join(out)
    names = []
    for stmt in flat.split(";"):
        s = " ".join(stmt.split())
        s = re.sub(r"^(public|private|protected)\s*:\s*", "", s)
        if not s or s.startswith("using ") or "(" in s.split("=")[0] or s.startswith("template") or s.startswith("friend"):
            continue
        m = re.match(r"^(?:static\s+|mutable\s+|const\s+|constexpr\s+)*[\w:<>,\s\*&]+?[\s\*&](\w+)\s*(=.*)?$", s)
        if m:
            names.append(m.group(1))
    return names


# --------------------------------------------------------------------------- rewriting

class Rules:
    """Ordered, counted, newline-preserving rewrite rules."""

    def __init__(self):
        self.fired = {}

    def sub(self, name, pattern, repl, text, flags=0, min_fires=0, max_fires=None):
        cnt = [0]

        def _r(m):
            cnt[0] += 1
            new = m.expand(repl) if isinstance(repl, str) else repl(m)
            old_nl = m.group(0).count("\n")
            new_nl = new.count("\n")
            if new_nl > old_nl:
                new = " ".join(new.split("\n"))
                new_nl = 0
            return new + "\n" * (old_nl - new_nl)

        text = re.sub(pattern, _r, text, flags=flags)
        self.fired[name] = self.fired.get(name, 0) + cnt[0]
        if cnt[0] < min_fires:
            raise ExtractionBreak("rule %r fired %d < %d times" % (name, cnt[0], min_fires))
        if max_fires is not None and cnt[0] > max_fires:
            raise ExtractionBreak("rule %r fired %d > %d times" % (name, cnt[0], max_fires))
        return text

    def call_rewrite(self, name, head_re, fn, text, min_fires=0):
        """Rewrite `HEAD(args)` with balanced-paren argument capture.  head_re must end
        just before the '('.  fn(match, [args]) -> replacement text or None (leave as is).
        The replacement is re-scanned (past its first token) so nested occurrences fire too."""
        cnt = 0
        pos = 0
        rx = re.compile(head_re)
        while True:
            m = rx.search(text, pos)
            if not m:
                break
            po = m.end()
            while po < len(text) and text[po] in " \t":
                po += 1
            if po >= len(text) or text[po] != "(":
                pos = m.end()
                continue
            pc = match_close(text, po)
            args = [a.strip() for a in split_top(text[po + 1:pc])]
            new = fn(m, args)
            if new is None:
                pos = m.end()
                continue
            old = text[m.start():pc + 1]
            new = " ".join(new.split("\n")) + "\n" * old.count("\n")
            text = text[:m.start()] + new + text[pc + 1:]
            t = re.match(r"\W*\w+", new)
            pos = m.start() + (t.end() if t else 1)
            cnt += 1
        self.fired[name] = self.fired.get(name, 0) + cnt
        if cnt < min_fires:
            raise ExtractionBreak("rule %r fired %d < %d times" % (name, cnt, min_fires))
        return text
