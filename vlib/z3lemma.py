"""Non-CBMC obligation carriers that plug into runner.run_property:
Z3Group   - a tiny SMT-LIB lemma (expected unsat), discharged by z3 (or cvc5).
StaticGroup - a supporting static fact computed by the extractor (scan of the real text)."""
import os
import subprocess
import time

from .runner import Group


class Z3Group(Group):
    def __init__(self, name, smt2, note="", tiers=("quick", "thorough"), solver="z3", timeout=60, logic=None):
        super().__init__(name, smt2, entry=None, loop_contracts=False, solver=solver, canary=False, note=note, tiers=tiers,
                         timeout=timeout)
        self.smt2 = smt2

    def run_custom(self, prop, wdir):
        p = os.path.join(wdir, "lemma.smt2")
        open(p, "w").write(self.smt2)
        cmd = ["z3", "-T:%d" % self.timeout, p] if self.solver == "z3" else ["cvc5", "--tlimit=%d" % (self.timeout * 1000), p]
        t0 = time.time()
        try:
            r = subprocess.run(cmd, capture_output=True, text=True, timeout=self.timeout + 10)
            out = r.stdout.strip()
        except subprocess.TimeoutExpired:
            out = "timeout"
        dt = time.time() - t0
        res = {"group": self.name, "solver": self.solver, "bounded": None, "functions": [], "cmd": " ".join(cmd),
               "cached": False, "note": self.note, "solver_s": round(dt, 2)}
        ob = {"id": self.name + ".lemma", "desc": "SMT lemma (negation unsat): " + self.note[:120],
              "status": "SUCCESS" if out.split("\n")[0] == "unsat" else "FAILURE", "file": p, "line": 1, "function": None}
        if out.split("\n")[0] not in ("sat", "unsat"):
            res.update(status="undecided", reason="%s answered %r" % (self.solver, out[:200]))
            return res
        res.update(obligations=[ob], n_obligations=1, n_discharged=1 if ob["status"] == "SUCCESS" else 0,
                   failed=[] if ob["status"] == "SUCCESS" else [ob], canaries=[],
                   status="ok" if ob["status"] == "SUCCESS" else "failed")
        return res


class StaticGroup(Group):
    def __init__(self, name, ok, detail, obligation, undecided_on_fail=False, tiers=("quick", "thorough")):
        super().__init__(name, "", entry=None, loop_contracts=False, solver="static-scan", canary=False, note=detail, tiers=tiers)
        self.ok, self.detail, self.obligation, self.undecided_on_fail = ok, detail, obligation, undecided_on_fail

    def run_custom(self, prop, wdir):
        res = {"group": self.name, "solver": "static-scan", "bounded": None, "functions": [], "cmd": "extractor scan",
               "cached": False, "note": self.detail, "solver_s": 0.0}
        ob = {"id": self.name, "desc": self.obligation + " :: " + self.detail[:300], "status": "SUCCESS" if self.ok else "FAILURE",
              "file": None, "line": None, "function": None}
        if not self.ok and self.undecided_on_fail:
            res.update(status="undecided", reason=self.obligation + ": " + self.detail)
            return res
        res.update(obligations=[ob], n_obligations=1, n_discharged=1 if self.ok else 0, failed=[] if self.ok else [ob],
                   canaries=[], status="ok" if self.ok else "failed")
        return res
