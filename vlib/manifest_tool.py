"""Regenerate MANIFEST.json from props/*.py MANIFEST dicts + the not-applicable table."""
import importlib, json, os, sys
VERIF = os.path.dirname(os.path.dirname(os.path.abspath(__file__)))
sys.path.insert(0, VERIF)
NA = json.load(open(os.path.join(VERIF, "not_applicable.json")))
ALL = ["C%02d" % i for i in range(1, 21)]
PENDING = set()      # module under construction: not claimed until its check is quiet on the unchanged tree

def main():
    checks = []
    claimed = []
    for pid in ALL:
        if pid in PENDING or not os.path.exists(os.path.join(VERIF, "props", pid + ".py")):
            continue
        mod = importlib.import_module("props." + pid)
        m = getattr(mod, "MANIFEST", None)
        if not m:
            continue
        claimed.append(pid)
        checks.append({
            "property_id": pid,
            "quick_cmd": "bin/vcheck %s --tier quick" % pid,
            "thorough_cmd": "bin/vcheck %s --tier thorough" % pid,
            "evidence_file": "/verif/evidence/%s.json" % pid,
            "replay_cmd_template": "python3 bin/vreplay {path}",
            "engine": "cbmc-contracts",
            "level_claimed": {"category": m.get("category", "proof"), "text": m["text"], "design_ref": m.get("design_ref", "DESIGN.md section 3 (%s)" % pid)},
            "level_note": m["note"],
            "technique": m["technique"],
        })
    na = [{"property_id": k, "reason": v} for k, v in NA.items() if k not in claimed]
    for pid in ALL:
        if pid not in claimed and pid not in NA:
            na.append({"property_id": pid, "reason": "check not built yet in this session; see DESIGN.md section 3"})
    man = {
        "version": 1,
        "setup_cmd": "python3 -m compileall -q vlib props >/dev/null 2>&1; cbmc --version >/dev/null && goto-instrument --version >/dev/null && kissat --version >/dev/null",
        "hooks": {"guard": "YIXUAN_SPECTRA_VERIF",
                  "enable": "no hook is compiled into /repo: contracts are sidecar files injected into C text that is re-extracted from /repo/include on every run; native replay programs get private access with -Dprivate=public -Dprotected=public",
                  "baseline_off_cmd": "cmake --build /repo/_build -j16 && ctest --test-dir /repo/_build -j8 --timeout 900",
                  "source_commits": [], "add_only": True},
        "engines": [{"name": "cbmc-contracts", "path": "/verif/vlib", "serves_properties": claimed,
                     "kind_free_text": "mechanical C++->C extractor + sidecar contracts + CBMC 6.11 dfcc contract enforcement (kissat/cadical/cvc5), z3 for integer/real lemmas"}],
        "checks": checks,
        "notes": "exit 0 = all obligations discharged; exit 1 = VIOLATION line(s); exit 2 = UNDECIDED (solver timeout, tool limit or extraction break - never reported as a violation)",
        "not_applicable": sorted(na, key=lambda x: x["property_id"]),
    }
    json.dump(man, open(os.path.join(VERIF, "MANIFEST.json"), "w"), indent=1)
    print("claimed:", claimed)

if __name__ == "__main__":
    main()
