"""Turn a located C++ function (extract.Func) into a C function with injected contracts."""
import re
from .extract import Rules, ExtractionBreak, match_close, split_top

EXC = {"invalid_argument": 1, "runtime_error": 2, "logic_error": 3, "out_of_range": 4}


SCALAR_RET = {"Index", "int", "long", "Scalar", "RealScalar", "_Bool", "bool", "double", "float", "SortRule", "CompInfo",
              "unsigned long", "unsigned", "long double", "size_t"}


def ret_default(ret_c):
    r = ret_c.strip()
    if r == "void":
        return "return;"
    if r in SCALAR_RET or r.endswith("*"):
        return "return (%s)0;" % r
    return "{ static %s verif_zero; return verif_zero; }" % r


def c_params(params, ref_out, self_type=None, param_types=None, self_name="self"):
    """Translate a C++ parameter list.  Non-const references become pointers (names are
    appended to ref_out), const references are passed by value, defaults are dropped."""
    out = []
    if self_type:
        out.append("%s *%s" % (self_type, self_name))
    for p in split_top(params, angle=True):
        p = " ".join(p.split())
        if not p:
            continue
        p = split_top(p, "=")[0].strip()
        m = re.match(r"^(.*?)(\w+)$", p)
        if not m:
            raise ExtractionBreak("cannot parse parameter %r" % p)
        ty, nm = m.group(1).strip(), m.group(2)
        if param_types and nm in param_types:
            t = param_types[nm]
            if t == "REF":      # explicit: pointer to same base type
                base = ty.replace("&", "").strip()
                out.append("%s *%s" % (base, nm))
                ref_out.append(nm)
            else:
                out.append("%s %s" % (t, nm))
            continue
        is_const = ty.startswith("const ")
        if ty.endswith("&&"):
            raise ExtractionBreak("rvalue reference parameter %r needs a param_types entry" % p)
        if ty.endswith("&"):
            base = ty[:-1].strip()
            if is_const:
                base = base[len("const "):].strip()
                out.append("%s %s" % (base, nm))
            else:
                out.append("%s *%s" % (base, nm))
                ref_out.append(nm)
        else:
            out.append("%s %s" % (ty, nm))
    return ", ".join(out) if out else "void"


CAST_TYPES = r"Scalar|RealScalar|Index|QScalar"


def body_to_c(fn, R, members=(), ref_params=(), ret_c="void", extra_rules=(), maythrow=(),
              cast_types=CAST_TYPES, member_prefix="self->", pre_rules=(), post_fn=None):
    """Apply the sidecar's pre-rules, the generic idiom rules, then the sidecar's extra rules, to fn.body."""
    b = fn.body
    for rule in pre_rules:
        kw = rule[3] if len(rule) > 3 else {}
        b = R.sub("pre:" + rule[0], rule[1], rule[2], b, flags=kw.get("flags", re.S),
                  min_fires=kw.get("min", 1), max_fires=kw.get("max"))
    b = R.sub("drop-using", r"\busing\s+[\w:]+(\s*=[^;]*)?;", "", b)
    b = R.sub("constexpr", r"\bconstexpr\b", "const", b)
    b = R.sub("drop-std-string-msg", r"\bstd::string\s+\w+\s*=[^;]*;", "", b, flags=re.S)
    b = R.sub("throw", r"\bthrow\s+std::(\w+)\s*\([^;]*?\)\s*;",
              lambda m: "{ verif_exc = %d; %s }" % (EXC.get(m.group(1), 9), ret_default(ret_c)), b, flags=re.S)
    if re.search(r"\b(try|catch)\b", b):
        raise ExtractionBreak("%s contains try/catch: exception modelling unsupported" % fn.name)
    if re.search(r"\bthrow\b", b):
        raise ExtractionBreak("%s: untranslated throw" % fn.name)
    b = R.sub("std-min", r"\(std::min\)", "VMIN", b)
    b = R.sub("std-max", r"\(std::max\)", "VMAX", b)
    b = R.sub("eps", r"\bTypeTraits<\s*(?:Real)?Scalar\s*>::epsilon\(\)", "SCALAR_EPS", b)
    b = R.sub("tmin", r"\bTypeTraits<\s*(?:Real)?Scalar\s*>::min\(\)", "SCALAR_MIN", b)
    b = R.sub("enum-sortrule", r"\bSortRule::(\w+)", r"SortRule_\1", b)
    b = R.sub("enum-compinfo", r"\bCompInfo::(\w+)", r"CompInfo_\1", b)
    b = R.sub("static_cast", r"\bstatic_cast<\s*([\w ]+?)\s*>", r"(\1)", b)
    b = R.call_rewrite("functional-cast", r"(?<![\w.>:])\b(%s)\b(?=\s*\()" % cast_types,
                       lambda m, a: "((%s)(%s))" % (m.group(1), ", ".join(a)) if len(a) == 1 else None, b)
    b = R.sub("abs", r"(?<![\w.>:])(?:std::)?abs\s*\(", "FABS(", b)
    b = R.sub("sqrt", r"(?<![\w.>:])(?:std::)?sqrt\s*\(", "FSQRT(", b)
    b = R.sub("nullptr", r"\bnullptr\b", "NULL", b)
    for nm in ref_params:
        b = R.sub("ref-param:" + nm, r"(?<![\w.>])%s\b" % re.escape(nm), "(*%s)" % nm, b)
    if members:
        alt = "|".join(sorted((re.escape(m) for m in members), key=len, reverse=True))
        b = R.sub("member", r"(?<![\w.>])(%s)\b" % alt, member_prefix.replace("\\", "\\\\") + r"\1", b)
    for rule in extra_rules:
        name, pat, rep = rule[0], rule[1], rule[2]
        kw = rule[3] if len(rule) > 3 else {}
        b = R.sub("x:" + name, pat, rep, b, flags=kw.get("flags", re.S),
                  min_fires=kw.get("min", 1), max_fires=kw.get("max"))
    if post_fn:
        b = post_fn(b, R)
    b = b.replace("@Q@", '"')      # rule replacements write C string quotes as @Q@
    if maythrow:
        b = insert_exc_checks(b, maythrow, ret_c, R, fn.name)
    return b


def insert_exc_checks(b, maythrow, ret_c, R, fname):
    """After every statement that calls a may-throw callee insert the C++ unwinding step."""
    alt = "|".join(sorted((re.escape(m) for m in maythrow), key=len, reverse=True))
    rx = re.compile(r"(?<![\w])(%s)\s*\(" % alt)
    pos = 0
    cnt = 0
    while True:
        m = rx.search(b, pos)
        if not m:
            break
        pc = match_close(b, m.end() - 1)
        # find end of statement: next ';' at paren depth 0
        k = pc + 1
        depth = 0
        while k < len(b):
            ch = b[k]
            if ch in "([":
                depth += 1
            elif ch in ")]":
                depth -= 1
                if depth < 0:
                    raise ExtractionBreak("%s: may-throw call %s inside a condition/for header" % (fname, m.group(1)))
            elif ch == ";" and depth == 0:
                break
            elif ch in "{}" and depth == 0:
                raise ExtractionBreak("%s: may-throw call %s not in a simple statement" % (fname, m.group(1)))
            k += 1
        # statement start: previous ';', '{' or '}' -- if the text between contains a braceless
        # for/while/if head the check would change control flow -> refuse
        s = max(b.rfind(";", 0, m.start()), b.rfind("{", 0, m.start()), b.rfind("}", 0, m.start()))
        head = b[s + 1:m.start()]
        mh = None
        for mh in re.finditer(r"\b(if|for|while)\s*\(|\belse\b", head):
            pass
        if mh is not None:
            # braceless controlled statement: wrap `stmt;` in braces so that the unwinding check stays under the same control
            if mh.group(0).strip() == "else":
                st_start = s + 1 + mh.end()
            else:
                st_start = match_close(b, s + 1 + mh.end() - 1) + 1
            if re.search(r"\b(if|for|while|else)\b", b[st_start:m.start()]):
                raise ExtractionBreak("%s: may-throw call %s under nested braceless control" % (fname, m.group(1)))
            ins = " if (verif_exc) { %s } }" % ret_default(ret_c)
            b = b[:st_start] + " {" + b[st_start:k + 1] + ins + b[k + 1:]
            pos = k + 1 + len(ins) + 2
            cnt += 1
            continue
        ins = " if (verif_exc) { %s }" % ret_default(ret_c)
        b = b[:k + 1] + ins + b[k + 1:]
        pos = k + 1 + len(ins)
        cnt += 1
    R.fired["exc-check"] = R.fired.get("exc-check", 0) + cnt
    return b


LOOP_RX = re.compile(r"\b(for|while)\s*\(")


def inject_loop_contracts(b, loop_contracts, fname):
    """loop_contracts: {ordinal: text}.  Ordinals count `for`/`while` heads in textual order,
    excluding the tail of do-while."""
    if not loop_contracts:
        return b, 0
    heads = []
    for m in LOOP_RX.finditer(b):
        pc = match_close(b, m.end() - 1)
        rest = b[pc + 1:].lstrip()
        if m.group(1) == "while" and rest.startswith(";"):
            continue  # do { } while (...);
        heads.append(pc)
    done = 0
    for ordn in sorted(loop_contracts, reverse=True):
        if ordn >= len(heads):
            raise ExtractionBreak("%s: loop ordinal %d not found (%d loops)" % (fname, ordn, len(heads)))
        pc = heads[ordn]
        txt = " ".join(loop_contracts[ordn].split())
        b = b[:pc + 1] + " " + txt + " " + b[pc + 1:]
        done += 1
    return b, done


def ctor_inits_to_c(inits, R, skip=()):
    """`m_a(x), m_b(y)` -> `m_a = x; m_b = y;` (members in `skip` are dropped)."""
    out = []
    for it in split_top(inits):
        it = it.strip()
        if not it:
            continue
        m = re.match(r"^([\w:<>, ]+?)\s*\((.*)\)$", it, flags=re.S)
        if not m:
            raise ExtractionBreak("cannot parse ctor initialiser %r" % it)
        nm, val = m.group(1).strip(), " ".join(m.group(2).split())
        if nm in skip:
            continue
        out.append("%s = %s;" % (nm, val))
    return " ".join(out)


def emit(fn, cname, ret_c=None, self_type=None, members=(), param_types=None, contract="",
         loop_contracts=None, extra_rules=(), maythrow=(), init_skip=None, rules=None,
         static=False, pre_body="", cast_types=CAST_TYPES, pre_rules=(), self_name="self", post_fn=None):
    """Return (C text, Rules) for one function.  `contract` is placed between the declarator
    and the body; loop contracts between loop head and loop body."""
    R = rules or Rules()
    if ret_c is None:
        ret_c = fn.ret
        for kw in ("inline", "static", "virtual", "const"):
            ret_c = re.sub(r"\b%s\b" % kw, "", ret_c)
        ret_c = " ".join(ret_c.split()) or "void"
    refs = []
    params = c_params(fn.params, refs, self_type, param_types, self_name)
    if fn.inits and init_skip is not None:
        class _F:  # prepend translated initialisers to the body (same line as the brace)
            pass
        init_c = ctor_inits_to_c(fn.inits, R, skip=init_skip)
        fn = _copy_with_body(fn, " " + init_c + fn.body)
    body = body_to_c(fn, R, members=members, ref_params=refs, ret_c=ret_c,
                     extra_rules=extra_rules, maythrow=maythrow, cast_types=cast_types, pre_rules=pre_rules,
                     member_prefix=self_name + "->", post_fn=post_fn)
    body, nl = inject_loop_contracts(body, loop_contracts or {}, fn.name)
    R.fired["loop-contracts"] = nl
    contract = " ".join(contract.split())
    txt = '#line %d "%s"\n' % (fn.body_line, "/repo/include/Spectra/" + fn.header)
    txt += "%s%s %s(%s) %s {%s%s}\n" % ("static " if static else "", ret_c, cname, params, contract, pre_body, body)
    return txt, R


def _copy_with_body(fn, body):
    import copy
    g = copy.copy(fn)
    g.body = body
    return g
