"""Native replay helper: compile a C++ program against the REAL headers of the tree under check and run it."""
import os
import subprocess
from . import extract as X
from .runner import WORK, VERIF


def run_native(prop, src_text, args=(), cxxflags="-O1 -std=c++11", timeout=600, name="replay"):
    wd = os.path.join(WORK, prop, "native_" + name)
    os.makedirs(wd, exist_ok=True)
    open(os.path.join(wd, name + ".cpp"), "w").write(src_text)
    cmd = "cd %s && g++ %s -I%s/include -I/usr/include/eigen3 %s.cpp -o %s 2>cc.log && ./%s %s" % (
        wd, cxxflags, X.REPO, name, name, name, " ".join(str(a) for a in args))
    try:
        p = subprocess.run(["bash", "-c", cmd], capture_output=True, text=True, timeout=timeout)
        out = (p.stdout + p.stderr)[-3000:]
        rc = p.returncode
    except subprocess.TimeoutExpired:
        out, rc = "timeout", -9
    cc = ""
    try:
        cc = open(os.path.join(wd, "cc.log")).read()[-1500:]
    except OSError:
        pass
    crashed = rc in (132, 134, 136, 139, -4, -6, -8, -11) and os.path.exists(os.path.join(wd, name)) and "error" not in cc
    if crashed:
        out += "\nREPRODUCED: the real code crashed on the replay family (signal %d)" % (rc - 128 if rc > 0 else -rc)
    return {"reproduced": (rc == 1 and "REPRODUCED" in out) or crashed, "rc": rc, "output": out, "compile_log": cc if rc not in (0, 1) else "",
            "program": src_text, "cxxflags": cxxflags, "args": list(args)}


def src(name):
    return open(os.path.join(VERIF, "replay_src", name)).read()
