"""CBMC contract pipeline: goto-cc -> goto-instrument --dfcc -> cbmc, JSON accounting,
vacuity guards, classification (exit 0 / 1 VIOLATION / 2 UNDECIDED), evidence, replay files."""
import concurrent.futures as cf
import hashlib
import json
import os
import re
import shutil
import subprocess
import sys
import time

VERIF = os.path.dirname(os.path.dirname(os.path.abspath(__file__)))
WORK = os.path.join(VERIF, ".work")
CACHE = os.path.join(WORK, "cache")
HARN = os.path.join(VERIF, "harness")

CHECK_FLAGS = ["--bounds-check", "--pointer-check", "--signed-overflow-check",
               "--div-by-zero-check", "--conversion-check", "--pointer-primitive-check"]

_toolver = None


def toolver():
    global _toolver
    if _toolver is None:
        _toolver = subprocess.run(["cbmc", "--version"], capture_output=True, text=True).stdout.strip()
    return _toolver


class Group:
    """One verifier run = one set of obligations on one extracted function (or lemma)."""

    def __init__(self, name, c_text, entry, enforce=None, replace=(), loop_contracts=True,
                 solver="cadical", flags=None, defines=(), timeout=300, mem_gb=8, bounded=None,
                 functions=(), expect_classes=(), tiers=("quick", "thorough"), unwind=None,
                 arch=None, canary=True, note="", weight=1, object_bits=None, extra_cbmc=(),
                 direct=False):
        self.name = name
        self.c_text = c_text
        self.entry = entry
        self.enforce = enforce
        self.replace = list(replace)
        self.loop_contracts = loop_contracts
        self.solver = solver
        self.flags = list(CHECK_FLAGS if flags is None else flags)
        self.defines = list(defines)
        self.timeout = timeout
        self.mem_gb = mem_gb
        self.bounded = bounded          # None = unbounded proof; else text of the bound
        self.functions = list(functions)  # real functions under contract in this group
        self.expect_classes = list(expect_classes)
        self.tiers = tiers
        self.unwind = unwind
        self.arch = arch
        self.canary = canary
        self.note = note
        self.weight = weight
        self.object_bits = object_bits
        self.extra_cbmc = list(extra_cbmc)
        self.direct = direct            # loop-free harness: cbmc parses the C text itself (needed for --LLP64)
        self.result = None


def _run(cmd, timeout, mem_gb, cwd, log):
    pre = "ulimit -v %d; " % int(mem_gb * 1024 * 1024)
    t0 = time.time()
    try:
        p = subprocess.run(["bash", "-c", pre + "exec " + " ".join(_q(c) for c in cmd)], cwd=cwd,
                           capture_output=True, text=True, timeout=timeout)
        out, err, rc = p.stdout, p.stderr, p.returncode
    except subprocess.TimeoutExpired as e:
        out = (e.stdout or b"").decode("utf8", "replace") if isinstance(e.stdout, bytes) else (e.stdout or "")
        err = "TIMEOUT after %ds" % timeout
        rc = -9
    dt = time.time() - t0
    with open(log, "a") as f:
        f.write("$ %s\n[rc=%s %.1fs]\n%s\n" % (" ".join(cmd), rc, dt, err[-4000:]))
    return rc, out, err, dt


def _q(s):
    return "'" + s.replace("'", "'\\''") + "'"


def solver_flags(solver):
    if solver == "kissat":
        return ["--external-sat-solver", "kissat"]
    if solver == "cadical":
        return ["--sat-solver", "cadical"]
    if solver == "minisat":
        return []
    if solver == "cvc5":
        return ["--cvc5"]
    if solver == "z3":
        return ["--z3"]
    raise ValueError(solver)


def run_group(g, prop, use_cache=True):
    """Fill g.result = dict(status=ok|failed|undecided, obligations=[...], ...)."""
    wdir = os.path.join(WORK, prop, re.sub(r"[^\w.-]", "_", g.name))
    shutil.rmtree(wdir, ignore_errors=True)
    os.makedirs(wdir)
    src = os.path.join(wdir, "tu.c")
    with open(src, "w") as f:
        f.write(g.c_text)
    log = os.path.join(wdir, "log.txt")
    if hasattr(g, "run_custom"):
        g.result = g.run_custom(prop, wdir)
        return g
    cc = ["goto-cc", "--function", g.entry, "-I", HARN] + ["-D" + d for d in g.defines]
    if g.arch:
        cc += g.arch
    cc += [src, "-o", os.path.join(wdir, "a.gb")]
    gi = None
    if g.enforce or g.replace or g.loop_contracts:
        gi = ["goto-instrument", "--dfcc", g.entry]
        if g.enforce:
            gi += ["--enforce-contract", g.enforce]
        for r in g.replace:
            gi += ["--replace-call-with-contract", r]
        if g.loop_contracts:
            gi += ["--apply-loop-contracts"]
        gi += [os.path.join(wdir, "a.gb"), os.path.join(wdir, "b.gb")]
    cb = ["cbmc", os.path.join(wdir, "b.gb" if gi else "a.gb")] + g.flags + solver_flags(g.solver)
    if g.direct:
        gi = None
        cb = ["cbmc", src, "--function", g.entry, "-I", HARN] + ["-D" + d for d in g.defines] + (g.arch or []) + \
            g.flags + solver_flags(g.solver)
        cc = None
    if g.unwind:
        cb += ["--unwind", str(g.unwind), "--unwinding-assertions"]
    if g.object_bits:
        cb += ["--object-bits", str(g.object_bits)]
    cb += g.extra_cbmc + ["--drop-unused-functions", "--json-ui"]
    strip = lambda c: c and [x for x in c[1:] if x != src and not x.endswith(".gb") and x != "-o"]
    key = hashlib.sha256(json.dumps([g.c_text, strip(cc), strip(gi), strip(cb), toolver()],
                                    sort_keys=True).encode()).hexdigest()
    cpath = os.path.join(CACHE, key + ".json")
    res = {"group": g.name, "solver": g.solver, "bounded": g.bounded, "functions": g.functions,
           "cmd": " && ".join(" ".join(x) for x in (cc, gi, cb) if x), "cached": False, "note": g.note}
    if use_cache and os.path.exists(cpath) and not os.environ.get("VERIF_NOCACHE"):
        try:
            old = json.load(open(cpath))
            old["cached"] = True
            g.result = old
            return g
        except Exception:
            pass
    t0 = time.time()
    if cc:
        rc, out, err, dt = _run(cc, 120, 4, wdir, log)
        if rc != 0:
            res.update(status="undecided", reason="goto-cc failed (extraction/translation break): " + _tail(err + out))
            g.result = res
            return g
    if gi:
        rc, out, err, dt = _run(gi, 300, 8, wdir, log)
        if rc != 0:
            res.update(status="undecided", reason="goto-instrument failed: " + _tail(err + out))
            g.result = res
            return g
    rc, out, err, dt = _run(cb, g.timeout, g.mem_gb, wdir, log)
    res["solver_s"] = round(dt, 2)
    res["wall_s"] = round(time.time() - t0, 2)
    with open(os.path.join(wdir, "cbmc.json"), "w") as f:
        f.write(out)
    if rc == -9:
        res.update(status="undecided", reason="timeout %ds" % g.timeout)
        g.result = res
        return g
    try:
        js = json.loads(out)
    except Exception:
        res.update(status="undecided", reason="cbmc produced no JSON (rc=%s, oom/timeout/tool error): %s" % (rc, _tail(err + out[-2000:])))
        g.result = res
        return g
    obl, msgs = [], []
    verdict = None
    for item in js:
        if "result" in item:
            for r in item["result"]:
                loc = r.get("sourceLocation", {})
                obl.append({"id": r.get("property"), "desc": r.get("description", ""),
                            "status": r.get("status"), "file": loc.get("file"), "line": loc.get("line"),
                            "function": loc.get("function")})
        if "messageText" in item:
            msgs.append(item["messageText"])
        if "cProverStatus" in item:
            verdict = item["cProverStatus"]
    res["verdict"] = verdict
    bad_msgs = [m for m in msgs if re.search(r"ignoring (forall|exists)|VERIFICATION ERROR|not supported", m)]
    errors = [m for m in msgs if "error" in m.lower() and "assertion" not in m.lower()]
    oom = [m for m in msgs if "out of memory" in m.lower()]
    if oom:
        res.update(status="undecided", reason="solver memory limit (%d GB): %s" % (g.mem_gb, oom[0]))
        g.result = res
        return g
    if verdict is None or not obl:
        res.update(status="undecided", reason="no verdict / zero obligations: " + _tail("\n".join(msgs[-8:]) + err))
        g.result = res
        return g
    if bad_msgs:
        res.update(status="undecided", reason="quantifier/feature dropped by back end: " + bad_msgs[0])
        g.result = res
        return g
    canaries = [o for o in obl if o["desc"].startswith("CANARY") and o["function"] == g.entry]
    real = [o for o in obl if not o["desc"].startswith("CANARY")]
    failed = [o for o in real if o["status"] != "SUCCESS"]
    res["obligations"] = real
    res["n_obligations"] = len(real)
    res["n_discharged"] = len(real) - len(failed)
    res["failed"] = failed
    res["canaries"] = canaries
    # vacuity guards
    vac = []
    if g.canary:
        if not canaries:
            vac.append("no reachability canary in harness")
        for c in canaries:
            if c["status"] == "SUCCESS":
                vac.append("canary not reachable (contradictory requires/assume): " + c["desc"])
    classes = " ".join(o["id"] + " " + o["desc"] for o in real)
    for cls in g.expect_classes:
        if cls not in classes:
            vac.append("expected obligation class missing: " + cls)
    if vac:
        res.update(status="undecided", reason="vacuity guard: " + "; ".join(vac))
    elif failed:
        res["status"] = "failed"
    else:
        res["status"] = "ok"
    g.result = res
    if res["status"] in ("ok", "failed"):
        os.makedirs(CACHE, exist_ok=True)
        with open(cpath, "w") as f:
            json.dump(res, f)
    return g


def _tail(s, n=600):
    s = s.strip()
    return s[-n:]


def _cbmc_base(g, wdir):
    src = os.path.join(wdir, "tu.c")
    if g.direct:
        cb = ["cbmc", src, "--function", g.entry, "-I", HARN] + ["-D" + d for d in g.defines] + (g.arch or [])
    else:
        gb = os.path.join(wdir, "b.gb")
        if not os.path.exists(gb):
            gb = os.path.join(wdir, "a.gb")
        cb = ["cbmc", gb]
    cb += g.flags + solver_flags(g.solver)
    if g.unwind:
        cb += ["--unwind", str(g.unwind), "--unwinding-assertions"]
    if g.object_bits:
        cb += ["--object-bits", str(g.object_bits)]
    return cb + g.extra_cbmc + ["--drop-unused-functions"]


def trace_for(g, prop, obligation_id):
    """Re-run cbmc for one failed obligation with a trace; returns the list of assignments."""
    wdir = os.path.join(WORK, prop, re.sub(r"[^\w.-]", "_", g.name))
    if not os.path.exists(os.path.join(wdir, "tu.c")) or \
            (not g.direct and not os.path.exists(os.path.join(wdir, "a.gb"))):
        os.environ["VERIF_NOCACHE"] = "1"   # result came from the cache: rebuild the binaries
        run_group(g, prop, use_cache=False)
        os.environ.pop("VERIF_NOCACHE", None)
    cb = _cbmc_base(g, wdir) + ["--property", obligation_id, "--trace", "--json-ui"]
    rc, out, err, dt = _run(cb, g.timeout, g.mem_gb, wdir, os.path.join(wdir, "log.txt"))
    assigns = []
    try:
        js = json.loads(out)
        for item in js:
            for r in item.get("result", []):
                for st in r.get("trace", []):
                    if st.get("stepType") == "assignment" and not st.get("hidden"):
                        v = st.get("value", {})
                        assigns.append({"lhs": st.get("lhs"), "value": v.get("data", v.get("name")),
                                        "binary": v.get("binary"), "line": st.get("sourceLocation", {}).get("line"),
                                        "function": st.get("sourceLocation", {}).get("function")})
    except Exception:
        pass
    return assigns


def last_value(assigns, lhs, function=None):
    val = None
    for a in assigns:
        if a["lhs"] == lhs and (function is None or a["function"] == function):
            val = a["value"]
    return val


# --------------------------------------------------------------------------- property-level driver

def run_property(prop, tier, groups, meta, replay_fn=None, jobs=None):
    """groups: list[Group]; meta: dict(level, assumptions, trusted_base, functions, not_covered, ...).
    Returns exit code; writes evidence and replays; prints VIOLATION / KNOWN-FINDING / UNDECIDED lines."""
    t0 = time.time()
    seed = int(os.environ.get("VERIF_SEED", "0") or 0)
    groups = [g for g in groups if tier in g.tiers]
    # declared timeouts are sized on an idle machine; they only stop runaway solver runs, so leave generous head room
    # (a timeout is UNDECIDED = exit 2, which on the unchanged tree would make the check unusable)
    scale = (3.0 if tier == "thorough" else 2.0) * float(os.environ.get("VERIF_TIMEOUT_SCALE", "1"))
    for g in groups:
        if not getattr(g, "_scaled", False):
            g.timeout = int(g.timeout * scale)
            g._scaled = True
    jobs = jobs or int(os.environ.get("VERIF_JOBS", "14"))
    shutil.rmtree(os.path.join(WORK, prop), ignore_errors=True)
    # heavy groups limit parallelism through weights
    with cf.ThreadPoolExecutor(max_workers=jobs) as ex:
        futs = [ex.submit(run_group, g, prop) for g in groups]
        for f in futs:
            f.result()
    known = load_known(prop)
    undec, viol, knownhit = [], [], []
    n_obl = n_dis = n_bobl = n_bdis = 0
    solver_s = 0.0
    backends = {}
    samples = []
    for g in groups:
        r = g.result
        if r["status"] == "undecided":
            undec.append((g, r["reason"]))
            continue
        solver_s += r.get("solver_s", 0)
        backends[r["solver"]] = backends.get(r["solver"], 0) + r["n_obligations"]
        if g.bounded:
            n_bobl += r["n_obligations"]
            n_bdis += r["n_discharged"]
        else:
            n_obl += r["n_obligations"]
            n_dis += r["n_discharged"]
        if r["obligations"]:
            posts = [o for o in r["obligations"] if "postcondition" in o["id"] or "assertion" in o["id"]]
            o = (posts or r["obligations"])[0]
            samples.append({"group": g.name, "obligation": o["id"], "desc": o["desc"][:160], "status": o["status"],
                            "at": "%s:%s" % (o["file"], o["line"])})
        for o in r["failed"]:
            k = match_known(known, g, o)
            if k:
                knownhit.append((k, g, o))
            else:
                viol.append((g, o))
    # obligations that fail and are listed in known_findings.json are NOT part of what this run claims as proved: they are taken out of the
    # obligations / discharged pair and listed on their own (coverage.known_finding_obligations)
    for k, g, o in knownhit:
        if g.bounded:
            n_bobl -= 1
        else:
            n_obl -= 1
    code = 0
    rep_dir = os.path.join(VERIF, "replays", prop)
    replay_cache = {}
    # groups extracted under WEAKENED rules (parts of the function abstracted more coarsely than the contract was written for): a failed
    # obligation there is reported as a violation only if the native replay reproduces a failing input on the real code; otherwise UNDECIDED
    weak_groups = sorted({g.name for g, o in viol if getattr(g, "weak", None)})
    for gname in weak_groups:
        g0, o0 = [(g, o) for g, o in viol if g.name == gname][0]
        try:
            concrete = replay_fn(g0, o0, [], os.path.join(rep_dir, "weak.json")) if replay_fn else {"reproduced": False}
        except Exception as e:
            concrete = {"reproduced": False, "error": repr(e)}
        replay_cache[gname] = concrete
        if not (concrete and concrete.get("reproduced")):
            undec.append((g0, "refutation on a weakened extraction (%s) did not replay on the real code: undecided, not a violation" % g0.weak))
            viol = [(g, o) for g, o in viol if g.name != gname]
    if viol:
        os.makedirs(rep_dir, exist_ok=True)
    printed = set()
    pergroup = {}
    ntrace = 0
    for g, o in viol:
        code = 1
        path = os.path.join(rep_dir, re.sub(r"[^\w.-]", "_", g.name + "__" + o["id"]) + ".json")
        ntrace += 1
        assigns = [] if (hasattr(g, "run_custom") or ntrace > 6) else trace_for(g, prop, o["id"])
        rep = {"property": prop, "group": g.name, "obligation": o, "functions": g.functions,
               "verifier_cmd": g.result["cmd"], "bounded": g.bounded,
               "counterexample_assignments": assigns[-400:]}
        concrete = None
        if replay_fn:
            if g.name in replay_cache:
                concrete = replay_cache[g.name]      # one native replay per group (same program, same family of inputs)
            elif len(replay_cache) < 4:
                try:
                    concrete = replay_fn(g, o, assigns, path)
                except Exception as e:  # replay machinery failure must not hide the violation
                    concrete = {"reproduced": False, "error": repr(e)}
                replay_cache[g.name] = concrete
            else:
                concrete = {"reproduced": False, "why": "native replay budget used by earlier violations of this run"}
        rep["native_replay"] = concrete
        with open(path, "w") as f:
            json.dump(rep, f, indent=1)
        suffix = "" if (concrete and concrete.get("reproduced")) else " no-failing-input-found"
        line = "VIOLATION property=%s replay=%s%s" % (prop, path, suffix)
        pergroup[g.name] = pergroup.get(g.name, 0) + 1
        if pergroup[g.name] <= 8:
            print(line)
            print("  failed obligation: [%s] %s  (%s:%s, group %s)" % (o["id"], o["desc"][:200], o["file"], o["line"], g.name))
        elif pergroup[g.name] == 9:
            print("  ... further failed obligations of group %s are listed in the evidence file / replay directory" % g.name)
    seenk = set()
    for k, g, o in knownhit:
        if k["id"] not in seenk:
            seenk.add(k["id"])
            print("KNOWN-FINDING: property=%s %s" % (prop, k["what"]))
    for g, why in undec:
        print("UNDECIDED property=%s group=%s reason=%s" % (prop, g.name, why.replace("\n", " ")[:500]))
    if undec and code == 0:
        code = 2
    wall = time.time() - t0
    level = meta.get("level", "proof")
    cov = {
        "obligations": n_obl, "discharged": n_dis,
        "bounded_obligations": n_bobl, "bounded_discharged": n_bdis,
        "bounded_groups": [{"group": g.name, "bound": g.bounded} for g in groups if g.bounded],
        "checker_cmd": "cbmc 6.11.0: goto-cc --function h; goto-instrument --dfcc h --enforce-contract f "
                       "[--replace-call-with-contract g] --apply-loop-contracts; cbmc <checks> <solver> --json-ui "
                       "(per group; exact command lines under groups[].cmd)",
        "trusted_base": meta.get("trusted_base", []),
        "functions_under_contract": sorted({f for g in groups for f in g.functions}),
        "backends": backends, "solver_s": round(solver_s, 1),
        "groups": [{"name": g.name, "status": g.result["status"], "n": g.result.get("n_obligations", 0),
                    "discharged": g.result.get("n_discharged", 0), "solver": g.solver,
                    "solver_s": g.result.get("solver_s"), "cached": g.result.get("cached"),
                    "bounded": g.bounded, "enforce": g.enforce, "replace": g.replace,
                    "cmd": g.result["cmd"], "note": g.note,
                    "reason": g.result.get("reason")} for g in groups],
        "samples": samples[:12] or [{"note": "no obligation discharged in this run"}],
        "known_findings_hit": sorted(seenk),
        "known_finding_obligations": [{"finding": k["id"], "group": g.name, "obligation": o["id"], "desc": o["desc"][:200]} for k, g, o in knownhit],
        "undecided_groups": [g.name for g, _ in undec],
        "not_covered": meta.get("not_covered", []),
        "extraction": meta.get("extraction", {}),
        "explanation": meta.get("explanation", ""),
        "evaluations": n_obl + n_bobl, "distinct_nontrivial": n_dis + n_bdis,
        "rule": "one evaluation = one verifier obligation generated from the extracted real code + sidecar contract; "
                "all are distinct (unique obligation ids); bounded ones are listed separately and never counted as proved",
    }
    ev = {"property_id": prop, "tier": tier, "seed": seed, "level": level, "coverage": cov,
          "assumptions": meta.get("assumptions", []), "wall_s": round(wall, 1),
          "violations": len(viol)}
    os.makedirs(os.path.join(VERIF, "evidence"), exist_ok=True)
    with open(os.path.join(VERIF, "evidence", prop + ".json"), "w") as f:
        json.dump(ev, f, indent=1)
    print("%s tier=%s groups=%d obligations=%d discharged=%d bounded=%d/%d undecided=%d known=%d violations=%d wall=%.1fs" %
          (prop, tier, len(groups), n_obl, n_dis, n_bdis, n_bobl, len(undec), len(seenk), len(viol), wall))
    return code


def load_known(prop):
    p = os.path.join(VERIF, "known_findings.json")
    if not os.path.exists(p):
        return []
    js = json.load(open(p))
    return [k for k in js.get("findings", []) if k.get("property") == prop]


def match_known(known, g, o):
    for k in known:
        if k.get("group") and k["group"] != g.name:
            continue
        if k.get("obligation_re") and not re.search(k["obligation_re"], o["id"] + " " + o["desc"]):
            continue
        if k.get("line") and str(k["line"]) != str(o["line"]):
            continue
        return k
    return None


def write_undecided_evidence(prop, tier, why):
    ev = {"property_id": prop, "tier": tier, "seed": int(os.environ.get("VERIF_SEED", "0") or 0), "level": "other",
          "coverage": {"explanation": "UNDECIDED, nothing was verified in this run: " + why}, "assumptions": [],
          "wall_s": 0.0, "violations": 0}
    os.makedirs(os.path.join(VERIF, "evidence"), exist_ok=True)
    with open(os.path.join(VERIF, "evidence", prop + ".json"), "w") as f:
        json.dump(ev, f, indent=1)
