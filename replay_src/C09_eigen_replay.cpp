// Native replay for C09 on the real dense eigen-solvers: exact-zero / exact-conjugate conventions, backward error on small
// structured matrices (integer, graded, zero sub-diagonals, scaled), zero matrix, failure => exception.
#include <stdexcept>
struct EigenAssert : std::logic_error { EigenAssert(const char* s) : std::logic_error(s) {} };
#define eigen_assert(x) do { if (!(x)) throw EigenAssert(#x); } while (0)
#include <Eigen/Core>
#include <cstdio>
#include <cmath>
#include <Spectra/LinAlg/TridiagEigen.h>
#include <Spectra/LinAlg/UpperHessenbergSchur.h>
#include <Spectra/LinAlg/UpperHessenbergEigen.h>
using namespace Spectra;
static int bad = 0;
static void fail(const char* w, int n, int p, double s) { if (!bad++) printf("%s (n=%d pattern=%d scale=%g)\n", w, n, p, s); }
int main() {
  // the zero matrix (every size): trivially decomposable, must give finite results - or at least never NaN / never a failure report
  for (int n = 1; n <= 6; n++) {
    Eigen::MatrixXd Z0 = Eigen::MatrixXd::Zero(n, n);
    try { UpperHessenbergEigen<double> he(Z0); Eigen::VectorXcd ev = he.eigenvalues(); Eigen::MatrixXcd V = he.eigenvectors();
      bool fin = true; for (int i = 0; i < n; i++) if (!(ev[i].real() == 0 && ev[i].imag() == 0)) fin = false;
      if (!fin) fail("UpperHessenbergEigen of the ZERO matrix returns non-zero / NaN eigenvalues (division by max|H_ij| = 0)", n, -1, 0.0);
      else if (!((V.adjoint() * V - Eigen::MatrixXcd::Identity(n, n)).norm() <= 1e-12)) fail("UpperHessenbergEigen of the zero matrix: eigenvectors not unit-norm / NaN", n, -1, 0.0);
    } catch (const std::exception&) { fail("UpperHessenbergEigen of the ZERO matrix throws (division by max|H_ij| = 0 turns the input into NaN)", n, -1, 0.0); }
    try { TridiagEigen<double> te(Z0); if (!(te.eigenvalues().norm() == 0) || !((te.eigenvectors().transpose() * te.eigenvectors() - Eigen::MatrixXd::Identity(n, n)).norm() <= 1e-12)) fail("TridiagEigen of the zero matrix: wrong result", n, -1, 0.0); }
    catch (const EigenAssert& e) { printf("  [%s]\n", e.what()); fail("TridiagEigen: an Eigen precondition is violated inside compute() (maxCoeff of the EMPTY sub-diagonal of a 1x1 matrix)", n, -1, 0.0); }
    catch (const std::exception&) { fail("TridiagEigen of the zero matrix throws", n, -1, 0.0); }
    try { UpperHessenbergSchur<double> sc(Z0); if (!(sc.matrix_T().norm() == 0) || !((sc.matrix_U().transpose() * sc.matrix_U() - Eigen::MatrixXd::Identity(n, n)).norm() <= 1e-12)) fail("Schur of the zero matrix: wrong result", n, -1, 0.0); }
    catch (const std::exception&) { fail("Schur of the zero matrix throws", n, -1, 0.0); }
  }
  const double scales[] = {1.0, 1e-12, 1e-40, 1e-100, 1e100, 1e12};
  for (int n = 2; n <= 12; n++) for (int p = 0; p < 4; p++) for (double sc : scales) {
    typedef Eigen::MatrixXd M; typedef Eigen::Matrix<long double, -1, -1> LM;
    M T = M::Zero(n, n);
    for (int i = 0; i < n; i++) { T(i, i) = sc * ((p == 1) ? 2.0 : ((i * 3 + p) % 5 - 2)); if (i + 1 < n) { double e = sc * ((p == 2 && i % 3 == 1) ? 0.0 : (p == 3 ? std::pow(10.0, -i) : -1.0 + 0.25 * (i % 3))); T(i + 1, i) = e; T(i, i + 1) = e; } }
    try { TridiagEigen<double> te(T); M Z = te.eigenvectors(); Eigen::VectorXd d = te.eigenvalues();
      long double r = (T.cast<long double>() * Z.cast<long double>() - Z.cast<long double>() * d.cast<long double>().asDiagonal()).norm(), o = (Z.transpose() * Z - M::Identity(n, n)).norm();
      if (!(r <= 200 * n * 2.2e-16L * (T.norm() + 1e-300)) || !(o <= 200 * n * 2.2e-16)) fail("TridiagEigen: T Z = Z diag(d) / Z'Z = I violated", n, p, sc);
    } catch (const std::exception&) {}
    M H = M::Zero(n, n);
    for (int i = 0; i < n; i++) for (int j = 0; j < n; j++) if (i <= j + 1) H(i, j) = sc * (((i * 7 + j * 5 + p) % 7) - 3.0) * ((p == 2 && i == j + 1 && j % 2) ? 0.0 : 1.0);
    try { UpperHessenbergSchur<double> sch(H); M U = sch.matrix_U(), S = sch.matrix_T();
      if (!((U * S * U.transpose() - H).norm() <= 500 * n * 2.2e-16 * (H.norm() + 1e-300)) || !((U.transpose() * U - M::Identity(n, n)).norm() <= 500 * n * 2.2e-16)) fail("Schur: U T U' = H / U'U = I violated", n, p, sc);
      for (int i = 2; i < n; i++) for (int j = 0; j < i - 1; j++) if (S(i, j) != 0) { fail("Schur: T not quasi-upper-triangular", n, p, sc); break; }
    } catch (const std::exception&) {}
    try { UpperHessenbergEigen<double> he(H); Eigen::VectorXcd ev = he.eigenvalues(); Eigen::MatrixXcd V = he.eigenvectors();
      for (int i = 0; i < n; i++) {
        if (ev[i].imag() != 0) {
          if (i + 1 >= n || ev[i + 1] != std::conj(ev[i]) || !(ev[i].imag() > 0)) { fail("complex eigenvalue not followed by its exact conjugate / positive imaginary part not first", n, p, sc); break; }
          i++;
        } else if (std::signbit(ev[i].imag()) && false) {}
      }
      double r = (H.cast<std::complex<double>>() * V - V * ev.asDiagonal()).norm();
      if (!(r <= 1e4 * n * 2.2e-16 * (H.norm() + 1e-300))) fail("UpperHessenbergEigen: ||H x - lambda x|| too large", n, p, sc);
    } catch (const std::exception&) {}
  }
  // weighted lower-shift matrices (zero diagonal and upper triangle, non-zero sub-diagonal): the l1 norm that decides the zero-matrix exit must see the sub-diagonal
  for (int n = 3; n <= 8 && !bad; n++) for (int w = 0; w < 3 && !bad; w++) {
    Eigen::MatrixXd H = Eigen::MatrixXd::Zero(n, n); for (int i = 1; i < n; i++) H(i, i - 1) = w == 0 ? 1.0 : (w == 1 ? (double)(i + 1) : std::pow(0.5, i));
    try { UpperHessenbergSchur<double> sch(H); Eigen::MatrixXd U = sch.matrix_U(), S = sch.matrix_T();
      bool quasi = true; for (int i = 1; i < n && quasi; i++) for (int j = 0; j < i && quasi; j++) { if (j < i - 1 && S(i, j) != 0) quasi = false; if (j == i - 1 && S(i, j) != 0 && i >= 2 && S(i - 1, i - 2) != 0) quasi = false; }
      if (!quasi || !((U * S * U.transpose() - H).norm() <= 1e-9 * H.norm())) fail("Schur of a weighted lower-shift matrix: T is not quasi-upper-triangular / U T U' != H (the matrix was taken for the zero matrix)", n, w, 1.0);
    } catch (const std::exception&) {}
    try { UpperHessenbergEigen<double> he(H); Eigen::VectorXcd ev = he.eigenvalues(); Eigen::MatrixXcd V = he.eigenvectors();
      double r = (H.cast<std::complex<double>>() * V - V * ev.asDiagonal()).norm();
      if (!(r <= 1e-6 * H.norm())) fail("UpperHessenbergEigen of a weighted lower-shift matrix: ||H x - lambda x|| of order 1", n, w, 1.0);
    } catch (const std::exception&) {}
  }
  // single precision (packet width 4 in the SIMD Householder kernel): every row of the three columns has to be transformed
  for (int n = 3; n <= 14 && !bad; n++) for (int p = 0; p < 3 && !bad; p++) {
    Eigen::MatrixXf H = Eigen::MatrixXf::Zero(n, n);
    for (int i = 0; i < n; i++) for (int j = 0; j < n; j++) if (i <= j + 1) H(i, j) = (float)((((i * 7 + j * 5 + p) % 7) - 3.0) + 0.25 * ((i + 2 * j) % 3));
    try { UpperHessenbergSchur<float> sch(H); Eigen::MatrixXf U = sch.matrix_U(), S = sch.matrix_T();
      float e1 = (U * S * U.transpose() - H).norm(), e2 = (U.transpose() * U - Eigen::MatrixXf::Identity(n, n)).norm();
      if (!(e1 <= 500 * n * 1.2e-7f * (H.norm() + 1e-30f)) || !(e2 <= 500 * n * 1.2e-7f)) fail("Schur<float>: U T U' = H / U'U = I violated (a row of the Householder update was skipped?)", n, p, 1.0);
    } catch (const std::exception&) {}
  }
  // small integer Hessenberg matrices: the family in which the Francis iteration occasionally needs its exceptional shifts
  { unsigned long st = 12345; auto rnd = [&]() { st = st * 6364136223846793005UL + 1442695040888963407UL; return (int)((st >> 33) % 5) - 2; };
    for (long trial = 0; trial < 400000 && !bad; trial++) { int n = 4 + (int)(trial % 5); Eigen::MatrixXd H = Eigen::MatrixXd::Zero(n, n);
      for (int i = 0; i < n; i++) for (int j = 0; j < n; j++) if (i <= j + 1) H(i, j) = rnd();
      try { UpperHessenbergSchur<double> sch(H); Eigen::MatrixXd U = sch.matrix_U(), S = sch.matrix_T();
        if (!((U * S * U.transpose() - H).norm() <= 1e-9 * (H.norm() + 1e-300))) { printf("integer Hessenberg trial %ld (n=%d): ||U T U' - H|| = %g\n", trial, n, (U * S * U.transpose() - H).norm()); bad++; }
      } catch (const std::exception&) {} } }
  // entries in {-1, 0, 1} with one exactly decoupled leading block (an exact zero on the sub-diagonal): the active window then starts at il > 0, and the
  // slowly converging trailing blocks of this family reach the second exceptional shift (iteration 30 on one eigenvalue)
  { unsigned long st = 987654321; auto rnd = [&]() { st = st * 6364136223846793005UL + 1442695040888963407UL; return (int)((st >> 33) % 3) - 1; };
    for (long trial = 0; trial < 600000 && !bad; trial++) { int n = 6 + (int)(trial % 3); Eigen::MatrixXd H = Eigen::MatrixXd::Zero(n, n);
      for (int i = 0; i < n; i++) for (int j = 0; j < n; j++) if (i <= j + 1) H(i, j) = rnd();
      H(2 + (int)(trial % 2), 1 + (int)(trial % 2)) = 0;
      try { UpperHessenbergSchur<double> sch(H); Eigen::MatrixXd U = sch.matrix_U(), S = sch.matrix_T();
        if (!((U * S * U.transpose() - H).norm() <= 1e-9 * (H.norm() + 1e-300))) { printf("decoupled {-1,0,1} Hessenberg trial %ld (n=%d): ||U T U' - H|| = %g\n", trial, n, (U * S * U.transpose() - H).norm()); bad++; }
      } catch (const std::exception&) {} } }
  printf(bad ? "REPRODUCED (%d)\n" : "not reproduced (%d)\n", bad); return bad ? 1 : 0;
}
