#include <Eigen/Core>
#include <iostream>
#include <Spectra/SymEigsSolver.h>
#include <Spectra/GenEigsSolver.h>
#include <Spectra/MatOp/DenseSymMatProd.h>
#include <Spectra/MatOp/DenseGenMatProd.h>
using namespace Spectra;
int main() {
  int bad = 0;
  for (int seed = 0; seed < 10; seed++) {
    std::srand(seed + 1); const int n = 50;
    Eigen::MatrixXd M = Eigen::MatrixXd::Random(n, n); Eigen::MatrixXd A = M + M.transpose();
    DenseSymMatProd<double> op(A);
    SymEigsSolver<DenseSymMatProd<double>> eigs(op, 3, 8);
    eigs.init(); eigs.compute(SortRule::LargestAlge, 2, 1e-10);
    Eigen::Index nconv = 0; int threw = 0;
    try { nconv = eigs.compute(SortRule::LargestAlge, 1000, 1e-10); } catch (const std::exception& e) { threw = 1; printf("seed %d: second compute threw %s\n", seed, e.what()); }
    Eigen::VectorXd ev = eigs.eigenvalues(); Eigen::MatrixXd V = eigs.eigenvectors();
    for (int i = 0; i < ev.size(); i++) {
      double r = (A * V.col(i) - ev[i] * V.col(i)).norm();
      if (r > 1e-6 * A.norm()) { printf("seed %d: second compute() info=%d nconv=%ld pair %d theta=%g residual=%g ||x||=%g\n", seed, (int)eigs.info(), (long)nconv, i, ev[i], r, V.col(i).norm()); bad = 1; }
    }
  }
  printf(bad ? "REPRODUCED\n" : "not reproduced\n"); return bad;
}
