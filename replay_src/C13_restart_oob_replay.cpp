// Native replay for the general solver's restart: Eigen's own index assertions are turned into exceptions, the real
// GenEigsSolver is run on matrices whose Ritz values tie in the selection key (orthogonal / permutation / skew matrices).
#include <stdexcept>
#include <string>
struct EigenAssert : std::logic_error { EigenAssert(const char* s) : std::logic_error(s) {} };
#define eigen_assert(x) do { if (!(x)) throw EigenAssert(#x); } while (0)
#include <Eigen/Core>
#include <Eigen/QR>
#include <cstdio>
#include <Spectra/GenEigsSolver.h>
#include <Spectra/MatOp/DenseGenMatProd.h>
using namespace Spectra;
int main() {
  int bad = 0;
  const SortRule rules[3] = {SortRule::LargestMagn, SortRule::SmallestMagn, SortRule::LargestReal};
  for (int seed = 0; seed < 40 && !bad; seed++) for (int n = 8; n <= 24 && !bad; n += 4) for (int r = 0; r < 3 && !bad; r++) {
    std::srand(seed + 7);
    Eigen::MatrixXd M = Eigen::MatrixXd::Random(n, n);
    Eigen::MatrixXd Q = Eigen::HouseholderQR<Eigen::MatrixXd>(M).householderQ();   // orthogonal: every |lambda| = 1
    Eigen::MatrixXd A = (seed % 2) ? Q : Eigen::MatrixXd(M - M.transpose());              // or skew-symmetric: every Re = 0
    DenseGenMatProd<double> op(A);
    for (int ncv = 5; ncv <= n && !bad; ncv++) {
      try {
        GenEigsSolver<DenseGenMatProd<double>> eigs(op, 2, ncv);
        eigs.init();
        eigs.compute(rules[r], 30, 1e-10);
      } catch (const EigenAssert& e) {
        printf("seed=%d n=%d ncv=%d rule=%d: Eigen index assertion failed inside compute(): %s\n", seed, n, ncv, r, e.what()); bad = 1;
      } catch (const std::exception&) {}
    }
  }
  printf(bad ? "REPRODUCED\n" : "not reproduced\n");
  return bad;
}
