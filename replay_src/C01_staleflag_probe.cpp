#include <Eigen/Core>
#include <iostream>
#include <cmath>
#define private public
#define protected public
#include <Spectra/SymEigsSolver.h>
#undef private
#undef protected
#include <Spectra/MatOp/DenseSymMatProd.h>
using namespace Spectra;
typedef DenseSymMatProd<double> Op;
static int stale_true = 0, stale_any = 0; static double g_tol;
struct Probe : public SymEigsSolver<Op> {
  Probe(Op& op, int nev, int ncv) : SymEigsSolver<Op>(op, nev, ncv) {}
  void sort_ritzpair(SortRule r) override {
    // fresh flags from the data that is about to be returned (same formula as num_converged)
    const double eps23 = std::pow(std::numeric_limits<double>::epsilon(), 2.0 / 3);
    for (Eigen::Index i = 0; i < this->m_nev; i++) {
      bool fresh = std::abs(this->m_ritz_est[i]) * this->m_fac.f_norm() < g_tol * std::max(eps23, std::abs(this->m_ritz_val[i]));
      if (this->m_ritz_conv.size() == this->m_nev && this->m_ritz_conv[i] != fresh) { stale_any++; if (this->m_ritz_conv[i] && !fresh) stale_true++; }
    }
    HermEigsBase<Op, IdentityBOp>::sort_ritzpair(r);
  }
};
int main() {
  for (int seed = 0; seed < 30; seed++) {
    std::srand(seed + 1); const int n = 40;
    Eigen::MatrixXd M = Eigen::MatrixXd::Random(n, n); Eigen::MatrixXd A = M + M.transpose();
    Op op(A);
    for (int maxit = 1; maxit <= 40; maxit++) {
      Probe eigs(op, 4, 8); eigs.init(); g_tol = 1e-10;
      eigs.compute(SortRule::LargestMagn, maxit, g_tol);
      if (stale_true) { printf("seed=%d maxit=%d info=%d: a flag is set although the returned Ritz pair fails the criterion (stale_true=%d stale_any=%d)\n", seed, maxit, (int)eigs.info(), stale_true, stale_any); printf("REPRODUCED\n"); return 1; }
    }
  }
  printf("stale_any=%d stale_true=%d\nnot reproduced\n", stale_any, stale_true); return 0;
}
