// Native replay for C15 on the real DavidsonSymEigsSolver.  Modes (bit mask, argv[1]):
//   1  constructor sizes: for every small (n, nev) and the default / a family of explicit (nvec_init, nvec_max), compute() must not trip an Eigen index
//      assertion and the accessors must return nev values / n x nev vectors
//   2  exactly decoupled coordinate (theta_k == a_ii with a zero residual entry): returned values must be finite
//   4  status / count / flag / order protocol on a family of matrices, rules, maxit values and histories (second compute() on the same object,
//      user-supplied initial space): Successful => compute() == nev, residuals recomputed from A below tol, pairs ordered by the rule; not Successful =>
//      info() says so; values finite; return value == number of flags set among the first nev
#include <stdexcept>
struct EigenAssert : std::logic_error { EigenAssert(const char* s) : std::logic_error(s) {} };
#define eigen_assert(x) do { if (!(x)) throw EigenAssert(#x); } while (0)
#include <Eigen/Core>
#include <Eigen/Eigenvalues>
#include <cstdio>
#include <cstdlib>
#include <cmath>
#include <vector>
#include <iostream>
#define private public
#define protected public
#include <Spectra/DavidsonSymEigsSolver.h>
#include <Spectra/MatOp/DenseSymMatProd.h>
#undef private
#undef protected
using namespace Spectra;
typedef Eigen::MatrixXd Mat; typedef Eigen::VectorXd Vec; typedef DenseSymMatProd<double> Op; typedef DavidsonSymEigsSolver<Op> Solver;

static Mat dominant(int n, int seed, double off) {
  std::srand(seed); Mat A = Mat::Random(n, n) * off; A = (A + A.transpose()).eval();
  for (int i = 0; i < n; i++) A(i, i) = (seed % 2 ? 1.0 : -1.0) * (i + 1) + ((seed % 3 == 0) ? 0.25 * (i % 4) : 0.0);
  return A;
}
static bool ordered(const Vec& v, SortRule r) {
  for (int i = 0; i + 1 < v.size(); i++) {
    double a = v[i], b = v[i + 1];
    if (r == SortRule::LargestAlge && a < b) return false;
    if (r == SortRule::SmallestAlge && a > b) return false;
    if (r == SortRule::LargestMagn && std::abs(a) < std::abs(b)) return false;
    if (r == SortRule::SmallestMagn && std::abs(a) > std::abs(b)) return false;
  }
  return true;
}
// checks one finished call; returns a bit mask of broken clauses
static int check_call(const char* what, Solver& s, const Mat& A, int nev, SortRule rule, long ret, double tol) {
  int bad = 0;
  Vec ev = s.eigenvalues(); Mat X = s.eigenvectors();
  if (ev.size() != nev || X.cols() != nev || X.rows() != A.rows()) { printf("%s: eigenvalues() has %ld entries, eigenvectors() is %ldx%ld (nev = %d)\n", what, (long)ev.size(), (long)X.rows(), (long)X.cols(), nev); bad |= 1; }
  if (!ev.allFinite() || !X.allFinite()) { printf("%s: non-finite values returned (info = %d)\n", what, (int)s.info()); bad |= 2; return bad; }
  const auto& flags = s.m_ritz_pairs.converged_eigenvalues();
  long cnt = 0; for (int i = 0; i < nev && i < flags.size(); i++) cnt += flags[i] ? 1 : 0;
  if (ret != cnt) { printf("%s: compute() returned %ld but %ld of the first nev flags are set\n", what, ret, cnt); bad |= 4; }
  if (s.info() == CompInfo::Successful) {
    if (ret != nev) { printf("%s: info() == Successful but compute() returned %ld (nev = %d)\n", what, ret, nev); bad |= 8; }
    for (int i = 0; i < nev && i < X.cols(); i++) {
      double r = (A * X.col(i) - ev[i] * X.col(i)).norm();
      if (!(r < 10 * tol + 1e-9 * A.norm())) { printf("%s: Successful, but pair %d has ||A x - theta x|| = %g (tol %g)\n", what, i, r, tol); bad |= 16; break; }
    }
    if (!ordered(ev, rule)) { printf("%s: Successful, but the returned values are not ordered by the selection rule\n", what); bad |= 32; }
  } else if (s.info() == CompInfo::NotComputed) { printf("%s: info() is NotComputed after compute()\n", what); bad |= 64; }
  else if (ret == nev && s.info() == CompInfo::NotConverging) { printf("%s: all nev pairs flagged but info() == NotConverging\n", what); bad |= 64; }
  return bad;
}

int main(int argc, char** argv) {
  const int mode = argc > 1 ? atoi(argv[1]) : 7; int bad = 0;
  if (mode & 1) {
    for (int n = 2; n <= 14 && !(bad & 1); n++) for (int nev = 1; nev <= n - 1 && !(bad & 1); nev++) for (int variant = 0; variant < 5 && !(bad & 1); variant++) {
      Mat A = dominant(n, 3 * n + nev, 0.01); Op op(A);
      long vi = 0, vm = 0;
      try {
        Solver* s;
        if (variant == 0) s = new Solver(op, nev);
        else { vi = variant == 1 ? nev : variant == 2 ? 1 : variant == 3 ? n : (n - nev > 0 ? n - nev : 1); vm = variant == 4 ? vi : n; s = new Solver(op, nev, vi, vm); }
        long r = s->compute(SortRule::LargestAlge, 60, 1e-9);
        Vec ev = s->eigenvalues(); Mat X = s->eigenvectors();
        if (ev.size() != nev || X.cols() != nev) { printf("n=%d nev=%d variant %d: %ld eigenvalues returned\n", n, nev, variant, (long)ev.size()); bad |= 1; }
        (void)r; delete s;
      } catch (const EigenAssert& e) {
        printf("n=%d nev=%d %s: Eigen index assertion inside compute()/accessors: %s\n", n, nev, variant == 0 ? "default sizes (2 nev, 10 nev)" : "explicit sizes", e.what());
        if (variant) printf("   (nvec_init=%ld nvec_max=%ld)\n", vi, vm);
        bad |= 1;
      } catch (const std::exception& e) { /* a documented rejection is fine */ }
    }
  }
  if (mode & 2) {
    for (int dec = 0; dec < 3 && !(bad & 2); dec++) {
      const int n = 20; Mat A = dominant(n, 5, 0.01); const int d = dec == 0 ? n - 1 : dec == 1 ? n - 2 : 0;
      for (int i = 0; i < n; i++) if (i != d) { A(i, d) = 0; A(d, i) = 0; }
      Op op(A); Solver s(op, 3);
      try {
        long r = s.compute(dec == 2 ? SortRule::SmallestAlge : SortRule::LargestAlge, 100, 1e-10);
        Vec ev = s.eigenvalues();
        if (!ev.allFinite()) { std::cout << "decoupled coordinate " << d << " (exact eigenvector e_" << d << ", theta == a_ii, residual entry 0 -> 0/0): eigenvalues() = " << ev.transpose() << ", info = " << (int)s.info() << ", compute() = " << r << "\n"; bad |= 2; }
      } catch (const std::exception& e) { printf("decoupled coordinate: exception %s\n", e.what()); }
    }
  }
  if (mode & 4) {
    const SortRule rules[4] = {SortRule::LargestAlge, SortRule::SmallestAlge, SortRule::LargestMagn, SortRule::SmallestMagn};
    for (int seed = 1; seed <= 10 && !(bad & 4); seed++) for (int ri = 0; ri < 4 && !(bad & 4); ri++) {
      const int n = 40 + 7 * seed, nev = 1 + seed % 4; const double tol = 1e-8;
      Mat A = dominant(n, seed, 0.02); Op op(A);
      try {
        Solver s(op, nev);
        const int maxits[4] = {1, 3, 200, 2};
        for (int call = 0; call < 4 && !(bad & 4); call++) {      // history: short run, short run, converging run, short run with another rule
          SortRule rule = call == 3 ? rules[(ri + 1) % 4] : rules[ri];
          long r = s.compute(rule, maxits[call], tol);
          char what[160]; snprintf(what, sizeof what, "seed %d n=%d nev=%d rule %d call %d (maxit %d)", seed, n, nev, (int)rule, call, maxits[call]);
          if (check_call(what, s, A, nev, rule, r, tol)) bad |= 4;
          if (call == 2 && s.info() != CompInfo::Successful) { printf("%s: the converging run did not converge (info %d)\n", what, (int)s.info()); }
        }
        // user-supplied initial space (orthonormal, more columns than the restart size)
        Solver s2(op, nev);
        Mat G = Mat::Identity(n, 3 * nev + 2);
        long r2 = s2.compute_with_guess(G, rules[ri], 300, tol);
        char what[160]; snprintf(what, sizeof what, "seed %d n=%d nev=%d rule %d compute_with_guess", seed, n, nev, (int)rules[ri]);
        if (check_call(what, s2, A, nev, rules[ri], r2, tol)) bad |= 4;
      } catch (const EigenAssert& e) { printf("seed %d rule %d: Eigen assertion %s\n", seed, ri, e.what()); bad |= 4; }
    }
    // indefinite matrices whose positive and negative eigenvalues interleave in magnitude: under the Magn rules the sort permutation of the Ritz pairs has
    // cycles longer than 2 (value i must still belong to vector i)
    for (int seed = 1; seed <= 6 && !(bad & 4); seed++) for (int ri = 2; ri < 4 && !(bad & 4); ri++) {
      const int n = 50 + 10 * seed, nev = 3 + seed % 3; const double tol = 1e-8;
      std::srand(seed + 50); Mat A = Mat::Random(n, n) * 0.02; A = (A + A.transpose()).eval();
      for (int i = 0; i < n; i++) A(i, i) = ((i % 3 == 1) ? -1.0 : 1.0) * (i + 1 + 0.3 * (i % 2));
      Op op(A);
      try { Solver s(op, nev); long r = s.compute(rules[ri], 400, tol);
        char what[160]; snprintf(what, sizeof what, "indefinite seed %d n=%d nev=%d rule %d", seed, n, nev, (int)rules[ri]);
        if (check_call(what, s, A, nev, rules[ri], r, tol)) bad |= 4;
      } catch (const EigenAssert& e) { printf("indefinite seed %d: Eigen assertion %s\n", seed, e.what()); bad |= 4; }
    }
    // small restart window: the search space is restarted often (restart path + cached products)
    for (int seed = 1; seed <= 6 && !(bad & 4); seed++) {
      const int n = 60, nev = 2; const double tol = 1e-8; Mat A = dominant(n, seed + 20, 0.05); Op op(A);
      try { Solver s(op, nev, 2 * nev, 3 * nev); long r = s.compute(SortRule::LargestAlge, 400, tol);
        char what[160]; snprintf(what, sizeof what, "small window seed %d", seed);
        if (check_call(what, s, A, nev, SortRule::LargestAlge, r, tol)) bad |= 4;
      } catch (const EigenAssert& e) { printf("small window seed %d: Eigen assertion %s\n", seed, e.what()); bad |= 4; }
    }
  }
  printf(bad ? "REPRODUCED (%d)\n" : "not reproduced (%d)\n", bad); return bad ? 1 : 0;
}
