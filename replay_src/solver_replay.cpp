// Native replay for the solver-skeleton properties (C01 C02 C04 C05 C06 C07 C13 C14) on the REAL solvers.
// usage: solver_replay <mode>   mode in: counts | history | selection | faults | safety | all
// Searches a fixed structured family of real inputs shaped like the verifier's counterexamples (partial convergence through
// small maxit, reuse of one object, breakdown spectra, ties, throwing operator at every application index).
#include <stdexcept>
#include <string>
struct EigenAssert : std::logic_error { EigenAssert(const char* s) : std::logic_error(s) {} };
#define eigen_assert(x) do { if (!(x)) throw EigenAssert(#x); } while (0)
#include <Eigen/Core>
#include <Eigen/QR>
#include <cstdio>
#include <complex>
#include <cstring>
#include <vector>
#include <algorithm>
#include <Spectra/SymEigsSolver.h>
#include <Spectra/SymEigsShiftSolver.h>
#include <Spectra/GenEigsSolver.h>
#include <Spectra/GenEigsRealShiftSolver.h>
#include <Spectra/MatOp/DenseSymMatProd.h>
#include <Spectra/MatOp/DenseGenMatProd.h>
#include <Spectra/MatOp/DenseSymShiftSolve.h>
#include <Spectra/MatOp/DenseGenRealShiftSolve.h>
using namespace Spectra;
typedef Eigen::MatrixXd Mat; typedef Eigen::VectorXd Vec; typedef Eigen::Index Index;
static int bad = 0;
static void fail(const std::string& s) { if (!bad++) printf("%s\n", s.c_str()); }
struct Fault : std::runtime_error { int code; Fault(int c) : std::runtime_error("operator fault"), code(c) {} };
// counting / faulting wrapper around a dense product
template <bool Sym> struct Op {
  using Scalar = double; const Mat& A; mutable long calls = 0; long fail_at = -1; mutable const double* last_x = nullptr;
  Op(const Mat& a) : A(a) {}
  Index rows() const { return A.rows(); } Index cols() const { return A.cols(); }
  void perform_op(const double* x, double* y) const {
    calls++; if (x == y) fail("operator handed aliased x_in / y_out");
    if (calls == fail_at) throw Fault(42);
    Eigen::Map<const Vec> xv(x, A.rows()); Eigen::Map<Vec> yv(y, A.rows()); yv.noalias() = A * xv; }
};
static Mat symmat(int n, int pat, unsigned seed) {
  std::srand(seed); Mat A = Mat::Zero(n, n);
  if (pat == 0) { Mat M = Mat::Random(n, n); A = M + M.transpose(); }
  else if (pat == 1) { for (int i = 0; i < n; i++) A(i, i) = i + 1; }                         // distinct diagonal
  else if (pat == 2) { for (int i = 0; i < n; i++) A(i, i) = 1 + (i % 3); }                    // few distinct eigenvalues: breakdown
  else { for (int i = 0; i < n; i++) A(i, i) = (i % 2 ? -1.0 : 1.0) * (1 + i / 2); }           // +/- pairs: magnitude ties
  return A;
}
static double key(SortRule r, double x) { switch (r) { case SortRule::LargestMagn: return -std::abs(x); case SortRule::LargestAlge: return -x; case SortRule::SmallestMagn: return std::abs(x); default: return x; } }

static void mode_counts() {
  const SortRule sels[5] = {SortRule::LargestMagn, SortRule::LargestAlge, SortRule::SmallestMagn, SortRule::SmallestAlge, SortRule::BothEnds};
  const SortRule sorts[4] = {SortRule::LargestAlge, SortRule::LargestMagn, SortRule::SmallestAlge, SortRule::SmallestMagn};
  for (int pat = 0; pat < 4; pat++) for (int n : {12, 30}) for (int maxit : {0, 1, 2, 5, 1000}) for (int si = 0; si < 5; si++) for (int so = 0; so < 4; so++) {
    Mat A = symmat(n, pat, 7 + pat); Op<true> op(A);
    const int nev = 4, ncv = 9;
    SymEigsSolver<Op<true>> e(op, nev, ncv);
    if (e.info() != CompInfo::NotComputed || e.eigenvalues().size() != 0) fail("before compute(): info()/accessors not NotComputed/empty");
    e.init(); long c0 = op.calls;
    Index r = e.compute(sels[si], maxit, 1e-10, sorts[so]);
    Vec ev = e.eigenvalues(); Mat V = e.eigenvectors(); char buf[200];
    snprintf(buf, sizeof buf, "[sym pat=%d n=%d maxit=%d sel=%d sort=%d]", pat, n, maxit, si, so);
    if (r != ev.size() || r != V.cols() || r > nev) fail(std::string(buf) + " return value / eigenvalues().size() / eigenvectors().cols() disagree");
    if ((e.info() == CompInfo::Successful) != (r == nev) || (e.info() != CompInfo::Successful && e.info() != CompInfo::NotConverging)) fail(std::string(buf) + " info() inconsistent with the count");
    if (e.num_operations() != op.calls) fail(std::string(buf) + " num_operations() != true number of operator applications");
    if (e.num_iterations() > std::max(maxit, 0) + 1) fail(std::string(buf) + " more than maxit restarts");
    if (op.calls > 2 + 2L * ncv * (std::max(maxit, 0) + 1)) fail(std::string(buf) + " work bound exceeded");
    for (Index i = 0; i + 1 < ev.size(); i++) if (key(sorts[so], ev[i + 1]) < key(sorts[so], ev[i])) { fail(std::string(buf) + " values not in the order of the sorting rule"); break; }
    for (Index i = 0; i < ev.size(); i++) { double res = (A * V.col(i) - ev[i] * V.col(i)).norm(); if (res > 1e-6 * (1 + A.norm())) { fail(std::string(buf) + " i-th value does not belong to i-th vector (residual " + std::to_string(res) + ")"); break; } }
    for (Index m : {(Index)0, (Index)1, (Index)2, (Index)7}) { Mat Vm = e.eigenvectors(m); if (Vm.cols() != std::min<Index>(m, r) || (Vm.cols() > 0 && (Vm - V.leftCols(Vm.cols())).norm() > 1e-10)) { fail(std::string(buf) + " eigenvectors(m) is not the first min(m, count) columns"); break; } }
  }
}
static void mode_history() {
  for (int pat = 0; pat < 2; pat++) for (unsigned seed = 1; seed <= 4; seed++) {
    Mat A = symmat(40, pat, seed); Op<true> op(A);
    SymEigsSolver<Op<true>> e(op, 3, 8); e.init(); e.compute(SortRule::LargestAlge, 2, 1e-10);
    Index r = e.compute(SortRule::LargestAlge, 1000, 1e-10); Vec ev = e.eigenvalues(); Mat V = e.eigenvectors();
    for (Index i = 0; i < ev.size(); i++) if ((A * V.col(i) - ev[i] * V.col(i)).norm() > 1e-6 * A.norm()) { fail("second compute() without init(): returned 'converged' pair is not an eigenpair"); break; }
    // reuse vs fresh: bit-identical
    e.init(); e.compute(SortRule::SmallestAlge, 3, 1e-8); e.init(); Index r1 = e.compute(SortRule::LargestMagn, 500, 1e-10); Vec a = e.eigenvalues(); Mat Va = e.eigenvectors(); long ops1 = e.num_operations(), it1 = e.num_iterations();
    Op<true> op2(A); SymEigsSolver<Op<true>> f(op2, 3, 8); f.init(); Index r2 = f.compute(SortRule::LargestMagn, 500, 1e-10);
    if (r1 != r2 || a.size() != f.eigenvalues().size() || (a.size() && (a - f.eigenvalues()).norm() != 0) || (Va - f.eigenvectors()).norm() != 0 || ops1 != f.num_operations() || it1 != f.num_iterations()) fail("a reused solver object is not bit-identical to a fresh one");
    // shift mode: back-transformation applied exactly once also on a second compute()
    DenseSymShiftSolve<double> sop(A); SymEigsShiftSolver<DenseSymShiftSolve<double>> s(sop, 3, 8, 0.37); s.init(); s.compute(SortRule::LargestMagn); s.compute(SortRule::LargestMagn);
    Vec sv = s.eigenvalues(); Mat SV = s.eigenvectors(); for (Index i = 0; i < sv.size(); i++) if ((A * SV.col(i) - sv[i] * SV.col(i)).norm() > 1e-6 * A.norm()) { fail("shift solver: second compute() returns values that are not eigenvalues of A (back-transformation not applied exactly once)"); break; }
  }
  { std::srand(3); Mat G = Mat::Random(30, 30); Op<false> op(G); GenEigsSolver<Op<false>> e(op, 3, 9); e.init(); e.compute(SortRule::LargestMagn, 2, 1e-10); e.compute(SortRule::LargestMagn, 1000, 1e-10);
    Eigen::VectorXcd ev = e.eigenvalues(); Eigen::MatrixXcd V = e.eigenvectors(); for (Index i = 0; i < ev.size(); i++) if ((G * V.col(i) - ev[i] * V.col(i)).norm() > 1e-6 * G.norm()) { fail("general solver: second compute() returns a non-eigenpair"); break; }
    DenseGenRealShiftSolve<double> sop(G); GenEigsRealShiftSolver<DenseGenRealShiftSolve<double>> s(sop, 3, 9, 0.2); s.init(); s.compute(SortRule::LargestMagn); s.compute(SortRule::LargestMagn);
    Eigen::VectorXcd sv = s.eigenvalues(); Eigen::MatrixXcd SV = s.eigenvectors(); for (Index i = 0; i < sv.size(); i++) if ((G * SV.col(i) - sv[i] * SV.col(i)).norm() > 1e-6 * G.norm()) { fail("real-shift solver: second compute() returns values that are not eigenvalues of A"); break; } }
}
// shift solvers: the returned values must follow the `sorting` rule for EVERY (selection, sorting) pair, also sorting == selection
static void mode_shift_order() {
  const SortRule rules[4] = {SortRule::LargestMagn, SortRule::LargestAlge, SortRule::SmallestMagn, SortRule::SmallestAlge};
  const int n = 30; Mat A = Mat::Zero(n, n); for (int i = 0; i < n; i++) A(i, i) = (i % 2 ? -1.0 : 1.0) * (1.0 + 0.7 * i); A(0, 1) = A(1, 0) = 0.1;
  Mat G = A; G(2, 5) = 0.3;   // non-symmetric, real spectrum perturbed
  for (int si = 0; si < 4; si++) for (int so = 0; so < 4; so++) {
    { DenseSymShiftSolve<double> op(A); SymEigsShiftSolver<DenseSymShiftSolve<double>> s(op, 4, 12, 0.37); s.init(); s.compute(rules[si], 1000, 1e-10, rules[so]);
      Vec ev = s.eigenvalues(); for (Index i = 0; i + 1 < ev.size(); i++) if (key(rules[so], ev[i + 1]) < key(rules[so], ev[i]) - 1e-12) { char b[200]; snprintf(b, sizeof b, "SymEigsShiftSolver: eigenvalues() not in the order of the sorting rule (selection=%d sorting=%d)", si, so); fail(b); break; } }
    { const SortRule grules[4] = {SortRule::LargestMagn, SortRule::LargestReal, SortRule::SmallestMagn, SortRule::SmallestReal};
      DenseGenRealShiftSolve<double> op(G); GenEigsRealShiftSolver<DenseGenRealShiftSolve<double>> s(op, 4, 12, 0.37); s.init(); s.compute(grules[si], 1000, 1e-10, grules[so]);
      Eigen::VectorXcd ev = s.eigenvalues(); auto ck = [&](std::complex<double> z) { switch (grules[so]) { case SortRule::LargestMagn: return -std::abs(z); case SortRule::SmallestMagn: return std::abs(z); case SortRule::LargestReal: return -z.real(); default: return z.real(); } };
      for (Index i = 0; i + 1 < ev.size(); i++) if (ck(ev[i + 1]) < ck(ev[i]) - 1e-12) { char b[200]; snprintf(b, sizeof b, "GenEigsRealShiftSolver: eigenvalues() not in the order of the sorting rule (selection=%d sorting=%d)", si, so); fail(b); break; } }
  }
}
// reused object, re-initialised with an EXACT eigenvector (the "f is negligible" branch of Arnoldi::init): must be bit-identical to a fresh object
static void mode_reuse_exact() {
  const int n = 16; Mat A = Mat::Zero(n, n); for (int i = 0; i < n; i++) { A(i, i) = 1; A(i, (i + 1) % n) += 2; A((i + 1) % n, i) += 2; }   // constant row sum 5: ones is an eigenvector
  Vec ones = Vec::Ones(n);
  { Op<true> o1(A), o2(A); SymEigsSolver<Op<true>> e(o1, 3, 8), f(o2, 3, 8);
    e.init(); e.compute(SortRule::LargestAlge, 3, 1e-10); e.init(ones.data()); Index r1 = e.compute(SortRule::LargestAlge, 500, 1e-10);
    f.init(ones.data()); Index r2 = f.compute(SortRule::LargestAlge, 500, 1e-10);
    if (r1 != r2 || e.num_operations() != f.num_operations() || e.num_iterations() != f.num_iterations() || e.eigenvalues().size() != f.eigenvalues().size() || (e.eigenvalues().size() && (e.eigenvalues() - f.eigenvalues()).norm() != 0) || (e.eigenvectors() - f.eigenvectors()).norm() != 0)
      fail("symmetric solver: reused object re-initialised with an exact eigenvector differs from a fresh object (state of the earlier run survives init())"); }
  { Mat G = A; G(0, 1) += 1; G(0, 2) -= 1;   // still constant row sums, non-symmetric
    Op<false> o1(G), o2(G); GenEigsSolver<Op<false>> e(o1, 3, 9), f(o2, 3, 9);
    e.init(); e.compute(SortRule::LargestMagn, 3, 1e-10); e.init(ones.data()); Index r1 = e.compute(SortRule::LargestMagn, 500, 1e-10);
    f.init(ones.data()); Index r2 = f.compute(SortRule::LargestMagn, 500, 1e-10);
    if (r1 != r2 || e.num_operations() != f.num_operations() || e.num_iterations() != f.num_iterations() || e.eigenvalues().size() != f.eigenvalues().size() || (e.eigenvalues().size() && (e.eigenvalues() - f.eigenvalues()).norm() != 0))
      fail("general solver: reused object re-initialised with an exact eigenvector differs from a fresh object (state of the earlier run survives init())"); }
}
// breakdown followed by ordinary steps in the same factorization: start vector inside a small invariant subspace
static void mode_breakdown() {
  for (int n : {12, 20}) for (int blk : {2, 3, 4}) {
    Mat G = Mat::Zero(n, n); for (int i = 0; i < n; i++) for (int j = 0; j < n; j++) if ((i < blk) == (j < blk)) G(i, j) = ((i * 7 + j * 3) % 5) - 1.5 + (i == j ? 3.0 + i : 0.0);   // block diagonal: e1 stays in the leading block
    Vec e1 = Vec::Zero(n); e1[0] = 1;
    Op<false> op(G);
    try { GenEigsSolver<Op<false>> s(op, 3, 8); s.init(e1.data()); s.compute(SortRule::LargestMagn, 300, 1e-10);
      if (s.info() == CompInfo::Successful) { Eigen::VectorXcd ev = s.eigenvalues(); Eigen::MatrixXcd V = s.eigenvectors();
        for (Index i = 0; i < ev.size(); i++) { double r = (G.cast<std::complex<double>>() * V.col(i) - ev[i] * V.col(i)).norm(); if (!(r <= 1e-6 * (1 + G.norm()))) { fail("general solver after an Arnoldi breakdown: a pair reported as converged is not an eigenpair (residual " + std::to_string(r) + ")"); break; } } }
    } catch (const EigenAssert& a) { fail(std::string("general solver after a breakdown: Eigen assertion: ") + a.what()); } catch (const std::exception&) {}
    Mat S = 0.5 * (G + G.transpose()); Op<true> sop(S);
    try { SymEigsSolver<Op<true>> s(sop, 3, 8); s.init(e1.data()); s.compute(SortRule::LargestAlge, 300, 1e-10);
      if (s.info() == CompInfo::Successful) { Vec ev = s.eigenvalues(); Mat V = s.eigenvectors();
        for (Index i = 0; i < ev.size(); i++) { double r = (S * V.col(i) - ev[i] * V.col(i)).norm(); if (!(r <= 1e-6 * (1 + S.norm()))) { fail("symmetric solver after a Lanczos breakdown: a pair reported as converged is not an eigenpair"); break; } } }
    } catch (const EigenAssert& a) { fail(std::string("symmetric solver after a breakdown: Eigen assertion: ") + a.what()); } catch (const std::exception&) {}
  }
}
static void mode_selection() {
  const int n = 40; Mat A = Mat::Zero(n, n); std::vector<double> spec; for (int i = 0; i < n; i++) { double v = (i % 2 ? -1 : 1) * (1.0 + 0.5 * i); A(i, i) = v; spec.push_back(v); }
  const SortRule sels[5] = {SortRule::LargestMagn, SortRule::LargestAlge, SortRule::SmallestMagn, SortRule::SmallestAlge, SortRule::BothEnds};
  for (int si = 0; si < 5; si++) for (int nev = 1; nev <= 5; nev++) {
    Op<true> op(A); SymEigsSolver<Op<true>> e(op, nev, 2 * nev + 6); e.init(); Index r = e.compute(sels[si], 2000, 1e-10, SortRule::LargestAlge);
    if (e.info() != CompInfo::Successful) continue;
    std::vector<double> want;
    if (sels[si] == SortRule::BothEnds) { std::vector<double> s = spec; std::sort(s.begin(), s.end()); for (int i = 0; i < (nev + 1) / 2; i++) want.push_back(s[n - 1 - i]); for (int i = 0; i < nev / 2; i++) want.push_back(s[i]); }
    else { std::vector<double> s = spec; std::sort(s.begin(), s.end(), [&](double a, double b) { return key(sels[si], a) < key(sels[si], b); }); want.assign(s.begin(), s.begin() + nev); }
    std::sort(want.begin(), want.end()); Vec ev = e.eigenvalues(); std::vector<double> got(ev.data(), ev.data() + ev.size()); std::sort(got.begin(), got.end());
    bool ok = got.size() == want.size(); for (size_t i = 0; ok && i < got.size(); i++) ok = std::abs(got[i] - want[i]) < 1e-6;
    if (!ok) { char b[160]; snprintf(b, sizeof b, "selection rule %d, nev=%d: returned set is not the part of the spectrum the rule names", si, nev); fail(b); }
  }
}
static void mode_faults() {
  Mat A = symmat(24, 0, 5); std::srand(9); Mat G = Mat::Random(24, 24);
  { Op<true> ref(A); SymEigsSolver<Op<true>> e(ref, 3, 8); e.init(); e.compute(SortRule::LargestAlge, 300, 1e-10); Vec base = e.eigenvalues(); Mat Vb = e.eigenvectors(); long total = ref.calls;
    for (long k = 1; k <= total; k++) { Op<true> op(A); op.fail_at = k; SymEigsSolver<Op<true>> s(op, 3, 8); int caught = 0;
      try { s.init(); s.compute(SortRule::LargestAlge, 300, 1e-10); } catch (const Fault& f) { caught = (f.code == 42) ? 1 : 2; } catch (...) { caught = 3; }
      if (caught != 1) { fail("symmetric solver: operator exception at application " + std::to_string(k) + " did not propagate unchanged"); break; }
      op.fail_at = -1; s.init(); s.compute(SortRule::LargestAlge, 300, 1e-10);
      if (s.eigenvalues().size() != base.size() || (s.eigenvalues() - base).norm() != 0 || (s.eigenvectors() - Vb).norm() != 0) { fail("symmetric solver: after a fault at application " + std::to_string(k) + ", init()+compute() is not bit-identical to the fault-free run"); break; } } }
  { Op<false> ref(G); GenEigsSolver<Op<false>> e(ref, 3, 9); e.init(); e.compute(SortRule::LargestMagn, 300, 1e-10); Eigen::VectorXcd base = e.eigenvalues(); long total = ref.calls;
    for (long k = 1; k <= total; k++) { Op<false> op(G); op.fail_at = k; GenEigsSolver<Op<false>> s(op, 3, 9); int caught = 0;
      try { s.init(); s.compute(SortRule::LargestMagn, 300, 1e-10); } catch (const Fault& f) { caught = (f.code == 42) ? 1 : 2; } catch (...) { caught = 3; }
      if (caught != 1) { fail("general solver: operator exception at application " + std::to_string(k) + " did not propagate unchanged"); break; }
      op.fail_at = -1; s.init(); s.compute(SortRule::LargestMagn, 300, 1e-10);
      if (s.eigenvalues().size() != base.size() || (s.eigenvalues() - base).norm() != 0) { fail("general solver: after a fault at application " + std::to_string(k) + ", init()+compute() is not bit-identical"); break; } } }
}
static void mode_safety() {
  for (int seed = 0; seed < 12; seed++) for (int n : {8, 14, 20}) { std::srand(seed + 7); Mat M = Mat::Random(n, n); Mat Q = Eigen::HouseholderQR<Mat>(M).householderQ(); Mat S = M - M.transpose(); Mat R1 = Mat::Zero(n, n); R1(2, 2) = 3.0; Mat N = Mat::Zero(n, n); N(1, 4) = 1.0;
    const Mat* mats[4] = {&Q, &S, &R1, &N};
    for (int mi = 0; mi < 4; mi++) for (int ncv = 5; ncv <= n; ncv += 3) { Op<false> op(*mats[mi]);
      try { GenEigsSolver<Op<false>> e(op, 2, ncv); e.init(); e.compute(SortRule::LargestMagn, 30, 1e-10); Eigen::VectorXcd ev = e.eigenvalues();
        for (Index i = 0; i < ev.size(); i++) if (!std::isfinite(ev[i].real()) || !std::isfinite(ev[i].imag())) { fail("general solver returned a non-finite eigenvalue"); break; }
        if (op.calls > 2 + 2L * ncv * 31) fail("general solver exceeded its work bound"); }
      catch (const EigenAssert& a) { fail(std::string("general solver: Eigen index assertion inside compute(): ") + a.what()); }
      catch (const std::exception& ex) { if (mi == 2) fail(std::string("general solver on a rank-one matrix: compute() fails (a breakdown must be continued with a fresh direction): ") + ex.what()); } }
    Mat A = symmat(n, 2, seed); Mat P = Mat::Zero(n, n); P(3, 3) = 2.0;
    for (const Mat* m : {&A, &P}) { Op<true> op(*m); try { SymEigsSolver<Op<true>> e(op, 2, 6); e.init(); e.compute(SortRule::LargestAlge, 30, 1e-10); Vec ev = e.eigenvalues(); for (Index i = 0; i < ev.size(); i++) if (!std::isfinite(ev[i])) { fail("symmetric solver returned a non-finite eigenvalue"); break; } }
      catch (const EigenAssert& a) { fail(std::string("symmetric solver: Eigen index assertion inside compute(): ") + a.what()); }
      catch (const std::exception& ex) { if (m == &P) fail(std::string("symmetric solver on a rank-one matrix: compute() fails (a breakdown must be continued with a fresh direction): ") + ex.what()); } } }
}
int main(int argc, char** argv) {
  std::string m = argc > 1 ? argv[1] : "all";
  try {
    if (m == "counts" || m == "all") mode_counts();
    if (m == "history" || m == "all") mode_history();
    if (m == "selection" || m == "all") mode_selection();
    if (m == "faults" || m == "all") mode_faults();
    if (m == "safety" || m == "all") { mode_safety(); mode_breakdown(); }
    if (m == "history" || m == "all") { mode_reuse_exact(); mode_breakdown(); }
    if (m == "counts" || m == "selection" || m == "all") mode_shift_order();
  } catch (const EigenAssert& a) { fail(std::string("Eigen assertion: ") + a.what()); }
  printf(bad ? "REPRODUCED (%d)\n" : "not reproduced (%d)\n", bad); return bad ? 1 : 0;
}
