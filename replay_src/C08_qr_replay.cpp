// Native replay for C08 on the real QR helper classes: the Givens kernel at the verifier's counterexample (x, y) if given,
// then Q R = H - sI, Q'HQ and shape on small integer / graded / scaled matrices (extended-precision reference).
#include <Eigen/Core>
#include <cstdio>
#include <cstdlib>
#include <cmath>
#define private public
#define protected public
#include <Spectra/LinAlg/UpperHessenbergQR.h>
#undef private
#undef protected
using namespace Spectra;
static int bad = 0;
template <typename T> static void rot_check(T x, T y) {
  T r, c, s; UpperHessenbergQR<T>::compute_rotation(x, y, r, c, s);
  long double lx = x, ly = y, lr = std::sqrt(lx * lx + ly * ly);
  bool ok = (r == r && c == c && s == s) && r >= 0 && std::abs(c) <= 1 && std::abs(s) <= 1;
  if (y == 0) ok = ok && s == 0 && r == std::abs(x) && c == (x == 0 ? T(1) : (x > 0 ? T(1) : T(-1)));
  else if (x == 0) ok = ok && c == 0 && r == std::abs(y) && s == (y > 0 ? T(-1) : T(1));
  else if (std::isfinite((double)lr) && lr > 0) { ok = ok && std::abs((long double)c - lx / lr) < 1e-4L && std::abs((long double)s + ly / lr) < 1e-4L; }
  ok = ok && (std::abs(c) >= T(0.7) || std::abs(s) >= T(0.7));
  if (!ok && !bad++) printf("compute_rotation(%g, %g) -> r=%g c=%g s=%g\n", (double)x, (double)y, (double)r, (double)c, (double)s);
}
template <typename T> static void mat_check(int n, T scale, T shift, int pattern) {
  typedef Eigen::Matrix<T, Eigen::Dynamic, Eigen::Dynamic> Mat; typedef Eigen::Matrix<long double, Eigen::Dynamic, Eigen::Dynamic> LMat;
  Mat H = Mat::Zero(n, n);
  for (int i = 0; i < n; i++) for (int j = 0; j < n; j++) if (i <= j + 1) H(i, j) = scale * T(((i * 7 + j * 3 + pattern) % 5) - 2);
  if (pattern == 1) for (int i = 0; i < n; i++) H(i, i) = shift;       // exact-eigenvalue-like shift: zero pivots
  UpperHessenbergQR<T> qr(H, shift);
  Mat R = qr.matrix_R(), Q = Mat::Identity(n, n); qr.apply_YQ(Q); Mat QtHQ; qr.matrix_QtHQ(QtHQ);
  LMat LQ = Q.template cast<long double>(), LR = R.template cast<long double>(), LH = H.template cast<long double>();
  long double nrm = LH.norm() + std::abs((long double)shift) + 1e-300L, eps = std::numeric_limits<T>::epsilon();
  long double e1 = (LQ * LR - (LH - (long double)shift * LMat::Identity(n, n))).norm() / nrm, e2 = (LQ.transpose() * LQ - LMat::Identity(n, n)).norm(),
              e3 = (QtHQ.template cast<long double>() - LQ.transpose() * LH * LQ).norm() / nrm;
  bool shape = true; for (int i = 0; i < n; i++) for (int j = 0; j < n; j++) { if (i > j && R(i, j) != 0) shape = false; if (i > j + 1 && QtHQ(i, j) != 0) shape = false; }
  if (!(e1 < 100 * n * eps && e2 < 100 * n * eps && e3 < 100 * n * eps && shape) && !bad++)
    printf("UpperHessenbergQR n=%d scale=%g shift=%g pattern=%d: |QR-(H-sI)|=%Lg |Q'Q-I|=%Lg |QtHQ-Q'HQ|=%Lg shape=%d\n", n, (double)scale, (double)shift, pattern, e1, e2, e3, (int)shape);
}
// TridiagQR: Q'TQ written into a destination that ALREADY has the right size and holds arbitrary data must still be exactly tridiagonal and symmetric
template <typename T> static void tridiag_reuse_check(int n) {
  typedef Eigen::Matrix<T, Eigen::Dynamic, Eigen::Dynamic> Mat;
  Mat Tm = Mat::Zero(n, n); for (int i = 0; i < n; i++) { Tm(i, i) = T(1 + (i * 3) % 5); if (i + 1 < n) { Tm(i + 1, i) = T(0.5 + i % 2); Tm(i, i + 1) = Tm(i + 1, i); } }
  TridiagQR<T> qr(Tm, T(0.3));
  Mat fresh; qr.matrix_QtHQ(fresh);
  Mat dest = Mat::Constant(n, n, T(7)); qr.matrix_QtHQ(dest);
  bool ok = (dest - fresh).norm() == 0;
  for (int i = 0; i < n && ok; i++) for (int j = 0; j < n; j++) if (std::abs(i - j) > 1 && dest(i, j) != 0) ok = false;
  if (!ok && !bad++) printf("TridiagQR n=%d: matrix_QtHQ into a reused (pre-filled, same size) destination differs from a fresh one / is not tridiagonal\n", n);
}
int main(int argc, char** argv) {
  for (int n = 2; n <= 7; n++) { tridiag_reuse_check<double>(n); tridiag_reuse_check<float>(n); }
  if (argc > 2) { rot_check<float>((float)atof(argv[1]), (float)atof(argv[2])); rot_check<double>(atof(argv[1]), atof(argv[2])); }
  const double v[] = {0.0, 1.0, -1.0, 3.0, -2.5, 1e-30, 1e30, 1e-200, 1e150, -1e153, 5e-324, 1e300};
  for (double a : v) for (double b : v) { rot_check<double>(a, b); if (std::abs(a) < 1e37 && std::abs(b) < 1e37) rot_check<float>((float)a, (float)b); }
  for (int n = 2; n <= 6; n++) for (int p = 0; p < 3; p++) { mat_check<double>(n, 1.0, p == 1 ? 2.0 : 0.5, p); mat_check<double>(n, std::ldexp(1.0, 600), p == 1 ? std::ldexp(2.0, 600) : 0.0, p);
    mat_check<double>(n, std::ldexp(1.0, -600), 0.0, p); mat_check<float>(n, 1.0f, p == 1 ? 2.0f : 0.5f, p); }
  printf(bad ? "REPRODUCED (%d)\n" : "not reproduced (%d)\n", bad); return bad ? 1 : 0;
}
