// Native replay for C12: exhaustive small family on the REAL constructors: every n in 1..8, (nev, ncv) in [-2, n+3]^2,
// all nine rules as selection and sorting argument, zero start vector, sigma = 0 in buckling/Cayley mode.
#include <Eigen/Core>
#include <Eigen/SparseCore>
#include <cstdio>
#include <Spectra/SymEigsSolver.h>
#include <Spectra/GenEigsSolver.h>
#include <Spectra/SymGEigsShiftSolver.h>
#include <Spectra/DavidsonSymEigsSolver.h>
#include <Spectra/MatOp/DenseSymMatProd.h>
#include <Spectra/MatOp/DenseGenMatProd.h>
#include <Spectra/MatOp/SymShiftInvert.h>
#include <Spectra/MatOp/SparseSymMatProd.h>
using namespace Spectra;
static int bad = 0;
template <typename F> static int throws_ia(F f) { try { f(); } catch (const std::invalid_argument&) { return 1; } catch (...) { return 2; } return 0; }
int main() {
  for (int n = 1; n <= 8; n++) {
    Eigen::MatrixXd M = Eigen::MatrixXd::Random(n, n); Eigen::MatrixXd A = M + M.transpose();
    DenseSymMatProd<double> sop(A); DenseGenMatProd<double> gop(M);
    for (int nev = -2; nev <= n + 3; nev++) for (int ncv = -2; ncv <= n + 3; ncv++) {
      int want_s = !(1 <= nev && nev <= n - 1 && nev < ncv && ncv <= n), want_g = !(1 <= nev && nev <= n - 2 && nev + 2 <= ncv && ncv <= n);
      int got_s = throws_ia([&] { SymEigsSolver<DenseSymMatProd<double>> e(sop, nev, ncv); });
      int got_g = throws_ia([&] { GenEigsSolver<DenseGenMatProd<double>> e(gop, nev, ncv); });
      if (got_s != want_s && !bad++) printf("SymEigsSolver n=%d nev=%d ncv=%d: threw=%d expected=%d\n", n, nev, ncv, got_s, want_s);
      if (got_g != want_g && !bad++) printf("GenEigsSolver n=%d nev=%d ncv=%d: threw=%d expected=%d\n", n, nev, ncv, got_g, want_g);
    }
    for (int nev = -2; nev <= n + 3; nev++) {
      int want = !(1 <= nev && nev <= n - 1);
      int got = throws_ia([&] { DavidsonSymEigsSolver<DenseSymMatProd<double>> e(sop, nev); });
      if (got != want && !bad++) printf("DavidsonSymEigsSolver n=%d nev=%d: threw=%d expected=%d\n", n, nev, got, want);
    }
  }
  { const int n = 8; Eigen::MatrixXd M = Eigen::MatrixXd::Random(n, n); Eigen::MatrixXd A = M + M.transpose(); DenseSymMatProd<double> sop(A); DenseGenMatProd<double> gop(M);
    const SortRule R[9] = {SortRule::LargestMagn, SortRule::LargestReal, SortRule::LargestImag, SortRule::LargestAlge, SortRule::SmallestMagn, SortRule::SmallestReal, SortRule::SmallestImag, SortRule::SmallestAlge, SortRule::BothEnds};
    for (int a = 0; a < 9; a++) for (int b = 0; b < 9; b++) {
      bool sel_ok = (a == 0 || a == 3 || a == 4 || a == 7 || a == 8), sort_ok = (b == 0 || b == 3 || b == 4 || b == 7);
      int got = throws_ia([&] { SymEigsSolver<DenseSymMatProd<double>> e(sop, 2, 5); e.init(); e.compute(R[a], 50, 1e-8, R[b]); });
      if (got != !(sel_ok && sort_ok) && !bad++) printf("SymEigsSolver selection=%d sorting=%d: threw=%d expected=%d\n", a, b, got, !(sel_ok && sort_ok));
      bool gs = (a == 0 || a == 1 || a == 2 || a == 4 || a == 5 || a == 6), gt = (b == 0 || b == 1 || b == 2 || b == 4 || b == 5 || b == 6);
      got = throws_ia([&] { GenEigsSolver<DenseGenMatProd<double>> e(gop, 2, 6); e.init(); e.compute(R[a], 50, 1e-8, R[b]); });
      if (got != !(gs && gt) && !bad++) printf("GenEigsSolver selection=%d sorting=%d: threw=%d expected=%d\n", a, b, got, !(gs && gt));
    }
    Eigen::VectorXd z = Eigen::VectorXd::Zero(n);
    if (throws_ia([&] { SymEigsSolver<DenseSymMatProd<double>> e(sop, 2, 5); e.init(z.data()); }) != 1 && !bad++) printf("init(zero vector) did not throw invalid_argument\n");
    Eigen::MatrixXd B = Eigen::MatrixXd::Identity(n, n) * 2.0;
    using OpT = SymShiftInvert<double, Eigen::Dense, Eigen::Dense>; using BT = DenseSymMatProd<double>;
    OpT op(A, B); BT Bop(A);
    if (throws_ia([&] { SymGEigsShiftSolver<OpT, BT, GEigsMode::Buckling> e(op, Bop, 2, 5, 0.0); }) != 1 && !bad++) printf("buckling sigma=0 accepted\n");
    if (throws_ia([&] { SymGEigsShiftSolver<OpT, BT, GEigsMode::Cayley> e(op, Bop, 2, 5, 0.0); }) != 1 && !bad++) printf("Cayley sigma=0 accepted\n");
    if (throws_ia([&] { SymGEigsShiftSolver<OpT, BT, GEigsMode::Cayley> e(op, Bop, 2, 5, 1.5); }) != 0 && !bad++) printf("Cayley sigma=1.5 rejected\n");
  }
  printf(bad ? "REPRODUCED (%d)\n" : "not reproduced (%d)\n", bad); return bad ? 1 : 0;
}
