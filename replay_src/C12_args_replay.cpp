// Native replay for C12: exhaustive small family on the REAL constructors: every n in 1..8, (nev, ncv) in [-2, n+3]^2,
// all nine rules as selection and sorting argument, zero start vector, sigma = 0 in buckling/Cayley mode.
#include <Eigen/Core>
#include <Eigen/SparseCore>
#include <cstdio>
#include <Spectra/SymEigsSolver.h>
#include <Spectra/GenEigsSolver.h>
#include <Spectra/SymGEigsShiftSolver.h>
#include <Spectra/SymGEigsSolver.h>
#include <Spectra/MatOp/DenseCholesky.h>
#include <Spectra/DavidsonSymEigsSolver.h>
#include <Spectra/MatOp/DenseSymMatProd.h>
#include <Spectra/MatOp/DenseGenMatProd.h>
#include <Spectra/MatOp/SymShiftInvert.h>
#include <Spectra/MatOp/SparseSymMatProd.h>
using namespace Spectra;
static int bad = 0;
template <typename F> static int throws_ia(F f) { try { f(); } catch (const std::invalid_argument&) { return 1; } catch (...) { return 2; } return 0; }
int main() {
  for (int n = 1; n <= 8; n++) {
    Eigen::MatrixXd M = Eigen::MatrixXd::Random(n, n); Eigen::MatrixXd A = M + M.transpose();
    DenseSymMatProd<double> sop(A); DenseGenMatProd<double> gop(M);
    for (int nev = -2; nev <= n + 3; nev++) for (int ncv = -2; ncv <= n + 3; ncv++) {
      int want_s = !(1 <= nev && nev <= n - 1 && nev < ncv && ncv <= n), want_g = !(1 <= nev && nev <= n - 2 && nev + 2 <= ncv && ncv <= n);
      int got_s = throws_ia([&] { SymEigsSolver<DenseSymMatProd<double>> e(sop, nev, ncv); });
      int got_g = throws_ia([&] { GenEigsSolver<DenseGenMatProd<double>> e(gop, nev, ncv); });
      if (got_s != want_s && !bad++) printf("SymEigsSolver n=%d nev=%d ncv=%d: threw=%d expected=%d\n", n, nev, ncv, got_s, want_s);
      if (got_g != want_g && !bad++) printf("GenEigsSolver n=%d nev=%d ncv=%d: threw=%d expected=%d\n", n, nev, ncv, got_g, want_g);
    }
    for (int nev = -2; nev <= n + 3; nev++) {
      int want = !(1 <= nev && nev <= n - 1);
      int got = throws_ia([&] { DavidsonSymEigsSolver<DenseSymMatProd<double>> e(sop, nev); });
      if (got != want && !bad++) printf("DavidsonSymEigsSolver n=%d nev=%d: threw=%d expected=%d\n", n, nev, got, want);
    }
  }
  // generalized solvers hand their operator to the base class as an rvalue (second HermEigsBase constructor)
  for (int n = 2; n <= 7; n++) { Eigen::MatrixXd M = Eigen::MatrixXd::Random(n, n); Eigen::MatrixXd A = M + M.transpose(); Eigen::MatrixXd B = M * M.transpose() + Eigen::MatrixXd::Identity(n, n);
    DenseSymMatProd<double> aop(A); DenseCholesky<double> bop(B);
    for (int nev = -2; nev <= n + 3; nev++) for (int ncv = -2; ncv <= n + 3; ncv++) {
      int want = !(1 <= nev && nev <= n - 1 && nev < ncv && ncv <= n);
      int got = throws_ia([&] { SymGEigsSolver<DenseSymMatProd<double>, DenseCholesky<double>, GEigsMode::Cholesky> e(aop, bop, nev, ncv); });
      if (got != want && !bad++) printf("SymGEigsSolver<Cholesky> n=%d nev=%d ncv=%d: threw=%d expected=%d\n", n, nev, ncv, got, want);
      using OpT = SymShiftInvert<double, Eigen::Dense, Eigen::Dense>; OpT sop(A, B); DenseSymMatProd<double> Bp(B);
      got = throws_ia([&] { SymGEigsShiftSolver<OpT, DenseSymMatProd<double>, GEigsMode::ShiftInvert> e(sop, Bp, nev, ncv, 0.3); });
      if (got != want && !bad++) printf("SymGEigsShiftSolver<ShiftInvert> n=%d nev=%d ncv=%d: threw=%d expected=%d\n", n, nev, ncv, got, want);
    } }
  // every rule as sorting / selection argument for nev = 1, 2, 3
  { const int n = 9; Eigen::MatrixXd M = Eigen::MatrixXd::Random(n, n); Eigen::MatrixXd A = M + M.transpose(); DenseSymMatProd<double> sop(A); DenseGenMatProd<double> gop(M);
    const SortRule R[9] = {SortRule::LargestMagn, SortRule::LargestReal, SortRule::LargestImag, SortRule::LargestAlge, SortRule::SmallestMagn, SortRule::SmallestReal, SortRule::SmallestImag, SortRule::SmallestAlge, SortRule::BothEnds};
    for (int nev = 1; nev <= 3; nev++) for (int b = 0; b < 9; b++) {
      bool sort_ok = (b == 0 || b == 3 || b == 4 || b == 7), gt = (b == 0 || b == 1 || b == 2 || b == 4 || b == 5 || b == 6);
      int got = throws_ia([&] { SymEigsSolver<DenseSymMatProd<double>> e(sop, nev, 6); e.init(); e.compute(SortRule::LargestAlge, 50, 1e-8, R[b]); });
      if (got != !sort_ok && !bad++) printf("SymEigsSolver nev=%d sorting=%d: threw=%d expected=%d\n", nev, b, got, !sort_ok);
      got = throws_ia([&] { GenEigsSolver<DenseGenMatProd<double>> e(gop, nev, 7); e.init(); e.compute(SortRule::LargestMagn, 50, 1e-8, R[b]); });
      if (got != !gt && !bad++) printf("GenEigsSolver nev=%d sorting=%d: threw=%d expected=%d\n", nev, b, got, !gt);
      bool sel_ok = (b == 0 || b == 3 || b == 4 || b == 7 || b == 8);
      got = throws_ia([&] { SymEigsSolver<DenseSymMatProd<double>> e(sop, nev, 6); e.init(); e.compute(R[b], 50, 1e-8); });
      if (got != !sel_ok && !bad++) printf("SymEigsSolver nev=%d selection=%d: threw=%d expected=%d\n", nev, b, got, !sel_ok);
      got = throws_ia([&] { GenEigsSolver<DenseGenMatProd<double>> e(gop, nev, 7); e.init(); e.compute(R[b], 50, 1e-8); });
      if (got != !gt && !bad++) printf("GenEigsSolver nev=%d selection=%d: threw=%d expected=%d\n", nev, b, got, !gt);
    } }
  { const int n = 8; Eigen::MatrixXd M = Eigen::MatrixXd::Random(n, n); Eigen::MatrixXd A = M + M.transpose(); DenseSymMatProd<double> sop(A); DenseGenMatProd<double> gop(M);
    const SortRule R[9] = {SortRule::LargestMagn, SortRule::LargestReal, SortRule::LargestImag, SortRule::LargestAlge, SortRule::SmallestMagn, SortRule::SmallestReal, SortRule::SmallestImag, SortRule::SmallestAlge, SortRule::BothEnds};
    for (int a = 0; a < 9; a++) for (int b = 0; b < 9; b++) {
      bool sel_ok = (a == 0 || a == 3 || a == 4 || a == 7 || a == 8), sort_ok = (b == 0 || b == 3 || b == 4 || b == 7);
      int got = throws_ia([&] { SymEigsSolver<DenseSymMatProd<double>> e(sop, 2, 5); e.init(); e.compute(R[a], 50, 1e-8, R[b]); });
      if (got != !(sel_ok && sort_ok) && !bad++) printf("SymEigsSolver selection=%d sorting=%d: threw=%d expected=%d\n", a, b, got, !(sel_ok && sort_ok));
      bool gs = (a == 0 || a == 1 || a == 2 || a == 4 || a == 5 || a == 6), gt = (b == 0 || b == 1 || b == 2 || b == 4 || b == 5 || b == 6);
      got = throws_ia([&] { GenEigsSolver<DenseGenMatProd<double>> e(gop, 2, 6); e.init(); e.compute(R[a], 50, 1e-8, R[b]); });
      if (got != !(gs && gt) && !bad++) printf("GenEigsSolver selection=%d sorting=%d: threw=%d expected=%d\n", a, b, got, !(gs && gt));
    }
    Eigen::VectorXd z = Eigen::VectorXd::Zero(n);
    if (throws_ia([&] { SymEigsSolver<DenseSymMatProd<double>> e(sop, 2, 5); e.init(z.data()); }) != 1 && !bad++) printf("init(zero vector) did not throw invalid_argument\n");
    Eigen::MatrixXd B = Eigen::MatrixXd::Identity(n, n) * 2.0;
    using OpT = SymShiftInvert<double, Eigen::Dense, Eigen::Dense>; using BT = DenseSymMatProd<double>;
    OpT op(A, B); BT Bop(A);
    if (throws_ia([&] { SymGEigsShiftSolver<OpT, BT, GEigsMode::Buckling> e(op, Bop, 2, 5, 0.0); }) != 1 && !bad++) printf("buckling sigma=0 accepted\n");
    if (throws_ia([&] { SymGEigsShiftSolver<OpT, BT, GEigsMode::Cayley> e(op, Bop, 2, 5, 0.0); }) != 1 && !bad++) printf("Cayley sigma=0 accepted\n");
    if (throws_ia([&] { SymGEigsShiftSolver<OpT, BT, GEigsMode::Cayley> e(op, Bop, 2, 5, 1.5); }) != 0 && !bad++) printf("Cayley sigma=1.5 rejected\n");
  }
  printf(bad ? "REPRODUCED (%d)\n" : "not reproduced (%d)\n", bad); return bad ? 1 : 0;
}
