// Native replay for C10 on the real BKLDLT / DenseSymShiftSolve: status protocol (incl. 1x1 and reused objects), singular
// pivot reporting, residuals and lower/upper agreement on small structured matrices, second factorization on the same object.
#include <stdexcept>
struct EigenAssert : std::logic_error { EigenAssert(const char* s) : std::logic_error(s) {} };
#define eigen_assert(x) do { if (!(x)) throw EigenAssert(#x); } while (0)
#include <Eigen/Core>
#include <Eigen/LU>
#include <cstdio>
#include <complex>
#include <Spectra/LinAlg/BKLDLT.h>
#include <Spectra/MatOp/DenseSymShiftSolve.h>
using namespace Spectra;
static int bad = 0;
static void fail(const char* what, int n, int pat) { if (!bad++) printf("%s (n=%d pattern=%d)\n", what, n, pat); }
static Eigen::MatrixXd make(int n, int pat) {
  Eigen::MatrixXd A = Eigen::MatrixXd::Zero(n, n);
  for (int i = 0; i < n; i++) for (int j = 0; j <= i; j++) {
    double v = 0;
    switch (pat) { case 0: v = (i == j) ? 2.0 + i : 1.0 / (1 + i + j); break;          // SPD-like
                   case 1: v = (i == j) ? 0.0 : ((i + j) % 3 == 0 ? 1.0 : 0.5); break;  // zero diagonal
                   case 2: v = ((i * 5 + j * 3) % 7) - 3.0; break;                       // indefinite integer
                   case 3: v = (i == j) ? ((i % 2) ? -1.0 : 1.0) * (1 + i) : ((i == j + 1) ? 3.0 : 0.0); break; }
    A(i, j) = v; A(j, i) = v; }
  return A;
}
// complex Hermitian / row-major family: both triangles of the same Hermitian matrix, both storage orders
template <int Order>
static void hermitian_family() {
  typedef std::complex<double> C; typedef Eigen::Matrix<C, Eigen::Dynamic, Eigen::Dynamic, Order> CM; typedef Eigen::Matrix<C, Eigen::Dynamic, 1> CV;
  typedef Eigen::Matrix<double, Eigen::Dynamic, Eigen::Dynamic, Order> RM;
  for (int n = 2; n <= 7; n++) for (int pat = 0; pat < 4; pat++) for (int sh = 0; sh < 2; sh++) {
    Eigen::MatrixXd Ar = make(n, pat); CM A(n, n); RM R = Ar;
    for (int i = 0; i < n; i++) for (int j = 0; j <= i; j++) { C v(Ar(i, j), i == j ? 0.0 : 0.25 * (1 + ((i + 2 * j) % 3))); A(i, j) = v; A(j, i) = std::conj(v); }
    const double sigma = sh ? 0.37 : 0.0;
    CM L = A.template triangularView<Eigen::Lower>(), U = A.template triangularView<Eigen::Upper>();
    BKLDLT<C> sl(L, Eigen::Lower, sigma), su(U, Eigen::Upper, sigma);
    if (sl.info() != su.info()) { fail(Order == Eigen::RowMajor ? "Hermitian row-major: lower/upper status differ" : "Hermitian col-major: lower/upper status differ", n, pat); continue; }
    CM As = A - C(sigma) * CM::Identity(n, n);
    if (sl.info() == CompInfo::Successful && std::abs(Eigen::MatrixXcd(As).determinant()) > 1e-8) {
      CV b = CV::LinSpaced(n, C(1, 0), C(2, 0)); for (int i = 0; i < n; i++) b[i] += C(0, 0.5 * i);
      CV x = sl.solve(b), y = su.solve(b);
      double res = (As * x - b).norm(), scale = As.norm() * x.norm() + b.norm();
      if (!(res <= 1e3 * n * 2.2e-16 * scale)) fail(Order == Eigen::RowMajor ? "Hermitian row-major lower: residual too large" : "Hermitian col-major lower: residual too large", n, pat);
      double res2 = (As * y - b).norm();
      if (!(res2 <= 1e3 * n * 2.2e-16 * scale)) fail(Order == Eigen::RowMajor ? "Hermitian row-major UPPER triangle: residual too large (entries not conjugated?)" : "Hermitian col-major UPPER triangle: residual too large", n, pat);
      if ((x - y).norm() > 1e-9 * (1 + x.norm())) fail("Hermitian: lower/upper results differ", n, pat);
    }
    // real symmetric in this storage order
    RM Lr = R.template triangularView<Eigen::Lower>(), Ur = R.template triangularView<Eigen::Upper>();
    BKLDLT<double> rl(Lr, Eigen::Lower, sigma), ru(Ur, Eigen::Upper, sigma);
    if (rl.info() != ru.info()) { fail("real, this storage order: lower/upper status differ", n, pat); continue; }
    Eigen::MatrixXd Rs = Ar - sigma * Eigen::MatrixXd::Identity(n, n);
    if (rl.info() == CompInfo::Successful && std::abs(Rs.determinant()) > 1e-8) {
      Eigen::VectorXd b = Eigen::VectorXd::LinSpaced(n, 1, 2), x = rl.solve(b), y = ru.solve(b);
      if (!((Rs * x - b).norm() <= 1e3 * n * 2.2e-16 * (Rs.norm() * x.norm() + b.norm()))) fail("real, this storage order: residual too large", n, pat);
      if ((x - y).norm() > 1e-9 * (1 + x.norm())) fail("real, this storage order: lower/upper results differ", n, pat);
    }
  }
}
int main() {
  try {
  hermitian_family<Eigen::ColMajor>(); hermitian_family<Eigen::RowMajor>();
  { Eigen::MatrixXd A(1, 1); A(0, 0) = 2.0; BKLDLT<double> s(A);
    if (s.info() != CompInfo::Successful) fail("info() != Successful for the nonsingular 1x1 matrix [2]", 1, -1);
    Eigen::VectorXd b(1); b[0] = 4.0; Eigen::VectorXd x = s.solve(b); if (std::abs(x[0] - 2.0) > 1e-14) fail("1x1 solve wrong", 1, -1);
    int threw = 0; try { DenseSymShiftSolve<double> op(A); op.set_shift(0.5); } catch (const std::invalid_argument&) { threw = 1; }
    if (threw) fail("DenseSymShiftSolve::set_shift throws for a nonsingular 1x1 system", 1, -1);
    Eigen::MatrixXd Z(1, 1); Z(0, 0) = 0.0; BKLDLT<double> z(Z); if (z.info() != CompInfo::NumericalIssue) fail("singular 1x1 not reported", 1, -1); }
  { // reused object: singular factorization first, then a nonsingular one
    Eigen::MatrixXd S = Eigen::MatrixXd::Zero(3, 3); BKLDLT<double> s; s.compute(S); CompInfo i1 = s.info();
    Eigen::MatrixXd A = make(1, 0); s.compute(A); if (i1 != CompInfo::NumericalIssue || s.info() != CompInfo::Successful) fail("status of an earlier factorization survives compute()", 1, -2);
    Eigen::MatrixXd B = make(6, 2); s.compute(B, Eigen::Lower, 0.3); Eigen::VectorXd b = Eigen::VectorXd::LinSpaced(6, 1, 2); Eigen::VectorXd x = s.solve(b);
    BKLDLT<double> f(B, Eigen::Lower, 0.3); Eigen::VectorXd xf = f.solve(b);
    if (s.info() == CompInfo::Successful && (x - xf).norm() > 1e-12 * (1 + xf.norm())) fail("a reused BKLDLT object solves differently from a fresh one", 6, 2); }
  // reused object, SAME dimension: a factorization with 2x2 pivots first, then every other pattern; must equal a fresh object
  for (int n = 2; n <= 8; n++) for (int p1 = 0; p1 < 4; p1++) for (int p2 = 0; p2 < 4; p2++) {
    Eigen::MatrixXd A1 = make(n, p1), A2 = make(n, p2); BKLDLT<double> s; s.compute(A1, Eigen::Lower, 0.1); s.compute(A2, Eigen::Lower, 0.3);
    BKLDLT<double> f(A2, Eigen::Lower, 0.3);
    if (s.info() != f.info()) { fail("same-size reuse: status differs from a fresh object", n, p1 * 10 + p2); continue; }
    if (f.info() != CompInfo::Successful) continue;
    Eigen::VectorXd b = Eigen::VectorXd::LinSpaced(n, 1, 2), x = s.solve(b), xf = f.solve(b);
    if (!((x - xf).norm() <= 1e-12 * (1 + xf.norm()))) fail("same-size reuse: a reused BKLDLT object solves differently from a fresh one (stale pivot record)", n, p1 * 10 + p2);
  }
  for (int n = 1; n <= 9; n++) for (int pat = 0; pat < 4; pat++) for (int sh = 0; sh < 3; sh++) {
    Eigen::MatrixXd A = make(n, pat); const double sigma = sh == 0 ? 0.0 : (sh == 1 ? 0.37 : A(0, 0));
    Eigen::MatrixXd L = A.triangularView<Eigen::Lower>(), U = A.triangularView<Eigen::Upper>();
    BKLDLT<double> sl(L, Eigen::Lower, sigma), su(U, Eigen::Upper, sigma);
    if (sl.info() == CompInfo::NotComputed) { fail("info() == NotComputed after compute()", n, pat); continue; }
    if (sl.info() != su.info()) { fail("lower/upper status differ", n, pat); continue; }
    Eigen::MatrixXd As = A - sigma * Eigen::MatrixXd::Identity(n, n);
    if (sl.info() != CompInfo::Successful) continue;
    Eigen::VectorXd b = Eigen::VectorXd::LinSpaced(n, 1, 2), x = sl.solve(b), y = su.solve(b);
    double res = (As * x - b).norm(), scale = As.norm() * x.norm() + b.norm();
    if (!(res <= 1e3 * n * 2.2e-16 * scale) && std::abs(As.determinant()) > 1e-8) fail("residual too large", n, pat);
    if ((x - y).norm() > 1e-9 * (1 + x.norm()) && std::abs(As.determinant()) > 1e-8) fail("lower/upper results differ", n, pat);
  }
  } catch (const EigenAssert& e) { printf("Eigen assertion: %s\n", e.what()); bad++; }
  printf(bad ? "REPRODUCED (%d)\n" : "not reproduced (%d)\n", bad); return bad ? 1 : 0;
}
