// Native replay for the complex-shift solver: (a) distinct returned pairs are distinct eigenpairs (no eigenvalue overwritten
// by a copy of its neighbour) on spectra whose iterated Ritz values tie in magnitude; (b) the operator still carries the
// constructor's shift when compute() returns.
#include <Eigen/Core>
#include <Eigen/Eigenvalues>
#include <cstdio>
#include <complex>
#include <vector>
#include <Spectra/GenEigsComplexShiftSolver.h>
#include <Spectra/MatOp/DenseGenComplexShiftSolve.h>
using namespace Spectra;
typedef std::complex<double> C;
int main(int argc, char** argv) {
  int bad = 0;
  const int mode = argc > 1 ? atoi(argv[1]) : 3;
  if (mode & 1) for (int trial = 0; trial < 12 && !(bad & 1); trial++) {
    const int n = 12; const double sr = 0.3, si = 0.7, d = 0.5 + 0.1 * trial, e = 0.9;
    Eigen::MatrixXd A = Eigen::MatrixXd::Zero(n, n);
    // eigenvalues sr+d +- i e and sr-d +- i e : mirror images about Re = sr, equal |nu| under the complex shift
    A(0, 0) = sr + d; A(0, 1) = e; A(1, 0) = -e; A(1, 1) = sr + d;
    A(2, 2) = sr - d; A(2, 3) = e; A(3, 2) = -e; A(3, 3) = sr - d;
    for (int i = 4; i < n; i++) A(i, i) = 50.0 + 3 * i;
    std::srand(trial + 3); Eigen::MatrixXd P = Eigen::MatrixXd::Random(n, n) + 4 * Eigen::MatrixXd::Identity(n, n);
    Eigen::MatrixXd B = P * A * P.inverse();
    DenseGenComplexShiftSolve<double> op(B);
    GenEigsComplexShiftSolver<DenseGenComplexShiftSolve<double>> eigs(op, 4, 9, sr, si);
    eigs.init(); Eigen::Index nconv = eigs.compute(SortRule::LargestMagn, 500, 1e-10);
    if (eigs.info() != CompInfo::Successful) continue;
    Eigen::VectorXcd ev = eigs.eigenvalues();
    const C want[4] = {C(sr + d, e), C(sr + d, -e), C(sr - d, e), C(sr - d, -e)};
    for (int w = 0; w < 4; w++) { int hits = 0; for (int i = 0; i < ev.size(); i++) if (std::abs(ev[i] - want[w]) < 1e-6) hits++;
      if (hits != 1) { printf("trial %d: eigenvalue (%g,%g) of A returned %d times; returned:", trial, want[w].real(), want[w].imag(), hits);
        for (int i = 0; i < ev.size(); i++) printf(" (%.6g,%.6g)", ev[i].real(), ev[i].imag()); printf("\n"); bad |= 1; break; } }
  }
  if (mode & 2) {
    std::srand(5); const int n = 10; Eigen::MatrixXd A = Eigen::MatrixXd::Random(n, n);
    DenseGenComplexShiftSolve<double> op(A);
    GenEigsComplexShiftSolver<DenseGenComplexShiftSolve<double>> eigs(op, 3, 7, 0.2, 0.4);
    Eigen::VectorXd x = Eigen::VectorXd::LinSpaced(n, 1, 2), y0(n), y1(n);
    op.perform_op(x.data(), y0.data());
    eigs.init(); eigs.compute(SortRule::LargestMagn);
    op.perform_op(x.data(), y1.data());
    const double diff = (y0 - y1).norm();
    printf("operator applied to a fixed vector before/after compute(): difference %g\n", diff);
    if (diff > 1e-12 * y0.norm()) { printf("the shift installed at construction is no longer in force\n"); bad |= 2; }
  }
  printf(bad ? "REPRODUCED (%d)\n" : "not reproduced (%d)\n", bad);
  return bad ? 1 : 0;
}
