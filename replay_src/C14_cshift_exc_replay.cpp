// Native replay for C14 / C06 on the real GenEigsComplexShiftSolver: the user's operator throws at its k-th application, for EVERY k of the
// fault-free run (iteration applications and the root-selection probe solves of sort_ritzpair).  Afterwards (fault gone) a new init(); compute()
// on the same solver/operator objects must give the results of a solver that never saw the fault, and the operator must still carry the
// shift it was constructed with.
#include <Eigen/Core>
#include <Eigen/LU>
#include <cstdio>
#include <cstdlib>
#include <complex>
#include <stdexcept>
#include <Spectra/GenEigsComplexShiftSolver.h>
#include <Spectra/MatOp/DenseGenComplexShiftSolve.h>
using namespace Spectra;
typedef Eigen::MatrixXd Mat; typedef Eigen::VectorXd Vec;
struct Fault : std::runtime_error { long k; Fault(long k_) : std::runtime_error("operator fault"), k(k_) {} };
struct FaultyOp {
  typedef double Scalar;
  mutable DenseGenComplexShiftSolve<double> inner; mutable long calls; long fault_at; double sr, si;
  FaultyOp(const Mat& A) : inner(A), calls(0), fault_at(-1), sr(0), si(0) {}
  Eigen::Index rows() const { return inner.rows(); }
  Eigen::Index cols() const { return inner.cols(); }
  void set_shift(const double& r, const double& i) { sr = r; si = i; inner.set_shift(r, i); }
  void perform_op(const double* x, double* y) const { calls++; if (calls == fault_at) throw Fault(calls); inner.perform_op(x, y); }
};
int main() {
  int bad = 0; const int n = 14, nev = 3, ncv = 8; const double sr = 0.4, si = 0.3;
  std::srand(7); Mat A = Mat::Random(n, n);
  // reference: never saw a fault
  FaultyOp op0(A); GenEigsComplexShiftSolver<FaultyOp> ref(op0, nev, ncv, sr, si);
  ref.init(); ref.compute(SortRule::LargestMagn, 300, 1e-10);
  Eigen::VectorXcd ev0 = ref.eigenvalues(); const long total = op0.calls;
  printf("fault-free run: %ld operator applications, %ld eigenvalues, info %d\n", total, (long)ev0.size(), (int)ref.info());
  long first_bad = -1, nbad = 0, shift_bad = 0;
  for (long k = 1; k <= total; k++) {
    FaultyOp op(A); GenEigsComplexShiftSolver<FaultyOp> s(op, nev, ncv, sr, si);
    op.fault_at = k; bool threw = false;
    try { s.init(); s.compute(SortRule::LargestMagn, 300, 1e-10); } catch (const Fault& f) { threw = (f.k == k); }
    if (!threw) { printf("k=%ld: the fault did not propagate unchanged\n", k); bad |= 1; continue; }
    op.fault_at = -1;                       // the fault is gone
    const double fr = op.sr, fi = op.si;    // shift the operator is left with after the fault
    if (fr != sr || fi != si) shift_bad++;
    s.init(); s.compute(SortRule::LargestMagn, 300, 1e-10);
    Eigen::VectorXcd ev = s.eigenvalues();
    bool same = ev.size() == ev0.size();
    for (int i = 0; same && i < ev.size(); i++) same = (ev[i].real() == ev0[i].real() && ev[i].imag() == ev0[i].imag());
    if (!same) { nbad++; if (first_bad < 0) { first_bad = k; printf("k=%ld: after the fault the operator carries shift (%g, %g) instead of (%g, %g); re-run returns %ld values, first (%.6g, %.6g) vs (%.6g, %.6g) without the fault\n", k, fr, fi, sr, si, (long)ev.size(), ev.size() ? ev[0].real() : 0.0, ev.size() ? ev[0].imag() : 0.0, ev0[0].real(), ev0[0].imag()); } }
  }
  if (nbad || shift_bad) { printf("%ld of %ld fault positions leave the solver/operator in a state that changes a later init(); compute() (%ld leave a foreign shift installed)\n", nbad, total, shift_bad); bad |= 2; }
  printf(bad ? "REPRODUCED (%d)\n" : "not reproduced (%d)\n", bad); return bad ? 1 : 0;
}
