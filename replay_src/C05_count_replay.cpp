#include <Eigen/Core>
#include <iostream>
#include <Spectra/SymEigsSolver.h>
#include <Spectra/MatOp/DenseSymMatProd.h>
using namespace Spectra;
int main() {
  int bad = 0;
  for (int seed = 0; seed < 20 && !bad; seed++) {
    std::srand(seed + 1);
    const int n = 60;
    Eigen::MatrixXd M = Eigen::MatrixXd::Random(n, n); Eigen::MatrixXd A = M + M.transpose();
    DenseSymMatProd<double> op(A);
    for (int maxit = 1; maxit <= 12 && !bad; maxit++) {
      SymEigsSolver<DenseSymMatProd<double>> eigs(op, 4, 9);
      eigs.init();
      const double tol = 1e-10;
      Eigen::Index nconv = eigs.compute(SortRule::LargestMagn, maxit, tol);
      Eigen::VectorXd ev = eigs.eigenvalues(); Eigen::MatrixXd V = eigs.eigenvectors();
      if (ev.size() != nconv) { printf("COUNT MISMATCH ret=%ld size=%ld\n", (long)nconv, (long)ev.size()); bad = 1; }
      for (int i = 0; i < ev.size(); i++) {
        double r = (A * V.col(i) - ev[i] * V.col(i)).norm();
        double thr = tol * std::max(std::pow(2.2e-16, 2.0 / 3), std::abs(ev[i]));
        if (r > 1e3 * thr + 1e-12 * A.norm()) { printf("seed %d maxit %d info %d: returned pair %d theta=%g residual=%g threshold=%g\n", seed, maxit, (int)eigs.info(), i, ev[i], r, thr); bad = 1; }
      }
    }
  }
  // reuse with maxit = 0
  { Eigen::MatrixXd A = Eigen::MatrixXd::Zero(10, 10); for (int i = 0; i < 10; i++) A(i, i) = i + 1;
    DenseSymMatProd<double> op(A); SymEigsSolver<DenseSymMatProd<double>> eigs(op, 3, 6); eigs.init(); eigs.compute(SortRule::LargestAlge);
    Eigen::Index r = eigs.compute(SortRule::LargestAlge, 0);
    printf("second compute(maxit=0): ret=%ld eigenvalues().size()=%ld info=%d\n", (long)r, (long)eigs.eigenvalues().size(), (int)eigs.info()); if (r != eigs.eigenvalues().size()) bad = 1; }
  printf(bad ? "REPRODUCED\n" : "not reproduced\n"); return bad;
}
