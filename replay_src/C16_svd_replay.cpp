// Native replay for C16 on the real PartialSVDSolver: (1) matrix_U/matrix_V after a second compute() describe the second run;
// (2) a rejected constructor call leaks nothing (counted through a global operator new/delete balance).
#include <stdexcept>
struct EigenAssert : std::logic_error { EigenAssert(const char* s) : std::logic_error(s) {} };
#define eigen_assert(x) do { if (!(x)) throw EigenAssert(#x); } while (0)
#include <Eigen/Core>
#include <cstdio>
#include <cstdlib>
#include <new>
#include <Spectra/contrib/PartialSVDSolver.h>
static long g_live = 0;
void* operator new(std::size_t n) { void* p = std::malloc(n ? n : 1); if (!p) throw std::bad_alloc(); g_live++; return p; }
void operator delete(void* p) noexcept { if (p) { g_live--; std::free(p); } }
void operator delete(void* p, std::size_t) noexcept { if (p) { g_live--; std::free(p); } }
using namespace Spectra;
int main(int argc, char** argv) {
  int bad = 0; const int mode = argc > 1 ? atoi(argv[1]) : 3;
  if (mode & 1) for (int seed = 0; seed < 20 && !(bad & 1); seed++) for (int tall = 0; tall < 2 && !(bad & 1); tall++) {
    std::srand(seed + 11); Eigen::MatrixXd A = tall ? Eigen::MatrixXd::Random(40, 12) : Eigen::MatrixXd::Random(12, 40);
    for (int maxit = 1; maxit <= 6 && !(bad & 1); maxit++) {
      try {
        PartialSVDSolver<Eigen::MatrixXd> svds(A, 4, 8);
        Eigen::Index n1 = svds.compute(maxit, 1e-12);
        Eigen::MatrixXd U1 = svds.matrix_U(4), V1 = svds.matrix_V(4);
        Eigen::Index n2 = svds.compute(1000, 1e-10);
        Eigen::MatrixXd U2 = svds.matrix_U(4), V2 = svds.matrix_V(4);
        Eigen::VectorXd s2 = svds.singular_values();
        if (U2.cols() != std::min<Eigen::Index>(4, n2) || V2.cols() != std::min<Eigen::Index>(4, n2)) { printf("seed %d tall %d maxit %d: first run nconv=%ld, second nconv=%ld but matrix_U has %ld columns\n", seed, tall, maxit, (long)n1, (long)n2, (long)U2.cols()); bad |= 1; }
        else if (n2 > 0) { double r = (A * V2 - U2 * s2.head(V2.cols()).asDiagonal()).norm(); if (r > 1e-6 * A.norm()) { printf("seed %d tall %d maxit %d: after the second compute() ||A V - U S|| = %g (vectors of the first run returned)\n", seed, tall, maxit, r); bad |= 1; } }
      } catch (const EigenAssert& e) { printf("seed %d tall %d maxit %d: Eigen assertion in matrix_U/V after a second compute(): %s\n", seed, tall, maxit, e.what()); bad |= 1; }
    }
  }
  // partial convergence: whatever nconv is, column i of U / V must belong to singular value i (A V = U S, V'V = I)
  if (mode & 1) for (int seed = 0; seed < 120 && !(bad & 4); seed++) {
    std::srand(seed + 101); const int m = 30 + seed % 25, n = 20 + (seed * 7) % 30; Eigen::MatrixXd A = Eigen::MatrixXd::Random(m, n);
    for (int maxit = 1; maxit <= 40 && !(bad & 4); maxit += 1 + maxit / 6) {
      try { PartialSVDSolver<Eigen::MatrixXd> svds(A, 6, 12); Eigen::Index nc = svds.compute(maxit, 1e-10); if (nc == 0 || nc == 6) continue;
        Eigen::MatrixXd U = svds.matrix_U(6), V = svds.matrix_V(6); Eigen::VectorXd sv = svds.singular_values();
        if (U.cols() != nc || V.cols() != nc || sv.size() != nc) { printf("partial run (nconv=%ld): %ld / %ld / %ld columns / values\n", (long)nc, (long)U.cols(), (long)V.cols(), (long)sv.size()); bad |= 4; break; }
        double r = (A * V - U * sv.asDiagonal()).norm(), o = (V.transpose() * V - Eigen::MatrixXd::Identity(nc, nc)).norm();
        if (r > 1e-6 * A.norm() || o > 1e-6) { printf("seed %d %dx%d maxit %d nconv=%ld: ||A V - U S|| = %g, ||V'V - I|| = %g: returned vectors do not belong to the returned singular values\n", seed, m, n, maxit, (long)nc, r, o); bad |= 4; }
      } catch (const EigenAssert& e) { printf("partial run: Eigen assertion %s\n", e.what()); bad |= 4; } catch (const std::exception&) {}
    }
  }
  // accessors between two runs (cache reuse) and requests for a growing number of vectors (cache width)
  if (mode & 1) for (int seed = 0; seed < 12 && !(bad & 8); seed++) for (int tall = 0; tall < 2 && !(bad & 8); tall++) {
    std::srand(seed + 301); Eigen::MatrixXd A = tall ? Eigen::MatrixXd::Random(36, 14) : Eigen::MatrixXd::Random(14, 36);
    try {
      PartialSVDSolver<Eigen::MatrixXd> svds(A, 4, 9);
      Eigen::Index n1 = svds.compute(1000, 1e-2);
      Eigen::MatrixXd Ua = svds.matrix_U(1), Va = svds.matrix_V(4);         // first request narrower than the second
      if (Ua.cols() != std::min<Eigen::Index>(1, n1) || Va.cols() != std::min<Eigen::Index>(4, n1)) { printf("seed %d tall %d: matrix_U(1) has %ld, matrix_V(4) has %ld columns (nconv %ld)\n", seed, tall, (long)Ua.cols(), (long)Va.cols(), (long)n1); bad |= 8; }
      Eigen::Index n2 = svds.compute(1000, 1e-12);
      Eigen::MatrixXd U2 = svds.matrix_U(4), V2 = svds.matrix_V(4); Eigen::VectorXd s2 = svds.singular_values();
      if (n2 > 0 && U2.cols() == n2 && V2.cols() == n2) { double r = (A * V2 - U2 * s2.head(n2).asDiagonal()).norm(); if (r > 1e-8 * A.norm()) { printf("seed %d tall %d: accessors between two runs: after the second compute() ||A V - U S|| = %g (vectors cached from the first run)\n", seed, tall, r); bad |= 8; } }
    } catch (const EigenAssert& e) { printf("seed %d tall %d: Eigen assertion in matrix_U/V when a later call asks for more vectors: %s\n", seed, tall, e.what()); bad |= 8; }
  }
  // both runs read both factors; the second run asks for them in either order (a derived factor cached separately from the eigenvectors)
  if (mode & 1) for (int seed = 0; seed < 8 && !(bad & 16); seed++) for (int tall = 0; tall < 2 && !(bad & 16); tall++) for (int order = 0; order < 2 && !(bad & 16); order++) {
    std::srand(seed + 401); Eigen::MatrixXd A = tall ? Eigen::MatrixXd::Random(36, 14) : Eigen::MatrixXd::Random(14, 36);
    try {
      PartialSVDSolver<Eigen::MatrixXd> svds(A, 4, 9);
      svds.compute(1000, 1e-2);
      Eigen::MatrixXd U1 = svds.matrix_U(4), V1 = svds.matrix_V(4);
      Eigen::Index n2 = svds.compute(1000, 1e-12);
      Eigen::MatrixXd U2, V2;
      if (order == 0) { U2 = svds.matrix_U(4); V2 = svds.matrix_V(4); } else { V2 = svds.matrix_V(4); U2 = svds.matrix_U(4); }
      Eigen::VectorXd s2 = svds.singular_values();
      if (n2 > 0 && U2.cols() == n2 && V2.cols() == n2) {
        double r = (A * V2 - U2 * s2.head(n2).asDiagonal()).norm(), r2 = (A.transpose() * U2 - V2 * s2.head(n2).asDiagonal()).norm();
        if (r > 1e-8 * A.norm() || r2 > 1e-8 * A.norm()) { printf("seed %d tall %d order %s: after the second compute() ||A V - U S|| = %g, ||A'U - V S|| = %g (a factor cached from the first run was returned)\n", seed, tall, order ? "V,U" : "U,V", r, r2); bad |= 16; } }
      else if (n2 > 0) { printf("seed %d tall %d: %ld / %ld columns for nconv %ld\n", seed, tall, (long)U2.cols(), (long)V2.cols(), (long)n2); bad |= 16; }
    } catch (const EigenAssert& e) { printf("seed %d tall %d order %d: Eigen assertion: %s\n", seed, tall, order, e.what()); bad |= 16; }
  }
  if (mode & 2) {
    Eigen::MatrixXd A = Eigen::MatrixXd::Random(10, 6);
    long before = g_live; int threw = 0;
    try { PartialSVDSolver<Eigen::MatrixXd> svds(A, 6, 7); } catch (const std::invalid_argument&) { threw = 1; }
    long after = g_live;
    printf("rejected constructor call: threw=%d, live allocations before=%ld after=%ld\n", threw, before, after);
    if (!threw || after != before) { printf("the rejected call leaked %ld allocation(s)\n", after - before); bad |= 2; }
  }
  printf(bad ? "REPRODUCED (%d)\n" : "not reproduced (%d)\n", bad); return bad ? 1 : 0;
}
