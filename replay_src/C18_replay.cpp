// Native replay for C18: searches a small family of real inputs (all vectors of length 0..MAXL over a tie-rich
// alphabet, all nine rules, real and complex) for a violation of the property statement on the REAL headers.
#include <Spectra/Util/SelectionRule.h>
#include <cstdio>
#include <cstdlib>
#include <complex>
#include <vector>
using namespace Spectra;
typedef Eigen::Index Index;
static const SortRule RULES[9] = {SortRule::LargestMagn, SortRule::LargestReal, SortRule::LargestImag, SortRule::LargestAlge,
    SortRule::SmallestMagn, SortRule::SmallestReal, SortRule::SmallestImag, SortRule::SmallestAlge, SortRule::BothEnds};
static const char* NAMES[9] = {"LargestMagn","LargestReal","LargestImag","LargestAlge","SmallestMagn","SmallestReal","SmallestImag","SmallestAlge","BothEnds"};
static bool real_ok(int r) { return r == 0 || r == 3 || r == 4 || r == 7 || r == 8; }
static double key(int r, double x) { switch (r) { case 0: return -std::abs(x); case 3: case 8: return -x; case 4: return std::abs(x); default: return x; } }
static int fails = 0;
static void report(const char* what, int r, const Eigen::VectorXd& v, Index len) {
  if (fails++ == 0) { printf("REPRODUCED %s rule=%s len=%ld values=[", what, NAMES[r], (long)len); for (Index i = 0; i < v.size(); i++) printf("%g ", v[i]); printf("]\n"); }
}
int main(int argc, char** argv) {
  const int MAXL = argc > 1 ? atoi(argv[1]) : 5;
  const double A[4] = {-1, 0, 1, 2};
  for (int r = 0; r < 9; r++) for (int len = 0; len <= MAXL; len++) {
    long total = 1; for (int i = 0; i < len; i++) total *= 4;
    for (long code = 0; code < total; code++) {
      Eigen::VectorXd v(len); long c = code; for (int i = 0; i < len; i++) { v[i] = A[c % 4]; c /= 4; }
      std::vector<Index> ind; bool threw = false;
      try { ind = argsort(RULES[r], v, (Index)len); } catch (const std::invalid_argument&) { threw = true; }
      if (!real_ok(r)) { if (!threw) report("undefined-rule-not-rejected", r, v, len); continue; }
      if (threw) { report("defined-rule-rejected", r, v, len); continue; }
      if ((Index)ind.size() != len) { report("size", r, v, len); continue; }
      std::vector<int> seen(len, 0); bool perm = true;
      for (int i = 0; i < len; i++) { if (ind[i] < 0 || ind[i] >= len || seen[ind[i]]++) perm = false; }
      if (!perm) { report("not-a-permutation", r, v, len); continue; }
      if (r != 8) { for (int i = 0; i + 1 < len; i++) if (key(r, v[ind[i + 1]]) < key(r, v[ind[i]])) { report("not-ordered", r, v, len); break; } }
      else {
        std::vector<double> s(v.data(), v.data() + len); std::sort(s.begin(), s.end());
        for (int k = 0; k <= len; k++) {   // first k = ceil(k/2) largest + floor(k/2) smallest (as multisets)
          std::vector<double> got, want; for (int i = 0; i < k; i++) got.push_back(v[ind[i]]);
          for (int i = 0; i < (k + 1) / 2; i++) want.push_back(s[len - 1 - i]); for (int i = 0; i < k / 2; i++) want.push_back(s[i]);
          std::sort(got.begin(), got.end()); std::sort(want.begin(), want.end());
          if (got != want) { report("bothends-first-k", r, v, len); break; }
        }
      }
    }
  }
  // complex keys through the comparator class
  {
    typedef std::complex<double> C; C z[8] = {C(1, 2), C(1, -2), C(-3, 0), C(0, 0), C(0, 1), C(2, 2), C(1, -1), C(2.5, -2)};   /* incl. neighbours with opposite imaginary parts that are NOT conjugates */
    #define CK(RULE, EXPR) { SortEigenvalue<C, SortRule::RULE> s(z, 8); std::vector<Index> id = s.index(); \
      std::vector<int> seen(8, 0); for (int i = 0; i < 8; i++) { if (id[i] < 0 || id[i] > 7 || seen[id[i]]++) { if (fails++ == 0) printf("REPRODUCED complex not-a-permutation " #RULE "\n"); break; } } \
      for (int i = 0; i + 1 < 8; i++) { C x = z[id[i]], y = z[id[i + 1]]; if (EXPR) { if (fails++ == 0) printf("REPRODUCED complex not-ordered " #RULE "\n"); break; } } }
    CK(LargestMagn, std::abs(y) > std::abs(x)) CK(SmallestMagn, std::abs(y) < std::abs(x))
    CK(LargestReal, y.real() > x.real()) CK(SmallestReal, y.real() < x.real())
    CK(LargestImag, std::abs(y.imag()) > std::abs(x.imag())) CK(SmallestImag, std::abs(y.imag()) < std::abs(x.imag()))
  }
  printf(fails ? "REPRODUCED (%d failing inputs)\n" : "not reproduced (%d)\n", fails);
  return fails ? 1 : 0;
}
