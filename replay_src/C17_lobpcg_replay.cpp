// Native replay for property C17 (LOBPCG solver, contrib/LOBPCGSolver.h) on the REAL headers.
//   mode 1: accessor shapes after a normal compute(): eigenvectors() must be n x k
//   mode 2: precondition of the inner SymGEigsSolver constructor at its call site (ncv = min(10, n' - 1) must satisfy nev < ncv <= n')
//   mode 3: status protocol: info() == Success  ==>  the last convergence test of THIS compute() found every residual column norm below tol * n
//   mode 5: sanity run (doc example, 100 x 100 without / with B and a diagonal preconditioner): prints status, eigenvalues against a dense reference, residual norms,
//           ||X'BX - I|| - used to compare the behaviour of a repaired header with the original (always exit 0)
//   mode 6: any other failed obligation (shape / index / callee precondition): a family of inputs INSIDE the property's quantifier (k = 1..4, n = 20, 50, with / without B,
//           diagonal preconditioner, constraints, maxit 0 / 1 / 30, a second compute() on the same object) with Eigen's assertions enabled: an assertion abort = reproduced
//   mode 7: the status clause against the pencil itself (random well-separated pencils, loose tolerances): Success ==> recomputed residual columns below tol * n
//   mode 4: (outside the property's quantifier, for the report) rank-deficient initial block: the initial LDLT fails and `BX = BX * sparse_eVecX` multiplies a 0 x 0 matrix
// exit code 1 + a line starting with REPRODUCED when the real code exhibits the violated obligation, 0 otherwise.
#include <cstdio>
#include <cstdlib>
#include <cmath>
#include <iostream>
#include <vector>
#include <map>
#include <functional>
#include <algorithm>
#include <stdexcept>
#include <Eigen/Core>
#include <Eigen/SparseCore>
#include <Eigen/Eigenvalues>
#include <Eigen/SVD>
#include <Eigen/SparseCholesky>
#define private public
#define protected public
#include <Spectra/contrib/LOBPCGSolver.h>

typedef double S;
typedef Eigen::Matrix<S, Eigen::Dynamic, Eigen::Dynamic> Mat;
typedef Eigen::SparseMatrix<S> SpMat;
typedef Spectra::LOBPCGSolver<S> Solver;

static unsigned long long rs = 88172645463325252ULL;
static double rnd()
{
    rs ^= rs << 13; rs ^= rs >> 7; rs ^= rs << 17;
    return double(rs % 2000001ULL) / 1000000.0 - 1.0;
}

// sparse symmetric, diagonally dominant, well-separated smallest eigenvalues (about 1, 2, 3, ...)
static SpMat make_A(int n, double off)
{
    Mat a = Mat::Zero(n, n);
    for (int i = 0; i < n; i++)
    {
        a(i, i) = i + 1;
        if (i + 1 < n) { a(i, i + 1) = off; a(i + 1, i) = off; }
    }
    return a.sparseView();
}

static SpMat make_X(int n, int k)
{
    Mat x(n, k);
    for (int i = 0; i < n; i++)
        for (int j = 0; j < k; j++)
            x(i, j) = rnd();
    return x.sparseView();
}

static double max_col_norm(const Mat& r)
{
    double m = 0;
    for (int j = 0; j < r.cols(); j++)
        m = std::max(m, double(r.col(j).norm()));
    return m;
}

static int mode1()
{
    int hit = 0;
    const int cases[3][3] = {{60, 3, 50}, {100, 5, 100}, {40, 2, 0}};
    for (int c = 0; c < 3; c++)
    {
        const int n = cases[c][0], k = cases[c][1], maxit = cases[c][2];
        Solver solver(make_A(n, 0.1), make_X(n, k));
        solver.compute(maxit, 1e-8);
        Mat ev = solver.eigenvectors();
        std::printf("n=%d k=%d maxit=%d: info=%d eigenvalues()=%d residuals()=%dx%d eigenvectors()=%dx%d (X is %dx%d)\n", n, k, maxit, solver.info(),
                    int(solver.eigenvalues().size()), int(solver.residuals().rows()), int(solver.residuals().cols()), int(ev.rows()), int(ev.cols()),
                    int(solver.X.rows()), int(solver.X.cols()));
        if (ev.rows() != n || ev.cols() != k)
        {
            std::printf("REPRODUCED: eigenvectors() is %dx%d, not n x k = %dx%d (it is the Ritz coefficient matrix of the last Rayleigh-Ritz step)\n", int(ev.rows()), int(ev.cols()), n, k);
            hit = 1;
        }
    }
    return hit;
}

static int mode2()
{
    int hit = 0;
    const int cases[3][2] = {{60, 10}, {30, 1}, {200, 12}};
    for (int c = 0; c < 3; c++)
    {
        const int n = cases[c][0], k = cases[c][1];
        Solver solver(make_A(n, 0.1), make_X(n, k));
        try
        {
            solver.compute(20, 1e-8);
            std::printf("n=%d k=%d: compute() returned, info=%d\n", n, k, solver.info());
        }
        catch (const std::invalid_argument& e)
        {
            std::printf("n=%d k=%d (5k < n): compute() threw std::invalid_argument(\"%s\")\n", n, k, e.what());
            std::printf("REPRODUCED: the inner SymGEigsSolver constructor rejects (nev = %d, ncv = min(10, n' - 1)) and the exception leaves compute()\n", k);
            hit = 1;
        }
    }
    return hit;
}

static int mode3()
{
    int hit = 0;
    const int n = 100, k = 5;
    for (int second_maxit = 1; second_maxit >= 0; second_maxit--)
    {
        Solver solver(make_A(n, 0.1), make_X(n, k));
        solver.compute(100, 1e-8);
        std::printf("first compute(100, 1e-8): info=%d max residual column norm=%.3e (limit %.3e)\n", solver.info(), max_col_norm(solver.residuals()), 1e-8 * n);
        if (solver.info() != Eigen::Success)
            continue;
        const double tol2 = 1e-17;
        try
        {
            solver.compute(second_maxit, tol2);
        }
        catch (const std::exception& e)
        {
            std::printf("second compute threw: %s\n", e.what());
            continue;
        }
        const double worst = max_col_norm(solver.residuals());
        std::printf("second compute(%d, %.0e) on the same object: info=%d max residual column norm=%.3e (limit %.3e)\n", second_maxit, tol2, solver.info(), worst, tol2 * n);
        if (solver.info() == Eigen::Success && !(worst < tol2 * n))
        {
            std::printf("REPRODUCED: info() == Success although the last convergence test of this compute() did not pass (stale status of the earlier run)\n");
            hit = 1;
        }
    }
    return hit;
}

static int mode4()
{
    const int n = 40, k = 3;
    Mat x = Mat(make_X(n, k));
    x.col(2).setZero();   // rank-deficient initial block: X'X has a zero pivot
    SpMat X = x.sparseView();
    Solver solver(make_A(n, 0.1), X);
    std::printf("rank-deficient initial block: calling compute() (an Eigen assertion `lhs.cols() == rhs.rows()` aborts here when the initial LDLT fails)\n");
    std::fflush(stdout);
    solver.compute(10, 1e-8);
    std::printf("compute() returned, info=%d\n", solver.info());
    return 0;
}

static int mode6()
{
    int runs = 0;
    for (int n = 20; n <= 50; n += 30)
        for (int k = 1; k <= 4; k++)
            for (int cfg = 0; cfg < 8; cfg++)
                for (int mi = 0; mi < 3; mi++)
                {
                    const int maxit = mi == 0 ? 0 : (mi == 1 ? 1 : 30);
                    SpMat A = make_A(n, 0.1);
                    Mat b = Mat::Zero(n, n), t = Mat::Zero(n, n), y = Mat::Zero(n, 1);
                    for (int i = 0; i < n; i++)
                    {
                        b(i, i) = 2.0 + 0.01 * i;
                        if (i + 1 < n) { b(i, i + 1) = 0.2; b(i + 1, i) = 0.2; }
                        t(i, i) = 1.0 / (i + 1);
                    }
                    y(n - 1, 0) = 1.0;
                    SpMat B = b.sparseView(), T = t.sparseView(), Y = y.sparseView();
                    Solver solver(A, make_X(n, k));
                    if (cfg & 1) solver.setB(B);
                    if (cfg & 2) solver.setPreconditioner(T);
                    if (cfg & 4) solver.setConstraints(Y);
                    for (int rep = 0; rep < 2; rep++)
                    {
                        try
                        {
                            solver.compute(maxit, 1e-8);
                            (void)solver.eigenvalues(); (void)solver.residuals(); (void)solver.eigenvectors();
                        }
                        catch (const std::exception&)
                        {
                            // the exception of the inner solver's constructor is the subject of mode 2
                        }
                        runs++;
                    }
                }
    std::printf("%d runs inside the quantifier without an Eigen assertion\n", runs);
    return 0;
}

// mode 7: the status clause against the pencil itself, inside the quantifier: random well-separated pencils, loose tolerances (columns converge at different
// iterations and keep rotating afterwards): info() == Success  ==>  every column of A X - B X diag(lambda), recomputed from the accessors, is below tol * n
static int mode7()
{
    int hit = 0, runs = 0, succ = 0;
    for (int trial = 0; trial < 1500 && !hit; trial++)
    {
        const int n = 80 + 20 * (trial % 3), k = 2 + trial % 3;
        const double tol = (trial % 2) ? 1e-3 : 3e-4;
        Mat a = Mat::Zero(n, n), b = Mat::Zero(n, n), t = Mat::Zero(n, n);
        for (int i = 0; i < n; i++)
        {
            a(i, i) = 1.0 + 0.9 * i + 0.2 * rnd();
            b(i, i) = 2.0 + 0.3 * rnd();
            t(i, i) = 1.0 / a(i, i);
            if (i + 1 < n) { const double o = 0.3 * rnd(); a(i, i + 1) = o; a(i + 1, i) = o; b(i, i + 1) = 0.1; b(i + 1, i) = 0.1; }
            if (i + 7 < n) { const double o = 0.2 * rnd(); a(i, i + 7) = o; a(i + 7, i) = o; }
        }
        SpMat A = a.sparseView(), B = b.sparseView(), T = t.sparseView();
        Solver solver(A, make_X(n, k));
        if (trial % 4 != 3) solver.setB(B);
        if (trial % 5 == 0) solver.setPreconditioner(T);
        try { solver.compute(60, tol); } catch (const std::exception&) { continue; }
        runs++;
        if (solver.info() != Eigen::Success) continue;
        succ++;
        Mat V = solver.eigenvectors(); Mat lam = solver.eigenvalues();
        if (V.rows() != n || V.cols() != k || lam.size() != k) { std::printf("REPRODUCED: trial %d: Success with eigenvectors() %dx%d, %d eigenvalues\n", trial, int(V.rows()), int(V.cols()), int(lam.size())); hit = 1; break; }
        Mat Bd = (trial % 4 != 3) ? b : Mat(Mat::Identity(n, n));
        Mat R = a * V - Bd * V * lam.col(0).asDiagonal();
        const double worst = max_col_norm(R);
        if (!(worst < tol * n))
        {
            std::printf("REPRODUCED: trial %d (n=%d k=%d tol=%.0e): info() == Success but a column of A X - B X diag(lambda) has norm %.3e (limit %.3e)\n", trial, n, k, tol, worst, tol * n);
            hit = 1;
        }
    }
    std::printf("%d runs, %d reported Success\n", runs, succ);
    return hit;
}

static void sanity_case(const char* what, const SpMat& A, const SpMat* B, const SpMat* T, int k, int maxit, double tol)
{
    const int n = int(A.rows());
    Solver solver(A, make_X(n, k));
    if (B) solver.setB(*B);
    if (T) solver.setPreconditioner(*T);
    try
    {
        solver.compute(maxit, tol);
    }
    catch (const std::exception& e)
    {
        std::printf("%s: n=%d k=%d: compute() threw: %s\n", what, n, k, e.what());
        return;
    }
    Mat Bd = B ? Mat(*B) : Mat(Mat::Identity(n, n));
    Eigen::GeneralizedSelfAdjointEigenSolver<Mat> ref(Mat(A), Bd);
    Mat lam = solver.eigenvalues();
    double dmax = 0;
    for (int j = 0; j < k && j < lam.size(); j++)
        dmax = std::max(dmax, std::fabs(double(lam(j) - ref.eigenvalues()(j))));
    Mat Xd = Mat(solver.X);
    Mat ev = solver.eigenvectors();
    std::printf("%s: n=%d k=%d maxit=%d tol=%.0e: info=%d |lambda - dense reference|_max=%.2e max residual column norm=%.2e ||X'BX - I||=%.1e eigenvectors() is %dx%d",
                what, n, k, maxit, tol, solver.info(), dmax, max_col_norm(solver.residuals()), double((Xd.transpose() * Bd * Xd - Mat::Identity(k, k)).norm()), int(ev.rows()), int(ev.cols()));
    if (ev.rows() == n && ev.cols() == k)
        std::printf(" ||A V - B V diag(lambda)||=%.2e", double((Mat(A) * ev - Bd * ev * lam.col(0).asDiagonal()).norm()));
    std::printf("\n  eigenvalues:");
    for (int j = 0; j < lam.size(); j++)
        std::printf(" %.10g", double(lam(j)));
    std::printf("\n");
}

static int mode5()
{
    // the example of the class documentation: 10 x 10 random sparse symmetric matrix with diagonal i + 0.5, two vectors, compute(10, 1e-4)
    {
        const int n = 10;
        Mat a = Mat::Zero(n, n);
        for (int i = 0; i < n; i++)
            for (int j = 0; j < i; j++)
                if (rnd() > 0.2) { a(i, j) = 0.3 * rnd(); a(j, i) = a(i, j); }
        for (int i = 0; i < n; i++)
            a(i, i) = i + 0.5;
        SpMat A = a.sparseView();
        sanity_case("doc example", A, 0, 0, 2, 10, 1e-4);
    }
    SpMat A = make_A(100, 0.1);
    sanity_case("100 x 100", A, 0, 0, 5, 100, 1e-8);
    Mat b = Mat::Zero(100, 100), t = Mat::Zero(100, 100);
    for (int i = 0; i < 100; i++)
    {
        b(i, i) = 2.0 + 0.01 * i;
        if (i + 1 < 100) { b(i, i + 1) = 0.2; b(i + 1, i) = 0.2; }
        t(i, i) = 1.0 / (i + 1);
    }
    SpMat B = b.sparseView(), T = t.sparseView();
    sanity_case("100 x 100 with B", A, &B, 0, 3, 100, 1e-8);
    sanity_case("100 x 100 with B and a diagonal preconditioner", A, &B, &T, 3, 100, 1e-8);
    sanity_case("100 x 100, k = 1", A, 0, 0, 1, 100, 1e-8);
    sanity_case("200 x 200, k = 12", make_A(200, 0.1), 0, 0, 12, 100, 1e-8);
    return 0;
}

int main(int argc, char** argv)
{
    const int mode = argc > 1 ? std::atoi(argv[1]) : 1;
    int hit = 0;
    if (mode == 1) hit = mode1();
    else if (mode == 2) hit = mode2();
    else if (mode == 3) hit = mode3();
    else if (mode == 4) hit = mode4();
    else if (mode == 5) return mode5();
    else if (mode == 6) hit = mode6();
    else if (mode == 7) hit = mode7();
    if (!hit)
        std::printf("not reproduced\n");
    return hit ? 1 : 0;
}
